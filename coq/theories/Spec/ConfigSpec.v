(** WP28 -- definitions used to state the theorems about the configuration file as text
    (Model/Config.v, [Cli.load_config]).  Definitions only. *)
From HP Require Import Base.Bytes Model.Dates Model.Reporters Model.Config Model.Cli.
Open Scope N_scope.

(** *** the rendering of the five values that the test harness writes
    (harness/py/hv/run.py, [cfg_file_text]):

      [Global]
      Now=YYYY-MM-DDTHH:MM:SS(Z|+HH:MM|-HH:MM)      (when set)
      DbFileName=...  LogFileName=...  DateFormat=...   (each when set)
      [Resolver]
      MaxDepth=N                                    (when set)

    every line ended by LF. *)

(** %02d and %04d of a number in range *)
Definition d2 (v : Z) : bytes := [Z.to_N (48 + v / 10); Z.to_N (48 + v mod 10)].
Definition d4 (v : Z) : bytes := d2 (v / 100) ++ d2 (v mod 100).

(** seconds since midnight of the time's own calendar day *)
Definition sod_of (t : time) : Z :=
  let '(y, m, d) := civ t in
  ((inst t + off t * ns_per_sec - days_from_civil y m d * ns_per_day) / ns_per_sec)%Z.

Definition render_zone (o : Z) : bytes :=
  if (o =? 0)%Z then [90]
  else (if (0 <=? o)%Z then [43] else [45]) ++ d2 (Z.abs o / 3600) ++ [58] ++ d2 (Z.abs o mod 3600 / 60).

Definition render_time (t : time) : bytes :=
  let '(y, m, d) := civ t in
  let s := sod_of t in
  d4 y ++ [45] ++ d2 m ++ [45] ++ d2 d ++ [84] ++ d2 (s / 3600) ++ [58] ++ d2 (s mod 3600 / 60) ++ [58] ++ d2 (s mod 60)
  ++ render_zone (off t).

Definition opt_line (key : bytes) (v : option bytes) : list bytes :=
  match v with Some x => [key ++ x] | None => [] end.

Definition config_lines (e : cfg_entries) : list bytes :=
  [b "[Global]"]
  ++ opt_line (b "Now=") (option_map render_time (ce_now e))
  ++ opt_line (b "DbFileName=") (ce_db e)
  ++ opt_line (b "LogFileName=") (ce_log e)
  ++ opt_line (b "DateFormat=") (ce_fmt e)
  ++ [b "[Resolver]"]
  ++ opt_line (b "MaxDepth=") (option_map dec_of_Z (ce_depth e)).

Definition render_config (e : cfg_entries) : bytes := concat (map (fun l => l ++ [c_lf]) (config_lines e)).

(** the inverse of [Cli.cfg_of_fields] *)
Definition fields_of_cfg (e : cfg_entries) : cfg_fields :=
  {| cf_db := ce_db e; cf_log := ce_log e; cf_fmt := ce_fmt e; cf_depth := ce_depth e; cf_now := ce_now e |}.

(** *** the guard under which the rendering stays inside the modelled subset *)

(** no LF, CR, double quote, backslash, semicolon, number sign *)
Definition plain_char (c : N) : bool :=
  negb ((c =? 10) || (c =? 13) || (c =? 34) || (c =? 92) || (c =? 59) || (c =? 35)).

Definition not_blank_first (v : bytes) : bool :=
  match v with c :: _ => negb (memb c cblanks) | [] => true end.

(** a string value: valid UTF-8 without NUL, only plain characters, no blank at either end *)
Definition plain_value (v : bytes) : bool :=
  utf8_ok v && forallb plain_char v && not_blank_first v && not_blank_first (rev v).

(** a time with whole seconds, a year of four digits, a real calendar day, the instant inside that
    day of its zone, and a zone of whole minutes within +-23:59 *)
Definition plain_time (t : time) : bool :=
  let '(y, m, d) := civ t in
  let s := sod_of t in
  ((0 <=? y) && (y <=? 9999) && (1 <=? m) && (m <=? 12) && (1 <=? d) && (d <=? days_in y m)
   && (0 <=? s) && (s <? 86400)
   && (inst t =? days_from_civil y m d * ns_per_day + s * ns_per_sec - off t * ns_per_sec)
   && (Z.abs (off t) <? 86400) && (off t mod 60 =? 0))%Z.

Definition plain_opt {A} (p : A -> bool) (o : option A) : bool := match o with Some x => p x | None => true end.

Definition cfg_plain (e : cfg_entries) : bool :=
  plain_opt plain_value (ce_db e) && plain_opt plain_value (ce_log e) && plain_opt plain_value (ce_fmt e)
  && plain_opt (fun z => (min_int64 <=? z) && (z <=? max_int64))%Z (ce_depth e)
  && plain_opt plain_time (ce_now e).

(** *** layout: the spellings of one line *)
Definition all_blank (p : bytes) : bool := forallb (fun c => memb c cblanks) p.
Definition lf_free (l : bytes) : bool := negb (memb c_lf l).

(** an identifier of gcfg restricted to ASCII: a letter, then letters, digits, '-' *)
Definition is_ident (n : bytes) : bool :=
  match n with c :: r => is_letter c && forallb is_ident_char r | [] => false end.

(** nothing, or a comment: [;] or [#] and any text without LF that the scanner accepts *)
Definition is_comment (cm : bytes) : bool :=
  match cm with [] => true | c :: r => is_comment_start c && utf8_ok r && lf_free r end.

(** a value as it stands between the cblanks after '=' and the cblanks / comment that end the line *)
Definition is_value (v : bytes) : bool := plain_value v.

Inductive same_line : bytes -> bytes -> Prop :=
| SL_blank : forall p cm p' cm',
    all_blank p = true -> is_comment cm = true -> all_blank p' = true -> is_comment cm' = true ->
    same_line (p ++ cm) (p' ++ cm')
| SL_section : forall n p1 p2 p3 p4 cm n' p1' p2' p3' p4' cm',
    is_ident n = true -> is_ident n' = true -> lower_name n = lower_name n' ->
    all_blank p1 = true -> all_blank p2 = true -> all_blank p3 = true -> all_blank p4 = true -> is_comment cm = true ->
    all_blank p1' = true -> all_blank p2' = true -> all_blank p3' = true -> all_blank p4' = true -> is_comment cm' = true ->
    same_line (p1 ++ [91] ++ p2 ++ n ++ p3 ++ [93] ++ p4 ++ cm) (p1' ++ [91] ++ p2' ++ n' ++ p3' ++ [93] ++ p4' ++ cm')
| SL_var : forall n v p1 p2 p3 p4 cm n' p1' p2' p3' p4' cm',
    is_ident n = true -> is_ident n' = true -> lower_name n = lower_name n' -> is_value v = true ->
    all_blank p1 = true -> all_blank p2 = true -> all_blank p3 = true -> all_blank p4 = true -> is_comment cm = true ->
    all_blank p1' = true -> all_blank p2' = true -> all_blank p3' = true -> all_blank p4' = true -> is_comment cm' = true ->
    same_line (p1 ++ n ++ p2 ++ [61] ++ p3 ++ v ++ p4 ++ cm) (p1' ++ n' ++ p2' ++ [61] ++ p3' ++ v ++ p4' ++ cm')
| SL_refl : forall l, same_line l l.

(** a blank line or a comment line *)
Definition skippable (l : bytes) : Prop :=
  exists p cm, l = p ++ cm /\ all_blank p = true /\ is_comment cm = true.

(** *** what a line means to [parse_config], letter case of names removed *)
Inductive line_sig :=
| KSkip | KSection (lname : bytes) | KVar (lname : bytes) (value : option bytes) | KErr | KDecline.

Definition line_sig_of (l : bytes) : line_sig :=
  if negb (utf8_ok l) then KErr
  else match classify_line l with
       | LBlank => KSkip
       | LSection n => KSection (lower_name n)
       | LVar n v => KVar (lower_name n) v
       | LFatal => KErr
       | LDecline => KDecline
       end.

Definition is_skip (k : line_sig) : bool := match k with KSkip => true | _ => false end.

(** the meaning of a text: the signatures of its lines that are not blank / comment lines *)
Definition text_sig (ls : list bytes) : list line_sig := filter (fun k => negb (is_skip k)) (map line_sig_of ls).

(** the names the two sections know *)
Definition known_variable (lname : bytes) : bool :=
  beq lname (b "now") || beq lname (b "dbfilename") || beq lname (b "logfilename") || beq lname (b "dateformat")
  || beq lname (b "maxdepth").
