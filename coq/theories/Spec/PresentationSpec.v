(** Property C15 -- presentation options never change the numbers.
    Definitions needed to state the theorems (no proofs here):
    record updates of [rconfig], the colouring rule [paint], the escape
    sequence remover [strip_sgr], the generic day renderer [render_with] and
    its three layouts, the order law for [ltb], sortedness and stability. *)
From Coq Require Import Permutation.
From HP Require Import Base.Bytes Base.Utf8 Base.Num Model.Scanner Model.Parser Model.Elements Model.Resolver
  Model.Dates Model.Tree Model.Writer Model.Reporters Model.Cli.

(** *** escape sequences (independent of the arithmetic) *)

Definition c_esc : N := 27.

(** after "ESC [": the number of bytes up to and including the final 'm' when
    only digits come before it *)
Fixpoint sgr_params (s : bytes) : option nat :=
  match s with
  | [] => None
  | c :: r =>
      if N.eqb c 109 then Some 1%nat
      else if is_digit c then option_map S (sgr_params r)
      else None
  end.

(** after "ESC": the length of "[ digits* m" when [s] starts with it *)
Definition sgr_len (s : bytes) : option nat :=
  match s with
  | c :: r => if N.eqb c 91 then option_map S (sgr_params r) else None
  | [] => None
  end.

(** remove every "ESC [ digits* m"; [skip] bytes of a recognised sequence are
    still to be dropped.  An ESC that does not start such a sequence stays. *)
Fixpoint strip_aux (skip : nat) (s : bytes) : bytes :=
  match s with
  | [] => []
  | c :: r =>
      match skip with
      | S k => strip_aux k r
      | O =>
          if N.eqb c c_esc then
            match sgr_len r with
            | Some n => strip_aux n r
            | None => c :: strip_aux O r
            end
          else c :: strip_aux O r
      end
  end.

Definition strip_sgr (s : bytes) : bytes := strip_aux O s.

Definition no_esc (s : bytes) : Prop := ~ In c_esc s.

(** *** shortening: the ellipsis rune and the number of runes kept in front of it
    (aquilax/truncate, PositionMiddle: depends on the parity of the name's rune count) *)
Definition ellipsis : N := 8230.
Definition keep_front (slen w : nat) : nat :=
  if Nat.even slen then Nat.div (w - 1 + 1) 2 else Nat.div (w - 1) 2.

(** bytes written by a list of chunks, in order *)
Definition chunk_bytes (cs : list chunk) : bytes := concat (map fst cs).

(** stripping chunk by chunk, keeping the "checked" flags *)
Definition strip_chunks (cs : list chunk) : list chunk := map (fun ch => (strip_sgr (fst ch), snd ch)) cs.

Section PresentationSpec.
  Context (NM : Num).
  Notation T := (T NM).
  Notation elements := (elements NM).
  Notation db := (list (bytes * elements)).
  Notation rconfig := Reporters.rconfig.

  (** *** record updates *)
  Definition set_color (c : rconfig) (col : bool) : rconfig :=
    {| rc_color := col; rc_totals_only := rc_totals_only c; rc_totals := rc_totals c; rc_date := rc_date c;
       rc_single_element := rc_single_element c; rc_single_food := rc_single_food c;
       rc_collapse_last := rc_collapse_last c; rc_collapse := rc_collapse c; rc_group_food := rc_group_food c;
       rc_shorten := rc_shorten c; rc_old := rc_old c; rc_template := rc_template c; rc_csv := rc_csv c |}.

  (** [--no-totals] off/on and [--totals-only] *)
  Definition set_totals (c : rconfig) (totals totals_only : bool) : rconfig :=
    {| rc_color := rc_color c; rc_totals_only := totals_only; rc_totals := totals; rc_date := rc_date c;
       rc_single_element := rc_single_element c; rc_single_food := rc_single_food c;
       rc_collapse_last := rc_collapse_last c; rc_collapse := rc_collapse c; rc_group_food := rc_group_food c;
       rc_shorten := rc_shorten c; rc_old := rc_old c; rc_template := rc_template c; rc_csv := rc_csv c |}.

  Definition set_template (c : rconfig) (old : bool) (name : bytes) : rconfig :=
    {| rc_color := rc_color c; rc_totals_only := rc_totals_only c; rc_totals := rc_totals c; rc_date := rc_date c;
       rc_single_element := rc_single_element c; rc_single_food := rc_single_food c;
       rc_collapse_last := rc_collapse_last c; rc_collapse := rc_collapse c; rc_group_food := rc_group_food c;
       rc_shorten := rc_shorten c; rc_old := old; rc_template := name; rc_csv := rc_csv c |}.

  (** *** colour: positive red, negative green, otherwise (zero, NaN) plain *)
  Definition paint (v : T) (s : bytes) : bytes :=
    if ltb NM (zero NM) v then esc_red ++ s ++ esc_reset
    else if ltb NM v (zero NM) then esc_green ++ s ++ esc_reset
    else s.

  (** all bytes one [Process] call of a reporter writes for a day *)
  Definition process_chunks (R : reporter NM) (perm : list bytes -> list bytes) (st : RS NM R) (ln : lognode NM)
    : list chunk := snd (fst (r_process NM R perm st ln)).
  Definition process_bytes (R : reporter NM) (perm : list bytes -> list bytes) (st : RS NM R) (ln : lognode NM)
    : bytes := chunk_bytes (process_chunks R perm st ln).

  (** *** one generic day renderer.
      A layout places names and already formatted numbers; it never sees a
      number.  The renderer hands every number of the [report_item] to
      [format_value] exactly once, in order: food quantity, its ingredient
      amounts, ..., then positive / negative / sum of each total row. *)
  Record layout := {
    ly_date : bytes -> bytes;                                     (* around the formatted date *)
    ly_food : bool -> bytes -> bytes -> bytes;                    (* shorten?, name, quantity *)
    ly_ing : bool -> bytes -> bytes -> bytes;                     (* shorten?, name, amount *)
    ly_header : bytes;                                            (* before the total rows *)
    ly_total : bool -> bytes -> bytes -> bytes -> bytes -> bytes; (* shorten?, name, positive, negative, sum *)
    ly_end : bytes
  }.

  Definition render_with (L : layout) (c : rconfig) (it : report_item NM) : bytes :=
    let fv := format_value NM (rc_color c) in
    let sh := rc_shorten c in
    ly_date L (fdate c (ri_time NM it))
    ++ flat_map (fun e => ly_food L sh (fst (fst e)) (fv (snd (fst e)))
                          ++ flat_map (fun i => ly_ing L sh (fst i) (fv (snd i))) (snd e))
         (ri_elements NM it)
    ++ match ri_totals NM it with
       | None => []
       | Some ts =>
           ly_header L
           ++ flat_map (fun t => ly_total L sh (fst (fst (fst t))) (fv (snd (fst (fst t)))) (fv (snd (fst t))) (fv (snd t))) ts
       end
    ++ ly_end L.

  Definition layout_default : layout := {|
    ly_date := fun d => d;
    ly_food := fun sh name q => [c_lf; c_tab] ++ pad_right 27 (shorten sh name 27) ++ b " :" ++ q;
    ly_ing := fun sh name q => [c_lf; c_tab; c_tab] ++ pad_left 20 (shorten sh name 20) ++ b " " ++ q;
    ly_header := [c_lf] ++ total_header_default;
    ly_total := fun sh name p n s =>
      [c_lf; c_tab; c_tab] ++ pad_left 20 (shorten sh name 20) ++ b " " ++ p ++ b " " ++ n ++ b " =" ++ s;
    ly_end := [c_lf]
  |}.

  Definition layout_left : layout := {|
    ly_date := fun d => d;
    ly_food := fun _ name q => [c_lf] ++ b "  " ++ q ++ b "  " ++ name;
    ly_ing := fun _ name q => [c_lf] ++ b "  " ++ q ++ b "    " ++ name;
    ly_header := [c_lf] ++ total_header_left;
    ly_total := fun _ name p n s => [c_lf] ++ b "  " ++ p ++ b " " ++ n ++ b " = " ++ s ++ b "  " ++ name;
    ly_end := [c_lf]
  |}.

  (** the old reporter: lines end (not start) with a newline, no shortening;
      [hdr]: whether the TOTAL header line is written (the old code writes it
      only when the day's accumulator is not empty) *)
  Definition layout_old (hdr : bool) : layout := {|
    ly_date := fun d => d ++ [c_lf];
    ly_food := fun _ name q => [c_tab] ++ pad_right 27 name ++ b " :" ++ q ++ [c_lf];
    ly_ing := fun _ name q => [c_tab; c_tab] ++ pad_left 20 name ++ b " " ++ q ++ [c_lf];
    ly_header := if hdr then total_header_default ++ [c_lf] else [];
    ly_total := fun _ name p n s =>
      [c_tab; c_tab] ++ pad_left 20 name ++ b " " ++ p ++ b " " ++ n ++ b " =" ++ s ++ [c_lf];
    ly_end := []
  |}.

  (** whether a day contributes anything to the accumulator *)
  Definition day_has_contributions (d : db) (ln : lognode NM) : bool :=
    match accumulate NM (contributions NM d ln) with [] => false | _ => true end.

  (** the numbers of a [report_item] in display order *)
  Definition numbers_of_item (it : report_item NM) : list T :=
    flat_map (fun e => snd (fst e) :: map snd (snd e)) (ri_elements NM it)
    ++ match ri_totals NM it with
       | None => []
       | Some ts => flat_map (fun t => [snd (fst (fst t)); snd (fst t); snd t]) ts
       end.

  (** a layout that prints nothing but the formatted numbers it is given *)
  Definition layout_trace : layout := {|
    ly_date := fun _ => [];
    ly_food := fun _ _ q => q;
    ly_ing := fun _ _ q => q;
    ly_header := [];
    ly_total := fun _ _ p n s => p ++ n ++ s;
    ly_end := []
  |}.

  (** *** the three pieces of a day in the default and left-aligned templates *)
  Definition day_entries_default (c : rconfig) (d : db) (ln : lognode NM) : bytes :=
    flat_map (fun e =>
         let '(name, v, ings) := e in
         [c_lf; c_tab] ++ pad_right 27 (shorten (rc_shorten c) name 27) ++ b " :" ++ format_value NM (rc_color c) v
         ++ flat_map (fun i => [c_lf; c_tab; c_tab] ++ pad_left 20 (shorten (rc_shorten c) (fst i) 20) ++ b " "
                               ++ format_value NM (rc_color c) (snd i)) ings)
       (report_elements NM d ln).

  Definition day_totals_default (c : rconfig) (perm : list bytes -> list bytes) (d : db) (ln : lognode NM) : bytes :=
    [c_lf] ++ total_header_default
    ++ flat_map (fun t =>
         let '(name, p, n, s) := t in
         [c_lf; c_tab; c_tab] ++ pad_left 20 (shorten (rc_shorten c) name 20) ++ b " "
         ++ format_value NM (rc_color c) p ++ b " " ++ format_value NM (rc_color c) n ++ b " ="
         ++ format_value NM (rc_color c) s)
       (totals_of_acc NM perm (accumulate NM (contributions NM d ln))).

  Definition day_entries_left (c : rconfig) (d : db) (ln : lognode NM) : bytes :=
    flat_map (fun e =>
         let '(name, v, ings) := e in
         [c_lf] ++ b "  " ++ format_value NM (rc_color c) v ++ b "  " ++ name
         ++ flat_map (fun i => [c_lf] ++ b "  " ++ format_value NM (rc_color c) (snd i) ++ b "    " ++ fst i) ings)
       (report_elements NM d ln).

  Definition day_totals_left (c : rconfig) (perm : list bytes -> list bytes) (d : db) (ln : lognode NM) : bytes :=
    [c_lf] ++ total_header_left
    ++ flat_map (fun t =>
         let '(name, p, n, s) := t in
         [c_lf] ++ b "  " ++ format_value NM (rc_color c) p ++ b " " ++ format_value NM (rc_color c) n
         ++ b " = " ++ format_value NM (rc_color c) s ++ b "  " ++ name)
       (totals_of_acc NM perm (accumulate NM (contributions NM d ln))).

  (** *** inputs without the ESC byte: names of the item, the date layout, the number formatter *)
  Definition item_names_no_esc (it : report_item NM) : Prop :=
    (forall name v ings, In (name, v, ings) (ri_elements NM it) ->
       no_esc name /\ forall i, In i ings -> no_esc (fst i))
    /\ (forall ts, ri_totals NM it = Some ts -> forall name p n s, In (name, p, n, s) ts -> no_esc name).
  Definition date_no_esc (c : rconfig) : Prop := ~ In (Lit c_esc) (rc_date c).
  Definition fmt_no_esc : Prop := forall v : T, no_esc (fmt_fixed NM 2 v).

  (** the same for the inputs of [get_report_item]: the day's element names and the
      ingredient names of the (resolved) database *)
  Definition day_names_no_esc (d : db) (ln : lognode NM) : Prop :=
    (forall nv, In nv (ln_elems NM ln) -> no_esc (fst nv))
    /\ (forall k els, In (k, els) d -> forall i, In i els -> no_esc (fst i)).

  (** *** ordering law: [ltb] is a strict weak order on the values that occur
      (true of every non-NaN float and of [ZNum]) *)
  Record LtWeakOrder (ok : T -> Prop) : Prop := {
    lwo_irrefl : forall x, ok x -> ltb NM x x = false;
    lwo_trans : forall x y z, ok x -> ok y -> ok z ->
      ltb NM x y = true -> ltb NM y z = true -> ltb NM x z = true;
    lwo_incomp : forall x y z, ok x -> ok y -> ok z ->
      ltb NM x y = false -> ltb NM y x = false -> ltb NM y z = false -> ltb NM z y = false ->
      ltb NM x z = false
  }.

  (** no later row is "less" (in the chosen direction) than an earlier one:
      ascending when [desc = false], descending when [desc = true] *)
  Definition sorted_by_value (desc : bool) (l : elements) : Prop :=
    forall i j x y, (i < j)%nat -> nth_error l i = Some x -> nth_error l j = Some y ->
      value_less NM desc y x = false.

  (** rows whose value ties with [v] *)
  Definition ties_with (v : T) (x : bytes * T) : bool :=
    negb (ltb NM v (snd x)) && negb (ltb NM (snd x) v).
End PresentationSpec.

(** *** reference semantics of a whole run of a register-like command:
    which days of the log a reporter is shown (with their running number, which
    selects the per-day map-order oracle), and the error the walk ends with --
    independent of the reporter and of every presentation option. *)
Section RunSpec.
  Context (NM : Num).
  Notation T := (T NM).
  Notation elements := (elements NM).
  Notation db := (list (bytes * elements)).

  Section Days.
    Context (toks : list ltoken) (bt et : option time).

    (** [inl e]: the walk stops with [e]; [inr None]: the record is outside the period;
        [inr (Some ln)]: the day is reported *)
    Definition day_step (ev : event NM) : cerr + option (lognode NM) :=
      match ev with
      | EErr e => inl (EParse (perr_message e))
      | ENode n =>
          match parse_date toks (header n) with
          | None => inl EBadDate
          | Some c =>
              let t := time_of_civil c in
              if in_interval bt et t
              then inr (Some (Build_lognode NM t (merge_elements NM (elems n)) (meta n)))
              else inr None
          end
      end.

    Fixpoint days_loop (evs : list (event NM)) (i : nat) : list (nat * lognode NM) * option cerr :=
      match evs with
      | [] => ([], None)
      | ev :: r =>
          match day_step ev with
          | inl e => ([], Some e)
          | inr None => days_loop r i
          | inr (Some ln) => let '(l, e) := days_loop r (S i) in ((i, ln) :: l, e)
          end
      end.

    Definition stream_days (data : bytes) (f : read_fault) : list (nat * lognode NM) * option cerr :=
      let '(lines, fin) := scan data f in
      let '(evs, last) := parse_lines NM lines in
      match fin with
      | ScanEOF => days_loop (evs ++ match last with Some n => [ENode n] | None => [] end) O
      | _ =>
          let '(l, e) := days_loop evs O in
          (l, match e with
              | Some x => Some x
              | None => Some (EScan (match fin with ScanTooLong => true | _ => false end))
              end)
      end.

    Definition opened_days (o : opened) : list (nat * lognode NM) * option cerr :=
      match o with
      | OData d f => stream_days d f
      | ODir => stream_days [] (FailAt 0)
      end.
  End Days.

  (** a reporter fed the days in order: final state and all bytes its Process calls write *)
  Fixpoint feed_days (R : reporter NM) (perm_day : nat -> list bytes -> list bytes)
           (days : list (nat * lognode NM)) (st : RS NM R) : RS NM R * bytes :=
    match days with
    | [] => (st, [])
    | (i, ln) :: r =>
        let st' := fst (fst (r_process NM R (perm_day i) st ln)) in
        let '(stf, out) := feed_days R perm_day r st' in
        (stf, process_bytes NM R (perm_day i) st ln ++ out)
    end.

  (** the entries / totals piece of a day for the template the configuration selects *)
  Definition day_entries (c : Reporters.rconfig) (d : db) (ln : lognode NM) : bytes :=
    if beq (rc_template c) (b "left-aligned") then day_entries_left NM c d ln else day_entries_default NM c d ln.
  Definition day_totals (c : Reporters.rconfig) (perm : list bytes -> list bytes) (d : db) (ln : lognode NM) : bytes :=
    if beq (rc_template c) (b "left-aligned") then day_totals_left NM c perm d ln
    else day_totals_default NM c perm d ln.

  (** a reporter whose Process never returns an error (the template reporters and the old one) *)
  Definition process_never_fails (R : reporter NM) : Prop :=
    forall perm st ln, snd (r_process NM R perm st ln) = None.
End RunSpec.

(** *** the invocation with the two [--no-color] flags (global, sub-command) replaced *)
Definition with_no_color (i : invocation) (g l : bool) : invocation :=
  {| i_f_db := i_f_db i; i_e_db := i_e_db i; i_f_log := i_f_log i; i_e_log := i_e_log i;
     i_f_fmt := i_f_fmt i; i_e_fmt := i_e_fmt i; i_f_depth := i_f_depth i; i_e_depth := i_e_depth i;
     i_f_today := i_f_today i; i_f_config := i_f_config i; i_e_config := i_e_config i;
     i_no_database := i_no_database i;
     i_g_begin := i_g_begin i; i_g_end := i_g_end i; i_l_begin := i_l_begin i; i_l_end := i_l_end i;
     i_g_no_color := g; i_l_no_color := l;
     i_single_food := i_single_food i; i_single_element := i_single_element i;
     i_group_food := i_group_food i; i_csv := i_csv i; i_no_totals := i_no_totals i;
     i_totals_only := i_totals_only i; i_shorten := i_shorten i; i_old := i_old i; i_template := i_template i;
     i_collapse := i_collapse i; i_collapse_last := i_collapse_last i; i_desc := i_desc i; i_silent := i_silent i;
     i_cmd := i_cmd i |}.
