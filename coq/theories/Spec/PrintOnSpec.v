(** WP23 -- definitions needed to state property C14 relative to an invariant
    [Q] of the amounts (the number law [FmtStable] of Spec/PrintSpec.v restricted
    to the values the program can hold).  Definitions only. *)
From HP Require Import Base.Bytes Base.Num Model.Elements Model.Reporters Spec.PrintSpec.

(** The number law on the values satisfying [Q]: the two-decimal rendering of
    such a value is a clean lexeme that reads back to a value which satisfies
    [Q] again and has the same two-decimal rendering. *)
Record FmtStableOn (NM : Num) (Q : T NM -> Prop) : Prop := {
  fso_reread : forall v : T NM, Q v ->
      exists v' : T NM,
        of_lexeme NM (fmt_fixed NM 2 v) = Some v' /\ Q v' /\ fmt_fixed NM 2 v' = fmt_fixed NM 2 v;
  fso_clean : forall v : T NM, Q v -> qty_clean (fmt_fixed NM 2 v) = true
}.

Section On.
  Context (NM : Num) (Q : T NM -> Prop).

  (** every amount of the day satisfies [Q] *)
  Definition day_in (d : lognode NM) : Prop := Forall (fun nv => Q (snd nv)) (ln_elems NM d).

  (** every amount of every day satisfies [Q] *)
  Definition days_in (L : list (lognode NM)) : Prop := Forall day_in L.
End On.
