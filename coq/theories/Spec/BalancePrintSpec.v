(** Reading the printed balance rows back (properties C03 second half, C15
    collapse clause).  A decoder from rows [(amount, indentation level, label)]
    to full category paths, written independently of the three printers of
    Model/Tree.v: it only looks at indentation levels and splits labels at the
    separator.  Definitions only - no proofs here. *)
From HP Require Import Base.Bytes Base.Num Model.Elements Model.Tree Spec.TreeShared.

Section BalancePrintSpec.
  Context (NM : Num).
  Notation T := (T NM).
  Notation tree := (tree NM).
  Notation row := (row NM).

  (** the open ancestors of the row being read, innermost first: indentation
      level and full path of each *)
  Definition stack := list (nat * list bytes).

  (** close every ancestor that is not strictly less indented than [lvl]:
      what is left starts with the closest preceding row of smaller level *)
  Fixpoint pop_to (lvl : nat) (st : stack) : stack :=
    match st with
    | [] => []
    | (l, p) :: r => if Nat.ltb l lvl then st else pop_to lvl r
    end.

  (** full path of the innermost open ancestor ([[]] at top level) *)
  Definition stack_path (st : stack) : list bytes :=
    match st with [] => [] | (_, p) :: _ => p end.

  (** a row is a leaf row when it is NOT directly followed by a row of greater level *)
  Definition is_leaf_row (lvl : nat) (rest : list row) : bool :=
    match rest with
    | [] => true
    | (_, l', _) :: _ => negb (Nat.ltb lvl l')
    end.

  (** for each row: full path = path of its parent row (closest preceding row
      of smaller level) followed by the segments of its own label; the amount;
      the leaf flag *)
  Fixpoint decode_from (st : stack) (rows : list row) : list (list bytes * T * bool) :=
    match rows with
    | [] => []
    | (x, lvl, label) :: rest =>
        let st' := pop_to lvl st in
        let p := stack_path st' ++ split_on c_slash label in
        (p, x, is_leaf_row lvl rest) :: decode_from ((lvl, p) :: st') rest
    end.

  Definition decode (rows : list row) : list (list bytes * T * bool) := decode_from [] rows.

  (** the full paths of all rows, in order *)
  Definition row_paths (rows : list row) : list (list bytes) :=
    map (fun d => fst (fst d)) (decode rows).

  (** (path, amount) of the leaf rows, in order *)
  Definition leaf_rows (rows : list row) : list (list bytes * T) :=
    flat_map (fun d => let '(p, x, lf) := d in if lf : bool then [(p, x)] else []) (decode rows).

  (** the non-empty prefixes of a path, shortest first *)
  Fixpoint prefixes {A} (p : list A) : list (list A) :=
    match p with
    | [] => []
    | x :: r => [x] :: map (cons x) (prefixes r)
    end.

  (** every category path the reader can see: the non-empty prefixes of the
      decoded full paths *)
  Definition all_paths (rows : list row) : list (list bytes) :=
    flat_map prefixes (row_paths rows).

  (** [subseq l m]: [l] is obtained from [m] by deleting elements (order kept) *)
  Inductive subseq {A} : list A -> list A -> Prop :=
  | subseq_nil : subseq [] []
  | subseq_skip : forall l m y, subseq l m -> subseq l (y :: m)
  | subseq_keep : forall l m x, subseq l m -> subseq (x :: l) (x :: m).

  (** paths of the forks (nodes with at least two children) below [t], pre-order *)
  Fixpoint forks_below (prefix : list bytes) (t : tree) : list (list bytes) :=
    match t with
    | Node _ _ ch =>
        flat_map (fun c =>
          match t_children NM c with
          | _ :: _ :: _ => [prefix ++ [t_name NM c]]
          | _ => []
          end ++ forks_below (prefix ++ [t_name NM c]) c) ch
    end.
  Definition tree_forks (root : tree) : list (list bytes) := forks_below [] root.

  (** "collapse options only join path segments": the full paths of the rows
      are a sub-sequence of the category paths of the tree (pre-order), and no
      leaf and no fork is left out - only inner nodes with a single child can
      be merged into the row of a descendant *)
  Definition only_joins (t : tree) (rows : list row) : Prop :=
    subseq (row_paths rows) (map fst (tree_paths NM t)) /\
    (forall p, In p (map fst (tree_leaves NM t)) -> In p (row_paths rows)) /\
    (forall p, In p (tree_forks t) -> In p (row_paths rows)).

  (** ** Which node totals stand behind a row (fix 3cc3ec3: a chain of single
      children is joined into one row only while the totals are Go-equal) *)

  (** for each row: the full path of its parent row (closest preceding row of
      smaller level), the segments of its own label, the amount *)
  Fixpoint decode_own_from (st : stack) (rows : list row) : list (list bytes * list bytes * T) :=
    match rows with
    | [] => []
    | (x, lvl, label) :: rest =>
        let st' := pop_to lvl st in
        let own := split_on c_slash label in
        (stack_path st', own, x) :: decode_own_from ((lvl, stack_path st' ++ own) :: st') rest
    end.

  Definition decode_own (rows : list row) : list (list bytes * list bytes * T) :=
    decode_own_from [] rows.

  (** every category path the reader can see, each ONCE, with the amount of
      the row in which its last segment is printed: a row with parent path
      [pp] and own segments [s1; ..; sk] shows [pp ++ [s1]], [pp ++ [s1; s2]],
      ..., all with the row's amount *)
  Definition shown_paths (rows : list row) : list (list bytes * T) :=
    flat_map (fun d => let '(pp, own, x) := d in map (fun o => (pp ++ o, x)) (prefixes own))
             (decode_own rows).

  (** [go_eq_chain y x]: [x] is reached from [y] through amounts each Go-equal
      ([==], [t_eqb]) to the one before; no law of [Num] makes [t_eqb]
      transitive or reflexive (NaN), hence the chain *)
  Inductive go_eq_chain : T -> T -> Prop :=
  | gec_refl : forall y, go_eq_chain y y
  | gec_step : forall y x z, go_eq_chain y x -> t_eqb NM z x = true -> go_eq_chain y z.

  (** the same path, and the amount shown is linked to the node's total by Go-equalities *)
  Definition same_path_go_equal (shown node : list bytes * T) : Prop :=
    fst shown = fst node /\ go_eq_chain (snd shown) (snd node).

  (** laws of Go's [==] that hold of float64 resp. of exact numbers, used as
      explicit hypotheses where a theorem needs them *)
  Definition go_eq_transitive : Prop :=
    forall a b c : T, t_eqb NM a b = true -> t_eqb NM b c = true -> t_eqb NM a c = true.
  Definition go_eq_is_eq : Prop := forall a b : T, t_eqb NM a b = true -> a = b.

  (** a chain = the (segment, node total) pairs of the nodes joined in one row;
      the (path, total) of these nodes below the parent path [pp] *)
  Fixpoint chain_paths (pp : list bytes) (chain : list (bytes * T)) : list (list bytes * T) :=
    match chain with
    | [] => []
    | (n, x) :: r => (pp ++ [n], x) :: chain_paths (pp ++ [n]) r
    end.

  (** every total of the chain is Go-equal to the one before it, starting from [x] *)
  Fixpoint eq_from (x : T) (chain : list (bytes * T)) : Prop :=
    match chain with
    | [] => True
    | (_, z) :: r => t_eqb NM z x = true /\ eq_from z r
    end.

  (** an honest joined row: the amount shown is the total of the first node of
      the chain, and each further node's total is Go-equal to its parent's *)
  Definition joined_ok (y : T) (chain : list (bytes * T)) : Prop :=
    match chain with
    | [] => False
    | (_, x) :: r => x = y /\ eq_from x r
    end.

  (** the rows account for the whole tree: one can write a node total next to
      every segment of every row such that every row is an honest joined row
      and the (path, total) pairs read off that way are exactly the nodes of
      the tree, each once, in pre-order *)
  Definition rows_account_for (t : tree) (rows : list row) : Prop :=
    exists rds : list (list bytes * list (bytes * T) * T),
      map (fun rd => let '(pp, chain, y) := rd in (pp, map fst chain, y)) rds = decode_own rows /\
      Forall (fun rd => let '(pp, chain, y) := rd in joined_ok y chain) rds /\
      flat_map (fun rd => let '(pp, chain, y) := rd in chain_paths pp chain) rds = tree_paths NM t.

  (** what the three display modes print for an (ordered) tree *)
  Definition rows_plain (t : tree) : list row := print_node NM false O t.
  Definition rows_collapse_last (t : tree) : list row := print_node NM true O t.
  Definition rows_collapsed (t : tree) : list row := print_collapsed NM t.
End BalancePrintSpec.

Arguments prefixes {A}.
Arguments subseq {A}.
