(** Reading the printed balance rows back (properties C03 second half, C15
    collapse clause).  A decoder from rows [(amount, indentation level, label)]
    to full category paths, written independently of the three printers of
    Model/Tree.v: it only looks at indentation levels and splits labels at the
    separator.  Definitions only - no proofs here. *)
From HP Require Import Base.Bytes Base.Num Model.Elements Model.Tree Spec.TreeShared.

Section BalancePrintSpec.
  Context (NM : Num).
  Notation T := (T NM).
  Notation tree := (tree NM).
  Notation row := (row NM).

  (** the open ancestors of the row being read, innermost first: indentation
      level and full path of each *)
  Definition stack := list (nat * list bytes).

  (** close every ancestor that is not strictly less indented than [lvl]:
      what is left starts with the closest preceding row of smaller level *)
  Fixpoint pop_to (lvl : nat) (st : stack) : stack :=
    match st with
    | [] => []
    | (l, p) :: r => if Nat.ltb l lvl then st else pop_to lvl r
    end.

  (** full path of the innermost open ancestor ([[]] at top level) *)
  Definition stack_path (st : stack) : list bytes :=
    match st with [] => [] | (_, p) :: _ => p end.

  (** a row is a leaf row when it is NOT directly followed by a row of greater level *)
  Definition is_leaf_row (lvl : nat) (rest : list row) : bool :=
    match rest with
    | [] => true
    | (_, l', _) :: _ => negb (Nat.ltb lvl l')
    end.

  (** for each row: full path = path of its parent row (closest preceding row
      of smaller level) followed by the segments of its own label; the amount;
      the leaf flag *)
  Fixpoint decode_from (st : stack) (rows : list row) : list (list bytes * T * bool) :=
    match rows with
    | [] => []
    | (x, lvl, label) :: rest =>
        let st' := pop_to lvl st in
        let p := stack_path st' ++ split_on c_slash label in
        (p, x, is_leaf_row lvl rest) :: decode_from ((lvl, p) :: st') rest
    end.

  Definition decode (rows : list row) : list (list bytes * T * bool) := decode_from [] rows.

  (** the full paths of all rows, in order *)
  Definition row_paths (rows : list row) : list (list bytes) :=
    map (fun d => fst (fst d)) (decode rows).

  (** (path, amount) of the leaf rows, in order *)
  Definition leaf_rows (rows : list row) : list (list bytes * T) :=
    flat_map (fun d => let '(p, x, lf) := d in if lf : bool then [(p, x)] else []) (decode rows).

  (** the non-empty prefixes of a path, shortest first *)
  Fixpoint prefixes {A} (p : list A) : list (list A) :=
    match p with
    | [] => []
    | x :: r => [x] :: map (cons x) (prefixes r)
    end.

  (** every category path the reader can see: the non-empty prefixes of the
      decoded full paths *)
  Definition all_paths (rows : list row) : list (list bytes) :=
    flat_map prefixes (row_paths rows).

  (** [subseq l m]: [l] is obtained from [m] by deleting elements (order kept) *)
  Inductive subseq {A} : list A -> list A -> Prop :=
  | subseq_nil : subseq [] []
  | subseq_skip : forall l m y, subseq l m -> subseq l (y :: m)
  | subseq_keep : forall l m x, subseq l m -> subseq (x :: l) (x :: m).

  (** paths of the forks (nodes with at least two children) below [t], pre-order *)
  Fixpoint forks_below (prefix : list bytes) (t : tree) : list (list bytes) :=
    match t with
    | Node _ _ ch =>
        flat_map (fun c =>
          match t_children NM c with
          | _ :: _ :: _ => [prefix ++ [t_name NM c]]
          | _ => []
          end ++ forks_below (prefix ++ [t_name NM c]) c) ch
    end.
  Definition tree_forks (root : tree) : list (list bytes) := forks_below [] root.

  (** "collapse options only join path segments": the full paths of the rows
      are a sub-sequence of the category paths of the tree (pre-order), and no
      leaf and no fork is left out - only inner nodes with a single child can
      be merged into the row of a descendant *)
  Definition only_joins (t : tree) (rows : list row) : Prop :=
    subseq (row_paths rows) (map fst (tree_paths NM t)) /\
    (forall p, In p (map fst (tree_leaves NM t)) -> In p (row_paths rows)) /\
    (forall p, In p (tree_forks t) -> In p (row_paths rows)).

  (** what the three display modes print for an (ordered) tree *)
  Definition rows_plain (t : tree) : list row := print_node NM false O t.
  Definition rows_collapse_last (t : tree) : list row := print_node NM true O t.
  Definition rows_collapsed (t : tree) : list row := print_collapsed NM t.
End BalancePrintSpec.

Arguments prefixes {A}.
Arguments subseq {A}.
