(** Reference semantics of the balance tree (property C03, first half):
    what every category path is worth, which paths exist, what "no logged name
    is a path prefix of another" means.  Definitions only. *)
From HP Require Import Base.Bytes Base.Num Model.Elements Model.Tree Model.Reporters Spec.TreeShared.
From Coq Require Import Sorted.

(** the category path of a food name *)
Definition segs (f : bytes) : list bytes := split_on c_slash f.

(** [p] is a prefix of [q] (lists of segments) *)
Fixpoint is_prefix_path (p q : list bytes) : bool :=
  match p, q with
  | [], _ => true
  | a :: p', c :: q' => beq a c && is_prefix_path p' q'
  | _ :: _, [] => false
  end.

(** equality of paths *)
Fixpoint path_eqb (p q : list bytes) : bool :=
  match p, q with
  | [], [] => true
  | a :: p', c :: q' => beq a c && path_eqb p' q'
  | _, _ => false
  end.

(** the non-empty prefixes of a path, shortest first *)
Fixpoint prefixes (q : list bytes) : list (list bytes) :=
  match q with
  | [] => []
  | a :: q' => [a] :: map (cons a) (prefixes q')
  end.

(** remove repetitions, keeping first occurrences *)
Fixpoint dedup_paths (l : list (list bytes)) : list (list bytes) :=
  match l with
  | [] => []
  | p :: r => p :: filter (fun q => negb (path_eqb p q)) (dedup_paths r)
  end.

(** lexicographic order on paths, segments compared by Go's [<] on strings *)
Fixpoint path_ltb (p q : list bytes) : bool :=
  match p, q with
  | [], [] => false
  | [], _ :: _ => true
  | _ :: _, [] => false
  | a :: p', c :: q' => if bltb a c then true else if bltb c a then false else path_ltb p' q'
  end.

Section TreeSpec.
  Context (NM : Num).
  Notation T := (T NM).
  Notation tree := (tree NM).

  (** logged entries (name, quantity) in processing order *)
  Notation entries := (list (bytes * T)).

  (** the entries at or below path [p], in order *)
  Definition matching (es : entries) (p : list bytes) : entries :=
    filter (fun fq => is_prefix_path p (segs (fst fq))) es.

  (** the entries exactly at path [p], in order *)
  Definition exactly_at (es : entries) (p : list bytes) : entries :=
    filter (fun fq => path_eqb (segs (fst fq)) p) es.

  (** first value initialises, later ones are added on the right ([acc + q]);
      no [zero +] in front *)
  Definition sum_first (l : list T) : T :=
    match l with
    | [] => zero NM
    | x :: r => fold_left (add NM) r x
    end.

  (** plain sums from [zero] *)
  Definition sum_l (l : list T) : T := fold_left (add NM) l (zero NM).
  Definition sum_r (l : list T) : T := fold_right (add NM) (zero NM) l.

  (** what the node with path [p] must show *)
  Definition total_at (es : entries) (p : list bytes) : T :=
    sum_first (map snd (matching es p)).

  (** the quantity logged exactly at [p] *)
  Definition own (es : entries) (p : list bytes) : T :=
    sum_l (map snd (exactly_at es p)).

  (** all the category paths of a log, each once, in order of first appearance *)
  Definition node_paths (es : entries) : list (list bytes) :=
    dedup_paths (flat_map (fun fq => prefixes (segs (fst fq))) es).

  (** no logged name's path is a prefix of another, different, logged name's
      path (the same name logged twice is fine) *)
  Definition prefix_free (es : entries) : Prop :=
    forall f1 q1 f2 q2, In (f1, q1) es -> In (f2, q2) es ->
      is_prefix_path (segs f1) (segs f2) = true -> segs f1 = segs f2.

  Definition prefix_freeb (es : entries) : bool :=
    forallb (fun e1 => forallb (fun e2 =>
      implb (is_prefix_path (segs (fst e1)) (segs (fst e2))) (path_eqb (segs (fst e1)) (segs (fst e2)))) es) es.

  (** the node reached from the children [ch] of the root along path [p] *)
  Fixpoint node_at (p : list bytes) (ch : list tree) : option tree :=
    match p with
    | [] => None
    | n :: rest =>
        match find_child NM n ch with
        | None => None
        | Some t => match rest with [] => Some t | _ :: _ => node_at rest (t_children NM t) end
        end
    end.

  (** in every node (the root included) the children are strictly increasing by
      name for Go's string order *)
  Fixpoint sorted_tree (t : tree) : Prop :=
    match t with
    | Node _ _ ch =>
        StronglySorted (fun a c => bltb (t_name NM a) (t_name NM c) = true) ch /\
        (fix all (l : list tree) : Prop := match l with [] => True | c :: r => sorted_tree c /\ all r end) ch
    end.

  (** the state of [rep_balance_single] after the days [lns] (one map-order
      oracle per day, irrelevant for this reporter) *)
  Definition bal_single_run (c : rconfig) (d : list (bytes * elements NM))
             (perms : nat -> list bytes -> list bytes) (lns : list (lognode NM)) : tree * T :=
    fst (fold_left (fun (sk : (tree * T) * nat) ln =>
                      (fst (fst (r_process NM (rep_balance_single NM c d) (perms (snd sk)) (fst sk) ln)), S (snd sk)))
                   lns (r_init NM (rep_balance_single NM c d), O)).

  (** the same for [rep_balance] *)
  Definition bal_run (c : rconfig) (perms : nat -> list bytes -> list bytes) (lns : list (lognode NM)) : tree :=
    fst (fold_left (fun (sk : tree * nat) ln =>
                      (fst (fst (r_process NM (rep_balance NM c) (perms (snd sk)) (fst sk) ln)), S (snd sk)))
                   lns (r_init NM (rep_balance NM c), O)).
End TreeSpec.
