(** Vocabulary for property C06 on the BYTES of the log file: "its output equals what it
    prints for the same file with the other days deleted and no period given".
    Definitions only.

    A log file is an abstract file of Model/Syntax.v ([f : file], [render f : bytes]).  A
    RECORD is a heading item together with every item up to the next heading; the items
    before the first heading belong to no record.  [keep_records keep f] deletes whole
    records (their lines, line endings included), nothing else. *)
From HP Require Import Base.Bytes Base.Num Model.Scanner Model.Parser Model.Syntax Model.Elements Model.Dates
  Model.Writer Model.Reporters Model.Cli Spec.PeriodSpec.

(** *** deleting whole records *)

(** [on]: are we inside a record that is kept (or before the first heading)? *)
Fixpoint keep_items (keep : bytes -> bool) (on : bool) (l : list (item * bool)) : list (item * bool) :=
  match l with
  | [] => []
  | (IHeading n s, crlf) :: r =>
      if keep n then (IHeading n s, crlf) :: keep_items keep true r else keep_items keep false r
  | ic :: r => if on then ic :: keep_items keep on r else keep_items keep on r
  end.

(** the abstract file with the records whose heading does not satisfy [keep] removed; the
    lines before the first heading stay, so does the final-newline flag *)
Definition keep_records (keep : bytes -> bool) (f : file) : file :=
  {| f_items := keep_items keep true (f_items f); f_final_newline := f_final_newline f |}.

(** the same on bare items (what [map fst] of the above is) *)
Fixpoint keep_its (keep : bytes -> bool) (on : bool) (l : list item) : list item :=
  match l with
  | [] => []
  | IHeading n s :: r => if keep n then IHeading n s :: keep_its keep true r else keep_its keep false r
  | it :: r => if on then it :: keep_its keep on r else keep_its keep on r
  end.

(** *** which headings are "the days d with begin <= d <= end" *)

(** the heading parses as a date d under the layout and bt <= d <= et (each bound optional,
    both inclusive: [in_interval] is [Props/C06.v bounds_inclusive]) *)
Definition in_period (toks : list ltoken) (bt et : option time) (h : bytes) : bool :=
  match parse_date toks h with
  | Some c => in_interval bt et (time_of_civil c)
  | None => false
  end.

(** the variant that never deletes a record whose heading is not a date (the walk reports such
    a heading whatever the period) *)
Definition in_period_or_undated (toks : list ltoken) (bt et : option time) (h : bytes) : bool :=
  match parse_date toks h with
  | Some c => in_interval bt et (time_of_civil c)
  | None => true
  end.

(** an event is kept when it is a record whose heading satisfies [keep]; errors are kept *)
Definition keep_event {NM : Num} (keep : bytes -> bool) (ev : event NM) : bool :=
  match ev with
  | ENode n => keep (header n)
  | EErr _ => true
  end.

(** *** hypotheses on the file *)

(** every heading of the file is a date under the layout *)
Definition headings_dated (toks : list ltoken) (f : file) : Prop :=
  forall n s crlf, In (IHeading n s, crlf) (f_items f) -> parse_date toks n <> None.

(** no malformed line under any heading (malformed lines before the first heading are skipped
    by the parser); [seen]: has a heading been met *)
Fixpoint no_bad_under (seen : bool) (l : list item) : bool :=
  match l with
  | [] => true
  | it :: r =>
      negb (seen && is_bad it)
      && no_bad_under (seen || match it with IHeading _ _ => true | _ => false end) r
  end.

(** the file parses without error *)
Definition clean_file (f : file) : Prop := no_bad_under false (map fst (f_items f)) = true.

(** *** worlds *)

(** the world that differs from [w] only in the file at path [p], now a regular file with
    contents [data] *)
Definition with_file (w : world) (p data : bytes) : world :=
  {| w_fs := (p, FFile data) :: w_fs w; w_default_config := w_default_config w; w_tz := w_tz w;
     w_clock := w_clock w; w_or := w_or w; w_sink := w_sink w; w_read_fault := w_read_fault w |}.

(** the file at the (non-empty) path [p] -- a path of the world's file system: not the null device,
    which opens as the empty file whatever the world says (fix F24) -- is a regular file with contents
    [data] that is read without an injected read fault *)
Definition file_is (w : world) (p data : bytes) : Prop :=
  p <> [] /\ p <> dev_null /\ lookup_fs w p = Some (FFile data) /\ lookup p (w_read_fault w) = None.

(** the invocation with every period flag (global and sub-command) removed *)
Definition without_period_flags (i : invocation) : invocation :=
  {| i_f_db := i_f_db i; i_e_db := i_e_db i; i_f_log := i_f_log i; i_e_log := i_e_log i;
     i_f_fmt := i_f_fmt i; i_e_fmt := i_e_fmt i; i_f_depth := i_f_depth i; i_e_depth := i_e_depth i;
     i_f_today := i_f_today i; i_f_config := i_f_config i; i_e_config := i_e_config i;
     i_no_database := i_no_database i;
     i_g_begin := None; i_g_end := None; i_l_begin := None; i_l_end := None;
     i_g_no_color := i_g_no_color i; i_l_no_color := i_l_no_color i;
     i_single_food := i_single_food i; i_single_element := i_single_element i;
     i_group_food := i_group_food i; i_csv := i_csv i; i_no_totals := i_no_totals i;
     i_totals_only := i_totals_only i; i_shorten := i_shorten i; i_old := i_old i;
     i_template := i_template i; i_collapse := i_collapse i; i_collapse_last := i_collapse_last i;
     i_desc := i_desc i; i_silent := i_silent i; i_cmd := i_cmd i |}.

(** the commands whose walk over the log uses the period of the options ([summary] builds its own
    bounds; stats, element-total, csv database*, lint never look at the period) *)
Definition period_command (c : command) : bool :=
  match c with
  | CReg | CBal | CUnresolved | CTotals | CQuantity | CCsvLog | CPrint => true
  | _ => false
  end.
