(** Vocabulary for property C06 (date range selection).  Definitions only. *)
From HP Require Import Base.Bytes Base.Num Model.Scanner Model.Parser Model.Dates Model.Writer Model.Reporters Model.Cli.
Open Scope Z_scope.

(** the same world in another process time zone *)
Definition with_tz (w : world) (tz : Z) : world :=
  {| w_fs := w_fs w; w_default_config := w_default_config w; w_tz := tz; w_clock := w_clock w;
     w_or := w_or w; w_sink := w_sink w; w_read_fault := w_read_fault w |}.

(** the same world with the process in another zone AND the wall clock as it is read there.
    [time.Now()] carries the local zone; since the keyword [today] no longer converts with
    [.Local()] (fix 4fa5d57), the process zone reaches the program only through the offset
    (and civil date) of the clock value, so a change of zone is a change of [w_tz] and of the
    zone fields of [w_clock], the instant staying the same *)
Definition with_zone (w : world) (tz : Z) (clock : time) : world :=
  {| w_fs := w_fs w; w_default_config := w_default_config w; w_tz := tz; w_clock := clock;
     w_or := w_or w; w_sink := w_sink w; w_read_fault := w_read_fault w |}.

(** a zone offset strictly between -24h and +24h (every real zone is within -12h .. +14h) *)
Definition tz_ok (tz : Z) : Prop := -86400 < tz < 86400.

(** the closed interval of instants [bt, et]; a missing bound does not constrain *)
Definition within (bt et : option time) (t : time) : Prop :=
  (forall x, bt = Some x -> inst x <= inst t) /\ (forall x, et = Some x -> inst t <= inst x).

(** a civil date as [time.Parse] accepts it with the tokens 2006/01/02 *)
Definition valid_civil (c : Z * Z * Z) : Prop :=
  let '(y, m, d) := c in 0 <= y <= 9999 /\ 1 <= m <= 12 /\ 1 <= d <= days_in y m.

Definition day_number (c : Z * Z * Z) : Z := let '(y, m, d) := c in days_from_civil y m d.

(** lexicographic order on (year, month, day) *)
Definition civil_lt (c1 c2 : Z * Z * Z) : Prop :=
  let '(y1, m1, d1) := c1 in let '(y2, m2, d2) := c2 in
  y1 < y2 \/ (y1 = y2 /\ (m1 < m2 \/ (m1 = m2 /\ d1 < d2))).

Definition civil_le (c1 c2 : Z * Z * Z) : Prop := c1 = c2 \/ civil_lt c1 c2.

(** two optional bounds denote the same instant *)
Definition same_inst (a c : option time) : Prop :=
  match a, c with
  | Some x, Some y => inst x = inst y
  | None, None => True
  | _, _ => False
  end.

(** options that differ at most in the zone-offset / civil fields of the two period bounds *)
Definition options_eqv (o1 o2 : options) : Prop :=
  op_db o1 = op_db o2 /\ op_log o1 = op_log o2 /\ op_fmt o1 = op_fmt o2 /\ op_depth o1 = op_depth o2 /\
  op_now o1 = op_now o2 /\ same_inst (op_begin o1) (op_begin o2) /\ same_inst (op_end o1) (op_end o2) /\
  op_rc o1 = op_rc o2.

Definition load_eqv (r1 r2 : cerr + options) : Prop :=
  match r1, r2 with
  | inl e1, inl e2 => e1 = e2
  | inr o1, inr o2 => options_eqv o1 o2
  | _, _ => False
  end.

(** the four keywords of GetTimeFromString *)
Definition is_keyword (s : bytes) : bool :=
  beq s (b "today") || beq s (b "yesterday") || beq s (b "last7") || beq s (b "last30").

(** a resolved value becomes the bound *)
Definition lift_some (r : cerr + time) : cerr + option time :=
  match r with inl e => inl e | inr t => inr (Some t) end.

(** the options with the period removed ("no period given") *)
Definition without_period (op : options) : options :=
  {| op_db := op_db op; op_log := op_log op; op_fmt := op_fmt op; op_depth := op_depth op; op_now := op_now op;
     op_begin := None; op_end := None; op_rc := op_rc op |}.

(** two worlds that agree on everything a walking command reads except the files *)
Definition same_but_files (w w' : world) : Prop := w_or w = w_or w' /\ w_sink w = w_sink w'.

Section Select.
  Context (NM : Num).

  (** does the walk's period [bt, et] keep this event?  Errors and records whose heading
      does not parse as a date are never removed: they are reported before the filter is consulted. *)
  Definition sel (toks : list ltoken) (bt et : option time) (n : pnode NM) : bool :=
    match parse_date toks (header n) with
    | Some c => in_interval bt et (time_of_civil c)
    | None => true
    end.

  Definition keep_ev (toks : list ltoken) (bt et : option time) (ev : event NM) : bool :=
    match ev with
    | ENode n => sel toks bt et n
    | EErr _ => true
    end.

  Definition keep_last (toks : list ltoken) (bt et : option time) (last : option (pnode NM)) : option (pnode NM) :=
    match last with
    | Some n => if sel toks bt et n then Some n else None
    | None => None
    end.

  (** every record heading of the event list parses as a date *)
  Definition headings_parse (toks : list ltoken) (evs : list (event NM)) : Prop :=
    forall n, In (ENode n) evs -> parse_date toks (header n) <> None.

  (** the literal reading of "the days d with begin <= d <= end": the heading parses and the
      date lies in the interval.  It differs from [sel] only on headings that do not parse. *)
  Definition sel_strict (toks : list ltoken) (bt et : option time) (n : pnode NM) : bool :=
    match parse_date toks (header n) with
    | Some c => in_interval bt et (time_of_civil c)
    | None => false
    end.

  Definition keep_ev_strict (toks : list ltoken) (bt et : option time) (ev : event NM) : bool :=
    match ev with
    | ENode n => sel_strict toks bt et n
    | EErr _ => true
    end.

  (** the stream an opened file is parsed into: the events of the loop, the record pending
      at the end, and how the scanner ended *)
  Definition stream_of (o : opened) : list (event NM) * option (pnode NM) * scan_end :=
    let '(data, f) := match o with OData d f => (d, f) | ODir => ([], FailAt 0) end in
    let '(lines, fin) := scan data f in
    let '(evs, last) := parse_lines NM lines in
    (evs, last, fin).

  (** [o'] is the log [o] with the records outside [bt, et] deleted (for the layout [toks]):
      same events otherwise, same pending record rule, same end of scan *)
  Definition log_restricted (toks : list ltoken) (bt et : option time) (o o' : opened) : Prop :=
    let '(evs, last, fin) := stream_of o in
    stream_of o' = (filter (keep_ev toks bt et) evs, keep_last toks bt et last, fin).
End Select.

(** the two bounds the [summary] command builds from the resolved argument [t]:
    [time.Date(y, m, d, 0,0,0,0, loc)] and [time.Date(y, m, d, 24,0,0,-1, loc)] *)
Definition summary_begin (t : time) : time := {| inst := day_begin t; off := off t; civ := civ t |}.
Definition summary_end (t : time) : time := {| inst := day_end t; off := off t; civ := civ t |}.

(** two periods that no record heading can tell apart: headings are UTC midnights *)
Definition mid_eqv (bt et bt' et' : option time) : Prop :=
  forall c, in_interval bt et (time_of_civil c) = in_interval bt' et' (time_of_civil c).
