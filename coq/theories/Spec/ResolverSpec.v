(** Reference semantics of recipe resolution, on the UNMODIFIED book, against
    which the in-place memoising algorithm of Model/Resolver.v is proved
    (properties C01, C05, C11).  Definitions only – no proofs here. *)
From Coq Require Import Permutation Sorted.
From HP Require Import Base.Bytes Base.Num Model.Elements Model.Resolver.

Section ResolverSpec.
  Context (NM : Num).
  Notation T := (T NM).
  Notation elements := (elements NM).
  Notation db := (db NM).

  Variable B : db.

  (** [reach n r]: a chain of [n] ingredient references starts at [r].  Every
      reference counts, the last one (possibly to a name the book does not
      define) included – the code tests [level >= maxDepth] before it tests
      whether the name exists. *)
  Fixpoint reach (n : nat) (r : bytes) : Prop :=
    match n with
    | O => True
    | S k => exists els, lookup r B = Some els /\ exists e v, In (e, v) els /\ reach k e
    end.

  (** boolean mirror, for evaluation *)
  Fixpoint reachb (n : nat) (r : bytes) : bool :=
    match n with
    | O => true
    | S k => match lookup r B with
             | Some els => existsb (fun ev => reachb k (fst ev)) els
             | None => false
             end
    end.

  (** "nested less deeply than the limit N": no recipe of the book starts a chain of N references *)
  Definition depth_lt (N : nat) : Prop := forall r, In r (keys B) -> ~ reach N r.
  Definition depth_ltb (N : nat) : bool := forallb (fun r => negb (reachb N r)) (keys B).

  (** [r] lies on a cycle of ingredient references *)
  Inductive refs : bytes -> bytes -> Prop :=
  | refs_one : forall r els e v, lookup r B = Some els -> In (e, v) els -> refs r e
  | refs_trans : forall r m e, refs r m -> refs m e -> refs r e.
  Definition on_cycle (r : bytes) : Prop := refs r r.

  (** The value a recipe resolves to, computed top-down on the unmodified book
      with the evaluation order of the code: each ingredient is resolved first,
      then merged (scaled) left to right into the list built so far, which is
      sorted at the end.  [None] = the depth limit is hit ([fuel] = limit −
      level); [Some (h, None)] = not a recipe; [h] = length of the longest chain
      of references starting at the name. *)
  Section Loop.
    Context (rec : bytes -> option (nat * option elements)).
    Fixpoint ref_loop (els : elements) (nel : elements) (height : nat) : option (nat * elements) :=
      match els with
      | [] => Some (height, nel)
      | (e, v) :: rest =>
          match rec e with
          | None => None
          | Some (h, res) =>
              ref_loop rest
                (match res with
                 | Some found => sum_merge NM nel found v
                 | None => sum_merge NM nel [(e, v)] (one NM)
                 end) (Nat.max height (S h))
          end
      end.
  End Loop.

  Fixpoint ref_node (fuel : nat) (name : bytes) : option (nat * option elements) :=
    match fuel with
    | O => None
    | S f =>
        match lookup name B with
        | None => Some (O, None)
        | Some els =>
            match ref_loop (ref_node f) els [] O with
            | None => None
            | Some (h, nel) => Some (h, Some (sort_elements NM nel))
            end
        end
    end.

  (** the resolved book the specification prescribes: every recipe replaced, in place, by its value *)
  Definition ref_value (N : nat) (r : bytes) (dflt : elements) : elements :=
    match ref_node N r with Some (_, Some v) => v | _ => dflt end.
  Definition ref_db (N : nat) : db := map (fun kv => (fst kv, ref_value N (fst kv) (snd kv))) B.

  (** ingredient paths from [r] down to names the book does not define, each
      with the product of the coefficients along it *)
  Fixpoint paths (fuel : nat) (r : bytes) : list (bytes * T) :=
    match fuel with
    | O => []
    | S f =>
        match lookup r B with
        | None => [(r, one NM)]
        | Some els => flat_map (fun ev => map (fun xp => (fst xp, mul NM (snd xp) (snd ev))) (paths f (fst ev))) els
        end
    end.

  (** sum of the values paired with [x] *)
  Definition sum_of (x : bytes) (l : list (bytes * T)) : T :=
    fold_left (fun a xp => if beq (fst xp) x then add NM a (snd xp) else a) l (zero NM).
  Definition occurs (x : bytes) (l : list (bytes * T)) : bool := existsb (fun xp => beq (fst xp) x) l.
End ResolverSpec.

(** an order oracle: what a [range] over a map with these keys may deliver *)
Definition order_oracle (perm : list bytes -> list bytes) : Prop := forall l, Permutation (perm l) l.
