(** Property C12 (reports compose over the log history): the definitions needed
    to state the theorems.  Definitions only.

    A history is a list of parser events.  [walk_events] is the callback
    protocol of ParseStreamCallback ([drive_loop]) specialised to the walk
    callback [walk_cb]; [report_from] is what [walk_and_finish] does once the
    events of the file are known; [report] runs it on a fresh buffered writer in
    front of a sink that never fails. *)
From HP Require Import Base.Bytes Base.Utf8 Base.Num Model.Scanner Model.Parser Model.Elements Model.Dates
  Model.Tree Model.Writer Model.Regex Model.Reporters Model.Cli.

Section ComposeSpec.
  Context (NM : Num).
  Notation T := (T NM).
  Notation tree := (tree NM).

  (** *** the walk over an event list *)
  Section Walk.
    Context (R : reporter NM) (perm_day : nat -> list bytes -> list bytes)
            (perm_flush : list bytes -> list bytes) (toks : list ltoken) (bt et : option time).

    (** fold of [walk_cb] that stops at the first callback stop *)
    Fixpoint walk_events (evs : list (event NM)) (st : walk_state NM R) : walk_state NM R * option cerr :=
      match evs with
      | [] => (st, None)
      | ev :: r =>
          let '(st', stop, e) := walk_cb NM R perm_day toks bt et st ev in
          if stop then (st', e) else walk_events r st'
      end.

    (** the walk followed by FinishReport, from an arbitrary writer *)
    Definition report_from (wr : bw) (evs : list (event NM)) : bw * option cerr * RS NM R :=
      let '((rs, _, wr1), werr) := walk_events evs (r_init NM R, O, wr) in
      let '(wr2, e2) := bw_chunks wr1 (r_flush NM R perm_flush rs) in
      let '(wr3, ferr) := if e2 then (wr2, true) else bw_flush wr2 in
      (wr3, match werr with Some e => Some e | None => if ferr then Some EWrite else None end, rs).

    (** a buffered writer on a sink that never fails *)
    Definition fresh_writer : bw := bw_new {| s_limit := None; s_got := [] |}.

    (** standard output and error of the command on the history [evs] *)
    Definition report (evs : list (event NM)) : bytes * option cerr :=
      let '(wr, e, _) := report_from fresh_writer evs in (s_got (bw_sink wr), e).

    (** the reporter state the command ends with *)
    Definition report_state (evs : list (event NM)) : RS NM R :=
      snd (report_from fresh_writer evs).
  End Walk.

  (** *** what an event is to the walk, independently of the reporter *)
  Inductive ev_kind := KErr (e : cerr) | KSkip | KDay (ln : lognode NM).

  Definition classify_event (toks : list ltoken) (bt et : option time) (ev : event NM) : ev_kind :=
    match ev with
    | EErr e => KErr (EParse (perr_message e))
    | ENode n =>
        match parse_date toks (header n) with
        | None => KErr EBadDate
        | Some c =>
            let t := time_of_civil c in
            if in_interval bt et t
            then KDay {| ln_time := t; ln_elems := merge_elements NM (elems n); ln_meta := meta n |}
            else KSkip
        end
    end.

  (** number of selected days (records inside the period) of a history *)
  Fixpoint selected_days (toks : list ltoken) (bt et : option time) (evs : list (event NM)) : nat :=
    match evs with
    | [] => O
    | ev :: r =>
        match classify_event toks bt et ev with
        | KDay _ => S (selected_days toks bt et r)
        | _ => selected_days toks bt et r
        end
    end.

  (** the selected days up to the first parse / date error, and that error *)
  Fixpoint walked_nodes (toks : list ltoken) (bt et : option time) (evs : list (event NM))
    : list (lognode NM) * option cerr :=
    match evs with
    | [] => ([], None)
    | ev :: r =>
        match classify_event toks bt et ev with
        | KErr e => ([], Some e)
        | KSkip => walked_nodes toks bt et r
        | KDay ln => let '(l, e) := walked_nodes toks bt et r in (ln :: l, e)
        end
    end.

  (** *** the two kinds of reporter *)

  (** per-day: what [Process] writes and returns does not depend on the state,
      and [Flush] writes nothing *)
  Definition stateless (R : reporter NM) : Prop :=
    (forall pi st st' ln,
        snd (fst (r_process NM R pi st ln)) = snd (fst (r_process NM R pi st' ln))
        /\ snd (r_process NM R pi st ln) = snd (r_process NM R pi st' ln))
    /\ (forall pi st, r_flush NM R pi st = []).

  (** period: [Process] writes nothing, returns no error, and the new state does
      not depend on the map-order oracle *)
  Definition pstep (R : reporter NM) (st : RS NM R) (ln : lognode NM) : RS NM R :=
    fst (fst (r_process NM R (fun l => l) st ln)).

  Definition period (R : reporter NM) : Prop :=
    forall pi st ln, r_process NM R pi st ln = (pstep R st ln, [], None).

  (** the reporters of the property's first sentence (register with either
      template, summary, old register, CSV log, print, single food with a
      pattern inside the model -- any regular expression [parse_regex] does not
      decline, valid or not --, single element) ... *)
  Inductive perday_reporter : reporter NM -> Prop :=
  | PD_template c d : perday_reporter (rep_template NM c d)
  | PD_summary c d : perday_reporter (rep_summary NM c d)
  | PD_old c d : perday_reporter (rep_old NM c d)
  | PD_csv_log : perday_reporter (rep_csv_log NM)
  | PD_print c : perday_reporter (rep_print NM c)
  | PD_single_food c : parse_regex (rc_single_food c) <> ReUnmodelled -> perday_reporter (rep_single_food NM c)
  | PD_single c d : perday_reporter (rep_single NM c d).

  (** ... and of its second sentence *)
  Inductive period_reporter : reporter NM -> Prop :=
  | PR_balance c : period_reporter (rep_balance NM c)
  | PR_balance_single c d : period_reporter (rep_balance_single NM c d)
  | PR_totals d : period_reporter (rep_totals NM d)
  | PR_quantity desc : period_reporter (rep_quantity NM desc)
  | PR_byfood c d : period_reporter (rep_byfood NM c d)
  | PR_unresolved d : period_reporter (rep_unresolved NM d).

  (** what a per-day reporter prints for one day, and for a list of days numbered from [i] *)
  Definition day_bytes (R : reporter NM) (pi : list bytes -> list bytes) (ln : lognode NM) : bytes :=
    concat (map fst (snd (fst (r_process NM R pi (r_init NM R) ln)))).

  Fixpoint days_bytes (R : reporter NM) (pd : nat -> list bytes -> list bytes) (i : nat)
                      (lns : list (lognode NM)) : bytes :=
    match lns with
    | [] => []
    | ln :: r => day_bytes R (pd i) ln ++ days_bytes R pd (S i) r
    end.

  (** [l1] is a prefix of [l2] *)
  Definition bprefix (l1 l2 : bytes) : Prop := exists rest, l2 = l1 ++ rest.

  (** *** element-wise sums *)
  Definition mem (k : bytes) (l : list bytes) : bool := existsb (beq k) l.

  (** keys of the first map, then the new keys of the second, in order *)
  Definition union_keys (k1 k2 : list bytes) : list bytes :=
    k1 ++ filter (fun k => negb (mem k k1)) k2.

  Definition pair_add (x y : T * T) : T * T := (add NM (fst x) (fst y), add NM (snd x) (snd y)).

  (** accumulator lookup, missing = (0, 0) *)
  Definition acc_get (x : bytes) (acc : accumulator NM) : T * T :=
    match lookup x acc with Some pn => pn | None => (zero NM, zero NM) end.

  (** quantity lookup, missing = 0 *)
  Definition qty_get (x : bytes) (q : elements NM) : T :=
    match lookup x q with Some v => v | None => zero NM end.

  (** the node reached from [t] along a path of child names (first match, as
      [Children[name]] on a map) *)
  Fixpoint node_at (p : list bytes) (t : tree) : option tree :=
    match p with
    | [] => Some t
    | n :: rest =>
        match find_child NM n (t_children NM t) with
        | Some c => node_at rest c
        | None => None
        end
    end.

  (** total at a path, missing = 0 *)
  Definition total_at (p : list bytes) (t : tree) : T :=
    match node_at p t with Some c => t_total NM c | None => zero NM end.

  Definition has_path (p : list bytes) (t : tree) : Prop := node_at p t <> None.
End ComposeSpec.

Arguments KErr {NM}. Arguments KSkip {NM}. Arguments KDay {NM}.
