(** Vocabulary for property C07, part 1 ("reports agree": period totals =
    sums of the register's daily figures = sums of the single-element register
    rows; single-element balance grand total = period total of the element).
    Definitions only. *)
From HP Require Import Base.Bytes Base.Num Model.Elements Model.Tree Model.Reporters.

Section AgreeSpec.
  Context (NM : Num).
  Notation T := (T NM).
  Notation elements := (elements NM).
  Notation db := (list (bytes * elements)).
  Notation lognode := (lognode NM).
  Notation oracle := (list bytes -> list bytes).

  (** *** sums *)

  (** Σ from [zero], left to right (the shape of every Go accumulation loop) *)
  Definition sum (l : list T) : T := fold_left (add NM) l (zero NM).

  (** the sub-list of the contributions whose name is [x] *)
  Definition named (x : bytes) (cs : elements) : elements :=
    filter (fun nv => beq (fst nv) x) cs.

  Definition occurs_in (x : bytes) (cs : elements) : bool :=
    existsb (fun nv => beq (fst nv) x) cs.

  (** the accumulator's routing test: Go's [val < 0] *)
  Definition is_neg (v : T) : bool := ltb NM v (zero NM).

  (** Σ over the contributions [(name, v)] of [cs] with [name = x] and
      [ltb v zero = false] (resp. [= true]) *)
  Definition pos_sum (cs : elements) (x : bytes) : T :=
    sum (filter (fun v => negb (is_neg v)) (map snd (named x cs))).
  Definition neg_sum (cs : elements) (x : bytes) : T :=
    sum (filter is_neg (map snd (named x cs))).

  (** *** the walk over the selected days

      [Cli.walk_cb] hands day number [i] (counting the selected days from 0)
      the oracle [πd i]; the reporter's state is threaded through. *)
  Fixpoint walk_from (R : reporter NM) (πd : nat -> oracle) (i : nat) (L : list lognode)
                     (st : RS NM R) : RS NM R :=
    match L with
    | [] => st
    | ln :: r => walk_from R πd (S i) r (fst (fst (r_process NM R (πd i) st ln)))
    end.

  Definition walk (R : reporter NM) (πd : nat -> oracle) (L : list lognode) : RS NM R :=
    walk_from R πd O L (r_init NM R).

  (** *** reading a figure off a list of total rows (name, positive, negative, sum) *)
  Definition row_name (r : total_row NM) : bytes := fst (fst (fst r)).

  Definition find_row (x : bytes) (rows : list (total_row NM)) : option (total_row NM) :=
    find (fun r => beq (row_name r) x) rows.

  (** the (positive, negative) columns of the row of [x] *)
  Definition row_of (x : bytes) (rows : list (total_row NM)) : option (T * T) :=
    match find_row x rows with
    | Some (_, p, n, _) => Some (p, n)
    | None => None
    end.

  (** the "sum" column of the row of [x] *)
  Definition row_total_of (x : bytes) (rows : list (total_row NM)) : option T :=
    match find_row x rows with
    | Some (_, _, _, s) => Some s
    | None => None
    end.

  Definition fst_or_zero (o : option (T * T)) : T := match o with Some (p, _) => p | None => zero NM end.
  Definition snd_or_zero (o : option (T * T)) : T := match o with Some (_, n) => n | None => zero NM end.

  (** *** the register's figures of one day (GetReportItem, [ri_totals]) *)
  Definition day_row (c : rconfig) (π : oracle) (d : db) (x : bytes) (ln : lognode) : option (T * T) :=
    match ri_totals NM (get_report_item NM c π d ln) with
    | Some rows => row_of x rows
    | None => None
    end.
  (** [zero] for a day in which [x] does not occur *)
  Definition day_pos (c : rconfig) (π : oracle) (d : db) (x : bytes) (ln : lognode) : T :=
    fst_or_zero (day_row c π d x ln).
  Definition day_neg (c : rconfig) (π : oracle) (d : db) (x : bytes) (ln : lognode) : T :=
    snd_or_zero (day_row c π d x ln).

  (** *** the [reg -s x] row of one day ([None]: no row that day; a [Some None]
      would be the panic and counts as no figure) *)
  Definition single_figures (d : db) (x : bytes) (ln : lognode) : option (T * T) :=
    match single_row NM d x ln with
    | Some (Some pn) => Some pn
    | _ => None
    end.
  Definition single_pos (d : db) (x : bytes) (ln : lognode) : T := fst_or_zero (single_figures d x ln).
  Definition single_neg (d : db) (x : bytes) (ln : lognode) : T := snd_or_zero (single_figures d x ln).

  (** *** period totals ([report totals]): the rows Flush prints after the walk *)
  Definition period_rows (πf : oracle) (πd : nat -> oracle) (d : db) (L : list lognode) : list (total_row NM) :=
    totals_of_acc NM πf (walk (rep_totals NM d) πd L).

  Definition period_row (πf : oracle) (πd : nat -> oracle) (d : db) (x : bytes) (L : list lognode) : option (T * T) :=
    row_of x (period_rows πf πd d L).

  (** does [x] occur in some selected day *)
  Definition occurs_in_period (d : db) (x : bytes) (L : list lognode) : bool :=
    existsb (fun ln => occurs_in x (contributions NM d ln)) L.

  (** *** the single-element balance: grand total after the walk *)
  Definition bal_single_grand_total (c : rconfig) (πd : nat -> oracle) (d : db) (L : list lognode) : T :=
    snd (walk (rep_balance_single NM c d) πd L).

  (** *** [reg -s x -g]: the rows Flush prints (amount = the "sum" column) *)
  Definition byfood_rows (c : rconfig) (πf : oracle) (πd : nat -> oracle) (d : db) (L : list lognode) : list (total_row NM) :=
    totals_of_acc NM πf (walk (rep_byfood NM c d) πd L).

  Definition row_sum (r : total_row NM) : T := snd r.

  (** the day's log restricted to the foods the book defines *)
  Definition defined_only (d : db) (ln : lognode) : lognode :=
    {| ln_time := ln_time NM ln;
       ln_elems := filter (fun nv => match lookup (fst nv) d with Some _ => true | None => false end) (ln_elems NM ln);
       ln_meta := ln_meta NM ln |}.
End AgreeSpec.
