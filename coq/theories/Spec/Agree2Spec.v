(** Definitions needed to state the WP11 part of property C07 (quantities,
    CSV log, balance leaves, element-total vs resolved CSV, summary, unresolved,
    stats).  Definitions only. *)
From HP Require Import Base.Bytes Base.Utf8 Base.Num Model.Scanner Model.Parser Model.Elements Model.Resolver
  Model.Dates Model.Tree Model.Writer Model.Reporters Model.Cli.

Section Agree2Spec.
  Context (NM : Num).
  Notation T := (T NM).
  Notation elements := (elements NM).
  Notation db := (list (bytes * elements)).
  Notation lognode := (lognode NM).
  Notation reporter := (reporter NM).
  Notation tree := (tree NM).

  (** *** the walk over the selected days [L] (file order): reporter state and chunks written.
      Day [i] (0-based among the selected days) is processed with the map-order oracle [π i],
      exactly as [walk_cb] does. *)
  Fixpoint walk_from (R : reporter) (π : nat -> list bytes -> list bytes) (i : nat) (L : list lognode)
                     (st : RS NM R) : RS NM R :=
    match L with
    | [] => st
    | ln :: r => walk_from R π (S i) r (fst (fst (r_process NM R (π i) st ln)))
    end.
  Definition walk_state (R : reporter) (π : nat -> list bytes -> list bytes) (L : list lognode) : RS NM R :=
    walk_from R π O L (r_init NM R).

  Fixpoint walk_chunks_from (R : reporter) (π : nat -> list bytes -> list bytes) (i : nat) (L : list lognode)
                            (st : RS NM R) : list chunk :=
    match L with
    | [] => []
    | ln :: r => snd (fst (r_process NM R (π i) st ln))
                 ++ walk_chunks_from R π (S i) r (fst (fst (r_process NM R (π i) st ln)))
    end.
  Definition walk_chunks (R : reporter) (π : nat -> list bytes -> list bytes) (L : list lognode) : list chunk :=
    walk_chunks_from R π O L (r_init NM R).

  (** the same with one oracle for all days (the form used in the brief) *)
  Definition walk_state_const (R : reporter) (π : list bytes -> list bytes) (L : list lognode) : RS NM R :=
    fold_left (fun st ln => fst (fst (r_process NM R π st ln))) L (r_init NM R).

  (** *** logged entries *)
  (** all (food, quantity) entries of the selected days, in file order *)
  Definition entries (L : list lognode) : elements := flat_map (ln_elems NM) L.

  (** the quantities logged under the name [f], in order *)
  Definition qtys_of (f : bytes) (es : elements) : list T :=
    map snd (filter (fun nv => beq (fst nv) f) es).

  (** the day quantities of [f]: one per day that mentions [f] (days have distinct food names) *)
  Definition day_qtys (f : bytes) (L : list lognode) : list T :=
    flat_map (fun ln => match lookup f (ln_elems NM ln) with Some q => [q] | None => [] end) L.

  (** the distinct members of a list, in order of first appearance *)
  Fixpoint first_occ (l : list bytes) : list bytes :=
    match l with
    | [] => []
    | x :: r => x :: filter (fun y => negb (beq y x)) (first_occ r)
    end.

  (** [acc = 0; acc += q1; acc += q2; ...] *)
  Definition sum_from_zero (qs : list T) : T := fold_left (add NM) qs (zero NM).

  (** first value assigns, later ones add: [acc = q1; acc += q2; ...]; nothing for no value *)
  Definition assign_then_add (qs : list T) : option T :=
    match qs with
    | [] => None
    | q :: r => Some (fold_left (add NM) r q)
    end.

  (** right-nested sum [q1 + (q2 + (... + 0))] *)
  Definition sum_right (qs : list T) : T := fold_right (add NM) (zero NM) qs.

  (** *** CSV log *)
  (** one (day, food, quantity) triple per element of each day, in file order *)
  Definition csv_entries (L : list lognode) : list (time * bytes * T) :=
    flat_map (fun ln => map (fun nv => (ln_time NM ln, fst nv, snd nv)) (ln_elems NM ln)) L.

  Definition ce_food (e : time * bytes * T) : bytes := snd (fst e).
  Definition ce_qty (e : time * bytes * T) : T := snd e.

  Definition csv_row_of (e : time * bytes * T) : list bytes :=
    [format_date iso_date (civ (fst (fst e))); ce_food e; f3 NM (ce_qty e)].

  (** field number [i] (0-based) of a CSV row *)
  Definition field (i : nat) (row : list bytes) : bytes := nth i row [].

  (** *** balance tree *)
  Definition segs (f : bytes) : list bytes := split_on c_slash f.

  (** [p] is a prefix of the path [l] *)
  Fixpoint path_prefix (p l : list bytes) : bool :=
    match p, l with
    | [], _ => true
    | a :: p', c :: l' => beq a c && path_prefix p' l'
    | _ :: _, [] => false
    end.

  (** the total stored at path [p] below a node whose children are [ch] (as [find_child] finds them) *)
  Fixpoint total_at (p : list bytes) (ch : list tree) : option T :=
    match p with
    | [] => None
    | n :: rest =>
        match find_child NM n ch with
        | None => None
        | Some c => match rest with
                    | [] => Some (t_total NM c)
                    | _ => total_at rest (t_children NM c)
                    end
        end
    end.

  (** the node at path [p] *)
  Fixpoint node_at (p : list bytes) (ch : list tree) : option tree :=
    match p with
    | [] => None
    | n :: rest =>
        match find_child NM n ch with
        | None => None
        | Some c => match rest with
                    | [] => Some c
                    | _ => node_at rest (t_children NM c)
                    end
        end
    end.

  (** the entries whose path is at or below [p] *)
  Definition at_or_below (p : list bytes) (es : elements) : elements :=
    filter (fun nv => path_prefix p (segs (fst nv))) es.

  (** no logged name is a path-prefix of another distinct logged name *)
  Definition prefix_free (names : list bytes) : Prop :=
    forall f g, In f names -> In g names -> path_prefix (segs f) (segs g) = true -> f = g.

  (** *** element-total and the resolved-book CSV *)
  Definition get (r : bytes) (d : db) : elements :=
    match lookup r d with Some els => els | None => [] end.

  (** (recipe, element, value) for every recipe in sorted order and every element of it in order *)
  Definition resolved_triples (perm : list bytes -> list bytes) (d : db) : list (bytes * bytes * T) :=
    flat_map (fun r => map (fun e => (r, fst e, snd e)) (get r d)) (sort_bytes (perm (keys d))).

  Definition tr_recipe (t : bytes * bytes * T) : bytes := fst (fst t).
  Definition tr_elem (t : bytes * bytes * T) : bytes := snd (fst t).
  Definition tr_val (t : bytes * bytes * T) : T := snd t.

  (** the rows [run_csv_db_resolved] writes (the [rows] of its body) *)
  Definition resolved_csv_rows (perm : list bytes -> list bytes) (d : db) : list (list bytes) :=
    flat_map (fun name => match lookup name d with
                          | Some els => csv_db_rows NM name els
                          | None => []
                          end) (sort_bytes (perm (keys d))).

  (** the line [run_element_total] prints for a (recipe, value) pair *)
  Definition element_total_line (nv : bytes * T) : chunk :=
    (f2 NM (snd nv) ++ [c_tab] ++ fst nv ++ [c_lf], true).

  (** *** summary *)
  Definition tot_name (t : total_row NM) : bytes := fst (fst (fst t)).
  Definition tot_pos (t : total_row NM) : T := snd (fst (fst t)).
  Definition re_food (e : bytes * T * elements) : bytes := fst (fst e).
  Definition re_qty (e : bytes * T * elements) : T := snd (fst e).

  Definition summary_line (c : rconfig) (v : T) (name : bytes) : bytes :=
    [c_lf] ++ format_value NM (rc_color c) v ++ b " : " ++ name.

  (** *** unresolved *)
  Definition undefined_in (d : db) (f : bytes) : bool :=
    match lookup f d with Some _ => false | None => true end.

  (** *** stats: the two callbacks of [run_stats] *)
  (** the state of the log walk: the number of headings, the first dated heading ([None]: no
      heading yet), the time of the last heading.  A heading that is not a date stops the walk with the
      date error, as for every other command (fix F27; before, it was counted and its time was the zero time) *)
  Definition stats_log_cb (toks : list ltoken) (st : nat * option time * time) (ev : event NM)
    : (nat * option time * time) * bool * option cerr :=
    match ev with
    | EErr e => (st, true, Some (EParse (perr_message e)))
    | ENode n =>
        let '(cnt, first, last) := st in
        match parse_date toks (header n) with
        | Some c =>
            let t := time_of_civil c in
            ((S cnt, match first with Some _ => first | None => Some t end, t), false, None)
        | None => (st, true, Some EBadDate)
        end
    end.

  Definition stats_db_cb (c : nat) (ev : event NM) : nat * bool * option cerr :=
    match ev with
    | EErr e => (c, true, Some (EParse (perr_message e)))
    | ENode _ => (S c, false, None)
    end.

  (** the records (headings with their entries) among a list of events *)
  Fixpoint nodes_of (evs : list (event NM)) : list (pnode NM) :=
    match evs with
    | [] => []
    | ENode n :: r => n :: nodes_of r
    | EErr _ :: r => nodes_of r
    end.

  Definition no_parse_error (evs : list (event NM)) : Prop :=
    forall e, ~ In (EErr e) evs.

  (** the heading dates: [None] where the heading does not parse under the layout (since fix F27 [stats]
      fails on such a log: the theorems about its report assume [all_dated], below) *)
  Definition heading_dates (toks : list ltoken) (ns : list (pnode NM)) : list (option (Z * Z * Z)) :=
    map (fun n => parse_date toks (header n)) ns.

  (** the first dated heading: the date of the first heading that parses ([None] when no heading does) *)
  Fixpoint stats_first_opt (ds : list (option (Z * Z * Z))) : option time :=
    match ds with
    | [] => None
    | Some c :: _ => Some (time_of_civil c)
    | None :: r => stats_first_opt r
    end.

  (** what [stats] shows as "first record": the first dated heading, whatever date it is (0001-01-01
      included); the zero time when the log has no dated heading *)
  Definition stats_first (ds : list (option (Z * Z * Z))) : time :=
    match stats_first_opt ds with Some t => t | None => zero_time end.

  (** "last record": the date of the last heading, the zero time when that heading does not parse
      (or there is no heading) *)
  Definition stats_last (ds : list (option (Z * Z * Z))) : time :=
    match last ds None with
    | Some c => time_of_civil c
    | None => zero_time
    end.

  (** the lines [stats] prints *)
  Definition stats_lines (op : options) (count_db count_log : nat) (first last : time) : list chunk :=
    let toks := rc_date (op_rc op) in
    let now := op_now op in
    let line (s : bytes) : chunk := (s ++ [c_lf], false) in
    [ line (b "  Database file:      " ++ op_db op);
      line (b "  Database records:   " ++ dec_of_N (N.of_nat count_db));
      line [];
      line (b "  Log file:           " ++ op_log op);
      line (b "  Log records:        " ++ dec_of_N (N.of_nat count_log));
      line (b "  Today:              " ++ format_date toks (civ now));
      line (b "  First record:       " ++ format_date toks (civ first) ++ b " ("
            ++ dec_of_Z (days_between now first) ++ b " days ago)");
      line (b "  Last record:        " ++ format_date toks (civ last) ++ b " ("
            ++ dec_of_Z (days_between now last) ++ b " days ago)") ].

  (** *** the selected days of a log file (what [walk_cb] hands to the reporter) *)
  Definition lognode_of (n : pnode NM) (c : Z * Z * Z) : lognode :=
    {| ln_time := time_of_civil c; ln_elems := merge_elements NM (elems n); ln_meta := meta n |}.

  Definition selected_days (toks : list ltoken) (bt et : option time) (ns : list (pnode NM)) : list lognode :=
    flat_map (fun n => match parse_date toks (header n) with
                       | Some c => if in_interval bt et (time_of_civil c) then [lognode_of n c] else []
                       | None => []
                       end) ns.

  (** every heading parses as a date under the layout *)
  Definition all_dated (toks : list ltoken) (ns : list (pnode NM)) : Prop :=
    Forall (fun n => parse_date toks (header n) <> None) ns.

  (** the bytes of a list of chunks *)
  Definition chunk_bytes (cs : list chunk) : bytes := concat (map fst cs).

  (** a reporter whose Process never returns an error *)
  Definition never_fails (R : reporter) : Prop :=
    forall π st ln, snd (r_process NM R π st ln) = None.
End Agree2Spec.
