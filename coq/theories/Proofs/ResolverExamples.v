(** WP01 – non-vacuity: concrete books (exact integers, [ZNum]) that meet the
    hypotheses of the theorems of ResolverRefine.v and exercise each mechanism:
    memo hits (diamond), the depth limit on both sides of the boundary, the
    in-progress mark (cycles), two visiting orders. *)
From Coq Require Import Lia Permutation.
From HP Require Import Base.Bytes Base.Num Model.Elements Model.Resolver Spec.ResolverSpec.
From HP Require Import Proofs.ResolverAssoc Proofs.ResolverRef Proofs.ResolverRefine.
Local Open Scope nat_scope.

Definition idp : list bytes -> list bytes := fun l => l.
Definition revp : list bytes -> list bytes := @rev bytes.

Lemma idp_perm : forall l, Permutation (idp l) l.
Proof. intros l. apply Permutation_refl. Qed.
Lemma revp_perm : forall l, Permutation (revp l) l.
Proof. intros l. apply Permutation_sym. apply Permutation_rev. Qed.
Lemma idp_oracle : order_oracle idp. Proof. exact idp_perm. Qed.
Lemma revp_oracle : order_oracle revp. Proof. exact revp_perm. Qed.

(** decide [NoDup] on concrete key lists *)
Fixpoint nodupb (l : list bytes) : bool :=
  match l with
  | [] => true
  | x :: r => negb (existsb (beq x) r) && nodupb r
  end.
Lemma nodup_keys_check : forall l : list bytes, nodupb l = true -> NoDup l.
Proof.
  induction l as [|x r IH]; cbn [nodupb]; intros H; constructor.
  - apply andb_true_iff in H. destruct H as [H _]. intros Hin.
    assert (He : existsb (beq x) r = true).
    { apply existsb_exists. exists x. split; [exact Hin|apply beq_refl]. }
    rewrite He in H. discriminate.
  - apply IH. apply andb_true_iff in H. apply H.
Qed.

(** * a diamond: [top] uses [a] and [bb], both use [c]; [c] is met twice, the
      second time through the memo.  The longest chain top -> a -> c -> x has 3 references. *)
Definition diamond : db ZNum :=
  [ (b "top", [(b "a", 2%Z); (b "bb", 3%Z)]);
    (b "a",   [(b "c", 5%Z); (b "salt", 1%Z)]);
    (b "bb",  [(b "c", 7%Z)]);
    (b "c",   [(b "x", 11%Z); (b "y", 13%Z)]) ].

Definition diamond_resolved : db ZNum :=
  [ (b "top", [(b "salt", 2%Z); (b "x", 341%Z); (b "y", 403%Z)]);
    (b "a",   [(b "salt", 1%Z); (b "x", 55%Z); (b "y", 65%Z)]);
    (b "bb",  [(b "x", 77%Z); (b "y", 91%Z)]);
    (b "c",   [(b "x", 11%Z); (b "y", 13%Z)]) ].

Example diamond_nodup : NoDup (keys diamond).
Proof. apply nodup_keys_check. vm_compute. reflexivity. Qed.

(** the hypotheses of the main theorems hold of it, for both orders *)
Example diamond_hyps :
  NoDup (keys diamond) /\ Permutation (idp (keys diamond)) (keys diamond)
  /\ Permutation (revp (keys diamond)) (keys diamond) /\ revp (keys diamond) <> idp (keys diamond).
Proof.
  split; [exact diamond_nodup|]. split; [apply idp_perm|]. split; [apply revp_perm|].
  vm_compute. discriminate.
Qed.

Example diamond_resolves_4 : resolve ZNum 4 idp diamond = Some diamond_resolved.
Proof. vm_compute. reflexivity. Qed.
Example diamond_resolves_4_rev : resolve ZNum 4 revp diamond = Some diamond_resolved.
Proof. vm_compute. reflexivity. Qed.
Example diamond_ref_db : ref_db ZNum diamond 4 = diamond_resolved.
Proof. vm_compute. reflexivity. Qed.
(** one reference too deep for limit 3 – in both orders ([revp] meets [c] first, memoised at height 1,
    and still fails when [top] is reached: this is the fixed finding F6) *)
Example diamond_fails_3 : resolve ZNum 3 idp diamond = None /\ resolve ZNum 3 revp diamond = None.
Proof. vm_compute. split; reflexivity. Qed.
Example diamond_depth : depth_ltb ZNum diamond 4 = true /\ depth_ltb ZNum diamond 3 = false.
Proof. vm_compute. split; reflexivity. Qed.

(** the same facts obtained from the theorems (they apply, and agree with the computation) *)
Example diamond_by_theorem :
  resolve ZNum 4 revp diamond = Some (ref_db ZNum diamond 4).
Proof.
  rewrite (resolve_outcome ZNum diamond 4 revp diamond_nodup (revp_perm _)).
  replace (depth_ltb ZNum diamond 4) with true by (vm_compute; reflexivity). reflexivity.
Qed.

Example diamond_chain_witness : exists r, In r (keys diamond) /\ reach ZNum diamond 3 r.
Proof.
  apply (resolve_fails_iff_chain ZNum diamond 3 revp diamond_nodup (revp_perm _)).
  vm_compute. reflexivity.
Qed.

(** * a chain r1 -> r2 -> r3 -> leaf: 3 references.  Limit 4 succeeds, limit 3 fails. *)
Definition chain3 : db ZNum :=
  [ (b "r1", [(b "r2", 2%Z)]); (b "r2", [(b "r3", 3%Z)]); (b "r3", [(b "leaf", 5%Z)]) ].

Example chain3_nodup : NoDup (keys chain3).
Proof. apply nodup_keys_check. vm_compute. reflexivity. Qed.

Example chain3_ok :
  resolve ZNum 4 idp chain3
  = Some [ (b "r1", [(b "leaf", 30%Z)]); (b "r2", [(b "leaf", 15%Z)]); (b "r3", [(b "leaf", 5%Z)]) ].
Proof. vm_compute. reflexivity. Qed.
Example chain3_fails : resolve ZNum 3 idp chain3 = None /\ resolve ZNum 3 revp chain3 = None.
Proof. vm_compute. split; reflexivity. Qed.
Example chain3_reach : reach ZNum chain3 3 (b "r1") /\ ~ reach ZNum chain3 4 (b "r1").
Proof.
  split; [apply reachb_spec; vm_compute; reflexivity|apply reachb_false_iff; vm_compute; reflexivity].
Qed.
Example chain3_ref_node :
  ref_node ZNum chain3 4 (b "r1") = Some (3, Some [(b "leaf", 30%Z)]) /\ ref_node ZNum chain3 3 (b "r1") = None.
Proof. vm_compute. split; reflexivity. Qed.

(** N = 0: fails on every non-empty book, succeeds (with nothing to do) on the empty one *)
Example limit_0 : resolve ZNum 0 idp chain3 = None /\ resolve ZNum 0 idp [] = Some [].
Proof. vm_compute. split; reflexivity. Qed.

(** * a 2-cycle (and a recipe outside it that uses it): fails for every limit and every order *)
Definition cyc2 : db ZNum :=
  [ (b "p", [(b "q", 2%Z); (b "w", 1%Z)]); (b "q", [(b "p", 3%Z)]); (b "u", [(b "q", 1%Z)]) ].

Example cyc2_on_cycle : on_cycle ZNum cyc2 (b "p").
Proof.
  apply (refs_trans ZNum cyc2 (b "p") (b "q") (b "p")).
  - apply (refs_one ZNum cyc2 (b "p") [(b "q", 2%Z); (b "w", 1%Z)] (b "q") 2%Z); [reflexivity|left; reflexivity].
  - apply (refs_one ZNum cyc2 (b "q") [(b "p", 3%Z)] (b "p") 3%Z); [reflexivity|left; reflexivity].
Qed.

Example cyc2_fails_all : forall N perm, Permutation (perm (keys cyc2)) (keys cyc2) -> resolve ZNum N perm cyc2 = None.
Proof. intros N perm Hp. eapply cyclic_resolve_fails; [exact cyc2_on_cycle|exact Hp]. Qed.

Example cyc2_fails_10 : resolve ZNum 10 idp cyc2 = None /\ resolve ZNum 10 revp cyc2 = None.
Proof. vm_compute. split; reflexivity. Qed.

(** a self-reference *)
Example self_cycle_fails : resolve ZNum 10 idp [ (b "s", [(b "s", 1%Z)]) ] = None.
Proof. vm_compute. reflexivity. Qed.

(** * two visiting orders, same result (computed, and by the theorem) *)
Example diamond_orders_agree : resolve ZNum 4 idp diamond = resolve ZNum 4 revp diamond.
Proof.
  exact (resolve_order_indep ZNum diamond 4 idp revp diamond_nodup (idp_perm _) (revp_perm _)).
Qed.

(** * the uniqueness hypothesis of the whole-book equality is necessary: with a
      repeated key (not constructible with [db_push]) [set] rewrites only the
      first entry, [ref_db] rewrites both.  The pointwise form
      [resolve_success_lookup] still holds. *)
Definition dupbook : db ZNum := [ (b "a", [(b "x", 1%Z); (b "x", 2%Z)]); (b "a", [(b "y", 1%Z)]) ].
Example dup_keys_differ :
  resolve ZNum 5 idp dupbook = Some [ (b "a", [(b "x", 3%Z)]); (b "a", [(b "y", 1%Z)]) ]
  /\ ref_db ZNum dupbook 5 = [ (b "a", [(b "x", 3%Z)]); (b "a", [(b "x", 3%Z)]) ].
Proof. vm_compute. split; reflexivity. Qed.

(** * [db_push] keeps keys unique: books built the way the parser builds them satisfy [NoDup] *)
Example pushed_book_nodup : forall (l : list (bytes * elements ZNum)),
    NoDup (keys (fold_left (fun d kv => db_push ZNum d (fst kv) (snd kv)) l [])).
Proof.
  intros l. assert (H : forall d, NoDup (keys d) ->
      NoDup (keys (fold_left (fun d kv => db_push ZNum d (fst kv) (snd kv)) l d))).
  { induction l as [|[k v] l IH]; intros d Hd; cbn [fold_left]; [exact Hd|].
    apply IH. unfold db_push. apply keys_set_nodup. exact Hd. }
  apply H. constructor.
Qed.

(** * acyclic books: any limit above the number of recipes succeeds *)
Example diamond_acyclic : forall c, ~ on_cycle ZNum diamond c.
Proof.
  intros c Hc. pose proof (cyclic_resolve_fails ZNum diamond c 4 idp Hc (idp_perm _)) as H.
  vm_compute in H. discriminate.
Qed.

Example diamond_resolves_above_size : forall N, 4 < N -> resolve ZNum N revp diamond = Some (ref_db ZNum diamond N).
Proof.
  intros N HN. apply acyclic_resolves; [exact diamond_nodup|apply revp_perm|exact diamond_acyclic|exact HN].
Qed.

(** order independence also for a book with a repeated key *)
Example dupbook_orders_agree : resolve ZNum 5 idp dupbook = resolve ZNum 5 revp dupbook.
Proof. apply resolve_order_indep_gen; [apply idp_perm|apply revp_perm]. Qed.
