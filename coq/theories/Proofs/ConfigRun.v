(** WP28, part 2: a whole configuration text.  [parse_config] on LF-joined lines is a function of
    the signatures of the lines that are not blank / comment lines ([text_sig]): hence blank
    lines, comment lines, blanks around the tokens, trailing comments and the letter case of
    section and variable names do not change the result.  What [CfgOk] implies about every line. *)
From Coq Require Import Lia ZifyBool ZifyN.
From HP Require Import Base.Bytes Model.Dates Model.Reporters Model.Config Model.Cli Spec.ConfigSpec.
From HP Require Import Proofs.ConfigLine.
Open Scope N_scope.

(** * cutting at LF *)
Lemma lf_free_cons : forall c l, lf_free (c :: l) = negb (c =? c_lf) && lf_free l.
Proof.
  intros c l. unfold lf_free, memb. cbn [existsb]. rewrite negb_orb. rewrite (N.eqb_sym c_lf c). reflexivity.
Qed.

Lemma split_on_lf_free : forall l, lf_free l = true -> split_on c_lf l = [l].
Proof.
  induction l as [|c l IH]; intros H; [reflexivity|].
  rewrite lf_free_cons in H. apply andb_true_iff in H as [H1 H2]. apply negb_true_iff in H1.
  cbn [split_on]. rewrite H1, (IH H2). reflexivity.
Qed.

Lemma split_on_line : forall l rest, lf_free l = true ->
  split_on c_lf (l ++ c_lf :: rest) = l :: split_on c_lf rest.
Proof.
  induction l as [|c l IH]; intros rest H.
  - cbn [app split_on]. rewrite N.eqb_refl. reflexivity.
  - rewrite lf_free_cons in H. apply andb_true_iff in H as [H1 H2]. apply negb_true_iff in H1.
    cbn [app split_on]. rewrite H1, (IH rest H2). reflexivity.
Qed.

Lemma split_on_join : forall ls, Forall (fun l => lf_free l = true) ls -> ls <> [] ->
  split_on c_lf (join [c_lf] ls) = ls.
Proof.
  induction ls as [|l r IH]; intros H Hne; [congruence|].
  inversion H as [|l0 r0 Hl Hr]; subst l0 r0.
  destruct r as [|l' r'].
  - cbn [join]. apply split_on_lf_free. exact Hl.
  - change (join [c_lf] (l :: l' :: r')) with (l ++ [c_lf] ++ join [c_lf] (l' :: r')).
    cbn [app]. rewrite (split_on_line l _ Hl). rewrite IH; [reflexivity|exact Hr|discriminate].
Qed.

Lemma split_on_terminated : forall ls, Forall (fun l => lf_free l = true) ls ->
  split_on c_lf (concat (map (fun l => l ++ [c_lf]) ls)) = ls ++ [[]].
Proof.
  induction ls as [|l r IH]; intros H; [reflexivity|].
  inversion H as [|l0 r0 Hl Hr]; subst l0 r0.
  cbn [map concat]. rewrite <- app_assoc. cbn [app].
  rewrite (split_on_line l _ Hl), (IH Hr). reflexivity.
Qed.

(** * the state after a list of lines *)
Fixpoint run_state (ls : list bytes) (s : section) (f : cfg_fields) : tri (section * cfg_fields) :=
  match ls with
  | [] => Val (s, f)
  | l :: r => match cfg_step s f l with
              | Val (s', f') => run_state r s' f'
              | Err => Err
              | Unm => Unm
              end
  end.

Definition result_of (x : tri (section * cfg_fields)) : cfg_result :=
  match x with Val (_, f) => CfgOk f | Err => CfgError | Unm => CfgUnmodelled end.

Lemma run_lines_state : forall ls s f, run_lines ls s f = result_of (run_state ls s f).
Proof.
  induction ls as [|l r IH]; intros s f; [reflexivity|].
  cbn [run_lines run_state]. destruct (cfg_step s f l) as [[s' f']| |]; [apply IH|reflexivity|reflexivity].
Qed.

Lemma run_state_app : forall a c s f,
  run_state (a ++ c) s f = match run_state a s f with
                           | Val (s', f') => run_state c s' f'
                           | Err => Err
                           | Unm => Unm
                           end.
Proof.
  induction a as [|l a IH]; intros c s f; [reflexivity|].
  cbn [app run_state]. destruct (cfg_step s f l) as [[s' f']| |]; [apply IH|reflexivity|reflexivity].
Qed.

(** * one step through the signature *)
Lemma lower_lower : forall c, lower (lower c) = lower c.
Proof. intros c. unfold lower. destruct ((65 <=? c) && (c <=? 90)) eqn:E; [|rewrite E; reflexivity].
  assert (E' : (65 <=? c + 32) && (c + 32 <=? 90) = false) by lia. rewrite E'. reflexivity. Qed.

Lemma lower_name_idem : forall n, lower_name (lower_name n) = lower_name n.
Proof. intros n. unfold lower_name. rewrite map_map. apply map_ext. apply lower_lower. Qed.

Lemma section_of_lower : forall n, section_of (lower_name n) = section_of n.
Proof. intros n. unfold section_of. rewrite lower_name_idem. reflexivity. Qed.

Lemma set_var_lower : forall s n v f, set_var s (lower_name n) v f = set_var s n v f.
Proof. intros s n v f. unfold set_var. rewrite lower_name_idem. reflexivity. Qed.

Definition step_sig (s : section) (f : cfg_fields) (k : line_sig) : tri (section * cfg_fields) :=
  match k with
  | KSkip => Val (s, f)
  | KErr => Err
  | KDecline => Unm
  | KSection ln => match section_of ln with Some s' => Val (s', f) | None => Err end
  | KVar ln v => tri_map (fun f' => (s, f')) (set_var s ln v f)
  end.

Lemma cfg_step_sig : forall s f l, cfg_step s f l = step_sig s f (line_sig_of l).
Proof.
  intros s f l. unfold cfg_step, line_sig_of. destruct (utf8_ok l); cbn [negb]; [|reflexivity].
  destruct (classify_line l) as [|n|n v| |]; cbn [step_sig]; try reflexivity.
  - rewrite section_of_lower. reflexivity.
  - rewrite set_var_lower. reflexivity.
Qed.

Fixpoint run_sigs (ks : list line_sig) (s : section) (f : cfg_fields) : tri (section * cfg_fields) :=
  match ks with
  | [] => Val (s, f)
  | k :: r => match step_sig s f k with
              | Val (s', f') => run_sigs r s' f'
              | Err => Err
              | Unm => Unm
              end
  end.

Lemma run_state_sigs : forall ls s f, run_state ls s f = run_sigs (map line_sig_of ls) s f.
Proof.
  induction ls as [|l r IH]; intros s f; [reflexivity|].
  cbn [run_state map run_sigs]. rewrite cfg_step_sig.
  destruct (step_sig s f (line_sig_of l)) as [[s' f']| |]; [apply IH|reflexivity|reflexivity].
Qed.

Lemma run_sigs_filter : forall ks s f,
  run_sigs (filter (fun k => negb (is_skip k)) ks) s f = run_sigs ks s f.
Proof.
  induction ks as [|k r IH]; intros s f; [reflexivity|].
  cbn [filter]. destruct k; cbn [is_skip negb]; cbn [run_sigs step_sig]; try rewrite IH; try reflexivity.
  - destruct (section_of lname); [apply IH|reflexivity].
  - destruct (set_var s lname value f); cbn [tri_map]; [apply IH|reflexivity|reflexivity].
Qed.

(** * a text is read through its signature *)
Theorem parse_config_lines : forall ls, Forall (fun l => lf_free l = true) ls ->
  parse_config (join [c_lf] ls) = result_of (run_sigs (text_sig ls) SNone no_fields).
Proof.
  intros ls H. unfold parse_config, text_sig. rewrite run_lines_state, run_sigs_filter.
  destruct ls as [|l r].
  - reflexivity.
  - rewrite split_on_join by (exact H || discriminate). rewrite run_state_sigs. reflexivity.
Qed.

Theorem parse_config_by_sig : forall ls1 ls2,
  Forall (fun l => lf_free l = true) ls1 -> Forall (fun l => lf_free l = true) ls2 ->
  text_sig ls1 = text_sig ls2 ->
  parse_config (join [c_lf] ls1) = parse_config (join [c_lf] ls2).
Proof. intros ls1 ls2 H1 H2 E. rewrite (parse_config_lines ls1 H1), (parse_config_lines ls2 H2), E. reflexivity. Qed.

(** * layout *)

(** every line respelled: blanks before / inside / after the tokens, a trailing comment or none,
    other letter case in section and variable names *)
Theorem parse_config_layout : forall ls1 ls2,
  Forall (fun l => lf_free l = true) ls1 -> Forall (fun l => lf_free l = true) ls2 ->
  Forall2 same_line ls1 ls2 ->
  parse_config (join [c_lf] ls1) = parse_config (join [c_lf] ls2).
Proof.
  intros ls1 ls2 H1 H2 H. apply parse_config_by_sig; [exact H1|exact H2|].
  unfold text_sig. f_equal. clear H1 H2.
  induction H as [|l l' r r' Hl Hr IH]; [reflexivity|].
  cbn [map]. rewrite (same_line_sig l l' Hl), IH. reflexivity.
Qed.

Lemma text_sig_app : forall a c, text_sig (a ++ c) = text_sig a ++ text_sig c.
Proof. intros a c. unfold text_sig. rewrite map_app, filter_app. reflexivity. Qed.

(** a blank line or a comment line anywhere, more or fewer of them *)
Theorem parse_config_skip_line : forall ls1 l ls2,
  Forall (fun x => lf_free x = true) ls1 -> lf_free l = true -> Forall (fun x => lf_free x = true) ls2 ->
  skippable l ->
  parse_config (join [c_lf] (ls1 ++ l :: ls2)) = parse_config (join [c_lf] (ls1 ++ ls2)).
Proof.
  intros ls1 l ls2 H1 Hl H2 Hs. apply parse_config_by_sig.
  - apply Forall_app. split; [exact H1|]. constructor; assumption.
  - apply Forall_app. split; assumption.
  - rewrite !text_sig_app. f_equal. unfold text_sig. cbn [map filter].
    rewrite (line_sig_skippable l Hs). reflexivity.
Qed.

(** * what [CfgOk] says about the lines *)

Lemma set_var_ok_inv : forall s n v f f', set_var s n v f = Val f' ->
  (exists x, v = Some x) /\ known_variable (lower_name n) = true /\ (s = SGlobal \/ s = SResolver).
Proof.
  intros s n v f f' H. unfold set_var in H. unfold known_variable.
  destruct s; try discriminate H; (destruct v as [x|]; [|discriminate H]).
  - split; [exists x; reflexivity|]. split; [|left; reflexivity].
    destruct (beq (lower_name n) (b "dbfilename")) eqn:E1; [rewrite ?orb_true_r; reflexivity|].
    destruct (beq (lower_name n) (b "logfilename")) eqn:E2; [rewrite ?orb_true_r; reflexivity|].
    destruct (beq (lower_name n) (b "dateformat")) eqn:E3; [rewrite ?orb_true_r; reflexivity|].
    destruct (beq (lower_name n) (b "now")) eqn:E4; [reflexivity|discriminate H].
  - split; [exists x; reflexivity|]. split; [|right; reflexivity].
    destruct (beq (lower_name n) (b "maxdepth")) eqn:E1; [rewrite ?orb_true_r; reflexivity|discriminate H].
Qed.

(** the lines of a text that is read without error *)
Definition line_accepted (l : bytes) : Prop :=
  utf8_ok l = true /\
  match classify_line l with
  | LBlank => True
  | LSection n => section_of n <> None
  | LVar n (Some _) => known_variable (lower_name n) = true
  | _ => False
  end.

Lemma cfg_step_ok_inv : forall s f l x, cfg_step s f l = Val x -> line_accepted l.
Proof.
  intros s f l x H. unfold cfg_step in H. unfold line_accepted.
  destruct (utf8_ok l); cbn [negb] in H; [|discriminate H]. split; [reflexivity|].
  destruct (classify_line l) as [|n|n v| |]; try discriminate H; try exact I.
  - destruct (section_of n); [discriminate|discriminate H].
  - destruct (set_var s n v f) as [f'| |] eqn:E; cbn [tri_map] in H; try discriminate H.
    destruct (set_var_ok_inv s n v f f' E) as [[x0 ->] [Hk _]]. exact Hk.
Qed.

Lemma run_state_ok_inv : forall ls s f x, run_state ls s f = Val x -> Forall line_accepted ls.
Proof.
  induction ls as [|l r IH]; intros s f x H; [constructor|].
  cbn [run_state] in H. destruct (cfg_step s f l) as [[s1 f1]| |] eqn:E; try discriminate H.
  constructor; [exact (cfg_step_ok_inv s f l _ E)|exact (IH _ _ _ H)].
Qed.

Lemma parse_config_join : forall ls, Forall (fun l => lf_free l = true) ls -> ls <> [] ->
  parse_config (join [c_lf] ls) = result_of (run_state ls SNone no_fields).
Proof. intros ls H Hne. unfold parse_config. rewrite run_lines_state, split_on_join by assumption. reflexivity. Qed.

Theorem parse_config_ok_lines : forall ls e, Forall (fun l => lf_free l = true) ls ->
  parse_config (join [c_lf] ls) = CfgOk e -> Forall line_accepted ls.
Proof.
  intros ls e H E. destruct ls as [|l r]; [constructor|].
  rewrite parse_config_join in E by (exact H || discriminate).
  destruct (run_state (l :: r) SNone no_fields) as [[s f]| |] eqn:R; try discriminate E.
  exact (run_state_ok_inv _ _ _ _ R).
Qed.

(** a variable line whose name is none of the five is never read as [CfgOk], wherever it stands;
    the same for a name without '=' *)
Theorem unknown_variable_never_ok : forall ls1 l ls2 n v e,
  Forall (fun x => lf_free x = true) ls1 -> lf_free l = true -> Forall (fun x => lf_free x = true) ls2 ->
  classify_line l = LVar n v ->
  known_variable (lower_name n) = false \/ v = None ->
  parse_config (join [c_lf] (ls1 ++ l :: ls2)) <> CfgOk e.
Proof.
  intros ls1 l ls2 n v e H1 Hl H2 Hc Hk E.
  assert (HF : Forall (fun x => lf_free x = true) (ls1 ++ l :: ls2)).
  { apply Forall_app. split; [exact H1|]. constructor; assumption. }
  pose proof (parse_config_ok_lines _ e HF E) as HA.
  apply Forall_app in HA as [_ HA]. inversion HA as [|l0 r0 [_ Hm] _]; subst l0 r0.
  rewrite Hc in Hm. destruct v as [x|]; [|exact Hm].
  destruct Hk as [Hk|Hk]; [rewrite Hk in Hm; discriminate Hm|discriminate Hk].
Qed.

(** a variable line before any section header, and a known variable under the header of the other
    section, are errors *)
Lemma set_var_section : forall s n v f f', set_var s n v f = Val f' ->
  (s = SGlobal /\ lower_name n <> b "maxdepth") \/ (s = SResolver /\ lower_name n = b "maxdepth").
Proof.
  intros s n v f f' H. unfold set_var in H.
  destruct s; try discriminate H; (destruct v as [x|]; [|discriminate H]).
  - left. split; [reflexivity|]. intros C. rewrite C in H. cbn in H. discriminate H.
  - right. split; [reflexivity|].
    destruct (beq (lower_name n) (b "maxdepth")) eqn:E1; [apply beq_true_iff; exact E1|discriminate H].
Qed.

(** [parse_config] is a function: exactly one of the three answers *)
Theorem parse_config_total : forall data,
  {f | parse_config data = CfgOk f} + {parse_config data = CfgError} + {parse_config data = CfgUnmodelled}.
Proof.
  intros data. destruct (parse_config data) as [f| |]; [left; left; exists f; reflexivity|left; right; reflexivity|right; reflexivity].
Qed.
