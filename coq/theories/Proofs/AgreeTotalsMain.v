(** WP10 / C07 part 1: the agreement theorems. *)
From Coq Require Import Lia Permutation.
From HP Require Import Base.Bytes Base.Num Model.Elements Model.Tree Model.Reporters Spec.AgreeSpec.
From HP Require Import Proofs.AgreeTotals Proofs.AgreeTotalsAcc.

Section Main.
  Context (NM : Num).
  Notation T := (T NM).
  Notation elements := (elements NM).
  Notation db := (list (bytes * elements)).
  Notation lognode := (lognode NM).
  Notation oracle := (list bytes -> list bytes).
  Notation accumulator := (accumulator NM).

  Implicit Types (x name : bytes) (v : T) (cs : elements) (acc : accumulator) (d : db) (ln : lognode)
                 (L : list lognode) (c : rconfig) (π πf : oracle) (πd : nat -> oracle).

  (** * The walk; the oracle is ignored by these reporters *)

  Lemma walk_const_fold : forall (R : reporter NM) π L,
    walk NM R (fun _ => π) L = fold_left (fun st ln => fst (fst (r_process NM R π st ln))) L (r_init NM R).
  Proof.
    intros R π L. unfold walk. generalize (r_init NM R) as st. generalize O as i.
    induction L as [|ln r IH]; intros i st; [reflexivity|]. cbn [walk_from fold_left]. apply IH.
  Qed.

  Lemma rep_totals_ignores_oracle : forall d π1 π2 st ln,
    r_process NM (rep_totals NM d) π1 st ln = r_process NM (rep_totals NM d) π2 st ln.
  Proof. reflexivity. Qed.
  Lemma rep_single_ignores_oracle : forall c d π1 π2 st ln,
    r_process NM (rep_single NM c d) π1 st ln = r_process NM (rep_single NM c d) π2 st ln.
  Proof. reflexivity. Qed.
  Lemma rep_byfood_ignores_oracle : forall c d π1 π2 st ln,
    r_process NM (rep_byfood NM c d) π1 st ln = r_process NM (rep_byfood NM c d) π2 st ln.
  Proof. reflexivity. Qed.
  Lemma rep_balance_single_ignores_oracle : forall c d π1 π2 st ln,
    r_process NM (rep_balance_single NM c d) π1 st ln = r_process NM (rep_balance_single NM c d) π2 st ln.
  Proof. reflexivity. Qed.

  Lemma walk_ext : forall (R : reporter NM) πd πd' L,
    (forall i st ln, r_process NM R (πd i) st ln = r_process NM R (πd' i) st ln) ->
    walk NM R πd L = walk NM R πd' L.
  Proof.
    intros R πd πd' L H. unfold walk. generalize (r_init NM R) as st. generalize O as i.
    induction L as [|ln r IH]; intros i st; [reflexivity|]. cbn [walk_from]. rewrite H. apply IH.
  Qed.

  (** the state these four reporters reach does not depend on the per-day oracles *)
  Theorem walk_oracle_independent : forall c d πd πd' L,
    walk NM (rep_totals NM d) πd L = walk NM (rep_totals NM d) πd' L
    /\ walk NM (rep_single NM c d) πd L = walk NM (rep_single NM c d) πd' L
    /\ walk NM (rep_byfood NM c d) πd L = walk NM (rep_byfood NM c d) πd' L
    /\ walk NM (rep_balance_single NM c d) πd L = walk NM (rep_balance_single NM c d) πd' L.
  Proof. intros c d πd πd' L. repeat split; apply walk_ext; reflexivity. Qed.

  Lemma walk_from_totals : forall d πd L i acc,
    walk_from NM (rep_totals NM d) πd i L acc = fold_acc NM (flat_map (contributions NM d) L) acc.
  Proof.
    intros d πd L. induction L as [|ln r IH]; intros i acc; [reflexivity|].
    cbn [walk_from flat_map]. rewrite fold_acc_app. rewrite IH. reflexivity.
  Qed.

  (** law-free: the state of [report totals] after the walk is the accumulator of all the
      contributions of the period, in day order *)
  Theorem walk_totals : forall d πd L,
    walk NM (rep_totals NM d) πd L = accumulate NM (flat_map (contributions NM d) L).
  Proof. intros. unfold walk. apply walk_from_totals. Qed.

  Lemma walk_from_byfood : forall c d πd L i acc,
    walk_from NM (rep_byfood NM c d) πd i L acc
    = fold_acc NM (flat_map (byfood_contributions NM d (rc_single_element c)) L) acc.
  Proof.
    intros c d πd L. induction L as [|ln r IH]; intros i acc; [reflexivity|].
    cbn [walk_from flat_map]. rewrite fold_acc_app. rewrite IH. reflexivity.
  Qed.

  Theorem walk_byfood : forall c d πd L,
    walk NM (rep_byfood NM c d) πd L
    = accumulate NM (flat_map (byfood_contributions NM d (rc_single_element c)) L).
  Proof. intros. unfold walk. apply walk_from_byfood. Qed.

  Lemma fold_add_snd : forall cs a,
    fold_left (fun a nv => add NM a (snd nv)) cs a = fold_left (add NM) (map snd cs) a.
  Proof. intros cs. induction cs as [|nv r IH]; intros a; [reflexivity|]. cbn. apply IH. Qed.

  Lemma walk_from_bal_single_snd : forall c d πd L i st,
    snd (walk_from NM (rep_balance_single NM c d) πd i L st)
    = fold_left (add NM) (map snd (flat_map (bal_single_contributions NM d (rc_single_element c)) L)) (snd st).
  Proof.
    intros c d πd L. induction L as [|ln r IH]; intros i st; [reflexivity|].
    cbn [walk_from flat_map]. rewrite IH. cbn [r_process rep_balance_single fst snd].
    rewrite map_app, fold_left_app, fold_add_snd. reflexivity.
  Qed.

  (** law-free: the grand total of [balance -s x] is the plain left-to-right sum of the
      values of [x] among the period's contributions *)
  Theorem bal_single_total_is_sum : forall c πd d L,
    bal_single_grand_total NM c πd d L
    = sum NM (map snd (named NM (rc_single_element c) (flat_map (contributions NM d) L))).
  Proof.
    intros c πd d L. unfold bal_single_grand_total, walk. rewrite walk_from_bal_single_snd.
    cbn [r_init rep_balance_single snd]. unfold sum. f_equal.
    rewrite named_flat_map, !flat_map_concat_map, !concat_map, !map_map. f_equal.
    apply map_ext. intros ln. apply bal_single_values_are_filter.
  Qed.

  (** * The figures of one day *)

  (** law-free: the register's row of [x] for a day is the accumulator entry of [x] *)
  Lemma day_row_lookup : forall c π d x ln, rc_totals c = true -> keeps_keys π ->
    day_row NM c π d x ln = lookup x (accumulate NM (contributions NM d ln)).
  Proof.
    intros c π d x ln Ht Hπ. unfold day_row, get_report_item. cbn [ri_totals]. rewrite Ht.
    apply row_of_totals. exact Hπ.
  Qed.

  Lemma fold_step_some_some : forall x cs pn, exists pn', fold_left (step NM x) cs (Some pn) = Some pn'.
  Proof.
    intros x cs. induction cs as [|nv r IH]; intros pn; [eexists; reflexivity|].
    cbn [fold_left]. unfold step at 2. destruct (beq (fst nv) x); apply IH.
  Qed.

  Lemma fold_step_occurs_some : forall x cs, occurs_in NM x cs = true ->
    exists pn, fold_left (step NM x) cs None = Some pn.
  Proof.
    intros x cs. unfold occurs_in. induction cs as [|nv r IH]; intros H; [discriminate|].
    cbn [existsb] in H. cbn [fold_left]. unfold step at 2. destruct (beq (fst nv) x).
    - apply fold_step_some_some.
    - apply IH. exact H.
  Qed.

  (** law-free: a name that occurs has an entry *)
  Lemma lookup_accumulate_occurs : forall x cs, occurs_in NM x cs = true ->
    exists pn, lookup x (accumulate NM cs) = Some pn.
  Proof.
    intros x cs H. rewrite accumulate_fold_acc, lookup_fold_acc. cbn [lookup].
    apply fold_step_occurs_some. exact H.
  Qed.

  Lemma lookup_accumulate_absent : forall x cs, occurs_in NM x cs = false ->
    lookup x (accumulate NM cs) = None.
  Proof.
    intros x cs H. rewrite accumulate_fold_acc, lookup_fold_acc. cbn [lookup].
    apply fold_step_none_absent. exact H.
  Qed.

  (** law-free: the [reg -s x] row of a day *)
  Lemma single_row_lookup : forall d x ln,
    single_row NM d x ln
    = if occurs_in NM x (contributions NM d ln)
      then Some (lookup x (accumulate NM (contributions NM d ln))) else None.
  Proof.
    intros d x ln. unfold single_row. rewrite single_contributions_is_filter.
    destruct (occurs_in NM x (contributions NM d ln)) eqn:E.
    - destruct (accumulate NM (named NM x (contributions NM d ln))) as [|e acc'] eqn:Ea.
      + exfalso. apply accumulate_nil_iff in Ea. apply occurs_in_named_nil in Ea. congruence.
      + rewrite <- Ea. rewrite lookup_accumulate_named. reflexivity.
    - apply occurs_in_named_nil in E. rewrite E. reflexivity.
  Qed.

  (** the lookup that would be an index-out-of-range panic in singleReporter always succeeds *)
  Theorem single_row_never_panics : forall d x ln, single_row NM d x ln <> Some None.
  Proof.
    intros d x ln. rewrite single_row_lookup.
    destruct (occurs_in NM x (contributions NM d ln)) eqn:E; [|discriminate].
    destruct (lookup_accumulate_occurs _ _ E) as [pn Hpn]. rewrite Hpn. discriminate.
  Qed.

  (** hence [rep_single] never reaches its panic state *)
  Theorem rep_single_never_panics : forall c d πd L,
    r_panic NM (rep_single NM c d) (walk NM (rep_single NM c d) πd L) = None.
  Proof.
    intros c d πd L. unfold walk.
    assert (forall i st, st = None -> walk_from NM (rep_single NM c d) πd i L st = None) as H.
    { induction L as [|ln r IH]; intros i st Hst; [exact Hst|].
      cbn [walk_from]. apply IH. cbn [r_process rep_single].
      pose proof (single_row_never_panics d (rc_single_element c) ln) as Hnp.
      destruct (single_row NM d (rc_single_element c) ln) as [[[p n]|]|]; cbn [fst]; try exact Hst.
      congruence. }
    rewrite (H O (r_init NM (rep_single NM c d)) eq_refl). reflexivity.
  Qed.

  (** law-free (holds at binary64): the [reg -s x] row of a day shows exactly the (positive,
      negative) figures of [x] in that day's register totals; no row iff [x] does not occur *)
  Theorem single_row_is_day_row : forall c π d x ln, rc_totals c = true -> keeps_keys π ->
    single_row NM d x ln = option_map Some (day_row NM c π d x ln).
  Proof.
    intros c π d x ln Ht Hπ. rewrite single_row_lookup, (day_row_lookup c π d x ln Ht Hπ).
    destruct (occurs_in NM x (contributions NM d ln)) eqn:E.
    - destruct (lookup_accumulate_occurs _ _ E) as [pn Hpn]. rewrite Hpn. reflexivity.
    - rewrite (lookup_accumulate_absent _ _ E). reflexivity.
  Qed.

  Corollary single_figures_is_day_row : forall c π d x ln, rc_totals c = true -> keeps_keys π ->
    single_figures NM d x ln = day_row NM c π d x ln.
  Proof.
    intros c π d x ln Ht Hπ. unfold single_figures. rewrite (single_row_is_day_row c π d x ln Ht Hπ).
    destruct (day_row NM c π d x ln); reflexivity.
  Qed.

  (** * Sums under the monoid laws *)
  Section Laws.
    Hypothesis AM : AddMonoid NM.

    Let add_0_l := am_0_l NM AM.
    Let add_comm := am_comm NM AM.
    Let add_assoc := am_assoc NM AM.

    Lemma add_0_r : forall v, add NM v (zero NM) = v.
    Proof. intros v. rewrite add_comm. apply add_0_l. Qed.

    (** uses: associativity, right zero (= left zero + commutativity) *)
    Lemma fold_add_shift : forall (l : list T) a, fold_left (add NM) l a = add NM a (sum NM l).
    Proof.
      intros l. unfold sum. induction l as [|v r IH]; intros a; cbn [fold_left].
      - symmetry. apply add_0_r.
      - rewrite IH. rewrite (IH (add NM (zero NM) v)). rewrite add_0_l. symmetry. apply add_assoc.
    Qed.

    Lemma sum_cons : forall v (l : list T), sum NM (v :: l) = add NM v (sum NM l).
    Proof. intros v l. unfold sum at 1. cbn [fold_left]. rewrite add_0_l. apply fold_add_shift. Qed.

    Lemma sum_app : forall (l1 l2 : list T), sum NM (l1 ++ l2) = add NM (sum NM l1) (sum NM l2).
    Proof. intros l1 l2. unfold sum at 1. rewrite fold_left_app. apply fold_add_shift. Qed.

    Lemma sum_nil : sum NM [] = zero NM.
    Proof. reflexivity. Qed.

    Lemma sum_concat_map : forall {A} (f : A -> list T) (l : list A),
      sum NM (flat_map f l) = sum NM (map (fun a => sum NM (f a)) l).
    Proof.
      intros A f l. induction l as [|a r IH]; [reflexivity|].
      cbn [flat_map map]. rewrite sum_app, sum_cons, IH. reflexivity.
    Qed.

    (** uses commutativity and associativity in earnest: a list splits into the two routes *)
    Lemma sum_partition : forall (f : T -> bool) (l : list T),
      sum NM l = add NM (sum NM (filter (fun v => negb (f v)) l)) (sum NM (filter f l)).
    Proof.
      intros f l. induction l as [|v r IH]; [cbn; symmetry; apply add_0_l|].
      rewrite sum_cons, IH. cbn [filter]. destruct (f v); cbn [negb]; rewrite sum_cons.
      - set (P := sum NM (filter (fun v0 => negb (f v0)) r)). set (N := sum NM (filter f r)).
        rewrite (add_assoc v P N), (add_comm v P), <- (add_assoc P v N). reflexivity.
      - apply add_assoc.
    Qed.

    Lemma pos_sum_app : forall x cs1 cs2, pos_sum NM (cs1 ++ cs2) x = add NM (pos_sum NM cs1 x) (pos_sum NM cs2 x).
    Proof. intros. unfold pos_sum. rewrite named_app, map_app, filter_app. apply sum_app. Qed.

    Lemma neg_sum_app : forall x cs1 cs2, neg_sum NM (cs1 ++ cs2) x = add NM (neg_sum NM cs1 x) (neg_sum NM cs2 x).
    Proof. intros. unfold neg_sum. rewrite named_app, map_app, filter_app. apply sum_app. Qed.

    Lemma pos_sum_flat_map : forall {A} x (f : A -> elements) (l : list A),
      pos_sum NM (flat_map f l) x = sum NM (map (fun a => pos_sum NM (f a) x) l).
    Proof.
      intros A x f l. induction l as [|a r IH]; [reflexivity|].
      cbn [flat_map map]. rewrite pos_sum_app, sum_cons, IH. reflexivity.
    Qed.

    Lemma neg_sum_flat_map : forall {A} x (f : A -> elements) (l : list A),
      neg_sum NM (flat_map f l) x = sum NM (map (fun a => neg_sum NM (f a) x) l).
    Proof.
      intros A x f l. induction l as [|a r IH]; [reflexivity|].
      cbn [flat_map map]. rewrite neg_sum_app, sum_cons, IH. reflexivity.
    Qed.

    Lemma pos_neg_sum_total : forall x cs,
      add NM (pos_sum NM cs x) (neg_sum NM cs x) = sum NM (map snd (named NM x cs)).
    Proof. intros x cs. unfold pos_sum, neg_sum. symmetry. apply sum_partition. Qed.

    (** ** the accumulator *)

    (** uses only [add zero v = v] *)
    Theorem acc_add_spec : forall x cs,
      lookup x (accumulate NM cs)
      = if occurs_in NM x cs then Some (pos_sum NM cs x, neg_sum NM cs x) else None.
    Proof. intros x cs. rewrite accumulate_fold_acc. apply lookup_fold_acc_nil. exact add_0_l. Qed.

    (** threaded over the days: the entry of [x] in [report totals]' state after the walk *)
    Theorem acc_add_spec_threaded : forall d πd x L,
      lookup x (walk NM (rep_totals NM d) πd L)
      = if occurs_in NM x (flat_map (contributions NM d) L)
        then Some (pos_sum NM (flat_map (contributions NM d) L) x, neg_sum NM (flat_map (contributions NM d) L) x)
        else None.
    Proof. intros d πd x L. rewrite walk_totals. apply acc_add_spec. Qed.

    (** ** one day *)
    Lemma day_row_spec : forall c π d x ln, rc_totals c = true -> keeps_keys π ->
      day_row NM c π d x ln
      = if occurs_in NM x (contributions NM d ln)
        then Some (pos_sum NM (contributions NM d ln) x, neg_sum NM (contributions NM d ln) x) else None.
    Proof. intros c π d x ln Ht Hπ. rewrite (day_row_lookup c π d x ln Ht Hπ). apply acc_add_spec. Qed.

    Lemma pos_sum_absent : forall x cs, occurs_in NM x cs = false -> pos_sum NM cs x = zero NM.
    Proof. intros x cs H. apply occurs_in_named_nil in H. unfold pos_sum. rewrite H. reflexivity. Qed.
    Lemma neg_sum_absent : forall x cs, occurs_in NM x cs = false -> neg_sum NM cs x = zero NM.
    Proof. intros x cs H. apply occurs_in_named_nil in H. unfold neg_sum. rewrite H. reflexivity. Qed.

    Lemma day_pos_spec : forall c π d x ln, rc_totals c = true -> keeps_keys π ->
      day_pos NM c π d x ln = pos_sum NM (contributions NM d ln) x.
    Proof.
      intros c π d x ln Ht Hπ. unfold day_pos. rewrite (day_row_spec c π d x ln Ht Hπ).
      destruct (occurs_in NM x (contributions NM d ln)) eqn:E; cbn; [reflexivity|].
      symmetry. apply pos_sum_absent. exact E.
    Qed.

    Lemma day_neg_spec : forall c π d x ln, rc_totals c = true -> keeps_keys π ->
      day_neg NM c π d x ln = neg_sum NM (contributions NM d ln) x.
    Proof.
      intros c π d x ln Ht Hπ. unfold day_neg. rewrite (day_row_spec c π d x ln Ht Hπ).
      destruct (occurs_in NM x (contributions NM d ln)) eqn:E; cbn; [reflexivity|].
      symmetry. apply neg_sum_absent. exact E.
    Qed.

    (** the day's figures do not depend on the order the runtime delivers the map keys *)
    Theorem day_row_oracle_independent : forall c π1 π2 d x ln, rc_totals c = true ->
      keeps_keys π1 -> keeps_keys π2 -> day_row NM c π1 d x ln = day_row NM c π2 d x ln.
    Proof.
      intros c π1 π2 d x ln Ht H1 H2.
      rewrite (day_row_lookup c π1 d x ln Ht H1), (day_row_lookup c π2 d x ln Ht H2). reflexivity.
    Qed.

    (** ** the period *)
    Lemma period_row_spec : forall πf πd d x L, keeps_keys πf ->
      period_row NM πf πd d x L
      = if occurs_in_period NM d x L
        then Some (sum NM (map (fun ln => pos_sum NM (contributions NM d ln) x) L),
                   sum NM (map (fun ln => neg_sum NM (contributions NM d ln) x) L))
        else None.
    Proof.
      intros πf πd d x L Hπ. unfold period_row, period_rows. rewrite (row_of_totals NM πf x _ Hπ).
      rewrite acc_add_spec_threaded, occurs_in_flat_map, pos_sum_flat_map, neg_sum_flat_map. reflexivity.
    Qed.

    (** period totals = Σ over the days of the register's daily totals.
        Laws: all three (re-association across days needs associativity and a right zero). *)
    Theorem totals_eq_sum_daily_gen : forall c π πf πd d x L,
      rc_totals c = true -> keeps_keys π -> keeps_keys πf ->
      period_row NM πf πd d x L
      = if occurs_in_period NM d x L
        then Some (sum NM (map (day_pos NM c π d x) L), sum NM (map (day_neg NM c π d x) L))
        else None.
    Proof.
      intros c π πf πd d x L Ht Hπ Hπf. rewrite (period_row_spec πf πd d x L Hπf).
      destruct (occurs_in_period NM d x L); [|reflexivity].
      f_equal. f_equal; f_equal; apply map_ext; intros ln; symmetry.
      - apply day_pos_spec; assumption.
      - apply day_neg_spec; assumption.
    Qed.

    Lemma map_combine_seq : forall {A B} (g : A -> B) (l : list A) s,
      map (fun il => g (snd il)) (combine (seq s (length l)) l) = map g l.
    Proof.
      intros A B g l. induction l as [|a r IH]; intros s; [reflexivity|].
      cbn [length seq combine map snd]. f_equal. apply IH.
    Qed.

    (** the same with each day's figures computed under that day's own oracle, as in the real walk *)
    Theorem totals_eq_sum_daily_indexed : forall c πd' πf πd d x L,
      rc_totals c = true -> (forall i, keeps_keys (πd' i)) -> keeps_keys πf ->
      period_row NM πf πd d x L
      = if occurs_in_period NM d x L
        then Some (sum NM (map (fun il => day_pos NM c (πd' (fst il)) d x (snd il)) (combine (seq 0 (length L)) L)),
                   sum NM (map (fun il => day_neg NM c (πd' (fst il)) d x (snd il)) (combine (seq 0 (length L)) L)))
        else None.
    Proof.
      intros c πd' πf πd d x L Ht Hπ Hπf. rewrite (period_row_spec πf πd d x L Hπf).
      destruct (occurs_in_period NM d x L); [|reflexivity].
      f_equal. f_equal; f_equal.
      - rewrite <- (map_combine_seq (fun ln => pos_sum NM (contributions NM d ln) x) L 0).
        apply map_ext. intros [i ln]. cbn [fst snd]. symmetry. apply day_pos_spec; [assumption|apply Hπ].
      - rewrite <- (map_combine_seq (fun ln => neg_sum NM (contributions NM d ln) x) L 0).
        apply map_ext. intros [i ln]. cbn [fst snd]. symmetry. apply day_neg_spec; [assumption|apply Hπ].
    Qed.

    (** period totals = Σ of the [reg -s x] rows *)
    Theorem totals_eq_sum_single_gen : forall πf πd d x L, keeps_keys πf ->
      period_row NM πf πd d x L
      = if occurs_in_period NM d x L
        then Some (sum NM (map (single_pos NM d x) L), sum NM (map (single_neg NM d x) L))
        else None.
    Proof.
      intros πf πd d x L Hπf.
      set (c := {| rc_color := false; rc_totals_only := false; rc_totals := true; rc_date := [];
                   rc_single_element := []; rc_single_food := []; rc_collapse_last := false;
                   rc_collapse := false; rc_group_food := false; rc_shorten := false; rc_old := false;
                   rc_template := []; rc_csv := false |}).
      assert (keeps_keys (fun l : list bytes => l)) as Hid by (intros l y Hy; exact Hy).
      rewrite (totals_eq_sum_daily_gen c (fun l => l) πf πd d x L eq_refl Hid Hπf).
      destruct (occurs_in_period NM d x L); [|reflexivity].
      f_equal. f_equal; f_equal; apply map_ext; intros ln.
      - unfold day_pos, single_pos. rewrite (single_figures_is_day_row c (fun l => l) d x ln eq_refl Hid). reflexivity.
      - unfold day_neg, single_neg. rewrite (single_figures_is_day_row c (fun l => l) d x ln eq_refl Hid). reflexivity.
    Qed.

    (** ** the single-element balance *)
    Theorem bal_single_total_eq_totals_gen : forall c πf πd πd' d L, keeps_keys πf ->
      bal_single_grand_total NM c πd d L
      = match period_row NM πf πd' d (rc_single_element c) L with
        | Some (p, n) => add NM p n
        | None => zero NM
        end.
    Proof.
      intros c πf πd πd' d L Hπf. rewrite bal_single_total_is_sum.
      unfold period_row, period_rows. rewrite (row_of_totals NM πf _ _ Hπf), acc_add_spec_threaded.
      set (x := rc_single_element c). set (cs := flat_map (contributions NM d) L).
      destruct (occurs_in NM x cs) eqn:E.
      - symmetry. apply pos_neg_sum_total.
      - apply occurs_in_named_nil in E. rewrite E. reflexivity.
    Qed.

    (** the same figure read off the "sum" column of the period totals row *)
    Theorem bal_single_total_eq_sum_column_gen : forall c πf πd πd' d L, keeps_keys πf ->
      bal_single_grand_total NM c πd d L
      = match row_total_of NM (rc_single_element c) (period_rows NM πf πd' d L) with
        | Some s => s
        | None => zero NM
        end.
    Proof.
      intros c πf πd πd' d L Hπf. rewrite (bal_single_total_eq_totals_gen c πf πd πd' d L Hπf).
      unfold period_row, period_rows. rewrite (row_total_of_row_of NM πf _ _ Hπf).
      destruct (row_of NM (rc_single_element c) (totals_of_acc NM πf (walk NM (rep_totals NM d) πd' L))) as [[p n]|];
        reflexivity.
    Qed.

    (** ** final forms, oracles given as permutations (the shared convention) *)
    Notation order_oracle π := (forall l : list bytes, Permutation (π l) l).

    Theorem totals_eq_sum_daily : forall c π πf πd d x L,
      rc_totals c = true -> order_oracle π -> order_oracle πf ->
      period_row NM πf πd d x L
      = if occurs_in_period NM d x L
        then Some (sum NM (map (day_pos NM c π d x) L), sum NM (map (day_neg NM c π d x) L))
        else None.
    Proof.
      intros c π πf πd d x L Ht Hπ Hπf.
      apply totals_eq_sum_daily_gen; [exact Ht|apply order_oracle_keeps_keys; exact Hπ|apply order_oracle_keeps_keys; exact Hπf].
    Qed.

    Theorem totals_eq_sum_single : forall c π πf πd d x L,
      rc_totals c = true -> order_oracle π -> order_oracle πf ->
      (forall ln, single_row NM d x ln = option_map Some (day_row NM c π d x ln))
      /\ period_row NM πf πd d x L
         = if occurs_in_period NM d x L
           then Some (sum NM (map (single_pos NM d x) L), sum NM (map (single_neg NM d x) L))
           else None.
    Proof.
      intros c π πf πd d x L Ht Hπ Hπf. split.
      - intros ln. apply single_row_is_day_row; [exact Ht|apply order_oracle_keeps_keys; exact Hπ].
      - apply totals_eq_sum_single_gen. apply order_oracle_keeps_keys; exact Hπf.
    Qed.

    Theorem bal_single_total_eq_totals : forall c πf πd πd' d L, order_oracle πf ->
      bal_single_grand_total NM c πd d L
      = match period_row NM πf πd' d (rc_single_element c) L with
        | Some (p, n) => add NM p n
        | None => zero NM
        end.
    Proof.
      intros c πf πd πd' d L Hπf. apply bal_single_total_eq_totals_gen. apply order_oracle_keeps_keys; exact Hπf.
    Qed.

    Theorem bal_single_total_eq_sum_column : forall c πf πd πd' d L, order_oracle πf ->
      bal_single_grand_total NM c πd d L
      = match row_total_of NM (rc_single_element c) (period_rows NM πf πd' d L) with
        | Some s => s
        | None => zero NM
        end.
    Proof.
      intros c πf πd πd' d L Hπf. apply bal_single_total_eq_sum_column_gen. apply order_oracle_keeps_keys; exact Hπf.
    Qed.
  End Laws.

  (** law-free final form *)
  Theorem single_row_is_day_row_perm : forall c π d x ln,
    rc_totals c = true -> (forall l : list bytes, Permutation (π l) l) ->
    single_row NM d x ln = option_map Some (day_row NM c π d x ln).
  Proof.
    intros c π d x ln Ht Hπ. apply single_row_is_day_row; [exact Ht|apply order_oracle_keeps_keys; exact Hπ].
  Qed.
End Main.
