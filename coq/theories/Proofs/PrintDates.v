(** Dates: [parse_date] undoes [format_date] under the same layout, what
    [parse_date] returns always fits the layout, and the bytes of a formatted
    date (digits and safe literals) make a heading line. *)
From Coq Require Import Lia ZifyBool ZifyNat ZifyN.
From HP Require Import Base.Bytes Base.Utf8 Base.Num Model.Scanner Model.Parser Model.Dates
     Spec.PrintSpec Proofs.PrintBytes Proofs.PrintDecimal.
Open Scope Z_scope.

(** *** fixed-width numbers *)

Lemma take_digits_of_digits ds : forall a r rest,
  forallb is_digit ds = true -> digits_val ds a = Some r ->
  take_digits (length ds) (ds ++ rest) (Z.of_N a) = Some (Z.of_N r, rest).
Proof.
  induction ds as [|c ds IH]; intros a r rest Hd Hv.
  - cbn in *. injection Hv as <-. reflexivity.
  - cbn [forallb] in Hd. apply andb_true_iff in Hd. destruct Hd as [Hc Hd].
    cbn [digits_val] in Hv. rewrite Hc in Hv. cbn [length app take_digits]. unfold digit_val. rewrite Hc.
    replace (Z.of_N a * 10 + Z.of_N (c - 48)) with (Z.of_N (a * 10 + (c - 48))) by lia.
    apply IH; assumption.
Qed.

Lemma take_digits_zeros k : forall m s,
  take_digits (k + m) (brepeat [48%N] k ++ s) 0 = take_digits m s 0.
Proof.
  induction k as [|k IH]; intros m s; [reflexivity|].
  cbn [brepeat Nat.add app take_digits]. change (digit_val 48%N) with (Some 0). cbn [Z.mul Z.add]. apply IH.
Qed.

Lemma brepeat_length c k : length (brepeat [c] k) = k.
Proof. induction k as [|k IH]; [reflexivity|]. cbn. f_equal. exact IH. Qed.

Lemma brepeat_digits k : forallb is_digit (brepeat [48%N] k) = true.
Proof. induction k as [|k IH]; [reflexivity|]. cbn [brepeat app forallb]. rewrite IH. reflexivity. Qed.

(** [fmt_num w v] for 0 <= v < 10^w: exactly [w] digits whose value is [v] *)
Lemma fmt_num_spec w v : (0 < w)%nat -> 0 <= v < 10 ^ Z.of_nat w ->
  take_digits w (fmt_num w v) 0 = Some (v, [])
  /\ forallb is_digit (fmt_num w v) = true /\ length (fmt_num w v) = w.
Proof.
  intros Hw Hv. unfold fmt_num. set (n := Z.to_N v).
  destruct (dec_of_N_spec n) as [_ [Hdig [Hval _]]].
  assert (Hn : (n < 10 ^ N.of_nat w)%N).
  { unfold n. apply N2Z.inj_lt. rewrite Z2N.id by lia. rewrite N2Z.inj_pow. rewrite nat_N_Z. cbn. lia. }
  pose proof (dec_of_N_length n w Hw Hn) as Hlen.
  set (ds := dec_of_N n) in *. split; [|split].
  - replace w with ((w - length ds) + length ds)%nat at 1 by lia.
    rewrite take_digits_zeros. rewrite <- (app_nil_r ds) at 2.
    pose proof (take_digits_of_digits ds 0%N n [] Hdig Hval) as X. change (Z.of_N 0) with 0 in X.
    rewrite X. unfold n. rewrite Z2N.id by lia. reflexivity.
  - rewrite forallb_app, brepeat_digits, Hdig. reflexivity.
  - rewrite app_length, brepeat_length. lia.
Qed.

Lemma fmt4_spec y : 0 <= y <= 9999 ->
  take_digits 4 (fmt_num 4 y) 0 = Some (y, [])
  /\ forallb is_digit (fmt_num 4 y) = true /\ length (fmt_num 4 y) = 4%nat.
Proof. intros H. apply fmt_num_spec; [lia|]. change (10 ^ Z.of_nat 4) with 10000. lia. Qed.

Lemma fmt2_spec v : 0 <= v <= 99 ->
  take_digits 2 (fmt_num 2 v) 0 = Some (v, [])
  /\ forallb is_digit (fmt_num 2 v) = true /\ length (fmt_num 2 v) = 2%nat.
Proof. intros H. apply fmt_num_spec; [lia|]. change (10 ^ Z.of_nat 2) with 100. lia. Qed.

Lemma take_digits_app n : forall ds acc v r s,
  take_digits n ds acc = Some (v, r) -> take_digits n (ds ++ s) acc = Some (v, r ++ s).
Proof.
  induction n as [|n IH]; intros ds acc v r s H.
  - cbn in *. injection H as <- <-. reflexivity.
  - cbn [take_digits] in *. destruct ds as [|c ds]; [discriminate|]. cbn [app].
    destruct (digit_val c) as [d|]; [|discriminate]. apply IH, H.
Qed.

(** the digits taken have a value below 10^n *)
Lemma take_digits_bound n : forall s acc v r,
  take_digits n s acc = Some (v, r) -> 0 <= acc -> acc * 10 ^ Z.of_nat n <= v < (acc + 1) * 10 ^ Z.of_nat n.
Proof.
  induction n as [|n IH]; intros s acc v r H Hacc.
  - cbn in H. injection H as <- <-. cbn. lia.
  - cbn [take_digits] in H. destruct s as [|c s]; [discriminate|].
    unfold digit_val in H. destruct (is_digit c) eqn:Ed; [|discriminate].
    apply IH in H; [|unfold is_digit in Ed; lia].
    rewrite Nat2Z.inj_succ, Z.pow_succ_r by lia.
    assert (0 <= Z.of_N (c - 48) <= 9) by (unfold is_digit in Ed; lia).
    assert (0 < 10 ^ Z.of_nat n) by (apply Z.pow_pos_nonneg; lia). nia.
Qed.

Lemma days_in_bounds y m : 28 <= days_in y m <= 31.
Proof.
  unfold days_in. destruct (m =? 2); [destruct (is_leap y); lia|].
  destruct ((m =? 4) || (m =? 6) || (m =? 9) || (m =? 11))%bool; lia.
Qed.

(** *** a space of the layout: [time.skip] *)

Lemma drop_spaces_cons c s : drop_spaces (c :: s) = if (c =? 32)%N then drop_spaces s else c :: s.
Proof. destruct c as [|p]; [reflexivity|]. do 6 (try (destruct p as [p|p|]; try reflexivity)). Qed.

Lemma drop_space_lits_lit c r :
  drop_space_lits (Lit c :: r) = if (c =? 32)%N then drop_space_lits r else Lit c :: r.
Proof. destruct c as [|p]; [reflexivity|]. do 6 (try (destruct p as [p|p|]; try reflexivity)). Qed.

(** a [Lit 32] of the layout matches a run of spaces of the value together with the
    [Lit 32]s that follow it, also the empty run at the end of the value *)
Lemma parse_tokens_space_run r s y m d :
  parse_tokens (Lit 32 :: r) (32%N :: s) y m d = parse_tokens (drop_space_lits r) (drop_spaces s) y m d.
Proof. reflexivity. Qed.

Lemma parse_tokens_space_end r y m d :
  parse_tokens (Lit 32 :: r) [] y m d = parse_tokens (drop_space_lits r) [] y m d.
Proof. reflexivity. Qed.

Lemma parse_tokens_space_eq r s y m d :
  parse_tokens (Lit 32 :: r) s y m d
  = match s with
    | [] => parse_tokens (drop_space_lits r) [] y m d
    | c' :: _ => if (c' =? 32)%N then parse_tokens (drop_space_lits r) (drop_spaces s) y m d else None
    end.
Proof. reflexivity. Qed.

Lemma parse_tokens_lit c r s y m d : c <> 32%N ->
  parse_tokens (Lit c :: r) s y m d
  = match s with c' :: s' => if (c =? c')%N then parse_tokens r s' y m d else None | [] => None end.
Proof. intros Hc. cbn [parse_tokens]. destruct (N.eqb_spec c 32); [contradiction|reflexivity]. Qed.

Lemma drop_space_lits_cases r : drop_space_lits r = r \/ exists r', r = Lit 32 :: r'.
Proof.
  destruct r as [|[| | |c] r']; try (left; reflexivity).
  destruct (N.eqb_spec c 32) as [->|Hc]; [right; eexists; reflexivity|left].
  rewrite drop_space_lits_lit. destruct (N.eqb_spec c 32); [contradiction|reflexivity].
Qed.

Lemma drop_spaces_split s : exists pre, s = pre ++ drop_spaces s /\ Forall (fun c => c = 32%N) pre.
Proof.
  induction s as [|c s [pre [E F]]]; [exists []; split; [reflexivity|constructor]|].
  rewrite drop_spaces_cons. destruct (N.eqb_spec c 32) as [->|Hc].
  - exists (32%N :: pre). split; [cbn [app]; f_equal; exact E|constructor; [reflexivity|exact F]].
  - exists []. split; [reflexivity|constructor].
Qed.

(** a successful parse under [Lit 32 :: r] is a successful parse under [r] of the value without some
    of its leading spaces: what lets the proofs about successful parses go by induction on the layout *)
Lemma parse_tokens_space_step r s y m d res :
  parse_tokens (Lit 32 :: r) s y m d = Some res ->
  exists pre s', s = pre ++ s' /\ Forall (fun c => c = 32%N) pre /\ parse_tokens r s' y m d = Some res.
Proof.
  intros H. rewrite parse_tokens_space_eq in H. destruct (drop_space_lits_cases r) as [E|[r' E]].
  - rewrite E in H. destruct s as [|c s0].
    + exists [], []. split; [reflexivity|split; [constructor|exact H]].
    + destruct (c =? 32)%N; [|discriminate].
      destruct (drop_spaces_split (c :: s0)) as [pre [E1 F1]].
      exists pre, (drop_spaces (c :: s0)). split; [exact E1|split; [exact F1|exact H]].
  - subst r. exists [], s. split; [reflexivity|split; [constructor|]].
    rewrite parse_tokens_space_eq. exact H.
Qed.

Lemma drop_spaces_digits ds rest : forallb is_digit ds = true -> ds <> [] -> drop_spaces (ds ++ rest) = ds ++ rest.
Proof.
  destruct ds as [|c ds]; [congruence|]. intros H _. cbn [forallb] in H. apply andb_true_iff in H.
  destruct H as [Hc _]. cbn [app]. rewrite drop_spaces_cons. unfold is_digit in Hc.
  destruct (N.eqb_spec c 32); [lia|reflexivity].
Qed.

(** *** [parse_date] after [format_date] *)

Definition has_tok (t : ltoken) (l : list ltoken) : bool :=
  existsb (fun x => match x, t with Y4, Y4 | M2, M2 | D2, D2 => true | _, _ => false end) l.

Lemma has_tok_In t l : (t = Y4 \/ t = M2 \/ t = D2) -> (has_tok t l = true <-> In t l).
Proof.
  intros Ht. unfold has_tok. rewrite existsb_exists. split.
  - intros [x [Hx E]]. destruct x, t; try discriminate; exact Hx.
  - intros H. exists t. split; [exact H|]. destruct Ht as [->|[->| ->]]; reflexivity.
Qed.

Lemma parse_format_tokens y m d : 0 <= y <= 9999 -> 1 <= m <= 12 -> 1 <= d <= days_in y m ->
  forall toks y0 m0 d0,
    parse_tokens toks (format_date toks (y, m, d)) y0 m0 d0
    = Some (if has_tok Y4 toks then y else y0, if has_tok M2 toks then m else m0,
            if has_tok D2 toks then d else d0).
Proof.
  intros Hy Hm Hd. pose proof (days_in_bounds y m) as Hdi.
  induction toks as [|t toks IH]; intros y0 m0 d0; [reflexivity|].
  unfold format_date in *. cbn [map concat]. destruct t as [| | |c].
  - destruct (fmt4_spec y Hy) as [H1 _]. cbn [parse_tokens].
    rewrite (take_digits_app _ _ _ _ _ _ H1). cbn [app]. rewrite IH. cbn.
    destruct (has_tok Y4 toks); reflexivity.
  - destruct (fmt2_spec m ltac:(lia)) as [H1 _]. cbn [parse_tokens].
    rewrite (take_digits_app _ _ _ _ _ _ H1). cbn [app].
    replace ((1 <=? m) && (m <=? 12))%bool with true by lia. rewrite IH. cbn.
    destruct (has_tok M2 toks); reflexivity.
  - destruct (fmt2_spec d ltac:(lia)) as [H1 _]. cbn [parse_tokens].
    rewrite (take_digits_app _ _ _ _ _ _ H1). cbn [app].
    replace ((0 <=? d) && (d <=? 31))%bool with true by lia. rewrite IH. cbn.
    destruct (has_tok D2 toks); reflexivity.
  - destruct (N.eqb_spec c 32) as [->|Hc].
    + (* the text after the run of space literals does not start with a space *)
      cbn [app]. rewrite parse_tokens_space_run. rewrite <- IH.
      destruct toks as [|t toks']; [reflexivity|]. cbn [map concat].
      assert (Hlen : forall (ds : bytes) n, length ds = S n -> ds <> []) by (intros ds n H E; subst ds; discriminate).
      destruct t as [| | |c'].
      * destruct (fmt4_spec y Hy) as [_ [H2 H3]]. rewrite drop_spaces_digits; [reflexivity|exact H2|eapply Hlen, H3].
      * destruct (fmt2_spec m ltac:(lia)) as [_ [H2 H3]]. rewrite drop_spaces_digits; [reflexivity|exact H2|eapply Hlen, H3].
      * destruct (fmt2_spec d ltac:(lia)) as [_ [H2 H3]]. rewrite drop_spaces_digits; [reflexivity|exact H2|eapply Hlen, H3].
      * cbn [app]. rewrite drop_space_lits_lit, drop_spaces_cons.
        destruct (N.eqb_spec c' 32) as [->|Hc']; reflexivity.
    + rewrite parse_tokens_lit by exact Hc. cbn [app]. rewrite N.eqb_refl. rewrite IH. reflexivity.
Qed.

(** the general form: any layout, a date the layout can express *)
Lemma format_parse_date_fits toks cv :
  civil_fits toks cv -> parse_date toks (format_date toks cv) = Some cv.
Proof.
  destruct cv as [[y m] d]. intros [[Hy [Hm Hd]] [Fy [Fm Fd]]].
  unfold parse_date. rewrite (parse_format_tokens y m d Hy Hm Hd).
  assert (Ey : (if has_tok Y4 toks then y else 0) = y).
  { destruct (has_tok Y4 toks) eqn:E; [reflexivity|]. symmetry. apply Fy. intros HI.
    apply has_tok_In in HI; [congruence|tauto]. }
  assert (Em : (if has_tok M2 toks then m else 1) = m).
  { destruct (has_tok M2 toks) eqn:E; [reflexivity|]. symmetry. apply Fm. intros HI.
    apply has_tok_In in HI; [congruence|tauto]. }
  assert (Ed : (if has_tok D2 toks then d else 1) = d).
  { destruct (has_tok D2 toks) eqn:E; [reflexivity|]. symmetry. apply Fd. intros HI.
    apply has_tok_In in HI; [congruence|tauto]. }
  rewrite Ey, Em, Ed. replace ((1 <=? d) && (d <=? days_in y m))%bool with true by lia. reflexivity.
Qed.

(** the form of the brief: a layout with all three fields, any valid date *)
Lemma format_parse_date toks y m d :
  full_layout toks -> valid_civil (y, m, d) ->
  parse_date toks (format_date toks (y, m, d)) = Some (y, m, d).
Proof.
  intros [Hy [Hm Hd]] Hv. apply format_parse_date_fits. split; [exact Hv|]. repeat split; intros H; contradiction.
Qed.

(** *** what [parse_date] returns fits the layout *)
Lemma parse_tokens_fits toks : forall s y0 m0 d0 y m d,
  parse_tokens toks s y0 m0 d0 = Some (y, m, d) ->
  (if has_tok Y4 toks then 0 <= y <= 9999 else y = y0)
  /\ (if has_tok M2 toks then 1 <= m <= 12 else m = m0)
  /\ (if has_tok D2 toks then True else d = d0).
Proof.
  induction toks as [|t toks IH]; intros s y0 m0 d0 y m d H.
  - cbn in H. destruct s; [|discriminate]. injection H as <- <- <-. cbn. auto.
  - destruct t as [| | |c]; cbn [parse_tokens] in H.
    + destruct (take_digits 4 s 0) as [[v s']|] eqn:E; [|discriminate].
      apply take_digits_bound in E; [|lia]. apply IH in H. destruct H as [H1 [H2 H3]].
      change (has_tok Y4 (Y4 :: toks)) with true. change (has_tok M2 (Y4 :: toks)) with (has_tok M2 toks).
      change (has_tok D2 (Y4 :: toks)) with (has_tok D2 toks).
      split; [|split; assumption]. destruct (has_tok Y4 toks); [exact H1|]. subst y.
      change (10 ^ Z.of_nat 4) with 10000 in E. lia.
    + destruct (take_digits 2 s 0) as [[v s']|] eqn:E; [|discriminate].
      destruct ((1 <=? v) && (v <=? 12))%bool eqn:Er; [|discriminate].
      apply IH in H. destruct H as [H1 [H2 H3]].
      change (has_tok M2 (M2 :: toks)) with true. change (has_tok Y4 (M2 :: toks)) with (has_tok Y4 toks).
      change (has_tok D2 (M2 :: toks)) with (has_tok D2 toks).
      split; [exact H1|]. split; [|exact H3]. destruct (has_tok M2 toks); [exact H2|]. subst m. lia.
    + destruct (take_digits 2 s 0) as [[v s']|] eqn:E; [|discriminate].
      destruct ((0 <=? v) && (v <=? 31))%bool eqn:Er; [|discriminate].
      apply IH in H. destruct H as [H1 [H2 H3]].
      change (has_tok D2 (D2 :: toks)) with true. change (has_tok Y4 (D2 :: toks)) with (has_tok Y4 toks).
      change (has_tok M2 (D2 :: toks)) with (has_tok M2 toks).
      split; [exact H1|]. split; [exact H2|exact I].
    + revert H. destruct (N.eqb_spec c 32) as [->|Hc]; intros H.
      * apply parse_tokens_space_step in H. destruct H as [pre [s' [_ [_ H]]]].
        apply IH in H. exact H.
      * destruct s as [|c' s']; [discriminate|]. destruct (c =? c')%N; [|discriminate].
        apply IH in H. exact H.
Qed.

Lemma parse_date_fits toks s cv : parse_date toks s = Some cv -> civil_fits toks cv.
Proof.
  unfold parse_date. destruct (parse_tokens toks s 0 1 1) as [[[y m] d]|] eqn:E; [|discriminate].
  destruct ((1 <=? d) && (d <=? days_in y m))%bool eqn:Ed; [|discriminate].
  intros H. injection H as <-. apply parse_tokens_fits in E. destruct E as [H1 [H2 H3]].
  assert (NY : ~ In Y4 toks -> has_tok Y4 toks = false).
  { intros N. destruct (has_tok Y4 toks) eqn:X; [|reflexivity]. apply has_tok_In in X; [contradiction|tauto]. }
  assert (NM : ~ In M2 toks -> has_tok M2 toks = false).
  { intros N. destruct (has_tok M2 toks) eqn:X; [|reflexivity]. apply has_tok_In in X; [contradiction|tauto]. }
  assert (ND : ~ In D2 toks -> has_tok D2 toks = false).
  { intros N. destruct (has_tok D2 toks) eqn:X; [|reflexivity]. apply has_tok_In in X; [contradiction|tauto]. }
  unfold civil_fits, valid_civil.
  destruct (has_tok Y4 toks), (has_tok M2 toks), (has_tok D2 toks); repeat split; try lia;
    intros N; (try (specialize (NY N))); (try (specialize (NM N))); (try (specialize (ND N))); congruence.
Qed.

(** *** spaces: the behaviour of [time.skip], stated *)
Example parse_space_run_ex : parse_date [D2; Lit 32; M2] (b "05   07") = Some (0, 7, 5).
Proof. vm_compute. reflexivity. Qed.
Example parse_space_lits_ex : parse_date [D2; Lit 32; Lit 32; Lit 32; M2] (b "05 07") = Some (0, 7, 5).
Proof. vm_compute. reflexivity. Qed.
Example parse_space_none_ex : parse_date [D2; Lit 32; M2] (b "0507") = None.
Proof. vm_compute. reflexivity. Qed.
Example parse_space_end_ex :
  tokenize (b "02/01//2006 ") = Some [D2; Lit 47; M2; Lit 47; Lit 47; Y4; Lit 32]
  /\ parse_date [D2; Lit 47; M2; Lit 47; Lit 47; Y4; Lit 32] (b "06/10//2021") = Some (2021, 10, 6)
  /\ parse_date [D2; Lit 47; M2; Lit 47; Lit 47; Y4; Lit 32] (b "06/10//2021   ") = Some (2021, 10, 6).
Proof. vm_compute. repeat split. Qed.

(** a [Lit 32] matches a run of spaces (and the space literals after it are consumed with it); at the
    end of the value it matches the empty run; it does not match the empty run elsewhere *)
Theorem parse_date_space_runs :
  (forall r s y m d,
     parse_tokens (Lit 32 :: r) (32%N :: s) y m d = parse_tokens (drop_space_lits r) (drop_spaces s) y m d)
  /\ (forall r y m d, parse_tokens (Lit 32 :: r) [] y m d = parse_tokens (drop_space_lits r) [] y m d)
  /\ (forall r c s y m d, c <> 32%N -> parse_tokens (Lit 32 :: r) (c :: s) y m d = None)
  /\ parse_date [D2; Lit 32; M2] (b "05   07") = Some (0, 7, 5)
  /\ parse_date [D2; Lit 47; M2; Lit 47; Lit 47; Y4; Lit 32] (b "06/10//2021") = Some (2021, 10, 6).
Proof.
  split; [exact parse_tokens_space_run|]. split; [exact parse_tokens_space_end|]. split.
  - intros r c s y m d Hc. rewrite parse_tokens_space_eq. destruct (N.eqb_spec c 32); [contradiction|reflexivity].
  - split; [exact parse_space_run_ex|exact (proj1 (proj2 parse_space_end_ex))].
Qed.

(** *** the bytes of a formatted date *)

(** layouts that [tokenize] accepts have safe literals only *)
Lemma tokenize_fuel_safe f : forall l toks, tokenize_fuel f l = Some toks -> forallb safe_tok toks = true.
Proof.
  induction f as [|f IH]; intros l toks H.
  - cbn in H. destruct l; [|discriminate]. injection H as <-. reflexivity.
  - cbn [tokenize_fuel] in H.
    assert (Hlit : forall c r, (if safe_literal c then option_map (cons (Lit c)) (tokenize_fuel f r) else None) = Some toks ->
                               forallb safe_tok toks = true).
    { intros c r H0. destruct (safe_literal c) eqn:Es; [|discriminate].
      destruct (tokenize_fuel f r) as [t|] eqn:E; [|discriminate]. injection H0 as <-.
      cbn. rewrite Es. apply (IH r), E. }
    assert (Htok : forall t r, (t = Y4 \/ t = M2 \/ t = D2) -> option_map (cons t) (tokenize_fuel f r) = Some toks ->
                               forallb safe_tok toks = true).
    { intros t r Ht H0. destruct (tokenize_fuel f r) as [t'|] eqn:E; [|discriminate]. injection H0 as <-.
      cbn. replace (safe_tok t) with true by (destruct Ht as [->|[->| ->]]; reflexivity). apply (IH r), E. }
    destruct l as [|c0 r0]; [injection H as <-; reflexivity|].
    repeat first [ match type of H with
                     (if safe_literal ?c then option_map _ (tokenize_fuel _ ?r) else None) = _ => exact (Hlit c r H)
                   end
                 | match type of H with
                     option_map (cons ?t) (tokenize_fuel _ ?r) = _ => apply (Htok t r); [tauto|exact H]
                   end
                 | match type of H with match ?x with _ => _ end = _ => destruct x end ].
Qed.

Lemma tokenize_safe layout toks : tokenize layout = Some toks -> forallb safe_tok toks = true.
Proof.
  unfold tokenize. destruct (tokenize_fuel (length layout) layout) as [l|] eqn:E; [|discriminate].
  destruct (_ && _ && _)%bool; [|discriminate]. intros H. injection H as <-.
  apply (tokenize_fuel_safe _ _ _ E).
Qed.

Open Scope N_scope.

(** bytes a formatted date is made of *)
Definition date_byte (c : N) : bool := is_digit c || safe_literal c.

Definition tok_bytes (cv : Z * Z * Z) (t : ltoken) : bytes :=
  let '(y, m, d) := cv in
  match t with Y4 => fmt_num 4 y | M2 => fmt_num 2 m | D2 => fmt_num 2 d | Lit c => [c] end.

Lemma format_date_concat toks cv : format_date toks cv = concat (map (tok_bytes cv) toks).
Proof. destruct cv as [[y m] d]. reflexivity. Qed.

Lemma tok_bytes_spec toks cv t :
  civil_fits toks cv -> safe_tok t = true ->
  forallb date_byte (tok_bytes cv t) = true /\ tok_bytes cv t <> []
  /\ (edge_tok t = true ->
      first_outside (c_hash :: c_tab :: trim_text) (tok_bytes cv t) = true
      /\ last_outside (c_cr :: trim_text) (tok_bytes cv t) = true).
Proof.
  destruct cv as [[y m] d]. intros [[Hy [Hm Hd]] _] Hs. pose proof (days_in_bounds y m) as Hdi.
  assert (Hdig : forall ds, forallb is_digit ds = true -> ds <> [] ->
            forallb date_byte ds = true /\ ds <> []
            /\ (edge_tok t = true -> first_outside (c_hash :: c_tab :: trim_text) ds = true
                                     /\ last_outside (c_cr :: trim_text) ds = true)).
  { intros ds Hds Hne. split; [|split; [exact Hne|]].
    - rewrite forallb_forall in *. intros x Hx. unfold date_byte. rewrite (Hds x Hx). reflexivity.
    - intros _. split.
      + destruct ds as [|c ds]; [congruence|]. cbn [forallb] in Hds. apply andb_true_iff in Hds.
        destruct Hds as [Hc _]. cbn [first_outside]. unfold is_digit in Hc. apply negb_true_iff.
        apply memb_false_In. cbv [trim_text c_hash c_tab c_space c_lf c_colon c_quote c_dash In].
        intros H. repeat (destruct H as [H|H]; [lia|]). exact H.
      + destruct (snoc_cases ds) as [->|[s' [c ->]]]; [congruence|]. rewrite last_outside_snoc.
        rewrite forallb_app in Hds. apply andb_true_iff in Hds. destruct Hds as [_ Hc]. cbn in Hc.
        rewrite andb_true_r in Hc. unfold is_digit in Hc. apply negb_true_iff.
        apply memb_false_In. cbv [trim_text c_cr c_tab c_space c_lf c_colon c_quote c_dash In].
        intros H. repeat (destruct H as [H|H]; [lia|]). exact H. }
  assert (Hlen : forall (ds : bytes) n, length ds = S n -> ds <> []) by (intros ds n H E; subst ds; discriminate).
  destruct t as [| | |c]; cbn [tok_bytes].
  - destruct (fmt4_spec y Hy) as [_ [H2 H3]]. apply Hdig; [exact H2|eapply Hlen, H3].
  - destruct (fmt2_spec m ltac:(lia)) as [_ [H2 H3]]. apply Hdig; [exact H2|eapply Hlen, H3].
  - destruct (fmt2_spec d ltac:(lia)) as [_ [H2 H3]]. apply Hdig; [exact H2|eapply Hlen, H3].
  - cbn in Hs. split; [|split; [discriminate|]].
    + cbn. unfold date_byte. rewrite Hs. rewrite orb_true_r. reflexivity.
    + cbn [edge_tok]. intros He. unfold last_outside. cbn [rev app first_outside].
      unfold safe_literal in Hs. apply negb_true_iff in He. apply memb_false_In in He.
      split; apply negb_true_iff; apply memb_false_In; intros H; apply He;
        cbv [trim_text c_hash c_cr c_tab c_space c_lf c_colon c_quote c_dash In] in *; lia.
Qed.

Definition heading_bytes_ok (fd : bytes) : Prop :=
  forallb date_byte fd = true
  /\ first_outside (c_hash :: c_tab :: trim_text) fd = true
  /\ last_outside (c_cr :: trim_text) fd = true.

Lemma format_date_heading toks cv :
  heading_layout toks = true -> civil_fits toks cv -> heading_bytes_ok (format_date toks cv).
Proof.
  unfold heading_layout. intros H Hfit. apply andb_true_iff in H. destruct H as [H H3].
  apply andb_true_iff in H. destruct H as [H1 H2]. rewrite format_date_concat.
  assert (Hall : forall l, forallb safe_tok l = true -> forallb date_byte (concat (map (tok_bytes cv) l)) = true).
  { induction l as [|t l IH]; intros Hl; [reflexivity|]. cbn [forallb] in Hl. apply andb_true_iff in Hl.
    destruct Hl as [Ht Hl]. cbn [map concat]. rewrite forallb_app. rewrite (IH Hl).
    destruct (tok_bytes_spec toks cv t Hfit Ht) as [Hb _]. rewrite Hb. reflexivity. }
  split; [apply Hall, H1|]. split.
  - destruct toks as [|t toks]; [discriminate|]. cbn [forallb] in H1. apply andb_true_iff in H1.
    destruct H1 as [Ht _]. cbn [map concat]. apply first_outside_app.
    destruct (tok_bytes_spec (t :: toks) cv t Hfit Ht) as [_ [_ He]]. apply He, H2.
  - destruct (snoc_cases toks) as [->|[l [t E]]]; [discriminate|]. rewrite E in *.
    rewrite rev_app_distr in H3. cbn [rev app] in H3.
    rewrite forallb_app in H1. apply andb_true_iff in H1. destruct H1 as [_ Ht]. cbn in Ht.
    rewrite andb_true_r in Ht. rewrite map_app, concat_app. cbn [map concat]. rewrite app_nil_r.
    apply last_outside_app. destruct (tok_bytes_spec (l ++ [t]) cv t Hfit Ht) as [_ [_ He]]. apply He, H3.
Qed.

Lemma date_byte_not c : date_byte c = true -> memb c [c_lf; c_cr; c_tab; c_hash; c_quote] = false.
Proof.
  unfold date_byte, is_digit, safe_literal. intros H. cbv [memb existsb c_lf c_cr c_tab c_hash c_quote].
  lia.
Qed.

Lemma heading_no_lf fd : forallb date_byte fd = true -> memb c_lf fd = false.
Proof.
  intros H. apply memb_false_In. intros HI. rewrite forallb_forall in H. apply H in HI.
  unfold date_byte, is_digit, safe_literal, c_lf in HI. lia.
Qed.

(** *** the layout without the spaces at its end ([layout_core]) *)

Lemma drop_space_lits_split l : exists sp, l = sp ++ drop_space_lits l /\ Forall (fun t => t = Lit 32) sp.
Proof.
  induction l as [|t l [sp [E F]]]; [exists []; split; [reflexivity|constructor]|].
  destruct t as [| | |c]; try (exists []; split; [reflexivity|constructor]).
  rewrite drop_space_lits_lit. destruct (N.eqb_spec c 32) as [->|Hc].
  - exists (Lit 32 :: sp). split; [cbn [app]; f_equal; exact E|constructor; [reflexivity|exact F]].
  - exists []. split; [reflexivity|constructor].
Qed.

Lemma drop_space_lits_head l c r : drop_space_lits l = Lit c :: r -> c <> 32.
Proof.
  induction l as [|t l IH]; [discriminate|]. destruct t as [| | |c']; [cbn; discriminate..|].
  rewrite drop_space_lits_lit. destruct (N.eqb_spec c' 32) as [->|Hc]; [exact IH|].
  intros H. injection H as -> _. exact Hc.
Qed.

Lemma drop_space_lits_length l : (length (drop_space_lits l) <= length l)%nat.
Proof.
  destruct (drop_space_lits_split l) as [sp [E _]]. apply (f_equal (@length _)) in E.
  rewrite app_length in E. lia.
Qed.

Lemma drop_space_lits_spaces sp : Forall (fun t => t = Lit 32) sp -> drop_space_lits sp = [].
Proof. induction 1 as [|t sp -> _ IH]; [reflexivity|exact IH]. Qed.

Lemma drop_space_lits_app l sp : Forall (fun t => t = Lit 32) sp ->
  drop_space_lits (l ++ sp) = match drop_space_lits l with [] => [] | _ => drop_space_lits l ++ sp end.
Proof.
  intros F. induction l as [|t l IH]; [cbn [app]; rewrite (drop_space_lits_spaces _ F); reflexivity|].
  destruct t as [| | |c]; try reflexivity. cbn [app]. rewrite !drop_space_lits_lit.
  destruct (N.eqb_spec c 32); [exact IH|reflexivity].
Qed.

Lemma layout_core_split toks : exists sp, toks = layout_core toks ++ sp /\ Forall (fun t => t = Lit 32) sp.
Proof.
  unfold layout_core. destruct (drop_space_lits_split (rev toks)) as [sp [E F]].
  exists (rev sp). split.
  - rewrite <- rev_app_distr. rewrite <- E. symmetry. apply rev_involutive.
  - apply Forall_rev. exact F.
Qed.

(** the last token of the core is not a space *)
Lemma layout_core_last toks l c : layout_core toks = l ++ [Lit c] -> c <> 32.
Proof.
  unfold layout_core. intros H. apply (f_equal (@rev _)) in H. rewrite rev_involutive, rev_app_distr in H.
  cbn [rev app] in H. apply drop_space_lits_head in H. exact H.
Qed.

(** a heading layout is its own core *)
Lemma layout_core_heading toks : heading_layout toks = true -> layout_core toks = toks.
Proof.
  unfold heading_layout, layout_core. intros H. apply andb_true_iff in H. destruct H as [_ H].
  destruct (rev toks) as [|t r] eqn:E; [discriminate|].
  assert (Hd : drop_space_lits (t :: r) = t :: r).
  { destruct t as [| | |c]; try reflexivity. rewrite drop_space_lits_lit.
    destruct (N.eqb_spec c 32) as [->|]; [vm_compute in H; discriminate|reflexivity]. }
  rewrite Hd, <- E. apply rev_involutive.
Qed.

Lemma In_layout_core t toks : t <> Lit 32 -> (In t (layout_core toks) <-> In t toks).
Proof.
  intros Ht. destruct (layout_core_split toks) as [sp [E F]]. set (core := layout_core toks) in *.
  rewrite E. rewrite in_app_iff. split; [tauto|].
  intros [H|H]; [exact H|]. rewrite Forall_forall in F. apply F in H. contradiction.
Qed.

Lemma civil_fits_core toks cv : civil_fits toks cv -> civil_fits (layout_core toks) cv.
Proof.
  destruct cv as [[y m] d]. intros [Hv [Fy [Fm Fd]]]. split; [exact Hv|].
  repeat split; intros H; [apply Fy|apply Fm|apply Fd]; intros HI; apply H; apply In_layout_core;
    first [discriminate|exact HI].
Qed.

(** space literals at the end of the layout do not spoil a successful parse *)
Lemma parse_tokens_spaces_nil sp y m d : Forall (fun t => t = Lit 32) sp ->
  parse_tokens sp [] y m d = Some (y, m, d).
Proof.
  intros F. destruct F as [|t sp -> F]; [reflexivity|].
  rewrite parse_tokens_space_end. rewrite (drop_space_lits_spaces _ F). reflexivity.
Qed.

Lemma parse_tokens_app_spaces sp : Forall (fun t => t = Lit 32) sp ->
  forall l s y m d res, parse_tokens l s y m d = Some res -> parse_tokens (l ++ sp) s y m d = Some res.
Proof.
  intros F.
  assert (Hnil : forall s y m d res, parse_tokens [] s y m d = Some res -> parse_tokens sp s y m d = Some res).
  { intros s y m d res H. cbn in H. destruct s; [|discriminate]. injection H as <-. apply parse_tokens_spaces_nil, F. }
  assert (G : forall n l, (length l <= n)%nat -> forall s y m d res,
                parse_tokens l s y m d = Some res -> parse_tokens (l ++ sp) s y m d = Some res).
  { induction n as [|n IH]; intros l Hn s y m d res H.
    - destruct l; [|cbn in Hn; lia]. apply Hnil, H.
    - destruct l as [|t l]; [apply Hnil, H|]. cbn [length] in Hn.
      assert (Hl : (length l <= n)%nat) by lia. cbn [app].
      destruct t as [| | |c].
      + cbn [parse_tokens] in *. destruct (take_digits 4 s 0) as [[v s']|]; [|discriminate]. apply IH; assumption.
      + cbn [parse_tokens] in *. destruct (take_digits 2 s 0) as [[v s']|]; [|discriminate].
        destruct (_ && _)%bool; [|discriminate]. apply IH; assumption.
      + cbn [parse_tokens] in *. destruct (take_digits 2 s 0) as [[v s']|]; [|discriminate].
        destruct (_ && _)%bool; [|discriminate]. apply IH; assumption.
      + destruct (N.eqb_spec c 32) as [->|Hc].
        * rewrite parse_tokens_space_eq in *. rewrite (drop_space_lits_app l sp F).
          pose proof (drop_space_lits_length l) as Hlen.
          assert (X : forall s0, parse_tokens (drop_space_lits l) s0 y m d = Some res ->
                                 parse_tokens (match drop_space_lits l with [] => [] | _ => drop_space_lits l ++ sp end)
                                   s0 y m d = Some res).
          { intros s0 H0. destruct (drop_space_lits l) as [|t0 l0] eqn:El; [exact H0|].
            apply IH; [lia|exact H0]. }
          destruct s as [|c' s0]; [apply X, H|]. destruct (c' =? 32); [apply X, H|discriminate].
        * rewrite parse_tokens_lit in * by exact Hc. destruct s as [|c' s0]; [discriminate|].
          destruct (c =? c'); [|discriminate]. apply IH; assumption. }
  intros l. apply (G (length l) l). lia.
Qed.

(** the date formatted without the spaces at the end of the layout is read under the layout *)
Lemma format_parse_date_core toks cv :
  civil_fits toks cv -> parse_date toks (format_date (layout_core toks) cv) = Some cv.
Proof.
  intros Hfit. pose proof (format_parse_date_fits _ _ (civil_fits_core _ _ Hfit)) as H.
  destruct (layout_core_split toks) as [sp [E F]]. set (core := layout_core toks) in *.
  unfold parse_date in *.
  destruct (parse_tokens core (format_date core cv) 0 1 1) as [r|] eqn:Ep; [|discriminate].
  rewrite E. rewrite (parse_tokens_app_spaces sp F _ _ _ _ _ _ Ep). exact H.
Qed.

Lemma format_date_app l1 l2 cv : format_date (l1 ++ l2) cv = format_date l1 cv ++ format_date l2 cv.
Proof. rewrite !format_date_concat. rewrite map_app, concat_app. reflexivity. Qed.

(** what [format_date] writes for the spaces at the end of the layout is in the parser's trim set *)
Lemma format_date_core toks cv :
  exists post, format_date toks cv = format_date (layout_core toks) cv ++ post /\ all_in trim_text post = true.
Proof.
  destruct (layout_core_split toks) as [sp [E F]]. set (core := layout_core toks) in *.
  exists (format_date sp cv). split; [rewrite E at 1; apply format_date_app|].
  rewrite format_date_concat. clear E. induction F as [|t sp -> _ IH]; [reflexivity|].
  cbn [map concat]. destruct cv as [[y m] d]. cbn [tok_bytes]. rewrite all_in_app. rewrite IH. reflexivity.
Qed.

(** the bytes of a date formatted under a safe layout *)
Lemma format_date_bytes toks cv :
  forallb safe_tok toks = true -> civil_fits toks cv -> forallb date_byte (format_date toks cv) = true.
Proof.
  intros Hs Hfit. rewrite format_date_concat. revert Hs. generalize toks at 1 2. intros l.
  induction l as [|t l IH]; intros Hl; [reflexivity|]. cbn [forallb] in Hl. apply andb_true_iff in Hl.
  destruct Hl as [Ht Hl]. cbn [map concat]. rewrite forallb_app. rewrite (IH Hl).
  destruct (tok_bytes_spec toks cv t Hfit Ht) as [Hb _]. rewrite Hb. reflexivity.
Qed.
