(** Dates: [parse_date] undoes [format_date] under the same layout, what
    [parse_date] returns always fits the layout, and the bytes of a formatted
    date (digits and safe literals) make a heading line. *)
From Coq Require Import Lia ZifyBool ZifyNat ZifyN.
From HP Require Import Base.Bytes Base.Utf8 Base.Num Model.Scanner Model.Parser Model.Dates
     Spec.PrintSpec Proofs.PrintBytes Proofs.PrintDecimal.
Open Scope Z_scope.

(** *** fixed-width numbers *)

Lemma take_digits_of_digits ds : forall a r rest,
  forallb is_digit ds = true -> digits_val ds a = Some r ->
  take_digits (length ds) (ds ++ rest) (Z.of_N a) = Some (Z.of_N r, rest).
Proof.
  induction ds as [|c ds IH]; intros a r rest Hd Hv.
  - cbn in *. injection Hv as <-. reflexivity.
  - cbn [forallb] in Hd. apply andb_true_iff in Hd. destruct Hd as [Hc Hd].
    cbn [digits_val] in Hv. rewrite Hc in Hv. cbn [length app take_digits]. unfold digit_val. rewrite Hc.
    replace (Z.of_N a * 10 + Z.of_N (c - 48)) with (Z.of_N (a * 10 + (c - 48))) by lia.
    apply IH; assumption.
Qed.

Lemma take_digits_zeros k : forall m s,
  take_digits (k + m) (brepeat [48%N] k ++ s) 0 = take_digits m s 0.
Proof.
  induction k as [|k IH]; intros m s; [reflexivity|].
  cbn [brepeat Nat.add app take_digits]. change (digit_val 48%N) with (Some 0). cbn [Z.mul Z.add]. apply IH.
Qed.

Lemma brepeat_length c k : length (brepeat [c] k) = k.
Proof. induction k as [|k IH]; [reflexivity|]. cbn. f_equal. exact IH. Qed.

Lemma brepeat_digits k : forallb is_digit (brepeat [48%N] k) = true.
Proof. induction k as [|k IH]; [reflexivity|]. cbn [brepeat app forallb]. rewrite IH. reflexivity. Qed.

(** [fmt_num w v] for 0 <= v < 10^w: exactly [w] digits whose value is [v] *)
Lemma fmt_num_spec w v : (0 < w)%nat -> 0 <= v < 10 ^ Z.of_nat w ->
  take_digits w (fmt_num w v) 0 = Some (v, [])
  /\ forallb is_digit (fmt_num w v) = true /\ length (fmt_num w v) = w.
Proof.
  intros Hw Hv. unfold fmt_num. set (n := Z.to_N v).
  destruct (dec_of_N_spec n) as [_ [Hdig [Hval _]]].
  assert (Hn : (n < 10 ^ N.of_nat w)%N).
  { unfold n. apply N2Z.inj_lt. rewrite Z2N.id by lia. rewrite N2Z.inj_pow. rewrite nat_N_Z. cbn. lia. }
  pose proof (dec_of_N_length n w Hw Hn) as Hlen.
  set (ds := dec_of_N n) in *. split; [|split].
  - replace w with ((w - length ds) + length ds)%nat at 1 by lia.
    rewrite take_digits_zeros. rewrite <- (app_nil_r ds) at 2.
    pose proof (take_digits_of_digits ds 0%N n [] Hdig Hval) as X. change (Z.of_N 0) with 0 in X.
    rewrite X. unfold n. rewrite Z2N.id by lia. reflexivity.
  - rewrite forallb_app, brepeat_digits, Hdig. reflexivity.
  - rewrite app_length, brepeat_length. lia.
Qed.

Lemma fmt4_spec y : 0 <= y <= 9999 ->
  take_digits 4 (fmt_num 4 y) 0 = Some (y, [])
  /\ forallb is_digit (fmt_num 4 y) = true /\ length (fmt_num 4 y) = 4%nat.
Proof. intros H. apply fmt_num_spec; [lia|]. change (10 ^ Z.of_nat 4) with 10000. lia. Qed.

Lemma fmt2_spec v : 0 <= v <= 99 ->
  take_digits 2 (fmt_num 2 v) 0 = Some (v, [])
  /\ forallb is_digit (fmt_num 2 v) = true /\ length (fmt_num 2 v) = 2%nat.
Proof. intros H. apply fmt_num_spec; [lia|]. change (10 ^ Z.of_nat 2) with 100. lia. Qed.

Lemma take_digits_app n : forall ds acc v r s,
  take_digits n ds acc = Some (v, r) -> take_digits n (ds ++ s) acc = Some (v, r ++ s).
Proof.
  induction n as [|n IH]; intros ds acc v r s H.
  - cbn in *. injection H as <- <-. reflexivity.
  - cbn [take_digits] in *. destruct ds as [|c ds]; [discriminate|]. cbn [app].
    destruct (digit_val c) as [d|]; [|discriminate]. apply IH, H.
Qed.

(** the digits taken have a value below 10^n *)
Lemma take_digits_bound n : forall s acc v r,
  take_digits n s acc = Some (v, r) -> 0 <= acc -> acc * 10 ^ Z.of_nat n <= v < (acc + 1) * 10 ^ Z.of_nat n.
Proof.
  induction n as [|n IH]; intros s acc v r H Hacc.
  - cbn in H. injection H as <- <-. cbn. lia.
  - cbn [take_digits] in H. destruct s as [|c s]; [discriminate|].
    unfold digit_val in H. destruct (is_digit c) eqn:Ed; [|discriminate].
    apply IH in H; [|unfold is_digit in Ed; lia].
    rewrite Nat2Z.inj_succ, Z.pow_succ_r by lia.
    assert (0 <= Z.of_N (c - 48) <= 9) by (unfold is_digit in Ed; lia).
    assert (0 < 10 ^ Z.of_nat n) by (apply Z.pow_pos_nonneg; lia). nia.
Qed.

Lemma days_in_bounds y m : 28 <= days_in y m <= 31.
Proof.
  unfold days_in. destruct (m =? 2); [destruct (is_leap y); lia|].
  destruct ((m =? 4) || (m =? 6) || (m =? 9) || (m =? 11))%bool; lia.
Qed.

(** *** numbers of variable width: [getnum(value, false)] after [appendInt(b, v, 0)] *)

(** the text does not begin with a digit (or is empty) *)
Definition nodigit_start (s : bytes) : bool := match s with c :: _ => negb (is_digit c) | [] => true end.

Definition two_digits (v : Z) : bytes :=
  if v <? 10 then [Z.to_N (48 + v)] else [Z.to_N (48 + v / 10); Z.to_N (48 + v mod 10)].

Lemma fmt_num0_small v : 0 <= v <= 99 -> fmt_num 0 v = two_digits v.
Proof.
  intros Hv.
  assert (H : forallb (fun n => beq (fmt_num 0 (Z.of_nat n)) (two_digits (Z.of_nat n))) (seq 0 100) = true)
    by (vm_compute; reflexivity).
  rewrite forallb_forall in H. specialize (H (Z.to_nat v)).
  rewrite Z2Nat.id in H by lia. apply beq_true_iff, H. apply in_seq. lia.
Qed.

Lemma fmt_num0_spec v : 0 <= v <= 99 ->
  forallb is_digit (fmt_num 0 v) = true /\ fmt_num 0 v <> [].
Proof.
  intros Hv. rewrite fmt_num0_small by exact Hv. unfold two_digits.
  assert (0 <= v / 10 <= 9) by lia.
  assert (0 <= v mod 10 <= 9) by lia.
  destruct (v <? 10) eqn:E; (split; [|discriminate]); cbn [forallb]; unfold is_digit; lia.
Qed.

Lemma get_num_fmt v rest : 0 <= v <= 99 -> nodigit_start rest = true ->
  get_num (fmt_num 0 v ++ rest) = Some (v, rest).
Proof.
  intros Hv Hr. rewrite fmt_num0_small by exact Hv. unfold two_digits.
  assert (Hq : 0 <= v / 10 <= 9) by lia.
  assert (Hm : 0 <= v mod 10 <= 9) by lia.
  assert (Hdv : forall x, 0 <= x <= 9 -> digit_val (Z.to_N (48 + x)) = Some x).
  { intros x Hx. unfold digit_val. replace (is_digit (Z.to_N (48 + x))) with true by (unfold is_digit; lia).
    f_equal. lia. }
  destruct (v <? 10) eqn:E; cbn [app get_num].
  - rewrite Hdv by lia. destruct rest as [|c2 r2]; [reflexivity|]. cbn [nodigit_start] in Hr.
    unfold digit_val. destruct (is_digit c2); [discriminate|reflexivity].
  - rewrite !Hdv by lia. f_equal. f_equal. pose proof (Z.div_mod v 10). lia.
Qed.

Lemma get_num_prefix s v s' : get_num s = Some (v, s') ->
  exists p, s = p ++ s' /\ forallb is_digit p = true /\ p <> [] /\ 0 <= v <= 99.
Proof.
  unfold get_num, digit_val. intros H. destruct s as [|c1 r1]; [discriminate|].
  destruct (is_digit c1) eqn:E1; [|discriminate].
  assert (B1 : 0 <= Z.of_N (c1 - 48) <= 9) by (unfold is_digit in E1; lia).
  destruct r1 as [|c2 r2].
  - injection H as <- <-. exists [c1]. cbn [forallb]. rewrite E1. repeat split; try discriminate; lia.
  - destruct (is_digit c2) eqn:E2.
    + injection H as <- <-. exists [c1; c2]. cbn [forallb]. rewrite E1, E2.
      assert (B2 : 0 <= Z.of_N (c2 - 48) <= 9) by (unfold is_digit in E2; lia).
      repeat split; try discriminate; lia.
    + injection H as <- <-. exists [c1]. cbn [forallb]. rewrite E1. repeat split; try discriminate; lia.
Qed.

(** *** month names: [lookup] after [Month.String] *)

Lemma month_cases m : 1 <= m <= 12 ->
  m = 1 \/ m = 2 \/ m = 3 \/ m = 4 \/ m = 5 \/ m = 6 \/ m = 7 \/ m = 8 \/ m = 9 \/ m = 10 \/ m = 11 \/ m = 12.
Proof. lia. Qed.

Ltac each_month m Hm :=
  let H := fresh "Hcase" in
  pose proof (month_cases m Hm) as H;
  repeat (destruct H as [H|H]; [subst m|]); [..|subst m].

(** the long table finds the name [Format] writes, whatever follows it (no name is the beginning of another) *)
Lemma lookup_long_name m rest : 1 <= m <= 12 ->
  lookup_name long_months 1 (month_name m ++ rest) = Some (m, rest).
Proof. intros Hm. each_month m Hm; vm_compute; reflexivity. Qed.

Lemma lookup_short_name m rest : 1 <= m <= 12 ->
  lookup_name short_months 1 (firstn 3 (month_name m) ++ rest) = Some (m, rest).
Proof. intros Hm. each_month m Hm; vm_compute; reflexivity. Qed.

(** what [Format] writes for [Jan] is the entry of the short table *)
Lemma short_name_table m : 1 <= m <= 12 -> firstn 3 (month_name m) = nth (Z.to_nat (m - 1)) short_months [].
Proof. intros Hm. each_month m Hm; reflexivity. Qed.

Definition is_letter (c : N) : bool := ((65 <=? c) && (c <=? 90) || (97 <=? c) && (c <=? 122))%N.

Lemma month_name_letters m : 1 <= m <= 12 ->
  forallb is_letter (month_name m) = true /\ (3 <= length (month_name m))%nat.
Proof. intros Hm. each_month m Hm; vm_compute; split; (reflexivity || lia). Qed.

Lemma short_name_letters m : 1 <= m <= 12 ->
  forallb is_letter (firstn 3 (month_name m)) = true /\ length (firstn 3 (month_name m)) = 3%nat.
Proof. intros Hm. each_month m Hm; vm_compute; split; reflexivity. Qed.

Lemma match_prefix_split name : forall val r, match_prefix name val = Some r ->
  exists p, val = p ++ r /\ length p = length name /\ Forall2 (fun v c => match_byte v c = true) p name.
Proof.
  induction name as [|c name IH]; intros val r H.
  - cbn in H. injection H as <-. exists []. repeat split. constructor.
  - cbn [match_prefix] in H. destruct val as [|v val]; [discriminate|].
    destruct (match_byte v c) eqn:E; [|discriminate]. destruct (IH _ _ H) as [p [-> [Hl Hf]]].
    exists (v :: p). cbn [app length]. repeat split; [congruence|]. constructor; assumption.
Qed.

Lemma lookup_name_split tab : forall i s v r, lookup_name tab i s = Some (v, r) ->
  i <= v < i + Z.of_nat (length tab)
  /\ exists p, s = p ++ r
       /\ Forall2 (fun x c => match_byte x c = true) p (nth (Z.to_nat (v - i)) tab []).
Proof.
  induction tab as [|name tab IH]; intros i s v r H; [discriminate|]. cbn [lookup_name] in H.
  destruct (match_prefix name s) as [r0|] eqn:E.
  - injection H as <- <-. split; [cbn [length]; lia|]. destruct (match_prefix_split _ _ _ E) as [p [-> [_ Hf]]].
    exists p. split; [reflexivity|]. replace (i - i) with 0 by lia. exact Hf.
  - apply IH in H. destruct H as [Hr [p [-> Hf]]]. split; [cbn [length]; lia|]. exists p. split; [reflexivity|].
    replace (Z.to_nat (v - i)) with (S (Z.to_nat (v - (i + 1)))) by lia. exact Hf.
Qed.

(** a byte that matches a letter of a table is a letter *)
Lemma match_byte_letter v c : is_letter c = true -> match_byte v c = true -> is_letter v = true.
Proof.
  unfold match_byte, is_letter, lower. intros Hc H.
  destruct ((65 <=? v) && (v <=? 90))%N eqn:E1; destruct ((65 <=? c) && (c <=? 90))%N eqn:E2; lia.
Qed.

Lemma table_letters : Forall (fun name => forallb is_letter name = true) long_months
                      /\ Forall (fun name => forallb is_letter name = true) short_months.
Proof. split; repeat constructor. Qed.

Lemma lookup_name_letters tab i s v r :
  Forall (fun name => forallb is_letter name = true /\ name <> []) tab ->
  lookup_name tab i s = Some (v, r) ->
  exists p, s = p ++ r /\ forallb is_letter p = true /\ p <> [].
Proof.
  intros Ht H. apply lookup_name_split in H. destruct H as [Hr [p [-> Hf]]]. exists p. split; [reflexivity|].
  match type of Hf with Forall2 _ _ ?n => assert (Hin : In n tab) by (apply nth_In; unfold bytes in *; lia);
                                           set (name := n) in * end.
  rewrite Forall_forall in Ht. destruct (Ht _ Hin) as [Hl Hne]. clear Ht Hin. clearbody name. split.
  - clear Hne. revert Hl. induction Hf as [|x c p' name' Hxc _ IH]; intros Hl; [reflexivity|]. cbn [forallb] in *.
    apply andb_true_iff in Hl. destruct Hl as [Hc Hl]. rewrite (match_byte_letter _ _ Hc Hxc), (IH Hl). reflexivity.
  - destruct Hf; [congruence|discriminate].
Qed.

Lemma tables_nonempty_letters :
  Forall (fun name => forallb is_letter name = true /\ name <> []) long_months
  /\ Forall (fun name => forallb is_letter name = true /\ name <> []) short_months.
Proof. split; repeat constructor; discriminate. Qed.

(** *** a space of the layout: [time.skip] *)

Lemma drop_spaces_cons c s : drop_spaces (c :: s) = if (c =? 32)%N then drop_spaces s else c :: s.
Proof. destruct c as [|p]; [reflexivity|]. do 6 (try (destruct p as [p|p|]; try reflexivity)). Qed.

Lemma drop_space_lits_lit c r :
  drop_space_lits (Lit c :: r) = if (c =? 32)%N then drop_space_lits r else Lit c :: r.
Proof. destruct c as [|p]; [reflexivity|]. do 6 (try (destruct p as [p|p|]; try reflexivity)). Qed.

Lemma drop_one_space_cons c s : drop_one_space (c :: s) = if (c =? 32)%N then s else c :: s.
Proof. destruct c as [|p]; [reflexivity|]. do 6 (try (destruct p as [p|p|]; try reflexivity)). Qed.

(** a [Lit 32] of the layout matches a run of spaces of the value together with the
    [Lit 32]s that follow it, also the empty run at the end of the value *)
Lemma parse_tokens_space_run r s y m d :
  parse_tokens (Lit 32 :: r) (32%N :: s) y m d = parse_tokens (drop_space_lits r) (drop_spaces s) y m d.
Proof. reflexivity. Qed.

Lemma parse_tokens_space_end r y m d :
  parse_tokens (Lit 32 :: r) [] y m d = parse_tokens (drop_space_lits r) [] y m d.
Proof. reflexivity. Qed.

Lemma parse_tokens_space_eq r s y m d :
  parse_tokens (Lit 32 :: r) s y m d
  = match s with
    | [] => parse_tokens (drop_space_lits r) [] y m d
    | c' :: _ => if (c' =? 32)%N then parse_tokens (drop_space_lits r) (drop_spaces s) y m d else None
    end.
Proof. reflexivity. Qed.

Lemma parse_tokens_lit c r s y m d : c <> 32%N ->
  parse_tokens (Lit c :: r) s y m d
  = match s with c' :: s' => if (c =? c')%N then parse_tokens r s' y m d else None | [] => None end.
Proof. intros Hc. cbn [parse_tokens]. destruct (N.eqb_spec c 32); [contradiction|reflexivity]. Qed.

Lemma drop_space_lits_cases r : drop_space_lits r = r \/ exists r', r = Lit 32 :: r'.
Proof.
  destruct r as [|t r']; [left; reflexivity|]. destruct t as [| | | | | | | |c]; try (left; reflexivity).
  destruct (N.eqb_spec c 32) as [->|Hc]; [right; eexists; reflexivity|left].
  rewrite drop_space_lits_lit. destruct (N.eqb_spec c 32); [contradiction|reflexivity].
Qed.

Lemma drop_spaces_split s : exists pre, s = pre ++ drop_spaces s /\ Forall (fun c => c = 32%N) pre.
Proof.
  induction s as [|c s [pre [E F]]]; [exists []; split; [reflexivity|constructor]|].
  rewrite drop_spaces_cons. destruct (N.eqb_spec c 32) as [->|Hc].
  - exists (32%N :: pre). split; [cbn [app]; f_equal; exact E|constructor; [reflexivity|exact F]].
  - exists []. split; [reflexivity|constructor].
Qed.

(** a successful parse under [Lit 32 :: r] is a successful parse under [r] of the value without some
    of its leading spaces: what lets the proofs about successful parses go by induction on the layout *)
Lemma parse_tokens_space_step r s y m d res :
  parse_tokens (Lit 32 :: r) s y m d = Some res ->
  exists pre s', s = pre ++ s' /\ Forall (fun c => c = 32%N) pre /\ parse_tokens r s' y m d = Some res.
Proof.
  intros H. rewrite parse_tokens_space_eq in H. destruct (drop_space_lits_cases r) as [E|[r' E]].
  - rewrite E in H. destruct s as [|c s0].
    + exists [], []. split; [reflexivity|split; [constructor|exact H]].
    + destruct (c =? 32)%N; [|discriminate].
      destruct (drop_spaces_split (c :: s0)) as [pre [E1 F1]].
      exists pre, (drop_spaces (c :: s0)). split; [exact E1|split; [exact F1|exact H]].
  - subst r. exists [], s. split; [reflexivity|split; [constructor|]].
    rewrite parse_tokens_space_eq. exact H.
Qed.

(** a text that begins with a byte other than the blank *)
Definition noblank_start (s : bytes) : bool := match s with c :: _ => negb (c =? 32)%N | [] => false end.

Lemma drop_spaces_noblank s : noblank_start s = true -> drop_spaces s = s.
Proof.
  destruct s as [|c s]; [discriminate|]. cbn [noblank_start]. rewrite drop_spaces_cons.
  destruct (c =? 32)%N; [discriminate|reflexivity].
Qed.

Lemma drop_one_space_noblank s : noblank_start s = true -> drop_one_space s = s.
Proof.
  destruct s as [|c s]; [discriminate|]. cbn [noblank_start]. rewrite drop_one_space_cons.
  destruct (c =? 32)%N; [discriminate|reflexivity].
Qed.

Lemma noblank_start_app s t : noblank_start s = true -> noblank_start (s ++ t) = true.
Proof. destruct s; [discriminate|]. intros H. exact H. Qed.

Lemma digits_noblank ds : forallb is_digit ds = true -> ds <> [] -> noblank_start ds = true.
Proof.
  destruct ds as [|c ds]; [congruence|]. intros H _. cbn [forallb] in H. apply andb_true_iff in H.
  destruct H as [Hc _]. cbn [noblank_start]. unfold is_digit in Hc. lia.
Qed.

Lemma letters_noblank ds : forallb is_letter ds = true -> ds <> [] -> noblank_start ds = true.
Proof.
  destruct ds as [|c ds]; [congruence|]. intros H _. cbn [forallb] in H. apply andb_true_iff in H.
  destruct H as [Hc _]. cbn [noblank_start]. unfold is_letter in Hc. lia.
Qed.

Lemma letters_nodigit ds : forallb is_letter ds = true -> nodigit_start ds = true.
Proof.
  destruct ds as [|c ds]; [reflexivity|]. intros H. cbn [forallb] in H. apply andb_true_iff in H.
  destruct H as [Hc _]. cbn [nodigit_start]. unfold is_letter in Hc. unfold is_digit. lia.
Qed.

Lemma nodigit_start_app s t : s <> [] -> nodigit_start s = true -> nodigit_start (s ++ t) = true.
Proof. destruct s; [congruence|]. intros _ H. exact H. Qed.

Lemma drop_spaces_digits ds rest : forallb is_digit ds = true -> ds <> [] -> drop_spaces (ds ++ rest) = ds ++ rest.
Proof. intros H Hne. apply drop_spaces_noblank, noblank_start_app, digits_noblank; assumption. Qed.

(** *** [parse_date] after [format_date] *)

Lemma format_date_cons t toks cv : format_date (t :: toks) cv = format_tok cv t ++ format_date toks cv.
Proof. reflexivity. Qed.

(** a token that does not begin with a digit writes a text that does not begin with a digit *)
Lemma nondigit_tok_start y m d t toks : 1 <= m <= 12 -> nondigit_tok t = true ->
  nodigit_start (format_date (t :: toks) (y, m, d)) = true.
Proof.
  intros Hm Ht. rewrite format_date_cons. destruct t as [| | | | | | | |c]; try discriminate; cbn [format_tok].
  - destruct (short_name_letters m Hm) as [Hl Hn]. apply nodigit_start_app; [|apply letters_nodigit, Hl].
    intros E. rewrite E in Hn. discriminate.
  - destruct (month_name_letters m Hm) as [Hl Hn]. apply nodigit_start_app; [|apply letters_nodigit, Hl].
    intros E. rewrite E in Hn. cbn in Hn. lia.
  - exact Ht.
Qed.

(** what follows an element of variable width in a layout with [sep_ok] *)
Lemma sep_ok_next y m d t toks : 1 <= m <= 12 -> sep_ok (t :: toks) = true -> var_width t = true ->
  nodigit_start (format_date toks (y, m, d)) = true.
Proof.
  intros Hm Hs Hv. cbn [sep_ok] in Hs. rewrite Hv in Hs. cbn [negb orb] in Hs. apply andb_true_iff in Hs.
  destruct Hs as [Hs _]. destruct toks as [|u toks']; [reflexivity|]. apply nondigit_tok_start; assumption.
Qed.

Lemma sep_ok_tail t toks : sep_ok (t :: toks) = true -> sep_ok toks = true.
Proof. cbn [sep_ok]. intros H. apply andb_true_iff in H. apply H. Qed.

(** the text of a token other than the blank literal and [_2] begins with a byte that is not a blank *)
Lemma format_tok_noblank y m d t : 0 <= y <= 9999 -> 1 <= m <= 12 -> 1 <= d <= 31 ->
  t <> Lit 32 -> t <> DU -> noblank_start (format_tok (y, m, d) t) = true.
Proof.
  intros Hy Hm Hd H32 HDU.
  assert (Hlen : forall (ds : bytes) n, length ds = S n -> ds <> []) by (intros ds n H E; subst ds; discriminate).
  destruct t as [| | | | | | | |c]; cbn [format_tok].
  - destruct (fmt4_spec y Hy) as [_ [H2 H3]]. apply digits_noblank; [exact H2|eapply Hlen, H3].
  - destruct (fmt2_spec m ltac:(lia)) as [_ [H2 H3]]. apply digits_noblank; [exact H2|eapply Hlen, H3].
  - destruct (fmt2_spec d ltac:(lia)) as [_ [H2 H3]]. apply digits_noblank; [exact H2|eapply Hlen, H3].
  - destruct (fmt_num0_spec d ltac:(lia)) as [H2 H3]. apply digits_noblank; assumption.
  - congruence.
  - destruct (fmt_num0_spec m ltac:(lia)) as [H2 H3]. apply digits_noblank; assumption.
  - destruct (short_name_letters m Hm) as [Hl Hn]. apply letters_noblank; [exact Hl|].
    intros E. rewrite E in Hn. discriminate.
  - destruct (month_name_letters m Hm) as [Hl Hn]. apply letters_noblank; [exact Hl|].
    intros E. rewrite E in Hn. cbn in Hn. lia.
  - cbn [noblank_start]. destruct (N.eqb_spec c 32) as [->|]; [congruence|reflexivity].
Qed.

(** [_2] reads the blank it wrote, and reads its number without it as well *)
Lemma parse_tokens_DU_blank r s y m d : noblank_start s = true ->
  parse_tokens (DU :: r) (32%N :: s) y m d = parse_tokens (DU :: r) s y m d.
Proof.
  intros H. cbn [parse_tokens]. rewrite drop_one_space_cons. cbn [N.eqb Pos.eqb].
  rewrite (drop_one_space_noblank _ H). reflexivity.
Qed.

Lemma parse_format_tokens y m d : 0 <= y <= 9999 -> 1 <= m <= 12 -> 1 <= d <= days_in y m ->
  forall toks, sep_ok toks = true -> forall y0 m0 d0,
    parse_tokens toks (format_date toks (y, m, d)) y0 m0 d0
    = Some (if has_year toks then y else y0, if has_month toks then m else m0,
            if has_day toks then d else d0).
Proof.
  intros Hy Hm Hd. pose proof (days_in_bounds y m) as Hdi.
  assert (Hlen : forall (ds : bytes) n, length ds = S n -> ds <> []) by (intros ds n H E; subst ds; discriminate).
  induction toks as [|t toks IH]; intros Hsep y0 m0 d0; [reflexivity|].
  pose proof (sep_ok_tail _ _ Hsep) as Hsep'. specialize (IH Hsep').
  rewrite format_date_cons. unfold has_year, has_month, has_day. cbn [existsb].
  fold (has_year toks) (has_month toks) (has_day toks).
  destruct t as [| | | | | | | |c]; cbn [format_tok is_year is_month is_day orb].
  - destruct (fmt4_spec y Hy) as [H1 _]. cbn [parse_tokens].
    rewrite (take_digits_app _ _ _ _ _ _ H1). cbn [app]. rewrite IH.
    destruct (has_year toks); reflexivity.
  - destruct (fmt2_spec m ltac:(lia)) as [H1 _]. cbn [parse_tokens].
    rewrite (take_digits_app _ _ _ _ _ _ H1). cbn [app].
    replace ((1 <=? m) && (m <=? 12))%bool with true by lia. rewrite IH.
    destruct (has_month toks); reflexivity.
  - destruct (fmt2_spec d ltac:(lia)) as [H1 _]. cbn [parse_tokens].
    rewrite (take_digits_app _ _ _ _ _ _ H1). cbn [app]. rewrite IH.
    destruct (has_day toks); reflexivity.
  - cbn [parse_tokens]. rewrite get_num_fmt; [|lia|apply (sep_ok_next y m d D1 toks Hm Hsep eq_refl)].
    rewrite IH. destruct (has_day toks); reflexivity.
  - pose proof (sep_ok_next y m d DU toks Hm Hsep eq_refl) as Hn.
    destruct (fmt_num0_spec d ltac:(lia)) as [Hdg Hne].
    assert (E : parse_tokens (DU :: toks) (fmt_num 0 d ++ format_date toks (y, m, d)) y0 m0 d0
                = Some (if has_year toks then y else y0, if has_month toks then m else m0, d)).
    { cbn [parse_tokens]. rewrite drop_one_space_noblank by (apply noblank_start_app, digits_noblank; assumption).
      rewrite get_num_fmt; [|lia|exact Hn]. rewrite IH. destruct (has_day toks); reflexivity. }
    destruct (d <? 10); cbn [app]; [|exact E].
    rewrite parse_tokens_DU_blank by (apply noblank_start_app, digits_noblank; assumption). exact E.
  - cbn [parse_tokens]. rewrite get_num_fmt; [|lia|apply (sep_ok_next y m d M1 toks Hm Hsep eq_refl)].
    replace ((1 <=? m) && (m <=? 12))%bool with true by lia. rewrite IH.
    destruct (has_month toks); reflexivity.
  - cbn [parse_tokens]. rewrite (lookup_short_name m _ Hm). rewrite IH. destruct (has_month toks); reflexivity.
  - cbn [parse_tokens]. rewrite (lookup_long_name m _ Hm). rewrite IH. destruct (has_month toks); reflexivity.
  - destruct (N.eqb_spec c 32) as [->|Hc].
    + (* the run of space literals: the text after it begins with no blank, or with the blank of [_2] *)
      cbn [app]. rewrite parse_tokens_space_run. rewrite <- IH.
      destruct toks as [|t toks']; [reflexivity|]. rewrite format_date_cons.
      destruct (N.eq_dec 0 0) as [_|]; [|congruence].
      assert (Hcase : t = Lit 32 \/ t = DU \/ (t <> Lit 32 /\ t <> DU)).
      { destruct t as [| | | | | | | |c']; try (right; right; split; discriminate); [right; left; reflexivity|].
        destruct (N.eqb_spec c' 32) as [->|]; [left; reflexivity|right; right; split; congruence]. }
      destruct Hcase as [->|[->|[H32 HDU]]].
      * reflexivity.
      * cbn [format_tok drop_space_lits]. destruct (fmt_num0_spec d ltac:(lia)) as [Hdg Hne].
        assert (Hnb : noblank_start (fmt_num 0 d ++ format_date toks' (y, m, d)) = true)
          by (apply noblank_start_app, digits_noblank; assumption).
        destruct (d <? 10); cbn [app].
        -- rewrite drop_spaces_cons. cbn [N.eqb Pos.eqb]. rewrite (drop_spaces_noblank _ Hnb).
           symmetry. apply parse_tokens_DU_blank, Hnb.
        -- rewrite (drop_spaces_noblank _ Hnb). reflexivity.
      * assert (Hd' : drop_space_lits (t :: toks') = t :: toks').
        { destruct t as [| | | | | | | |c']; try reflexivity. rewrite drop_space_lits_lit.
          destruct (N.eqb_spec c' 32) as [->|]; [congruence|reflexivity]. }
        rewrite Hd'. rewrite drop_spaces_noblank; [reflexivity|].
        apply noblank_start_app, format_tok_noblank; (assumption || lia).
    + rewrite parse_tokens_lit by exact Hc. cbn [app]. rewrite N.eqb_refl. rewrite IH. reflexivity.
Qed.

(** the general form: any layout whose variable-width elements are separated, a date the layout can express *)
Lemma format_parse_date_fits toks cv :
  sep_ok toks = true -> civil_fits toks cv -> parse_date toks (format_date toks cv) = Some cv.
Proof.
  destruct cv as [[y m] d]. intros Hsep [[Hy [Hm Hd]] [Fy [Fm Fd]]].
  unfold parse_date. rewrite (parse_format_tokens y m d Hy Hm Hd toks Hsep).
  assert (Ey : (if has_year toks then y else 0) = y) by (destruct (has_year toks); [reflexivity|symmetry; apply Fy; reflexivity]).
  assert (Em : (if has_month toks then m else 1) = m) by (destruct (has_month toks); [reflexivity|symmetry; apply Fm; reflexivity]).
  assert (Ed : (if has_day toks then d else 1) = d) by (destruct (has_day toks); [reflexivity|symmetry; apply Fd; reflexivity]).
  rewrite Ey, Em, Ed. replace ((1 <=? d) && (d <=? days_in y m))%bool with true by lia. reflexivity.
Qed.

(** the form of the brief: a layout with all three fields, any valid date *)
Lemma format_parse_date toks y m d :
  sep_ok toks = true -> full_layout toks -> valid_civil (y, m, d) ->
  parse_date toks (format_date toks (y, m, d)) = Some (y, m, d).
Proof.
  intros Hsep [Hy [Hm Hd]] Hv. apply format_parse_date_fits; [exact Hsep|]. split; [exact Hv|].
  repeat split; intros H; congruence.
Qed.

(** *** what [parse_date] returns fits the layout *)
Lemma parse_tokens_fits toks : forall s y0 m0 d0 y m d,
  parse_tokens toks s y0 m0 d0 = Some (y, m, d) ->
  (if has_year toks then 0 <= y <= 9999 else y = y0)
  /\ (if has_month toks then 1 <= m <= 12 else m = m0)
  /\ (if has_day toks then True else d = d0).
Proof.
  induction toks as [|t toks IH]; intros s y0 m0 d0 y m d H.
  - cbn in H. destruct s; [|discriminate]. injection H as <- <- <-. cbn. auto.
  - unfold has_year, has_month, has_day. cbn [existsb]. fold (has_year toks) (has_month toks) (has_day toks).
    destruct t as [| | | | | | | |c]; cbn [parse_tokens is_year is_month is_day orb] in H |- *.
    + destruct (take_digits 4 s 0) as [[v s']|] eqn:E; [|discriminate].
      apply take_digits_bound in E; [|lia]. apply IH in H. destruct H as [H1 [H2 H3]].
      split; [|split; assumption]. destruct (has_year toks); [exact H1|]. subst y.
      change (10 ^ Z.of_nat 4) with 10000 in E. lia.
    + destruct (take_digits 2 s 0) as [[v s']|] eqn:E; [|discriminate].
      destruct ((1 <=? v) && (v <=? 12))%bool eqn:Er; [|discriminate].
      apply IH in H. destruct H as [H1 [H2 H3]].
      split; [exact H1|]. split; [|exact H3]. destruct (has_month toks); [exact H2|]. subst m. lia.
    + destruct (take_digits 2 s 0) as [[v s']|] eqn:E; [|discriminate].
      apply IH in H. destruct H as [H1 [H2 H3]]. split; [exact H1|]. split; [exact H2|exact I].
    + destruct (get_num s) as [[v s']|] eqn:E; [|discriminate].
      apply IH in H. destruct H as [H1 [H2 H3]]. split; [exact H1|]. split; [exact H2|exact I].
    + destruct (get_num (drop_one_space s)) as [[v s']|] eqn:E; [|discriminate].
      apply IH in H. destruct H as [H1 [H2 H3]]. split; [exact H1|]. split; [exact H2|exact I].
    + destruct (get_num s) as [[v s']|] eqn:E; [|discriminate].
      destruct ((1 <=? v) && (v <=? 12))%bool eqn:Er; [|discriminate].
      apply IH in H. destruct H as [H1 [H2 H3]].
      split; [exact H1|]. split; [|exact H3]. destruct (has_month toks); [exact H2|]. subst m. lia.
    + destruct (lookup_name short_months 1 s) as [[v s']|] eqn:E; [|discriminate].
      apply lookup_name_split in E. destruct E as [Er _]. cbn [length short_months] in Er.
      apply IH in H. destruct H as [H1 [H2 H3]].
      split; [exact H1|]. split; [|exact H3]. destruct (has_month toks); [exact H2|]. subst m. lia.
    + destruct (lookup_name long_months 1 s) as [[v s']|] eqn:E; [|discriminate].
      apply lookup_name_split in E. destruct E as [Er _]. cbn [length long_months] in Er.
      apply IH in H. destruct H as [H1 [H2 H3]].
      split; [exact H1|]. split; [|exact H3]. destruct (has_month toks); [exact H2|]. subst m. lia.
    + revert H. destruct (N.eqb_spec c 32) as [->|Hc]; intros H.
      * apply parse_tokens_space_step in H. destruct H as [pre [s' [_ [_ H]]]].
        apply IH in H. exact H.
      * destruct s as [|c' s']; [discriminate|]. destruct (c =? c')%N; [|discriminate].
        apply IH in H. exact H.
Qed.

Lemma parse_date_fits toks s cv : parse_date toks s = Some cv -> civil_fits toks cv.
Proof.
  unfold parse_date. destruct (parse_tokens toks s 0 1 1) as [[[y m] d]|] eqn:E; [|discriminate].
  destruct ((1 <=? d) && (d <=? days_in y m))%bool eqn:Ed; [|discriminate].
  intros H. injection H as <-. apply parse_tokens_fits in E. destruct E as [H1 [H2 H3]].
  unfold civil_fits, valid_civil.
  destruct (has_year toks), (has_month toks), (has_day toks); repeat split; try lia; intros N; congruence.
Qed.

(** *** spaces: the behaviour of [time.skip], stated *)
Example parse_space_run_ex : parse_date [D2; Lit 32; M2] (b "05   07") = Some (0, 7, 5).
Proof. vm_compute. reflexivity. Qed.
Example parse_space_lits_ex : parse_date [D2; Lit 32; Lit 32; Lit 32; M2] (b "05 07") = Some (0, 7, 5).
Proof. vm_compute. reflexivity. Qed.
Example parse_space_none_ex : parse_date [D2; Lit 32; M2] (b "0507") = None.
Proof. vm_compute. reflexivity. Qed.
Example parse_space_end_ex :
  tokenize (b "02/01//2006 ") = Some [D2; Lit 47; M2; Lit 47; Lit 47; Y4; Lit 32]
  /\ parse_date [D2; Lit 47; M2; Lit 47; Lit 47; Y4; Lit 32] (b "06/10//2021") = Some (2021, 10, 6)
  /\ parse_date [D2; Lit 47; M2; Lit 47; Lit 47; Y4; Lit 32] (b "06/10//2021   ") = Some (2021, 10, 6).
Proof. vm_compute. repeat split. Qed.

(** a [Lit 32] matches a run of spaces (and the space literals after it are consumed with it); at the
    end of the value it matches the empty run; it does not match the empty run elsewhere *)
Theorem parse_date_space_runs :
  (forall r s y m d,
     parse_tokens (Lit 32 :: r) (32%N :: s) y m d = parse_tokens (drop_space_lits r) (drop_spaces s) y m d)
  /\ (forall r y m d, parse_tokens (Lit 32 :: r) [] y m d = parse_tokens (drop_space_lits r) [] y m d)
  /\ (forall r c s y m d, c <> 32%N -> parse_tokens (Lit 32 :: r) (c :: s) y m d = None)
  /\ parse_date [D2; Lit 32; M2] (b "05   07") = Some (0, 7, 5)
  /\ parse_date [D2; Lit 47; M2; Lit 47; Lit 47; Y4; Lit 32] (b "06/10//2021") = Some (2021, 10, 6).
Proof.
  split; [exact parse_tokens_space_run|]. split; [exact parse_tokens_space_end|]. split.
  - intros r c s y m d Hc. rewrite parse_tokens_space_eq. destruct (N.eqb_spec c 32); [contradiction|reflexivity].
  - split; [exact parse_space_run_ex|exact (proj1 (proj2 parse_space_end_ex))].
Qed.

(** *** the bytes of a formatted date *)

(** what [next_elem] answers is an element or a safe literal, and it is at least one byte long *)
Lemma next_elem_safe l t n : next_elem l = Some (t, n) -> safe_tok t = true /\ (0 < n)%nat.
Proof.
  unfold next_elem. destruct l as [|c r]; [discriminate|].
  repeat match goal with
         | |- (if ?x then _ else _) = _ -> _ => destruct x eqn:?
         end; intros H; try discriminate; injection H as <- <-; split; (reflexivity || lia || assumption).
Qed.

(** layouts that [tokenize] accepts have safe literals only *)
Lemma tokenize_fuel_safe f : forall l toks, tokenize_fuel f l = Some toks -> forallb safe_tok toks = true.
Proof.
  induction f as [|f IH]; intros l toks H.
  - cbn in H. destruct l; [|discriminate]. injection H as <-. reflexivity.
  - cbn [tokenize_fuel] in H. destruct l as [|c0 r0]; [injection H as <-; reflexivity|].
    destruct (next_elem (c0 :: r0)) as [[t n]|] eqn:En; [|discriminate].
    destruct (tokenize_fuel f (skipn n (c0 :: r0))) as [tl|] eqn:E; [|discriminate]. injection H as <-.
    cbn [forallb]. rewrite (proj1 (next_elem_safe _ _ _ En)). apply (IH _ _ E).
Qed.

Lemma tokenize_safe layout toks : tokenize layout = Some toks -> forallb safe_tok toks = true.
Proof.
  unfold tokenize. destruct (tokenize_fuel (length layout) layout) as [l|] eqn:E; [|discriminate].
  destruct (_ && _ && _)%bool; [|discriminate]. intros H. injection H as <-.
  apply (tokenize_fuel_safe _ _ _ E).
Qed.

Open Scope N_scope.

(** bytes a formatted date is made of *)
Definition date_byte (c : N) : bool := is_digit c || safe_literal c || is_letter c.

Notation tok_bytes := format_tok (only parsing).

Lemma format_date_concat toks cv : format_date toks cv = concat (map (format_tok cv) toks).
Proof. reflexivity. Qed.

Lemma digit_edges ds : forallb is_digit ds = true -> ds <> [] ->
  first_outside (c_hash :: c_tab :: trim_text) ds = true /\ last_outside (c_cr :: trim_text) ds = true.
Proof.
  intros Hds Hne. split.
  - destruct ds as [|c ds]; [congruence|]. cbn [forallb] in Hds. apply andb_true_iff in Hds.
    destruct Hds as [Hc _]. cbn [first_outside]. unfold is_digit in Hc. apply negb_true_iff.
    apply memb_false_In. cbv [trim_text c_hash c_tab c_space c_lf c_colon c_quote c_dash In].
    intros H. repeat (destruct H as [H|H]; [lia|]). exact H.
  - destruct (snoc_cases ds) as [->|[s' [c ->]]]; [congruence|]. rewrite last_outside_snoc.
    rewrite forallb_app in Hds. apply andb_true_iff in Hds. destruct Hds as [_ Hc]. cbn in Hc.
    rewrite andb_true_r in Hc. unfold is_digit in Hc. apply negb_true_iff.
    apply memb_false_In. cbv [trim_text c_cr c_tab c_space c_lf c_colon c_quote c_dash In].
    intros H. repeat (destruct H as [H|H]; [lia|]). exact H.
Qed.

Lemma letter_edges ds : forallb is_letter ds = true -> ds <> [] ->
  first_outside (c_hash :: c_tab :: trim_text) ds = true /\ last_outside (c_cr :: trim_text) ds = true.
Proof.
  intros Hds Hne. split.
  - destruct ds as [|c ds]; [congruence|]. cbn [forallb] in Hds. apply andb_true_iff in Hds.
    destruct Hds as [Hc _]. cbn [first_outside]. unfold is_letter in Hc. apply negb_true_iff.
    apply memb_false_In. cbv [trim_text c_hash c_tab c_space c_lf c_colon c_quote c_dash In].
    intros H. repeat (destruct H as [H|H]; [lia|]). exact H.
  - destruct (snoc_cases ds) as [->|[s' [c ->]]]; [congruence|]. rewrite last_outside_snoc.
    rewrite forallb_app in Hds. apply andb_true_iff in Hds. destruct Hds as [_ Hc]. cbn in Hc.
    rewrite andb_true_r in Hc. unfold is_letter in Hc. apply negb_true_iff.
    apply memb_false_In. cbv [trim_text c_cr c_tab c_space c_lf c_colon c_quote c_dash In].
    intros H. repeat (destruct H as [H|H]; [lia|]). exact H.
Qed.

Lemma date_byte_digits ds : forallb is_digit ds = true -> forallb date_byte ds = true.
Proof.
  intros H. rewrite forallb_forall in *. intros x Hx. unfold date_byte. rewrite (H x Hx). reflexivity.
Qed.

Lemma date_byte_letters ds : forallb is_letter ds = true -> forallb date_byte ds = true.
Proof.
  intros H. rewrite forallb_forall in *. intros x Hx. unfold date_byte. rewrite (H x Hx). apply orb_true_r.
Qed.

(** the bytes of one token: date bytes, at least one; a token that may stand at an end of a heading
    ends outside the parser's trim set and, unless it is [_2], begins outside it *)
Lemma tok_bytes_spec toks cv t :
  civil_fits toks cv -> safe_tok t = true ->
  forallb date_byte (format_tok cv t) = true /\ format_tok cv t <> []
  /\ (edge_tok t = true ->
      (t <> DU -> first_outside (c_hash :: c_tab :: trim_text) (format_tok cv t) = true)
      /\ last_outside (c_cr :: trim_text) (format_tok cv t) = true).
Proof.
  destruct cv as [[y m] d]. intros [[Hy [Hm Hd]] _] Hs. pose proof (days_in_bounds y m) as Hdi.
  assert (Hdig : forall ds, forallb is_digit ds = true -> ds <> [] ->
            forallb date_byte ds = true /\ ds <> []
            /\ (edge_tok t = true -> (t <> DU -> first_outside (c_hash :: c_tab :: trim_text) ds = true)
                                     /\ last_outside (c_cr :: trim_text) ds = true)).
  { intros ds Hds Hne. split; [apply date_byte_digits, Hds|]. split; [exact Hne|]. intros _.
    destruct (digit_edges ds Hds Hne) as [A B]. split; [intros _; exact A|exact B]. }
  assert (Hlet : forall ds, forallb is_letter ds = true -> ds <> [] ->
            forallb date_byte ds = true /\ ds <> []
            /\ (edge_tok t = true -> (t <> DU -> first_outside (c_hash :: c_tab :: trim_text) ds = true)
                                     /\ last_outside (c_cr :: trim_text) ds = true)).
  { intros ds Hds Hne. split; [apply date_byte_letters, Hds|]. split; [exact Hne|]. intros _.
    destruct (letter_edges ds Hds Hne) as [A B]. split; [intros _; exact A|exact B]. }
  assert (Hlen : forall (ds : bytes) n, length ds = S n -> ds <> []) by (intros ds n H E; subst ds; discriminate).
  destruct t as [| | | | | | | |c]; cbn [format_tok].
  - destruct (fmt4_spec y Hy) as [_ [H2 H3]]. apply Hdig; [exact H2|eapply Hlen, H3].
  - destruct (fmt2_spec m ltac:(lia)) as [_ [H2 H3]]. apply Hdig; [exact H2|eapply Hlen, H3].
  - destruct (fmt2_spec d ltac:(lia)) as [_ [H2 H3]]. apply Hdig; [exact H2|eapply Hlen, H3].
  - destruct (fmt_num0_spec d ltac:(lia)) as [H2 H3]. apply Hdig; assumption.
  - destruct (fmt_num0_spec d ltac:(lia)) as [H2 H3]. destruct (digit_edges _ H2 H3) as [A B].
    split; [|split].
    + rewrite forallb_app, (date_byte_digits _ H2). destruct (d <? 10)%Z; reflexivity.
    + destruct (d <? 10)%Z; [discriminate|exact H3].
    + intros _. split; [congruence|]. apply last_outside_app, B.
  - destruct (fmt_num0_spec m ltac:(lia)) as [H2 H3]. apply Hdig; assumption.
  - destruct (short_name_letters m Hm) as [Hl Hn]. apply Hlet; [exact Hl|].
    intros E. rewrite E in Hn. discriminate.
  - destruct (month_name_letters m Hm) as [Hl Hn]. apply Hlet; [exact Hl|].
    intros E. rewrite E in Hn. cbn in Hn. lia.
  - cbn in Hs. split; [|split; [discriminate|]].
    + cbn. unfold date_byte. rewrite Hs. rewrite orb_true_r. reflexivity.
    + cbn [edge_tok]. intros He. unfold last_outside. cbn [rev app first_outside].
      unfold safe_literal in Hs. apply negb_true_iff in He. apply memb_false_In in He.
      split; [intros _|]; apply negb_true_iff; apply memb_false_In; intros H; apply He;
        cbv [trim_text c_hash c_cr c_tab c_space c_lf c_colon c_quote c_dash In] in *; lia.
Qed.

Definition heading_bytes_ok (fd : bytes) : Prop :=
  forallb date_byte fd = true
  /\ first_outside (c_hash :: c_tab :: trim_text) fd = true
  /\ last_outside (c_cr :: trim_text) fd = true.

(** the parts of [heading_layout] *)
Lemma heading_layout_parts toks : heading_layout toks = true ->
  forallb safe_tok toks = true
  /\ match toks with t :: _ => edge_tok t | [] => false end = true
  /\ match rev toks with t :: _ => edge_tok t | [] => false end = true
  /\ sep_ok toks = true /\ under_front toks = false.
Proof.
  unfold heading_layout, stable_layout. intros H.
  apply andb_true_iff in H. destruct H as [H H4]. apply andb_true_iff in H. destruct H as [H H3].
  apply andb_true_iff in H. destruct H as [H1 H2]. apply andb_true_iff in H4. destruct H4 as [H4 H5].
  apply negb_true_iff in H5. auto.
Qed.

Lemma heading_layout_sep toks : heading_layout toks = true -> sep_ok toks = true.
Proof. intros H. apply heading_layout_parts in H. apply H. Qed.

Lemma format_date_heading toks cv :
  heading_layout toks = true -> civil_fits toks cv -> heading_bytes_ok (format_date toks cv).
Proof.
  intros H Hfit. destruct (heading_layout_parts _ H) as [H1 [H2 [H3 [_ H5]]]]. rewrite format_date_concat.
  assert (Hall : forall l, forallb safe_tok l = true -> forallb date_byte (concat (map (format_tok cv) l)) = true).
  { induction l as [|t l IH]; intros Hl; [reflexivity|]. cbn [forallb] in Hl. apply andb_true_iff in Hl.
    destruct Hl as [Ht Hl]. cbn [map concat]. rewrite forallb_app. rewrite (IH Hl).
    destruct (tok_bytes_spec toks cv t Hfit Ht) as [Hb _]. rewrite Hb. reflexivity. }
  split; [apply Hall, H1|]. split.
  - destruct toks as [|t toks]; [discriminate|]. cbn [forallb] in H1. apply andb_true_iff in H1.
    destruct H1 as [Ht _]. cbn [map concat]. apply first_outside_app.
    destruct (tok_bytes_spec (t :: toks) cv t Hfit Ht) as [_ [_ He]]. apply (He H2).
    intros ->. discriminate.
  - destruct (snoc_cases toks) as [->|[l [t E]]]; [discriminate|]. rewrite E in *.
    rewrite rev_app_distr in H3. cbn [rev app] in H3.
    rewrite forallb_app in H1. apply andb_true_iff in H1. destruct H1 as [_ Ht]. cbn in Ht.
    rewrite andb_true_r in Ht. rewrite map_app, concat_app. cbn [map concat]. rewrite app_nil_r.
    apply last_outside_app. destruct (tok_bytes_spec (l ++ [t]) cv t Hfit Ht) as [_ [_ He]]. apply He, H3.
Qed.

Lemma date_byte_not c : date_byte c = true -> memb c [c_lf; c_cr; c_tab; c_hash; c_quote] = false.
Proof.
  unfold date_byte, is_digit, safe_literal, is_letter. intros H. cbv [memb existsb c_lf c_cr c_tab c_hash c_quote].
  lia.
Qed.

Lemma heading_no_lf fd : forallb date_byte fd = true -> memb c_lf fd = false.
Proof.
  intros H. apply memb_false_In. intros HI. rewrite forallb_forall in H. apply H in HI.
  unfold date_byte, is_digit, safe_literal, is_letter, c_lf in HI. lia.
Qed.

(** *** the layout without the spaces at its end ([layout_core]) *)

Lemma drop_space_lits_split l : exists sp, l = sp ++ drop_space_lits l /\ Forall (fun t => t = Lit 32) sp.
Proof.
  induction l as [|t l [sp [E F]]]; [exists []; split; [reflexivity|constructor]|].
  destruct t as [| | | | | | | |c]; try (exists []; split; [reflexivity|constructor]).
  rewrite drop_space_lits_lit. destruct (N.eqb_spec c 32) as [->|Hc].
  - exists (Lit 32 :: sp). split; [cbn [app]; f_equal; exact E|constructor; [reflexivity|exact F]].
  - exists []. split; [reflexivity|constructor].
Qed.

Lemma drop_space_lits_head l c r : drop_space_lits l = Lit c :: r -> c <> 32.
Proof.
  induction l as [|t l IH]; [discriminate|]. destruct t as [| | | | | | | |c']; [cbn; discriminate..|].
  rewrite drop_space_lits_lit. destruct (N.eqb_spec c' 32) as [->|Hc]; [exact IH|].
  intros H. injection H as -> _. exact Hc.
Qed.

Lemma drop_space_lits_length l : (length (drop_space_lits l) <= length l)%nat.
Proof.
  destruct (drop_space_lits_split l) as [sp [E _]]. apply (f_equal (@length _)) in E.
  rewrite app_length in E. lia.
Qed.

Lemma drop_space_lits_spaces sp : Forall (fun t => t = Lit 32) sp -> drop_space_lits sp = [].
Proof. induction 1 as [|t sp -> _ IH]; [reflexivity|exact IH]. Qed.

Lemma drop_space_lits_app l sp : Forall (fun t => t = Lit 32) sp ->
  drop_space_lits (l ++ sp) = match drop_space_lits l with [] => [] | _ => drop_space_lits l ++ sp end.
Proof.
  intros F. induction l as [|t l IH]; [cbn [app]; rewrite (drop_space_lits_spaces _ F); reflexivity|].
  destruct t as [| | | | | | | |c]; try reflexivity. cbn [app]. rewrite !drop_space_lits_lit.
  destruct (N.eqb_spec c 32); [exact IH|reflexivity].
Qed.

Lemma layout_core_split toks : exists sp, toks = layout_core toks ++ sp /\ Forall (fun t => t = Lit 32) sp.
Proof.
  unfold layout_core. destruct (drop_space_lits_split (rev toks)) as [sp [E F]].
  exists (rev sp). split.
  - rewrite <- rev_app_distr. rewrite <- E. symmetry. apply rev_involutive.
  - apply Forall_rev. exact F.
Qed.

(** the last token of the core is not a space *)
Lemma layout_core_last toks l c : layout_core toks = l ++ [Lit c] -> c <> 32.
Proof.
  unfold layout_core. intros H. apply (f_equal (@rev _)) in H. rewrite rev_involutive, rev_app_distr in H.
  cbn [rev app] in H. apply drop_space_lits_head in H. exact H.
Qed.

(** a heading layout is its own core *)
Lemma layout_core_heading toks : heading_layout toks = true -> layout_core toks = toks.
Proof.
  intros H. destruct (heading_layout_parts _ H) as [_ [_ [H3 _]]]. unfold layout_core.
  destruct (rev toks) as [|t r] eqn:E; [discriminate|].
  assert (Hd : drop_space_lits (t :: r) = t :: r).
  { destruct t as [| | | | | | | |c]; try reflexivity. rewrite drop_space_lits_lit.
    destruct (N.eqb_spec c 32) as [->|]; [vm_compute in H3; discriminate|reflexivity]. }
  rewrite Hd, <- E. apply rev_involutive.
Qed.

Lemma In_layout_core t toks : t <> Lit 32 -> (In t (layout_core toks) <-> In t toks).
Proof.
  intros Ht. destruct (layout_core_split toks) as [sp [E F]]. set (core := layout_core toks) in *.
  rewrite E. rewrite in_app_iff. split; [tauto|].
  intros [H|H]; [exact H|]. rewrite Forall_forall in F. apply F in H. contradiction.
Qed.

(** the spaces at the end set no field *)
Lemma existsb_core (p : ltoken -> bool) toks : p (Lit 32) = false -> existsb p (layout_core toks) = existsb p toks.
Proof.
  intros Hp. destruct (layout_core_split toks) as [sp [E F]]. set (core := layout_core toks) in *.
  clearbody core. rewrite E. rewrite existsb_app.
  assert (X : existsb p sp = false) by (clear E; induction F as [|t sp -> _ IH]; [reflexivity|cbn; rewrite Hp; exact IH]).
  rewrite X. rewrite orb_false_r. reflexivity.
Qed.

Lemma has_core toks : has_year (layout_core toks) = has_year toks
                      /\ has_month (layout_core toks) = has_month toks
                      /\ has_day (layout_core toks) = has_day toks.
Proof. unfold has_year, has_month, has_day. rewrite !existsb_core by reflexivity. auto. Qed.

Lemma civil_fits_core toks cv : civil_fits toks cv -> civil_fits (layout_core toks) cv.
Proof.
  destruct cv as [[y m] d]. unfold civil_fits. destruct (has_core toks) as [-> [-> ->]]. tauto.
Qed.

(** the spaces at the end do not matter for the separation of the variable-width elements *)
Lemma sep_ok_app_inv l1 : forall l2, sep_ok (l1 ++ l2) = true -> sep_ok l1 = true.
Proof.
  induction l1 as [|t l1 IH]; intros l2 H; [reflexivity|]. cbn [app sep_ok] in H |- *.
  apply andb_true_iff in H. destruct H as [H1 H2]. rewrite (IH _ H2), andb_true_r.
  destruct (var_width t); [|reflexivity]. cbn [negb orb] in *. destruct l1 as [|u l1]; [reflexivity|exact H1].
Qed.

Lemma sep_ok_core toks : sep_ok toks = true -> sep_ok (layout_core toks) = true.
Proof.
  intros H. destruct (layout_core_split toks) as [sp [E _]]. rewrite E in H. apply (sep_ok_app_inv _ _ H).
Qed.

Lemma under_front_core toks : under_front toks = false -> under_front (layout_core toks) = false.
Proof.
  intros H. destruct (layout_core_split toks) as [sp [E F]]. destruct (layout_core toks) as [|t core]; [reflexivity|].
  rewrite E in H. exact H.
Qed.

Lemma stable_layout_core toks : stable_layout toks = true -> stable_layout (layout_core toks) = true.
Proof.
  unfold stable_layout. intros H. apply andb_true_iff in H. destruct H as [H1 H2]. apply negb_true_iff in H2.
  rewrite (sep_ok_core _ H1), (under_front_core _ H2). reflexivity.
Qed.

(** space literals at the end of the layout do not spoil a successful parse *)
Lemma parse_tokens_spaces_nil sp y m d : Forall (fun t => t = Lit 32) sp ->
  parse_tokens sp [] y m d = Some (y, m, d).
Proof.
  intros F. destruct F as [|t sp -> F]; [reflexivity|].
  rewrite parse_tokens_space_end. rewrite (drop_space_lits_spaces _ F). reflexivity.
Qed.

Lemma parse_tokens_app_spaces sp : Forall (fun t => t = Lit 32) sp ->
  forall l s y m d res, parse_tokens l s y m d = Some res -> parse_tokens (l ++ sp) s y m d = Some res.
Proof.
  intros F.
  assert (Hnil : forall s y m d res, parse_tokens [] s y m d = Some res -> parse_tokens sp s y m d = Some res).
  { intros s y m d res H. cbn in H. destruct s; [|discriminate]. injection H as <-. apply parse_tokens_spaces_nil, F. }
  assert (G : forall n l, (length l <= n)%nat -> forall s y m d res,
                parse_tokens l s y m d = Some res -> parse_tokens (l ++ sp) s y m d = Some res).
  { induction n as [|n IH]; intros l Hn s y m d res H.
    - destruct l; [|cbn in Hn; lia]. apply Hnil, H.
    - destruct l as [|t l]; [apply Hnil, H|]. cbn [length] in Hn.
      assert (Hl : (length l <= n)%nat) by lia. cbn [app].
      destruct t as [| | | | | | | |c].
      + cbn [parse_tokens] in *. destruct (take_digits 4 s 0) as [[v s']|]; [|discriminate]. apply IH; assumption.
      + cbn [parse_tokens] in *. destruct (take_digits 2 s 0) as [[v s']|]; [|discriminate].
        destruct (_ && _)%bool; [|discriminate]. apply IH; assumption.
      + cbn [parse_tokens] in *. destruct (take_digits 2 s 0) as [[v s']|]; [|discriminate]. apply IH; assumption.
      + cbn [parse_tokens] in *. destruct (get_num s) as [[v s']|]; [|discriminate]. apply IH; assumption.
      + cbn [parse_tokens] in *. destruct (get_num (drop_one_space s)) as [[v s']|]; [|discriminate]. apply IH; assumption.
      + cbn [parse_tokens] in *. destruct (get_num s) as [[v s']|]; [|discriminate].
        destruct (_ && _)%bool; [|discriminate]. apply IH; assumption.
      + cbn [parse_tokens] in *. destruct (lookup_name short_months 1 s) as [[v s']|]; [|discriminate]. apply IH; assumption.
      + cbn [parse_tokens] in *. destruct (lookup_name long_months 1 s) as [[v s']|]; [|discriminate]. apply IH; assumption.
      + destruct (N.eqb_spec c 32) as [->|Hc].
        * rewrite parse_tokens_space_eq in *. rewrite (drop_space_lits_app l sp F).
          pose proof (drop_space_lits_length l) as Hlen.
          assert (X : forall s0, parse_tokens (drop_space_lits l) s0 y m d = Some res ->
                                 parse_tokens (match drop_space_lits l with [] => [] | _ => drop_space_lits l ++ sp end)
                                   s0 y m d = Some res).
          { intros s0 H0. destruct (drop_space_lits l) as [|t0 l0] eqn:El; [exact H0|].
            apply IH; [lia|exact H0]. }
          destruct s as [|c' s0]; [apply X, H|]. destruct (c' =? 32); [apply X, H|discriminate].
        * rewrite parse_tokens_lit in * by exact Hc. destruct s as [|c' s0]; [discriminate|].
          destruct (c =? c'); [|discriminate]. apply IH; assumption. }
  intros l. apply (G (length l) l). lia.
Qed.

(** the date formatted without the spaces at the end of the layout is read under the layout *)
Lemma format_parse_date_core toks cv :
  sep_ok toks = true -> civil_fits toks cv -> parse_date toks (format_date (layout_core toks) cv) = Some cv.
Proof.
  intros Hsep Hfit. pose proof (format_parse_date_fits _ _ (sep_ok_core _ Hsep) (civil_fits_core _ _ Hfit)) as H.
  destruct (layout_core_split toks) as [sp [E F]]. set (core := layout_core toks) in *.
  unfold parse_date in *.
  destruct (parse_tokens core (format_date core cv) 0 1 1) as [r|] eqn:Ep; [|discriminate].
  rewrite E. rewrite (parse_tokens_app_spaces sp F _ _ _ _ _ _ Ep). exact H.
Qed.

Lemma format_date_app l1 l2 cv : format_date (l1 ++ l2) cv = format_date l1 cv ++ format_date l2 cv.
Proof. rewrite !format_date_concat. rewrite map_app, concat_app. reflexivity. Qed.

(** what [format_date] writes for the spaces at the end of the layout is in the parser's trim set *)
Lemma format_date_core toks cv :
  exists post, format_date toks cv = format_date (layout_core toks) cv ++ post /\ all_in trim_text post = true.
Proof.
  destruct (layout_core_split toks) as [sp [E F]]. set (core := layout_core toks) in *.
  exists (format_date sp cv). split; [rewrite E at 1; apply format_date_app|].
  rewrite format_date_concat. clear E. induction F as [|t sp -> _ IH]; [reflexivity|].
  cbn [map concat]. destruct cv as [[y m] d]. cbn [format_tok]. rewrite all_in_app. rewrite IH. reflexivity.
Qed.

(** the bytes of a date formatted under a safe layout *)
Lemma format_date_bytes toks cv :
  forallb safe_tok toks = true -> civil_fits toks cv -> forallb date_byte (format_date toks cv) = true.
Proof.
  intros Hs Hfit. rewrite format_date_concat.
  assert (G : forall l, forallb safe_tok l = true -> forallb date_byte (concat (map (format_tok cv) l)) = true).
  { induction l as [|t l IH]; intros Hl; [reflexivity|]. cbn [forallb] in Hl. apply andb_true_iff in Hl.
    destruct Hl as [Ht Hl]. cbn [map concat]. rewrite forallb_app. rewrite (IH Hl).
    destruct (tok_bytes_spec toks cv t Hfit Ht) as [Hb _]. rewrite Hb. reflexivity. }
  apply G, Hs.
Qed.
