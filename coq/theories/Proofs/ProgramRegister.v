(** WP25, part A: property C02 for the COMMAND [reg] ([Cli.run]): bytes of the log and of the
    recipe book in, bytes on standard output out. *)
From Coq Require Import Lia Permutation.
From HP Require Import Base.Bytes Base.Utf8 Base.Num Model.Scanner Model.Parser Model.Elements Model.Resolver
  Model.Dates Model.Tree Model.Writer Model.Reporters Model.Cli.
From HP Require Import Spec.RegisterSpec Spec.Agree2Spec Spec.AgreeSpec Spec.ProgramSpec.
From HP Require Import Proofs.RegisterSort Proofs.RegisterAssoc Proofs.Register Proofs.RegisterExtra.
From HP Require Import Proofs.AgreeMiscBase Proofs.AgreeMiscStats Proofs.AgreeMiscWalk Proofs.AgreeMiscProgram
  Proofs.PresentationFlags Proofs.ProgramBase.

Section Texts.
  Context (NM : Num).
  Notation T := (T NM).
  Notation db := (list (bytes * list (bytes * T))).

  (** the two templates on a day item, in pieces: date, rows half, totals half, final LF *)
  Lemma render_default_pieces : forall (c : rconfig) (it : report_item NM),
    render_default NM c it
    = fdate c (ri_time NM it)
      ++ default_rows_text NM (rc_color c) (rc_shorten c) (ri_elements NM it)
      ++ match ri_totals NM it with
         | None => []
         | Some ts => default_totals_text NM (rc_color c) (rc_shorten c) ts
         end
      ++ [c_lf].
  Proof.
    intros c it. unfold render_default, default_rows_text, default_totals_text.
    f_equal. f_equal.
    - apply flat_map_ext. intros [[name v] ings]. reflexivity.
    - f_equal. destruct (ri_totals NM it) as [ts|]; [|reflexivity].
      do 2 f_equal. apply flat_map_ext. intros [[[name p] n] s]. reflexivity.
  Qed.

  Lemma render_left_pieces : forall (c : rconfig) (it : report_item NM),
    render_left NM c it
    = fdate c (ri_time NM it)
      ++ left_rows_text NM (rc_color c) (ri_elements NM it)
      ++ match ri_totals NM it with
         | None => []
         | Some ts => left_totals_text NM (rc_color c) ts
         end
      ++ [c_lf].
  Proof.
    intros c it. unfold render_left, left_rows_text, left_totals_text.
    f_equal. f_equal.
    - apply flat_map_ext. intros [[name v] ings]. reflexivity.
    - f_equal. destruct (ri_totals NM it) as [ts|]; [|reflexivity].
      do 2 f_equal. apply flat_map_ext. intros [[[name p] n] s]. reflexivity.
  Qed.

  Lemma render_default_day : forall (c : rconfig) (d : db) t es,
    render_default NM c (day_item NM c d t es)
    = fdate c t
      ++ (if rc_totals_only c then [] else default_rows_text NM (rc_color c) (rc_shorten c) (day_rows NM d es))
      ++ (if rc_totals c then default_totals_text NM (rc_color c) (rc_shorten c) (day_totals NM d es) else [])
      ++ [c_lf].
  Proof.
    intros c d t es. rewrite render_default_pieces. cbn [day_item ri_time ri_elements ri_totals].
    destruct (rc_totals_only c), (rc_totals c); reflexivity.
  Qed.

  Lemma render_left_day : forall (c : rconfig) (d : db) t es,
    render_left NM c (day_item NM c d t es)
    = fdate c t
      ++ (if rc_totals_only c then [] else left_rows_text NM (rc_color c) (day_rows NM d es))
      ++ (if rc_totals c then left_totals_text NM (rc_color c) (day_totals NM d es) else [])
      ++ [c_lf].
  Proof.
    intros c d t es. rewrite render_left_pieces. cbn [day_item ri_time ri_elements ri_totals].
    destruct (rc_totals_only c), (rc_totals c); reflexivity.
  Qed.

  (** the walk of a reporter over the period's records, when what a day writes depends on the record alone *)
  Lemma walk_chunks_from_records : forall (R : reporter NM) (g : record NM -> list chunk) π,
    (forall j : nat, oracle (π j)) ->
    (forall p st r, oracle p -> snd (fst (r_process NM R p st (day_node NM r))) = g r) ->
    forall (recs : list (record NM)) i st,
      walk_chunks_from NM R π i (map (day_node NM) recs) st = flat_map g recs.
  Proof.
    intros R g π Hπ Hg recs. induction recs as [|r rest IH]; intros i st; [reflexivity|].
    cbn [map walk_chunks_from flat_map]. rewrite (Hg (π i) st r (Hπ i)). f_equal. apply IH.
  Qed.
End Texts.

Section Register.
  Context (NM : Num).
  Notation T := (T NM).
  Notation db := (list (bytes * list (bytes * T))).

  (** the healthy run: both files open as regular files without read faults, are scanned to their
      end, have no parse error; every heading of the log parses under the configured layout; the
      book resolves; standard output never fails *)
  Context (w : world) (i : invocation) (op : options) (odb : opened) (d : db) (ldata : bytes).
  Hypothesis Hload : load w i = inr op.
  Hypothesis Hsink : w_sink w = None.
  Hypothesis Hodb : open_file w (op_db op) = Some odb.
  Hypothesis Hres : resolved_db NM w op odb = inr d.
  Hypothesis Hlog : open_file w (op_log op) = Some (OData ldata NoFault).
  Hypothesis Hfin : snd (scan ldata NoFault) = ScanEOF.
  Hypothesis Hne : no_parse_error NM (events NM ldata).
  Hypothesis Hdated : all_dated NM (rc_date (op_rc op)) (log_records NM ldata).
  Hypothesis Hday : forall j : nat, oracle (o_day (w_or w) j).

  Let c := op_rc op.
  Let toks := rc_date (op_rc op).
  Let Htoks : tokenize (op_fmt op) = Some toks := proj1 (load_now w i op Hload).
  Let recs := command_records NM op ldata.
  Let L := selected_days NM toks (op_begin op) (op_end op) (nodes_of NM (events NM ldata)).

  Lemma L_records : L = map (day_node NM) recs.
  Proof. unfold L, recs, command_records, log_records. apply selected_days_records. Qed.

  (** which reporter [reg] picks *)
  Lemma reg_picks_template :
    i_single_element i = [] -> i_single_food i = [] -> i_old i = false ->
    reg_reporter NM c d = rep_template NM c d.
  Proof.
    intros Hse Hsf Hold. destruct (color_flag_any_level w i op Hload) as (_ & _ & _ & _ & Ho & _ & _ & _ & _ & _ & He & Hf).
    unfold reg_reporter, c. rewrite He, Hf, Ho, Hse, Hsf, Hold. reflexivity.
  Qed.

  Lemma reg_picks_old :
    i_single_element i = [] -> i_single_food i = [] -> i_old i = true ->
    reg_reporter NM c d = rep_old NM c d.
  Proof.
    intros Hse Hsf Hold. destruct (color_flag_any_level w i op Hload) as (_ & _ & _ & _ & Ho & _ & _ & _ & _ & _ & He & Hf).
    unfold reg_reporter, c. rewrite He, Hf, Ho, Hse, Hsf, Hold. reflexivity.
  Qed.

  (** [reg] with the template reporter: one template execution per selected record, in file order *)
  Theorem register_program_template :
    i_cmd i = CReg -> i_single_element i = [] -> i_single_food i = [] -> i_old i = false ->
    run NM w i
    = {| out_stdout := concat (map (fun r => fst (template_day_chunk NM c d (rec_time NM r) (rec_entries NM r))) recs);
         out_status := Ok |}.
  Proof.
    intros Hcmd Hse Hsf Hold. unfold run. rewrite Hload, Hcmd. fold c.
    pose proof (reg_picks_template Hse Hsf Hold) as Hmk.
    rewrite (run_db_log_ok NM w op (reg_reporter NM c) (op_begin op) (op_end op) toks odb d ldata);
      try assumption; try (rewrite Hmk; try apply never_fails_template; reflexivity).
    fold L. rewrite Hmk. rewrite L_records. unfold walk_chunks.
    rewrite (walk_chunks_from_records NM (rep_template NM c d)
               (fun r => [template_day_chunk NM c d (rec_time NM r) (rec_entries NM r)]) (o_day (w_or w)) Hday).
    - cbn [rep_template r_flush]. unfold Agree2Spec.chunk_bytes. cbn [map concat]. rewrite app_nil_r.
      rewrite flat_map_singleton, map_map. reflexivity.
    - intros p st [[t es] m] Hp. unfold day_node. cbn [fst snd].
      rewrite (template_process_spec NM c d p st t es m Hp). reflexivity.
  Qed.

  Lemma template_is_default : i_template i <> Some (b "left-aligned") ->
    beq (rc_template c) (b "left-aligned") = false.
  Proof.
    intro Ht. destruct (color_flag_any_level w i op Hload) as (_ & _ & _ & _ & _ & Htm & _).
    unfold c. rewrite Htm. destruct (i_template i) as [t|]; [|reflexivity]. cbn [or_default].
    destruct (beq t (b "left-aligned")) eqn:E; [|reflexivity].
    apply RegisterSort.beq_true_iff in E. subst t. exfalso. apply Ht. reflexivity.
  Qed.

  Lemma template_is_left : i_template i = Some (b "left-aligned") ->
    beq (rc_template c) (b "left-aligned") = true.
  Proof.
    intro Ht. destruct (color_flag_any_level w i op Hload) as (_ & _ & _ & _ & _ & Htm & _).
    unfold c. rewrite Htm, Ht. reflexivity.
  Qed.

  (** *** A.default: [reg] with no -s / -f, the default template, not the old reporter *)
  Theorem register_program_default :
    i_cmd i = CReg -> i_single_element i = [] -> i_single_food i = [] -> i_old i = false ->
    i_template i <> Some (b "left-aligned") ->
    run NM w i
    = {| out_stdout := concat (map (fun r => render_default NM c (day_item NM c d (rec_time NM r) (rec_entries NM r))) recs);
         out_status := Ok |}.
  Proof.
    intros Hcmd Hse Hsf Hold Ht. rewrite (register_program_template Hcmd Hse Hsf Hold).
    f_equal. f_equal. apply map_ext. intro r. unfold template_day_chunk. rewrite (template_is_default Ht). reflexivity.
  Qed.

  (** *** A.left: [--internal-template-name left-aligned] *)
  Theorem register_program_left :
    i_cmd i = CReg -> i_single_element i = [] -> i_single_food i = [] -> i_old i = false ->
    i_template i = Some (b "left-aligned") ->
    run NM w i
    = {| out_stdout := concat (map (fun r => render_left NM c (day_item NM c d (rec_time NM r) (rec_entries NM r))) recs);
         out_status := Ok |}.
  Proof.
    intros Hcmd Hse Hsf Hold Ht. rewrite (register_program_template Hcmd Hse Hsf Hold).
    f_equal. f_equal. apply map_ext. intro r. unfold template_day_chunk. rewrite (template_is_left Ht). reflexivity.
  Qed.

  (** *** A.old: [--use-old-reg-reporter] *)
  Theorem register_program_old :
    i_cmd i = CReg -> i_single_element i = [] -> i_single_food i = [] -> i_old i = true ->
    run NM w i
    = {| out_stdout := concat (map (fun r => chunks_text (old_day_chunks NM c d (rec_time NM r) (rec_entries NM r))) recs);
         out_status := Ok |}.
  Proof.
    intros Hcmd Hse Hsf Hold. unfold run. rewrite Hload, Hcmd. fold c.
    pose proof (reg_picks_old Hse Hsf Hold) as Hmk.
    rewrite (run_db_log_ok NM w op (reg_reporter NM c) (op_begin op) (op_end op) toks odb d ldata);
      try assumption; try (rewrite Hmk; try apply never_fails_old; reflexivity).
    fold L. rewrite Hmk. rewrite L_records. unfold walk_chunks.
    rewrite (walk_chunks_from_records NM (rep_old NM c d)
               (fun r => old_day_chunks NM c d (rec_time NM r) (rec_entries NM r)) (o_day (w_or w)) Hday).
    - cbn [rep_old r_flush]. rewrite chunk_bytes_flat_map. unfold Agree2Spec.chunk_bytes at 2. cbn [map concat].
      rewrite app_nil_r. reflexivity.
    - intros p st [[t es] m] Hp. unfold day_node. cbn [fst snd].
      rewrite (old_process_spec NM c d p st t es m Hp). reflexivity.
  Qed.
  (** *** A.flags: the same output with every switch of the invocation explicit; [--no-totals] and
      [--totals-only] select the two halves [E] (rows) and [Tt] (TOTAL block) of each day *)
  Lemma rc_fields :
    rc_color c = negb (i_g_no_color i || i_l_no_color i)
    /\ rc_totals_only c = i_totals_only i /\ rc_totals c = negb (i_no_totals i) /\ rc_shorten c = i_shorten i.
  Proof.
    destruct (color_flag_any_level w i op Hload) as (H1 & H2 & H3 & H4 & _). unfold c. repeat split; assumption.
  Qed.

  Theorem register_program_flags :
    i_cmd i = CReg -> i_single_element i = [] -> i_single_food i = [] -> i_old i = false ->
    i_template i <> Some (b "left-aligned") ->
    let color := negb (i_g_no_color i || i_l_no_color i) in
    let D := fun r : record NM => format_date toks (civ (rec_time NM r)) in
    let E := fun r : record NM => default_rows_text NM color (i_shorten i) (day_rows NM d (rec_entries NM r)) in
    let Tt := fun r : record NM => default_totals_text NM color (i_shorten i) (day_totals NM d (rec_entries NM r)) in
    run NM w i
    = {| out_stdout := concat (map (fun r => D r ++ (if i_totals_only i then [] else E r)
                                             ++ (if i_no_totals i then [] else Tt r) ++ [c_lf]) recs);
         out_status := Ok |}.
  Proof.
    intros Hcmd Hse Hsf Hold Ht color D E Tt. rewrite (register_program_default Hcmd Hse Hsf Hold Ht).
    f_equal. f_equal. apply map_ext. intro r. rewrite render_default_day.
    destruct rc_fields as (Hc & Hto & Htt & Hsh). rewrite Hc, Hto, Htt, Hsh.
    unfold D, E, Tt, color, fdate, c, toks. destruct (i_no_totals i); reflexivity.
  Qed.

  Theorem register_program_left_flags :
    i_cmd i = CReg -> i_single_element i = [] -> i_single_food i = [] -> i_old i = false ->
    i_template i = Some (b "left-aligned") ->
    let color := negb (i_g_no_color i || i_l_no_color i) in
    let D := fun r : record NM => format_date toks (civ (rec_time NM r)) in
    let E := fun r : record NM => left_rows_text NM color (day_rows NM d (rec_entries NM r)) in
    let Tt := fun r : record NM => left_totals_text NM color (day_totals NM d (rec_entries NM r)) in
    run NM w i
    = {| out_stdout := concat (map (fun r => D r ++ (if i_totals_only i then [] else E r)
                                             ++ (if i_no_totals i then [] else Tt r) ++ [c_lf]) recs);
         out_status := Ok |}.
  Proof.
    intros Hcmd Hse Hsf Hold Ht color D E Tt. rewrite (register_program_left Hcmd Hse Hsf Hold Ht).
    f_equal. f_equal. apply map_ext. intro r. rewrite render_left_day.
    destruct rc_fields as (Hc & Hto & Htt & Hsh). rewrite Hc, Hto, Htt.
    unfold D, E, Tt, color, fdate, c, toks. destruct (i_no_totals i); reflexivity.
  Qed.

  (** *** the old reporter, explicitly: it prints what the default template prints EXCEPT that
      (1) [--shorten] has no effect (names are never shortened: [false] where the template has
      [i_shorten i]) and (2) a day without any contribution gets no TOTAL block at all (the template
      prints the TOTAL header line alone) *)
  Definition no_shorten (c0 : rconfig) : rconfig :=
    {| rc_color := rc_color c0; rc_totals_only := rc_totals_only c0; rc_totals := rc_totals c0;
       rc_date := rc_date c0; rc_single_element := rc_single_element c0; rc_single_food := rc_single_food c0;
       rc_collapse_last := rc_collapse_last c0; rc_collapse := rc_collapse c0; rc_group_food := rc_group_food c0;
       rc_shorten := false; rc_old := rc_old c0; rc_template := rc_template c0; rc_csv := rc_csv c0 |}.

  Lemma old_day_text : forall (c0 : rconfig) t es,
    chunks_text (old_day_chunks NM c0 d t es)
    = fdate c0 t
      ++ (if rc_totals_only c0 then [] else default_rows_text NM (rc_color c0) false (day_rows NM d es))
      ++ (if rc_totals c0 then match day_totals NM d es with
                               | [] => []
                               | ts => default_totals_text NM (rc_color c0) false ts
                               end else [])
      ++ [c_lf].
  Proof.
    intros c0 t es. unfold chunks_text. rewrite <- flat_map_concat_map.
    change (flat_map fst (old_day_chunks NM c0 d t es))
      with (RegisterExtra.chunk_bytes (old_day_chunks NM (no_shorten c0) d t es)).
    destruct (rc_totals c0) eqn:Et.
    - destruct (day_totals NM d es) as [|row rows] eqn:Ed.
      + pose proof (old_bytes_no_contribution NM (no_shorten c0) eq_refl d t es Et Ed) as H.
        rewrite render_default_day in H. cbn [no_shorten rc_totals rc_totals_only rc_color rc_shorten] in H.
        rewrite Et, Ed in H. unfold default_totals_text in H. cbn [flat_map] in H. rewrite app_nil_r in H.
        apply (app_inv_tail (total_header_default ++ [c_lf])). rewrite <- H.
        unfold fdate. cbn [no_shorten rc_date]. rewrite <- !app_assoc. reflexivity.
      + rewrite (old_bytes_eq_default NM (no_shorten c0) eq_refl d t es).
        * rewrite render_default_day. cbn [no_shorten rc_totals rc_totals_only rc_color rc_shorten].
          rewrite Et, Ed. reflexivity.
        * intros _. rewrite Ed. discriminate.
    - rewrite (old_bytes_eq_default NM (no_shorten c0) eq_refl d t es).
      + rewrite render_default_day. cbn [no_shorten rc_totals rc_totals_only rc_color rc_shorten].
        rewrite Et. reflexivity.
      + cbn [no_shorten rc_totals]. rewrite Et. discriminate.
  Qed.

  Theorem register_program_old_explicit :
    i_cmd i = CReg -> i_single_element i = [] -> i_single_food i = [] -> i_old i = true ->
    let color := negb (i_g_no_color i || i_l_no_color i) in
    let D := fun r : record NM => format_date toks (civ (rec_time NM r)) in
    let E := fun r : record NM => default_rows_text NM color false (day_rows NM d (rec_entries NM r)) in
    let Tt := fun r : record NM => match day_totals NM d (rec_entries NM r) with
                                   | [] => []
                                   | ts => default_totals_text NM color false ts
                                   end in
    run NM w i
    = {| out_stdout := concat (map (fun r => D r ++ (if i_totals_only i then [] else E r)
                                             ++ (if i_no_totals i then [] else Tt r) ++ [c_lf]) recs);
         out_status := Ok |}.
  Proof.
    intros Hcmd Hse Hsf Hold color D E Tt. rewrite (register_program_old Hcmd Hse Hsf Hold).
    f_equal. f_equal. apply map_ext. intro r. rewrite old_day_text.
    destruct rc_fields as (Hc & Hto & Htt & Hsh). rewrite Hc, Hto, Htt.
    unfold D, E, Tt, color, fdate, c, toks. destruct (i_no_totals i); reflexivity.
  Qed.
End Register.

(** * [--no-totals] / [--totals-only]: three runs of [reg] that differ in these switches only *)
Definition with_rc_totals (op : options) (no_totals totals_only : bool) : options :=
  {| op_db := op_db op; op_log := op_log op; op_fmt := op_fmt op; op_depth := op_depth op; op_now := op_now op;
     op_begin := op_begin op; op_end := op_end op;
     op_rc := {| rc_color := rc_color (op_rc op); rc_totals_only := totals_only; rc_totals := negb no_totals;
                 rc_date := rc_date (op_rc op); rc_single_element := rc_single_element (op_rc op);
                 rc_single_food := rc_single_food (op_rc op); rc_collapse_last := rc_collapse_last (op_rc op);
                 rc_collapse := rc_collapse (op_rc op); rc_group_food := rc_group_food (op_rc op);
                 rc_shorten := rc_shorten (op_rc op); rc_old := rc_old (op_rc op);
                 rc_template := rc_template (op_rc op); rc_csv := rc_csv (op_rc op) |} |}.

Lemma load_with_totals_flags : forall (w : world) (i : invocation) (op : options) nt to,
  load w i = inr op -> load w (with_totals_flags i nt to) = inr (with_rc_totals op nt to).
Proof.
  intros w i op nt to H. unfold load in *.
  change (load_config w (with_totals_flags i nt to)) with (load_config w i).
  destruct (load_config w i) as [e|cfg]; [discriminate H|].
  cbn [with_totals_flags i_f_db i_e_db i_f_log i_e_log i_f_fmt i_e_fmt i_f_depth i_e_depth i_f_today i_f_config
       i_e_config i_no_database i_g_begin i_g_end i_l_begin i_l_end i_g_no_color i_l_no_color i_single_food
       i_single_element i_group_food i_csv i_no_totals i_totals_only i_shorten i_old i_template i_collapse
       i_collapse_last i_desc i_silent i_cmd].
  destruct (tokenize (pick_string (i_f_fmt i) (i_e_fmt i) (ce_fmt cfg) default_fmt)) as [toks|]; [|discriminate H].
  destruct (match i_f_today i with
            | Some s => match parse_date toks s with Some c => inr (time_of_civil c) | None => inl EBadDate end
            | None => inr (time_of_civil (civ (or_default (ce_now cfg) (w_clock w))))
            end) as [e|now]; [discriminate H|].
  destruct (pick_period w now toks (i_g_begin i) (i_l_begin i)) as [e|bt]; [discriminate H|].
  destruct (pick_period w now toks (i_g_end i) (i_l_end i)) as [e|et]; [discriminate H|].
  injection H as <-. reflexivity.
Qed.

(** "the default register output is exactly the no-totals and totals-only outputs interleaved per
    day", between three COMMANDS, with the two halves given by the reference semantics *)
Theorem register_program_interleave :
  forall (NM : Num) (w : world) (i : invocation) (op : options) (odb : opened)
         (d : list (bytes * list (bytes * T NM))) (ldata : bytes),
    load w i = inr op -> w_sink w = None ->
    open_file w (op_db op) = Some odb -> resolved_db NM w op odb = inr d ->
    open_file w (op_log op) = Some (OData ldata NoFault) ->
    snd (scan ldata NoFault) = ScanEOF -> no_parse_error NM (events NM ldata) ->
    all_dated NM (rc_date (op_rc op)) (log_records NM ldata) ->
    (forall j : nat, oracle (o_day (w_or w) j)) ->
    i_cmd i = CReg -> i_single_element i = [] -> i_single_food i = [] -> i_old i = false ->
    i_template i <> Some (b "left-aligned") ->
    let recs := command_records NM op ldata in
    let color := negb (i_g_no_color i || i_l_no_color i) in
    let D := fun r : record NM => format_date (rc_date (op_rc op)) (civ (rec_time NM r)) in
    let E := fun r : record NM => default_rows_text NM color (i_shorten i) (day_rows NM d (rec_entries NM r)) in
    let Tt := fun r : record NM => default_totals_text NM color (i_shorten i) (day_totals NM d (rec_entries NM r)) in
    run NM w (with_totals_flags i false false)
    = {| out_stdout := concat (map (fun r => D r ++ E r ++ Tt r ++ [c_lf]) recs); out_status := Ok |}
    /\ run NM w (with_totals_flags i true false)
       = {| out_stdout := concat (map (fun r => D r ++ E r ++ [c_lf]) recs); out_status := Ok |}
    /\ run NM w (with_totals_flags i false true)
       = {| out_stdout := concat (map (fun r => D r ++ Tt r ++ [c_lf]) recs); out_status := Ok |}
    /\ run NM w (with_totals_flags i true true)
       = {| out_stdout := concat (map (fun r => D r ++ [c_lf]) recs); out_status := Ok |}.
Proof.
  intros NM w i op odb d ldata Hload Hsink Hodb Hres Hlog Hfin Hne Hdated Hday Hcmd Hse Hsf Hold Ht recs color D E Tt.
  assert (Hrun : forall nt to,
             run NM w (with_totals_flags i nt to)
             = {| out_stdout := concat (map (fun r => D r ++ (if to then [] else E r) ++ (if nt then [] else Tt r) ++ [c_lf]) recs);
                  out_status := Ok |}).
  { intros nt to.
    exact (register_program_flags NM w (with_totals_flags i nt to) (with_rc_totals op nt to) odb d ldata
             (load_with_totals_flags w i op nt to Hload) Hsink Hodb Hres Hlog Hfin Hne Hdated Hday Hcmd Hse Hsf Hold Ht). }
  repeat split; rewrite Hrun; reflexivity.
Qed.
