(** WP02 (C01) – the amounts of the reference value: for a commutative semiring
    the amount of [x] in the value of [r] is the sum, over all ingredient paths
    from [r] to [x], of the product of the coefficients along the path.

    The laws really used are listed as section hypotheses ([mul_assoc] and
    [mul_1_l] of [CSemiring] are NOT needed: [paths] multiplies in the same
    nesting as the algorithm does). *)
From Coq Require Import Lia ZifyBool ZifyNat ZifyN Permutation Sorted.
From HP Require Import Base.Bytes Base.Num Model.Elements Model.Resolver Spec.ResolverSpec.
From HP Require Import Proofs.ResolverValueBytes Proofs.ResolverValueStruct.

Section Sum.
  Context (NM : Num).
  Notation T := (T NM).
  Notation elements := (elements NM).
  Notation db := (db NM).
  Notation "x + y" := (add NM x y).
  Notation "x * y" := (mul NM x y).
  Notation "0" := (zero NM).

  (** ** law-free part *)

  (** right-nested sum of the amounts paired with [x] *)
  Fixpoint sumr (x : bytes) (l : list (bytes * T)) : T :=
    match l with
    | [] => 0
    | p :: l' => if beq (fst p) x then snd p + sumr x l' else sumr x l'
    end.

  (** amount of [x] in an element list, [0] when absent *)
  Definition get (x : bytes) (l : elements) : T :=
    match lookup x l with Some a => a | None => 0 end.

  Lemma sumr_absent : forall x l, ~ In x (map fst l) -> sumr x l = 0.
  Proof.
    intros x l. induction l as [|[k a] l IH]; cbn [sumr map fst In]; [reflexivity|].
    intro H. destruct (beq_spec k x) as [E|E].
    - exfalso. apply H. left. exact E.
    - apply IH. intro H'. apply H. right. exact H'.
  Qed.

  Lemma lookup_add_to : forall x n v (el : elements),
    lookup x (add_to NM n v el) =
    if beq x n then Some (match lookup x el with Some a => a + v | None => v end) else lookup x el.
  Proof.
    intros x n v el. induction el as [|[k a] el IH]; cbn [add_to lookup].
    - reflexivity.
    - destruct (beq_spec k n) as [Ekn|Ekn]; cbn [lookup].
      + subst k. destruct (beq_spec x n) as [Exn|Exn]; reflexivity.
      + rewrite IH. destruct (beq_spec x k) as [Exk|Exk]; [|reflexivity].
        subst k. destruct (beq_spec x n) as [Exn|Exn]; [congruence|reflexivity].
  Qed.

  (** ** with the laws *)
  Hypothesis Hadd_comm : forall x y : T, x + y = y + x.
  Hypothesis Hadd_assoc : forall x y z : T, x + (y + z) = (x + y) + z.
  Hypothesis Hadd_0_l : forall x : T, 0 + x = x.
  Hypothesis Hmul_comm : forall x y : T, x * y = y * x.
  Hypothesis Hmul_0_l : forall x : T, 0 * x = 0.
  Hypothesis Hmul_add_distr_l : forall x y z : T, x * (y + z) = (x * y) + (x * z).

  Lemma add_0_r : forall x : T, x + 0 = x.
  Proof. intro x. rewrite Hadd_comm. apply Hadd_0_l. Qed.

  Lemma mul_add_distr_r : forall x y z : T, (y + z) * x = (y * x) + (z * x).
  Proof. intros x y z. rewrite (Hmul_comm (y + z)), Hmul_add_distr_l, (Hmul_comm x y), (Hmul_comm x z). reflexivity. Qed.

  Lemma sum_of_fold : forall x l a,
    fold_left (fun a xp => if beq (fst xp) x then a + snd xp else a) l a = a + sumr x l.
  Proof.
    intros x l. induction l as [|p l IH]; intro a; cbn [fold_left sumr].
    - symmetry. apply add_0_r.
    - rewrite IH. destruct (beq (fst p) x); [|reflexivity]. symmetry. apply Hadd_assoc.
  Qed.

  Lemma sum_of_sumr : forall x l, sum_of NM x l = sumr x l.
  Proof. intros x l. unfold sum_of. rewrite sum_of_fold. apply Hadd_0_l. Qed.

  Lemma sumr_app : forall x l1 l2, sumr x (l1 ++ l2) = sumr x l1 + sumr x l2.
  Proof.
    intros x l1 l2. induction l1 as [|p l1 IH]; cbn [app sumr].
    - symmetry. apply Hadd_0_l.
    - rewrite IH. destruct (beq (fst p) x); [|reflexivity]. apply Hadd_assoc.
  Qed.

  Lemma sumr_scale : forall x m l, sumr x (map (scale NM m) l) = sumr x l * m.
  Proof.
    intros x m l. induction l as [|[k a] l IH]; cbn [map sumr scale fst snd].
    - symmetry. apply Hmul_0_l.
    - rewrite IH. destruct (beq k x); [|reflexivity]. symmetry. apply mul_add_distr_r.
  Qed.

  Lemma sumr_NoDup_get : forall x (l : elements), NoDup (map fst l) -> sumr x l = get x l.
  Proof.
    intros x l. unfold get. induction l as [|[k a] l IH]; cbn [map fst sumr lookup]; intro Hnd; [reflexivity|].
    inversion Hnd as [|k' ks Hout Hnd']; subst.
    rewrite (beq_sym x k). destruct (beq_spec k x) as [E|E].
    - subst k. rewrite sumr_absent by exact Hout. apply add_0_r.
    - apply IH. exact Hnd'.
  Qed.

  Lemma get_add_to : forall x n v el, get x (add_to NM n v el) = if beq x n then get x el + v else get x el.
  Proof.
    intros x n v el. unfold get. rewrite lookup_add_to. destruct (beq x n); [|reflexivity].
    destruct (lookup x el) as [a|]; [reflexivity|]. symmetry. apply Hadd_0_l.
  Qed.

  Lemma get_merge_into : forall x l acc, get x (merge_into NM acc l) = get x acc + sumr x l.
  Proof.
    intros x l. induction l as [|[n v] l IH]; intro acc.
    - rewrite merge_into_nil. symmetry. apply add_0_r.
    - rewrite merge_into_cons, IH, get_add_to. cbn [fst snd sumr]. rewrite (beq_sym x n).
      destruct (beq n x); [|reflexivity]. symmetry. apply Hadd_assoc.
  Qed.

  Lemma sumr_concat_flat_map : forall {X} x (R : X -> elements -> Prop) (g : X -> elements) els cs,
    Forall2 R els cs ->
    (forall ev c, In ev els -> R ev c -> sumr x c = sumr x (g ev)) ->
    sumr x (concat cs) = sumr x (flat_map g els).
  Proof.
    intros X x R g els cs HF. induction HF as [|ev c els cs HR HF IH]; intro Hper; [reflexivity|].
    cbn [concat flat_map]. rewrite !sumr_app. f_equal.
    - apply Hper; [left; reflexivity|exact HR].
    - apply IH. intros ev' c' Hin. apply Hper. right. exact Hin.
  Qed.

  Variable B : db.

  (** *** the amount of every name, present or not *)
  Lemma ref_value_get_sumr : forall f r h v x,
    ref_node NM B f r = Some (h, Some v) -> get x v = sumr x (paths NM B f r).
  Proof.
    induction f as [|f IH]; intros r h v x H; [discriminate|].
    destruct (ref_node_value_char _ _ _ _ _ _ H) as [f' [els [cs [Hf [Hl [HF Hv]]]]]].
    injection Hf as Hf. subst f'.
    assert (Hget : get x v = sumr x (concat cs)).
    { subst v. unfold get at 1. rewrite sort_elements_lookup by (apply merge_into_NoDup; constructor).
      fold (get x (merge_into NM [] (concat cs))). rewrite get_merge_into. apply Hadd_0_l. }
    rewrite Hget, paths_S, Hl.
    eapply sumr_concat_flat_map; [exact HF|].
    intros [e a] c _ [he [res [Hrec [_ Hcon]]]]. cbn [fst snd] in *. subst c.
    destruct res as [found|]; cbn [contrib].
    - rewrite !sumr_scale. f_equal.
      rewrite sumr_NoDup_get by (eapply ref_value_sorted_lemma; exact Hrec).
      eapply IH. exact Hrec.
    - destruct f as [|f0]; [discriminate|].
      apply ref_node_None_res_inv in Hrec. destruct Hrec as [Hrec _].
      rewrite paths_S, Hrec. cbn [map scale fst snd]. rewrite (Hmul_comm a). reflexivity.
  Qed.

  Lemma ref_value_get_sum_of : forall f r h v x,
    ref_node NM B f r = Some (h, Some v) -> get x v = sum_of NM x (paths NM B f r).
  Proof. intros f r h v x H. rewrite sum_of_sumr. eapply ref_value_get_sumr. exact H. Qed.
End Sum.

(** ** the statements with the [CSemiring] record *)
Section SumCS.
  Context (NM : Num) (CS : CSemiring NM).
  Variable B : db NM.

  Lemma ref_value_total_sum_of_paths : forall f r h v x,
    ref_node NM B f r = Some (h, Some v) ->
    match lookup x v with Some a => a | None => zero NM end = sum_of NM x (paths NM B f r).
  Proof.
    intros f r h v x H.
    exact (ref_value_get_sum_of NM (add_comm NM CS) (add_assoc NM CS) (add_0_l NM CS) (mul_comm NM CS)
             (mul_0_l NM CS) (mul_add_distr_l NM CS) B f r h v x H).
  Qed.

  Lemma ref_value_sum_of_paths_lemma : forall f r h v x a,
    ref_node NM B f r = Some (h, Some v) -> lookup x v = Some a -> a = sum_of NM x (paths NM B f r).
  Proof.
    intros f r h v x a H Hl. rewrite <- (ref_value_total_sum_of_paths f r h v x H), Hl. reflexivity.
  Qed.

  (** a name that is not in the value is the end of no path *)
  Lemma ref_value_absent_no_path : forall f r h v x,
    ref_node NM B f r = Some (h, Some v) -> lookup x v = None -> occurs NM x (paths NM B f r) = false.
  Proof.
    intros f r h v x H Hl. destruct (occurs NM x (paths NM B f r)) eqn:E; [|reflexivity].
    apply (ref_value_names_are_path_ends_lemma NM B f r h v x H) in E.
    apply lookup_None_iff in Hl. contradiction.
  Qed.
End SumCS.
