(** WP28: examples by computation.  A realistic configuration file with comments, CR LF ends and
    mixed letter case; files gcfg rejects; files outside the modelled subset; instances of the
    layout theorems whose hypotheses are met by non-trivial lines; the harness's rendering. *)
From Coq Require Import Lia.
From HP Require Import Base.Bytes Base.Utf8 Base.Num Model.Scanner Model.Parser Model.Elements Model.Resolver
  Model.Dates Model.Tree Model.Writer Model.Reporters Model.Config Model.Cli Spec.ConfigSpec.
From HP Require Import Proofs.Settings Proofs.SettingsNoDb Proofs.ConfigLine Proofs.ConfigRun Proofs.ConfigRender
  Proofs.ConfigLoad.
Open Scope N_scope.

Definition lf : bytes := [c_lf].
Definition crlf : bytes := [c_cr; c_lf].

(** * a realistic file *)
Definition ex_text : bytes :=
  b "; hranoprovod settings" ++ lf ++
  lf ++
  b "[global]" ++ lf ++
  b "  DbFileName  = /home/me/diet/food.yaml   ; the recipe book" ++ lf ++
  b "  logfilename = /home/me/diet/my log.yaml" ++ crlf ++
  b "# dates the Bulgarian way" ++ lf ++
  [9] ++ b "DATEFORMAT=02.01.2006" ++ lf ++
  b "Now = 2024-02-29T23:59:58+02:00" ++ lf ++
  b "[ Resolver ]  # how deep recipes may nest" ++ lf ++
  b "maxdepth = 7" ++ lf ++
  b "[ParserConfig]" ++ lf.

Definition ex_fields : cfg_fields :=
  {| cf_db := Some (b "/home/me/diet/food.yaml"); cf_log := Some (b "/home/me/diet/my log.yaml");
     cf_fmt := Some (b "02.01.2006"); cf_depth := Some 7%Z;
     cf_now := Some (mk_time 2024 2 29 (23 * 3600 + 59 * 60 + 58) 7200) |}.

Example ex_text_ok : parse_config ex_text = CfgOk ex_fields.
Proof. vm_compute. reflexivity. Qed.

(** the instant of that [Now] is 2024-02-29 21:59:58 UTC *)
Example ex_now_instant : inst (mk_time 2024 2 29 (23 * 3600 + 59 * 60 + 58) 7200) = (1709243998 * ns_per_sec)%Z.
Proof. vm_compute. reflexivity. Qed.

(** a later assignment wins; an empty value is stored as the empty string (which [pick_string]
    treats as unset); a UTF-8 name is a value like any other *)
Example ex_repeated :
  parse_config (b "[Global]" ++ lf ++ b "DbFileName=a.yaml" ++ lf ++ b "[Resolver]" ++ lf ++ b "MaxDepth=3" ++ lf
                ++ b "[GLOBAL]" ++ lf ++ b "DbFileName=" ++ [209; 133; 46; 121] ++ lf ++ b "LogFileName =" ++ lf
                ++ b "[resolver]" ++ lf ++ b "MaxDepth=-0012")
  = CfgOk {| cf_db := Some [209; 133; 46; 121]; cf_log := Some []; cf_fmt := None; cf_depth := Some (-12)%Z; cf_now := None |}.
Proof. vm_compute. reflexivity. Qed.

Example ex_empty : parse_config [] = CfgOk no_fields.
Proof. reflexivity. Qed.

(** * files gcfg rejects *)
Example ex_unknown_variable : parse_config (b "[Global]" ++ lf ++ b "Colour = yes" ++ lf) = CfgError.
Proof. vm_compute. reflexivity. Qed.

Example ex_unknown_section : parse_config (b "[GlobalConfig]" ++ lf) = CfgError.
Proof. vm_compute. reflexivity. Qed.

Example ex_no_section : parse_config (b "DbFileName = food.yaml" ++ lf) = CfgError.
Proof. vm_compute. reflexivity. Qed.

Example ex_wrong_section : parse_config (b "[Global]" ++ lf ++ b "MaxDepth = 3" ++ lf) = CfgError.
Proof. vm_compute. reflexivity. Qed.

Example ex_no_equals : parse_config (b "[Global]" ++ lf ++ b "DbFileName" ++ lf) = CfgError.
Proof. vm_compute. reflexivity. Qed.

Example ex_bad_int :
  parse_config (b "[Resolver]" ++ lf ++ b "MaxDepth = ten") = CfgError /\
  parse_config (b "[Resolver]" ++ lf ++ b "MaxDepth = 1_000") = CfgError /\
  parse_config (b "[Resolver]" ++ lf ++ b "MaxDepth = 9223372036854775808") = CfgError /\
  parse_config (b "[Resolver]" ++ lf ++ b "MaxDepth = 9223372036854775807") <> CfgError /\
  parse_config (b "[Resolver]" ++ lf ++ b "MaxDepth =") = CfgError.
Proof. vm_compute. repeat split; discriminate. Qed.

Example ex_bad_time :
  parse_config (b "[Global]" ++ lf ++ b "Now = 2023-02-29T00:00:00Z") = CfgError /\
  parse_config (b "[Global]" ++ lf ++ b "Now = 2024-02-29T24:00:00Z") = CfgError /\
  parse_config (b "[Global]" ++ lf ++ b "Now = yesterday") = CfgError /\
  parse_config (b "[Global]" ++ lf ++ b "Now =") = CfgError.
Proof. vm_compute. repeat split. Qed.

Example ex_bad_bytes :
  parse_config (b "[Global]" ++ lf ++ b "; " ++ [255] ++ lf) = CfgError /\      (* invalid UTF-8, in a comment *)
  parse_config (b "[Global]" ++ lf ++ b "DbFileName = a" ++ [0] ++ lf) = CfgError /\   (* NUL *)
  parse_config (b "[Global]" ++ lf ++ [12] ++ lf) = CfgError /\              (* form feed is no blank *)
  parse_config (b "[Global]" ++ lf ++ b "Db_FileName = a" ++ lf) = CfgError /\
  parse_config (b "[Global] x" ++ lf) = CfgError /\
  parse_config (b "[Global" ++ lf) = CfgError.
Proof. vm_compute. repeat split. Qed.

(** * files outside the modelled subset *)
Example ex_declined :
  parse_config (b "[Global]" ++ lf ++ b "DbFileName = ""my food.yaml""" ++ lf) = CfgUnmodelled /\   (* quoting *)
  parse_config (b "[Global]" ++ lf ++ b "DbFileName = a\" ++ lf ++ b "b") = CfgUnmodelled /\          (* continuation *)
  parse_config (b "[Global ""sub""]" ++ lf) = CfgUnmodelled /\                                         (* subsection *)
  parse_config (b "[Resolver]" ++ lf ++ b "MaxDepth = 0x10" ++ lf) = CfgUnmodelled /\                  (* hexadecimal *)
  parse_config (b "[Global]" ++ lf ++ b "Now = 2024-02-29T23:59:58.5Z" ++ lf) = CfgUnmodelled /\       (* fraction *)
  parse_config (b "[Global]" ++ lf ++ b "Now = 2024-02-29T23:59:58+24:00" ++ lf) = CfgUnmodelled /\    (* lenient zone *)
  parse_config (b "[Global]" ++ lf ++ b "DbFileName = a" ++ [13] ++ b "b" ++ lf) = CfgUnmodelled /\    (* CR inside a value *)
  parse_config (b "[ReporterConfig]" ++ lf ++ b "Color = true" ++ lf) = CfgUnmodelled /\               (* other sections *)
  parse_config (b "[Re" ++ [197; 191] ++ b "olver]" ++ lf) = CfgUnmodelled.                            (* U+017F folds to s *)
Proof. vm_compute. repeat split. Qed.

(** * the layout theorems on non-trivial lines *)
Example ex_same_line_var :
  same_line (b "DbFileName=food.yaml") ([9] ++ b "dbFILEname  =" ++ [9] ++ b "food.yaml " ++ [13] ++ b "; the book").
Proof.
  exact (SL_var (b "DbFileName") (b "food.yaml") [] [] [] [] [] (b "dbFILEname") [9] (b "  ") [9] [32; 13] (b "; the book")
           eq_refl eq_refl eq_refl eq_refl eq_refl eq_refl eq_refl eq_refl eq_refl eq_refl eq_refl eq_refl eq_refl eq_refl).
Qed.

Example ex_same_line_section : same_line (b "[Resolver]") (b " [ RESOLVER" ++ [9] ++ b "] # depth" ++ [13]).
Proof.
  exact (SL_section (b "Resolver") [] [] [] [] [] (b "RESOLVER") [32] [32] [9] [32] (b "# depth" ++ [13])
           eq_refl eq_refl eq_refl eq_refl eq_refl eq_refl eq_refl eq_refl eq_refl eq_refl eq_refl eq_refl eq_refl).
Qed.

Example ex_same_line_blank : same_line [] (b "   ; nothing here").
Proof. exact (SL_blank [] [] (b "   ") (b "; nothing here") eq_refl eq_refl eq_refl eq_refl). Qed.

(** the harness's text and a hand-written spelling of it (CR LF ends, indentation, comments, other
    letter case) mean the same; here through the theorem, and the common value by computation *)
Example ex_layout :
  let plain := [b "[Global]"; b "DbFileName=food.yaml"; b "[Resolver]"; b "MaxDepth=7"] in
  let fancy := [b " [ global ]" ++ [13]; [9] ++ b "dbFILEname  =" ++ [9] ++ b "food.yaml " ++ [13] ++ b "; the book";
                b " [ RESOLVER" ++ [9] ++ b "] # depth" ++ [13]; b "maxDepth = 7" ++ [13]] in
  parse_config (join lf plain) = parse_config (join lf fancy) /\
  parse_config (join lf fancy)
  = CfgOk {| cf_db := Some (b "food.yaml"); cf_log := None; cf_fmt := None; cf_depth := Some 7%Z; cf_now := None |}.
Proof.
  split; [|vm_compute; reflexivity].
  apply parse_config_layout.
  - repeat constructor.
  - repeat constructor.
  - constructor.
    { exact (SL_section (b "Global") [] [] [] [] [] (b "global") [32] [32] [32] [13] []
               eq_refl eq_refl eq_refl eq_refl eq_refl eq_refl eq_refl eq_refl eq_refl eq_refl eq_refl eq_refl eq_refl). }
    constructor; [exact ex_same_line_var|].
    constructor; [exact ex_same_line_section|].
    constructor; [|constructor].
    exact (SL_var (b "MaxDepth") (b "7") [] [] [] [] [] (b "maxDepth") [] [32] [32] [13] []
             eq_refl eq_refl eq_refl eq_refl eq_refl eq_refl eq_refl eq_refl eq_refl eq_refl eq_refl eq_refl eq_refl eq_refl).
Qed.

(** blank and comment lines may be added anywhere *)
Example ex_skip :
  parse_config (join lf [b "[Global]"; b "  # which book"; b "DbFileName=food.yaml"])
  = parse_config (join lf [b "[Global]"; b "DbFileName=food.yaml"]).
Proof.
  apply (parse_config_skip_line [b "[Global]"] (b "  # which book") [b "DbFileName=food.yaml"]).
  - repeat constructor.
  - reflexivity.
  - repeat constructor.
  - exists (b "  "), (b "# which book"). repeat split.
Qed.

(** an unknown variable spoils the file wherever it stands *)
Example ex_unknown_anywhere : forall e,
  parse_config (join lf ([b "[Global]"; b "DbFileName=food.yaml"] ++ b "Colour = yes" :: [b "[Resolver]"])) <> CfgOk e.
Proof.
  intros e. apply (unknown_variable_never_ok _ _ _ (b "Colour") (Some (b "yes"))).
  - repeat constructor.
  - reflexivity.
  - repeat constructor.
  - vm_compute. reflexivity.
  - left. vm_compute. reflexivity.
Qed.

(** * the harness's rendering *)
Definition ex_entries : cfg_entries :=
  {| ce_db := Some (b "food.yaml"); ce_log := Some (b "my log.yaml"); ce_fmt := Some (b "2006-01-02");
     ce_depth := Some (-3)%Z;
     ce_now := Some (mk_time 2021 3 14 (1 * 3600 + 2 * 60 + 3) (- (5 * 3600 + 30 * 60))) |}.

Example ex_entries_plain : cfg_plain ex_entries = true.
Proof. vm_compute. reflexivity. Qed.

Example ex_render :
  render_config ex_entries
  = b "[Global]" ++ lf ++ b "Now=2021-03-14T01:02:03-05:30" ++ lf ++ b "DbFileName=food.yaml" ++ lf
    ++ b "LogFileName=my log.yaml" ++ lf ++ b "DateFormat=2006-01-02" ++ lf ++ b "[Resolver]" ++ lf
    ++ b "MaxDepth=-3" ++ lf.
Proof. vm_compute. reflexivity. Qed.

Example ex_parse_render : parse_config (render_config ex_entries) = CfgOk (fields_of_cfg ex_entries).
Proof. exact (parse_render_config ex_entries ex_entries_plain). Qed.

(** the guard is needed: a value that ends with a blank is not read back *)
Example ex_plain_needed :
  let e := {| ce_db := Some (b "food.yaml "); ce_log := None; ce_fmt := None; ce_depth := None; ce_now := None |} in
  cfg_plain e = false /\ parse_config (render_config e) <> CfgOk (fields_of_cfg e).
Proof. split; [vm_compute; reflexivity|]. vm_compute. discriminate. Qed.

(** * inside the program: a text file at the configuration path *)
Definition ex_world (cfg : fentry) : world :=
  {| w_fs := [(b "/home/u/.hranoprovod/config", cfg);
              (b "food.yaml", FFile (b "soup:" ++ lf ++ b "  kcal: 50" ++ lf));
              (b "my log.yaml", FFile (b "2021-03-13:" ++ lf ++ b "  soup: 2" ++ lf))];
     w_default_config := b "/home/u/.hranoprovod/config";
     w_tz := 0; w_clock := time_of_civil (2026, 10, 1)%Z; w_or := SettingsExample.id_oracles; w_sink := None;
     w_read_fault := [] |}.

Definition ex_inv (cmd : command) : invocation :=
  SettingsExample.mk_inv None None None None None None None None None None None false cmd.

Example ex_load_text :
  load_config (ex_world (FFile (render_config ex_entries))) (ex_inv CStats) = inr ex_entries /\
  load (ex_world (FFile (render_config ex_entries))) (ex_inv CStats)
  = load (ex_world (FConfig ex_entries)) (ex_inv CStats).
Proof.
  destruct (load_config_file_eq_entries (ex_world (FFile (render_config ex_entries))) (ex_world (FConfig ex_entries))
              (ex_inv CStats) ex_entries ex_entries_plain) as (L & _ & E).
  - repeat split.
  - reflexivity.
  - reflexivity.
  - split; [exact L|symmetry; exact E].
Qed.

(** the stats command with a hand-written text, with the harness's text, and with a text gcfg rejects *)
Definition ex_text_small : bytes :=
  b "[global]" ++ lf ++ b "logfilename = my log.yaml ; here" ++ lf ++ b "dateformat = 2006-01-02" ++ crlf.

Example ex_run_text :
  out_status (run ZNum (ex_world (FFile ex_text_small)) (ex_inv CStats)) = Ok /\
  run ZNum (ex_world (FFile (render_config ex_entries))) (ex_inv CStats)
  = run ZNum (ex_world (FConfig ex_entries)) (ex_inv CStats) /\
  out_status (run ZNum (ex_world (FFile (render_config ex_entries))) (ex_inv CStats)) = Ok /\
  run ZNum (ex_world (FFile (b "[Global]" ++ lf ++ b "Colour=yes"))) (ex_inv CStats)
  = {| out_stdout := []; out_status := Failed EConfigSyntax |}.
Proof. vm_compute. repeat split. Qed.
