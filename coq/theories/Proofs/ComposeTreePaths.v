(** WP12: the vocabulary of [Spec/TreeShared.v].  On a well-formed tree
    [tree_paths] lists exactly the non-empty paths with their totals; the trees
    the balance reporters build are well-formed; hence the balance law in terms
    of [tree_paths]. *)
From Coq Require Import Lia.
From HP Require Import Base.Bytes Base.Utf8 Base.Num Model.Scanner Model.Parser Model.Elements Model.Dates
  Model.Tree Model.Writer Model.Reporters Model.Cli Spec.TreeShared Spec.ComposeSpec
  Proofs.ComposeWriter Proofs.ComposeWalk Proofs.ComposeAssoc Proofs.ComposePeriod Proofs.ComposeAdd
  Proofs.ComposeTree.

Section TreePaths.
  Context (NM : Num).
  Notation T := (T NM).
  Notation tree := (tree NM).

  (** induction on trees through the children lists *)
  Lemma tree_ind' : forall (P : tree -> Prop),
    (forall n x ch, Forall P ch -> P (Node n x ch)) -> forall t, P t.
  Proof.
    intros P H. fix IH 1. intros [n x ch]. apply H.
    induction ch as [|c r IHr]; constructor; [apply IH | exact IHr].
  Qed.

  Definition wf_ch (ch : list tree) : Prop := NoDup (map (t_name NM) ch) /\ Forall (wf_tree NM) ch.

  Lemma wf_tree_node : forall n x ch, wf_tree NM (Node n x ch) <-> wf_ch ch.
  Proof.
    intros n x ch. unfold wf_ch. cbn [wf_tree].
    assert (H : (fix all (l : list tree) : Prop :=
                   match l with [] => True | c :: r => wf_tree NM c /\ all r end) ch <-> Forall (wf_tree NM) ch).
    { induction ch as [|c r IH]; split; intros Hh.
      - constructor.
      - exact I.
      - destruct Hh as [Hc Hr]. constructor; [exact Hc | apply IH; exact Hr].
      - inversion Hh as [|? ? Hc Hr]; subst. split; [exact Hc | apply IH; exact Hr]. }
    rewrite H. reflexivity.
  Qed.

  Lemma find_child_In : forall q ch c, find_child NM q ch = Some c -> In c ch /\ t_name NM c = q.
  Proof.
    intros q. induction ch as [|c0 r IH]; intros c H; cbn in H; [discriminate|].
    destruct (beq q (t_name NM c0)) eqn:E.
    - injection H as <-. apply beq_true_iff in E. split; [left; reflexivity | congruence].
    - destruct (IH c H) as [Hin Hn]. split; [right; exact Hin | exact Hn].
  Qed.

  Lemma find_child_NoDup : forall ch c, NoDup (map (t_name NM) ch) -> In c ch ->
    find_child NM (t_name NM c) ch = Some c.
  Proof.
    induction ch as [|c0 r IH]; intros c Hnd Hin; [destruct Hin|].
    cbn in Hnd. inversion Hnd as [|? ? Hnotin Hnd']; subst.
    cbn [find_child]. destruct Hin as [->|Hin].
    - rewrite beq_refl. reflexivity.
    - destruct (beq_spec (t_name NM c) (t_name NM c0)) as [E|E].
      + exfalso. apply Hnotin. rewrite <- E. apply in_map. exact Hin.
      + apply IH; assumption.
  Qed.

  (** every reachable non-empty path is listed with its total (no well-formedness needed) *)
  Lemma node_at_in_paths : forall p' t prefix c,
    p' <> [] -> node_at NM p' t = Some c -> In (prefix ++ p', t_total NM c) (paths_below NM prefix t).
  Proof.
    induction p' as [|q r IH]; intros [n x ch] prefix c Hne Hnode; [contradiction|].
    cbn [node_at t_children] in Hnode.
    destruct (find_child NM q ch) as [c0|] eqn:Ef; [|discriminate].
    destruct (find_child_In q ch c0 Ef) as [Hin Hname].
    cbn [paths_below]. apply in_flat_map. exists c0. split; [exact Hin|]. rewrite Hname.
    destruct r as [|q' r'].
    - cbn in Hnode. injection Hnode as <-. left. reflexivity.
    - right. replace (prefix ++ q :: q' :: r') with ((prefix ++ [q]) ++ q' :: r') by (rewrite <- app_assoc; reflexivity).
      apply IH; [discriminate | exact Hnode].
  Qed.

  (** on a well-formed tree every listed path is reachable and carries the node's total *)
  Lemma in_paths_node_at : forall t, wf_tree NM t -> forall prefix p x,
    In (p, x) (paths_below NM prefix t) ->
    exists p' c, p = prefix ++ p' /\ p' <> [] /\ node_at NM p' t = Some c /\ t_total NM c = x.
  Proof.
    induction t as [n x0 ch IH] using tree_ind'. intros Hwf prefix p x Hin.
    apply wf_tree_node in Hwf. destruct Hwf as [Hnd Hall].
    cbn [paths_below] in Hin. apply in_flat_map in Hin. destruct Hin as (c0 & Hc0 & Hin).
    pose proof (find_child_NoDup ch c0 Hnd Hc0) as Hfind.
    destruct Hin as [Heq|Hin].
    - injection Heq as <- <-. exists [t_name NM c0], c0. repeat split; [discriminate|].
      cbn [node_at t_children]. rewrite Hfind. reflexivity.
    - rewrite Forall_forall in IH, Hall.
      destruct (IH c0 Hc0 (Hall c0 Hc0) _ p x Hin) as (p'' & c & -> & Hne & Hnode & Htot).
      exists (t_name NM c0 :: p''), c. repeat split.
      + rewrite <- app_assoc. reflexivity.
      + discriminate.
      + cbn [node_at t_children]. rewrite Hfind. exact Hnode.
      + exact Htot.
  Qed.

  Theorem tree_paths_spec : forall t, wf_tree NM t -> forall p x,
    In (p, x) (tree_paths NM t) <-> p <> [] /\ has_path NM p t /\ total_at NM p t = x.
  Proof.
    intros t Hwf p x. unfold tree_paths, has_path, total_at. split.
    - intros Hin. destruct (in_paths_node_at t Hwf [] p x Hin) as (p' & c & -> & Hne & Hnode & Htot).
      cbn [app]. rewrite Hnode. repeat split; [exact Hne | discriminate | exact Htot].
    - intros (Hne & Hhas & Htot).
      destruct (node_at NM p t) as [c|] eqn:Hnode; [|contradiction].
      subst x. exact (node_at_in_paths p t [] c Hne Hnode).
  Qed.

  (** *** the trees the reporters build are well-formed *)
  Lemma upd_child_names_in : forall n v rest l m,
    In m (map (t_name NM) (upd_child NM n v rest l)) -> In m (map (t_name NM) l) \/ m = n.
  Proof.
    intros n v rest. induction l as [|[n' t c] r IH]; intros m Hin; cbn [upd_child] in Hin.
    - cbn in Hin. destruct Hin as [<-|[]]. right. reflexivity.
    - destruct (beq n n').
      + left. exact Hin.
      + cbn [map t_name] in Hin |- *. destruct Hin as [<-|Hin].
        * left. left. reflexivity.
        * destruct (IH m Hin) as [H|H]; [left; right; exact H | right; exact H].
  Qed.

  Lemma add_deep_wf : forall names v ch, wf_ch ch -> wf_ch (add_deep NM names v ch).
  Proof.
    induction names as [|n rest IH]; intros v ch Hwf; [exact Hwf|].
    rewrite add_deep_cons.
    induction ch as [|[n' t c] r IHch]; cbn [upd_child].
    - split.
      + cbn. constructor; [intros [] | constructor].
      + constructor; [|constructor]. apply wf_tree_node. apply IH. split; constructor.
    - destruct Hwf as [Hnd Hall]. cbn [map t_name] in Hnd.
      inversion Hnd as [|? ? Hnotin Hnd']; subst.
      inversion Hall as [|? ? Hc Hr]; subst.
      destruct (beq_spec n n') as [<-|Hne].
      + split.
        * cbn [map t_name]. exact Hnd.
        * constructor; [|exact Hr]. apply wf_tree_node. apply IH. apply wf_tree_node in Hc. exact Hc.
      + destruct (IHch (conj Hnd' Hr)) as [Hnd2 Hall2]. split.
        * cbn [map t_name]. constructor; [|exact Hnd2].
          intros Hin. destruct (upd_child_names_in n v rest r n' Hin) as [H|H]; [contradiction | congruence].
        * constructor; [exact Hc | exact Hall2].
  Qed.

  Lemma tree_add_wf : forall t name v, wf_tree NM t -> wf_tree NM (tree_add NM t name v).
  Proof.
    intros [n x ch] name v Hwf. cbn [tree_add]. apply wf_tree_node. apply add_deep_wf.
    apply wf_tree_node in Hwf. exact Hwf.
  Qed.

  Lemma tree_add_all_wf : forall cs t, wf_tree NM t -> wf_tree NM (tree_add_all NM t cs).
  Proof.
    unfold tree_add_all. induction cs as [|[k v] r IH]; intros t Hwf; cbn [fold_left fst snd]; [exact Hwf|].
    apply IH. apply tree_add_wf. exact Hwf.
  Qed.

  Lemma empty_root_wf : wf_tree NM (empty_root NM).
  Proof. apply wf_tree_node. split; constructor. Qed.

  Lemma fold_wf : forall {A} (f : tree -> A -> tree) (l : list A) (t : tree),
    (forall t a, wf_tree NM t -> wf_tree NM (f t a)) -> wf_tree NM t -> wf_tree NM (fold_left f l t).
  Proof.
    intros A f. induction l as [|a r IH]; intros t Hf Hwf; cbn [fold_left]; [exact Hwf|].
    apply IH; [exact Hf | apply Hf; exact Hwf].
  Qed.

  Theorem balance_state_wf : forall c pd pf toks bt et evs,
    wf_tree NM (report_state NM (rep_balance NM c) pd pf toks bt et evs : tree).
  Proof.
    intros c pd pf toks bt et evs.
    destruct (period_report NM _ (PR_balance NM c) pd pf toks bt et evs) as [-> _].
    apply fold_wf; [|apply empty_root_wf].
    intros t ln Hwf. exact (tree_add_all_wf (ln_elems NM ln) t Hwf).
  Qed.

  (** *** the balance law in terms of [tree_paths] *)
  Context (AM : AddMonoid NM).

  Theorem period_reports_add_balance_paths :
    forall (pd pd1 pd2 : nat -> list bytes -> list bytes) (pf pf1 pf2 : list bytes -> list bytes)
           toks bt et c evs1 evs2,
      snd (report NM (rep_balance NM c) pd pf toks bt et evs1) = None ->
      let t1 : tree := report_state NM (rep_balance NM c) pd1 pf1 toks bt et evs1 in
      let t2 : tree := report_state NM (rep_balance NM c) pd2 pf2 toks bt et evs2 in
      let t12 : tree := report_state NM (rep_balance NM c) pd pf toks bt et (evs1 ++ evs2) in
      (* the listed paths are the union *)
      (forall p, In p (map fst (tree_paths NM t12))
                 <-> In p (map fst (tree_paths NM t1)) \/ In p (map fst (tree_paths NM t2)))
      (* and every listed total is the sum of the parts' totals at that path, missing = 0 *)
      /\ (forall p x, In (p, x) (tree_paths NM t12) -> x = add NM (total_at NM p t1) (total_at NM p t2)).
  Proof.
    intros pd pd1 pd2 pf pf1 pf2 toks bt et c evs1 evs2 Hok t1 t2 t12.
    destruct (period_reports_add_balance NM AM pd pd1 pd2 pf pf1 pf2 toks bt et c evs1 evs2 Hok) as [Htot Hpath].
    fold t1 t2 t12 in Htot, Hpath.
    pose proof (balance_state_wf c pd1 pf1 toks bt et evs1) as W1. fold t1 in W1.
    pose proof (balance_state_wf c pd2 pf2 toks bt et evs2) as W2. fold t2 in W2.
    pose proof (balance_state_wf c pd pf toks bt et (evs1 ++ evs2)) as W12. fold t12 in W12.
    assert (Hlisted : forall t, wf_tree NM t -> forall p,
               In p (map fst (tree_paths NM t)) <-> p <> [] /\ has_path NM p t).
    { intros t W p. rewrite in_map_iff. split.
      - intros ([p0 x] & <- & Hin). apply (tree_paths_spec t W) in Hin. cbn. tauto.
      - intros [Hne Hhas]. exists (p, total_at NM p t). split; [reflexivity|].
        apply (tree_paths_spec t W). auto. }
    split.
    - intros p. rewrite (Hlisted t12 W12), (Hlisted t1 W1), (Hlisted t2 W2), Hpath. tauto.
    - intros p x Hin. apply (tree_paths_spec t12 W12) in Hin. destruct Hin as (_ & _ & <-). apply Htot.
  Qed.
End TreePaths.
