(** C06, part 4: [summary DATE] selects exactly one calendar day, whatever the zone.

    Since fix 4fa5d57 of the program the keyword [today] resolves to "now" UNCHANGED (it used to be
    [now.Local()]): with --today D the argument of [summary today] is midnight UTC of D with offset 0
    in every process zone, so its window is the UTC day D for EVERY zone offset, without any bound.
    The lemmas about a midnight re-labelled with a fixed zone offset ([window_of_midnight_in_zone]) are
    kept as general facts about windows; they hold for every fixed offset too (a fixed-offset zone has
    no 25-hour day: the defect repaired by the fix is not visible in them). *)
From Coq Require Import Lia ZifyBool.
From HP Require Import Base.Bytes Base.Num Model.Dates Model.Reporters Model.Cli Spec.PeriodSpec Proofs.PeriodInterval.
Open Scope Z_scope.

(** The general fact.  For any resolved argument [t] whose zone offset is within a day,
    exactly one UTC midnight lies in [day_begin t, day_end t]: the one of [t]'s local day
    when the zone is east of (or at) UTC, and the one of the NEXT day when it is west. *)
Lemma summary_day_general : forall t k, tz_ok (off t) ->
  (day_begin t <= k * ns_per_day <= day_end t <-> k = local_day t + (if off t <? 0 then 1 else 0)).
Proof.
  intros t k Htz. unfold tz_ok in Htz. unfold day_end, day_begin, local_day, ns_per_day, ns_per_sec.
  destruct (Z.ltb_spec (off t) 0) as [Hneg|Hpos];
  remember (inst t) as i; remember (off t) as o;
  pose proof (Z.div_mod (i + o * 1000000000) 86400000000000 ltac:(lia)) as Hdm;
  pose proof (Z.mod_pos_bound (i + o * 1000000000) 86400000000000 ltac:(lia)) as Hmb;
  remember ((i + o * 1000000000) / 86400000000000) as q; lia.
Qed.

(** local day of a UTC midnight seen from zone [tz] *)
Lemma local_day_of_midnight : forall D tz, tz_ok tz ->
  local_day (to_local (time_of_civil D) tz) = day_number D + (if tz <? 0 then -1 else 0).
Proof.
  intros [[y m] d] tz Htz. unfold tz_ok in Htz.
  unfold local_day, to_local, time_of_civil, day_number, ns_per_day, ns_per_sec. cbn [inst off].
  remember (days_from_civil y m d) as n.
  destruct (Z.ltb_spec tz 0) as [Hneg|Hpos].
  - symmetry. apply (Z.div_unique_pos _ _ _ (86400000000000 + tz * 1000000000)); lia.
  - symmetry. apply (Z.div_unique_pos _ _ _ (tz * 1000000000)); lia.
Qed.

Lemma inst_time_of_civil : forall c, inst (time_of_civil c) = day_number c * ns_per_day.
Proof. intros [[y m] d]. reflexivity. Qed.

Lemma off_time_of_civil : forall c, off (time_of_civil c) = 0.
Proof. intros [[y m] d]. reflexivity. Qed.

(** general lemma about windows: a UTC midnight re-labelled with a fixed zone offset, of any size (this
    was the argument of [summary today] under --today D before fix 4fa5d57; no longer what the program
    does): the window is [D*day - (tz mod day), + day) and holds the midnight of D and no other *)
Lemma window_of_midnight_in_zone : forall D tz d,
  let t := to_local (time_of_civil D) tz in
  (day_begin t <= inst (time_of_civil d) <= day_end t <-> day_number d = day_number D).
Proof.
  intros D tz d t. rewrite !inst_time_of_civil.
  unfold day_end, day_begin, local_day, t. cbn [inst off to_local]. rewrite inst_time_of_civil.
  unfold ns_per_day, ns_per_sec.
  remember (day_number D) as n. remember (day_number d) as k.
  pose proof (Z.div_mod (n * 86400000000000 + tz * 1000000000) 86400000000000 ltac:(lia)) as Hdm.
  pose proof (Z.mod_pos_bound (n * 86400000000000 + tz * 1000000000) 86400000000000 ltac:(lia)) as Hmb.
  remember ((n * 86400000000000 + tz * 1000000000) / 86400000000000) as q. lia.
Qed.

(** [summary DATE] with an explicit date in the layout: offset 0 *)
Theorem summary_selects_explicit_day : forall D d,
  let t := time_of_civil D in
  (day_begin t <= inst (time_of_civil d) <= day_end t <-> day_number d = day_number D).
Proof.
  intros D d t.
  assert (Ht : t = to_local (time_of_civil D) 0) by (destruct D as [[y m] dd]; reflexivity).
  rewrite Ht. apply window_of_midnight_in_zone.
Qed.

(** [summary today] with --today D, in EVERY zone (any offset whatsoever, no bound): [today] is the
    date as given, the process zone does not enter *)
Theorem summary_selects_day_any_tz : forall w tz toks D d,
  exists t, time_from_string (with_tz w tz) (time_of_civil D) toks (b "today") = inr t /\
            (day_begin t <= inst (time_of_civil d) <= day_end t <-> day_number d = day_number D).
Proof.
  intros w tz toks D d. exists (time_of_civil D). split; [reflexivity|apply summary_selects_explicit_day].
Qed.

(** [summary yesterday] (also last7, last30: [n] days back) with --today D: the zone does not enter at all *)
Theorem summary_selects_days_back : forall D n d,
  let t := add_days (time_of_civil D) (- n) in
  (day_begin t <= inst (time_of_civil d) <= day_end t <-> day_number d = day_number D - n).
Proof.
  intros D n d t. rewrite inst_time_of_civil.
  assert (Hoff : off t = 0) by (destruct D as [[y m] dd]; reflexivity).
  rewrite (summary_day_general t (day_number d)) by (unfold tz_ok; rewrite Hoff; lia).
  rewrite Hoff. cbn [Z.ltb Z.compare].
  assert (Hl : local_day t = day_number D - n).
  { unfold local_day. rewrite Hoff. unfold t. cbn [inst add_days]. rewrite inst_time_of_civil.
    replace (day_number D * ns_per_day + - n * ns_per_day + 0 * ns_per_sec) with ((day_number D - n) * ns_per_day) by lia.
    apply Z.div_mul. unfold ns_per_day. lia. }
  rewrite Hl. lia.
Qed.

Corollary summary_selects_yesterday : forall D d,
  let t := add_days (time_of_civil D) (-1) in
  (day_begin t <= inst (time_of_civil d) <= day_end t <-> day_number d = day_number D - 1).
Proof. intros D d. exact (summary_selects_days_back D 1 d). Qed.

(** the same facts as the walk sees them: through [in_interval] on the bounds [summary] builds *)
Lemma in_interval_summary : forall t h,
  in_interval (Some (summary_begin t)) (Some (summary_end t)) h = true <-> day_begin t <= inst h <= day_end t.
Proof. intros t h. rewrite in_interval_both. reflexivity. Qed.

Lemma window_filter_midnight_in_zone : forall D tz d,
  let t := to_local (time_of_civil D) tz in
  in_interval (Some (summary_begin t)) (Some (summary_end t)) (time_of_civil d) = Z.eqb (day_number d) (day_number D).
Proof.
  intros D tz d t.
  pose proof (window_of_midnight_in_zone D tz d) as H. cbv zeta in H. fold t in H.
  rewrite <- in_interval_summary in H.
  destruct (in_interval _ _ _); destruct (Z.eqb_spec (day_number d) (day_number D)) as [E|E]; try reflexivity.
  - exfalso. apply E. apply H. reflexivity.
  - apply H in E. discriminate.
Qed.

Theorem summary_filter_days_back : forall D n d,
  let t := add_days (time_of_civil D) (- n) in
  in_interval (Some (summary_begin t)) (Some (summary_end t)) (time_of_civil d) = Z.eqb (day_number d) (day_number D - n).
Proof.
  intros D n d t.
  pose proof (summary_selects_days_back D n d) as H. cbv zeta in H. fold t in H.
  rewrite <- in_interval_summary in H.
  destruct (in_interval _ _ _); destruct (Z.eqb_spec (day_number d) (day_number D - n)) as [E|E]; try reflexivity.
  - exfalso. apply E. apply H. reflexivity.
  - apply H in E. discriminate.
Qed.

Theorem summary_filter_explicit : forall D d,
  let t := time_of_civil D in
  in_interval (Some (summary_begin t)) (Some (summary_end t)) (time_of_civil d) = Z.eqb (day_number d) (day_number D).
Proof.
  intros D d t.
  assert (Ht : t = to_local (time_of_civil D) 0) by (destruct D as [[y m] dd]; reflexivity).
  rewrite Ht. apply window_filter_midnight_in_zone.
Qed.

(** [summary today] with --today D as the walk sees it, in EVERY zone *)
Theorem summary_filter_any_tz : forall w tz toks D d,
  exists t, time_from_string (with_tz w tz) (time_of_civil D) toks (b "today") = inr t /\
            in_interval (Some (summary_begin t)) (Some (summary_end t)) (time_of_civil d)
            = Z.eqb (day_number d) (day_number D).
Proof.
  intros w tz toks D d. exists (time_of_civil D). split; [reflexivity|apply summary_filter_explicit].
Qed.

(** FINDING (zone dependence without --today).  When "now" is the wall clock ([time.Now()], which
    carries the process zone: [off now] is the zone offset) and the process zone is west of UTC,
    [summary today] selects the UTC date that FOLLOWS the local date: the local day [00:00, 24:00)
    in a zone at UTC-5 is [05:00, 29:00) UTC, and the only UTC midnight in it is tomorrow's.  Log
    headings are parsed as UTC midnights, so the record printed is the one dated tomorrow.
    ([today] resolves to [now] itself, so the statements are about [now]; nothing changed here with
    fix 4fa5d57, [time.Now()] being local already.) *)
Theorem summary_today_west_of_utc_selects_next_day : forall now d, -86400 < off now < 0 ->
  (day_begin now <= inst (time_of_civil d) <= day_end now <-> day_number d = local_day now + 1).
Proof.
  intros now d Htz. rewrite inst_time_of_civil.
  rewrite (summary_day_general now (day_number d)) by (unfold tz_ok; lia).
  destruct (Z.ltb_spec (off now) 0); [reflexivity|lia].
Qed.

Theorem summary_today_east_of_utc_selects_local_day : forall now d, 0 <= off now < 86400 ->
  (day_begin now <= inst (time_of_civil d) <= day_end now <-> day_number d = local_day now).
Proof.
  intros now d Htz. rewrite inst_time_of_civil.
  rewrite (summary_day_general now (day_number d)) by (unfold tz_ok; lia).
  destruct (Z.ltb_spec (off now) 0); lia.
Qed.

(** the two as [summary today] reaches them: the keyword is the clock value itself, in every world *)
Corollary summary_today_wall_clock : forall w now toks d,
  exists t, time_from_string w now toks (b "today") = inr t /\ t = now /\
    (-86400 < off now < 0 ->
       (day_begin t <= inst (time_of_civil d) <= day_end t <-> day_number d = local_day now + 1)) /\
    (0 <= off now < 86400 ->
       (day_begin t <= inst (time_of_civil d) <= day_end t <-> day_number d = local_day now)).
Proof.
  intros w now toks d. exists now. split; [reflexivity|]. split; [reflexivity|]. split.
  - apply summary_today_west_of_utc_selects_next_day.
  - apply summary_today_east_of_utc_selects_local_day.
Qed.

(** non-vacuity of the general window lemma: midnight of 2021/03/14 re-labelled +14h and -12h:
    the 14th is selected, the 13th and 15th are not *)
Example summary_plus14 :
  let t := to_local (time_of_civil (2021, 3, 14)) 50400 in
  map (fun d => in_interval (Some (summary_begin t)) (Some (summary_end t)) (time_of_civil (2021, 3, d))) [13; 14; 15]
  = [false; true; false].
Proof. vm_compute. reflexivity. Qed.
Example summary_minus12 :
  let t := to_local (time_of_civil (2021, 3, 14)) (-43200) in
  map (fun d => in_interval (Some (summary_begin t)) (Some (summary_end t)) (time_of_civil (2021, 3, d))) [13; 14; 15]
  = [false; true; false].
Proof. vm_compute. reflexivity. Qed.
(** ... and with an absurd fixed offset (-40h) *)
Example window_relabelled_minus40h :
  let t := to_local (time_of_civil (2021, 3, 14)) (-144000) in
  map (fun d => in_interval (Some (summary_begin t)) (Some (summary_end t)) (time_of_civil (2021, 3, d))) [13; 14; 15]
  = [false; true; false].
Proof. vm_compute. reflexivity. Qed.
(** --today 2021/03/14, [summary today], process zone offsets +30h, -40h and 10^9 s: the 14th and only the 14th *)
Example summary_today_any_offset :
  forall tz, In tz [108000; -144000; 1000000000] ->
  match time_from_string (with_tz (with_zone
          {| w_fs := []; w_default_config := []; w_tz := 0; w_clock := zero_time;
             w_or := {| o_resolve := fun l => l; o_day := fun _ l => l; o_flush := fun l => l |};
             w_sink := None; w_read_fault := [] |} tz zero_time) tz)
        (time_of_civil (2021, 3, 14)) [Y4; Lit 47%N; M2; Lit 47%N; D2] (b "today") with
  | inr t => map (fun d => in_interval (Some (summary_begin t)) (Some (summary_end t)) (time_of_civil (2021, 3, d)))
                 [13; 14; 15]
  | inl _ => []
  end = [false; true; false].
Proof. intros tz [<-|[<-|[<-|[]]]]; vm_compute; reflexivity. Qed.
(** the finding, concretely: wall clock 2021-03-14 10:00 in a zone at UTC-5 (15:00 UTC), no --today:
    [summary today] shows the record dated 2021/03/15 *)
Example summary_wall_clock_minus5 :
  let now := {| inst := days_from_civil 2021 3 14 * ns_per_day + 15 * 3600 * ns_per_sec; off := -18000; civ := (2021, 3, 14) |} in
  map (fun d => in_interval (Some (summary_begin now)) (Some (summary_end now)) (time_of_civil (2021, 3, d))) [13; 14; 15]
  = [false; false; true].
Proof. vm_compute. reflexivity. Qed.
