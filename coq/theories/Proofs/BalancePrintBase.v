(** WP09, part 1: list / byte-string / stack facts, the induction principle for
    [tree], and unfolding lemmas for the printers and the tree predicates. *)
From Coq Require Import Lia ZifyBool ZifyNat ZifyN.
From HP Require Import Base.Bytes Base.Num Model.Elements Model.Tree
  Spec.TreeShared Spec.BalancePrintSpec.

(** * Induction over trees with [Forall P] on the children *)
Section TreeInd.
  Context {NM : Num}.
  Variable P : tree NM -> Prop.
  Hypothesis HN : forall n x ch, Forall P ch -> P (Node n x ch).
  Fixpoint tree_ind' (t : tree NM) : P t :=
    match t with
    | Node n x ch =>
        HN n x ch
          ((fix go (l : list (tree NM)) : Forall P l :=
              match l with
              | [] => Forall_nil P
              | c :: r => Forall_cons c (tree_ind' c) (go r)
              end) ch)
    end.
End TreeInd.

(** * Generic list facts *)
Section Lists.
  Context {A B C : Type}.

  Lemma flat_map_flat_map (f : B -> list C) (g : A -> list B) (l : list A) :
    flat_map f (flat_map g l) = flat_map (fun x => flat_map f (g x)) l.
  Proof.
    induction l as [|a l IH]; cbn [flat_map]; [reflexivity|].
    rewrite flat_map_app, IH. reflexivity.
  Qed.

  Lemma map_flat_map (f : B -> C) (g : A -> list B) (l : list A) :
    map f (flat_map g l) = flat_map (fun x => map f (g x)) l.
  Proof.
    induction l as [|a l IH]; cbn [flat_map map]; [reflexivity|].
    rewrite map_app, IH. reflexivity.
  Qed.

  Lemma flat_map_ext_Forall (f g : A -> list B) (l : list A) :
    Forall (fun x => f x = g x) l -> flat_map f l = flat_map g l.
  Proof.
    induction 1 as [|a l Ha _ IH]; cbn [flat_map]; [reflexivity|].
    rewrite Ha, IH. reflexivity.
  Qed.
End Lists.

(** * Sub-sequences *)
Section Subseq.
  Context {A : Type}.

  Lemma subseq_refl (l : list A) : subseq l l.
  Proof. induction l as [|x l IH]; constructor; assumption. Qed.

  Lemma subseq_app (l1 m1 l2 m2 : list A) :
    subseq l1 m1 -> subseq l2 m2 -> subseq (l1 ++ l2) (m1 ++ m2).
  Proof.
    intros H1 H2. induction H1 as [|l m y _ IH|l m x _ IH]; cbn [app].
    - assumption.
    - apply subseq_skip, IH.
    - apply subseq_keep, IH.
  Qed.

  Lemma subseq_flat_map {X} (f g : X -> list A) (l : list X) :
    Forall (fun c => subseq (f c) (g c)) l -> subseq (flat_map f l) (flat_map g l).
  Proof.
    induction 1 as [|c l Hc _ IH]; cbn [flat_map].
    - constructor.
    - apply subseq_app; assumption.
  Qed.

  Lemma subseq_In (l m : list A) x : subseq l m -> In x l -> In x m.
  Proof.
    induction 1 as [|l m y _ IH|l m z _ IH]; cbn [In]; intros Hx.
    - assumption.
    - right. apply IH, Hx.
    - destruct Hx as [Hx|Hx]; [left; assumption|right; apply IH, Hx].
  Qed.

  Lemma subseq_length (l m : list A) : subseq l m -> (length l <= length m)%nat.
  Proof. induction 1; cbn [length]; lia. Qed.
End Subseq.

(** * Prefixes *)
Section Prefixes.
  Context {A : Type}.

  Lemma In_prefixes (p s : list A) : p <> [] -> In p (prefixes (p ++ s)).
  Proof.
    revert s. induction p as [|x p IH]; intros s Hne; [congruence|].
    cbn [app prefixes]. destruct p as [|y p'].
    - left. reflexivity.
    - right. apply in_map. apply IH. discriminate.
  Qed.

  Lemma prefixes_spec (p q : list A) : In p (prefixes q) -> p <> [] /\ exists s, q = p ++ s.
  Proof.
    revert p. induction q as [|x q IH]; cbn [prefixes]; intros p Hp; [contradiction|].
    destruct Hp as [Hp|Hp].
    - subst p. split; [discriminate|]. exists q. reflexivity.
    - apply in_map_iff in Hp. destruct Hp as [p' [Hp' Hin]]. subst p.
      split; [discriminate|]. destruct (IH _ Hin) as [_ [s Hs]].
      exists s. cbn [app]. rewrite Hs. reflexivity.
  Qed.
End Prefixes.

(** * Splitting and joining at the separator *)
Lemma split_on_absent (c : N) (s : bytes) : ~ In c s -> split_on c s = [s].
Proof.
  induction s as [|a s IH]; cbn [split_on]; intros Hc; [reflexivity|].
  destruct (N.eqb_spec a c) as [E|E].
  - exfalso. apply Hc. left. assumption.
  - rewrite IH; [reflexivity|]. intros Hin. apply Hc. right. assumption.
Qed.

Lemma split_on_app_sep (c : N) (x s : bytes) :
  ~ In c x -> split_on c (x ++ c :: s) = x :: split_on c s.
Proof.
  induction x as [|a x IH]; cbn [app split_on]; intros Hc.
  - rewrite N.eqb_refl. reflexivity.
  - destruct (N.eqb_spec a c) as [E|E].
    + exfalso. apply Hc. left. assumption.
    + rewrite IH; [reflexivity|]. intros Hin. apply Hc. right. assumption.
Qed.

Lemma split_join (c : N) (l : list bytes) :
  l <> [] -> Forall (fun s => ~ In c s) l -> split_on c (join [c] l) = l.
Proof.
  induction l as [|x r IH]; intros Hne Hall; [congruence|].
  inversion Hall as [|x' r' Hx Hr]; subst x' r'.
  destruct r as [|y r'].
  - cbn [join]. apply split_on_absent, Hx.
  - change (join [c] (x :: y :: r')) with (x ++ [c] ++ join [c] (y :: r')).
    cbn [app]. rewrite split_on_app_sep by assumption.
    rewrite IH; [reflexivity|discriminate|assumption].
Qed.

(** * Stacks of open ancestors *)
Lemma pop_to_le (l' l : nat) (st : stack) :
  (l' <= l)%nat -> pop_to l' (pop_to l st) = pop_to l' st.
Proof.
  intros Hle. induction st as [|[k p] r IH]; cbn [pop_to]; [reflexivity|].
  destruct (Nat.ltb_spec k l) as [Hk|Hk].
  - reflexivity.
  - rewrite IH. destruct (Nat.ltb_spec k l') as [Hk'|Hk']; [lia|reflexivity].
Qed.

Lemma pop_to_idem (l : nat) (st : stack) : pop_to l (pop_to l st) = pop_to l st.
Proof. apply pop_to_le. lia. Qed.

Lemma pop_to_push_lt (l k : nat) (p : list bytes) (st : stack) :
  (k < l)%nat -> pop_to l ((k, p) :: st) = (k, p) :: st.
Proof. intros H. cbn [pop_to]. destruct (Nat.ltb_spec k l); [reflexivity|lia]. Qed.

Lemma pop_to_push_ge (l k : nat) (p : list bytes) (st : stack) :
  (l <= k)%nat -> pop_to l ((k, p) :: st) = pop_to l st.
Proof. intros H. cbn [pop_to]. destruct (Nat.ltb_spec k l); [lia|reflexivity]. Qed.

Section Base.
  Context (NM : Num).
  Notation T := (T NM).
  Notation tree := (tree NM).
  Notation row := (row NM).

  (** ** Levels at the head of a list of rows *)
  Definition head_le (level : nat) (rows : list row) : Prop :=
    match rows with [] => True | (_, l, _) :: _ => (l <= level)%nat end.

  Definition starts_at (level : nat) (rows : list row) : Prop :=
    exists x lab tl, rows = (x, level, lab) :: tl.

  Lemma head_le_weaken (l l' : nat) (rows : list row) :
    (l <= l')%nat -> head_le l rows -> head_le l' rows.
  Proof. destruct rows as [|[[x k] lab] r]; cbn [head_le]; intros; [trivial|lia]. Qed.

  Lemma starts_at_app (level : nat) (rows rest : list row) :
    starts_at level rows -> starts_at level (rows ++ rest).
  Proof. intros [x [lab [tl E]]]. subst rows. exists x, lab, (tl ++ rest). reflexivity. Qed.

  Lemma starts_at_head_le (level : nat) (rows : list row) :
    starts_at level rows -> head_le level rows.
  Proof. intros [x [lab [tl E]]]. subst rows. cbn [head_le]. lia. Qed.

  Lemma head_le_flat_map (rows_of : tree -> list row) (level : nat) (ch : list tree) (rest : list row) :
    Forall (fun c => starts_at level (rows_of c)) ch ->
    head_le level rest -> head_le level (flat_map rows_of ch ++ rest).
  Proof.
    intros Hall Hrest. destruct Hall as [|c r Hc _]; cbn [flat_map app]; [assumption|].
    apply starts_at_head_le. rewrite <- app_assoc. apply starts_at_app, Hc.
  Qed.

  Lemma starts_at_flat_map (rows_of : tree -> list row) (level : nat) (c : tree) (ch : list tree) :
    starts_at level (rows_of c) -> starts_at level (flat_map rows_of (c :: ch)).
  Proof. intros H. cbn [flat_map]. apply starts_at_app, H. Qed.

  Lemma is_leaf_row_head_le (level : nat) (rows : list row) :
    head_le level rows -> is_leaf_row NM level rows = true.
  Proof.
    destruct rows as [|[[x k] lab] r]; cbn [head_le is_leaf_row]; intros H; [reflexivity|].
    destruct (Nat.ltb_spec level k); [lia|reflexivity].
  Qed.

  Lemma is_leaf_row_starts_deeper (level : nat) (rows : list row) :
    starts_at (S level) rows -> is_leaf_row NM level rows = false.
  Proof.
    intros [x [lab [tl E]]]. subst rows. cbn [is_leaf_row].
    destruct (Nat.ltb_spec level (S level)); [reflexivity|lia].
  Qed.

  (** ** The full decoder: parent path, own segments, amount, leaf flag of every
         row; [decode_from] and [decode_own_from] of the Spec are projections *)
  Notation dec := (list bytes * T * bool)%type.
  Notation fdec := (list bytes * list bytes * T * bool)%type.

  Fixpoint decode_full_from (st : stack) (rows : list row) : list fdec :=
    match rows with
    | [] => []
    | (x, lvl, label) :: rest =>
        let st' := pop_to lvl st in
        let own := split_on c_slash label in
        (stack_path st', own, x, is_leaf_row NM lvl rest)
          :: decode_full_from ((lvl, stack_path st' ++ own) :: st') rest
    end.

  Definition fdec_dec (d : fdec) : dec := let '(pp, own, x, lf) := d in (pp ++ own, x, lf).
  Definition fdec_own (d : fdec) : list bytes * list bytes * T := let '(pp, own, x, lf) := d in (pp, own, x).

  Lemma decode_from_full (st : stack) (rows : list row) :
    decode_from NM st rows = map fdec_dec (decode_full_from st rows).
  Proof.
    revert st. induction rows as [|[[x lvl] lab] rest IH]; intros st; [reflexivity|].
    cbn [decode_from decode_full_from map fdec_dec]. rewrite IH. reflexivity.
  Qed.

  Lemma decode_own_from_full (st : stack) (rows : list row) :
    decode_own_from NM st rows = map fdec_own (decode_full_from st rows).
  Proof.
    revert st. induction rows as [|[[x lvl] lab] rest IH]; intros st; [reflexivity|].
    cbn [decode_own_from decode_full_from map fdec_own]. rewrite IH. reflexivity.
  Qed.

  (** ** The decoder only looks at the part of the stack the next row keeps *)
  Lemma decode_from_equiv (level : nat) (st st2 : stack) (rest : list row) :
    (forall l', (l' <= level)%nat -> pop_to l' st2 = pop_to l' st) ->
    head_le level rest -> decode_full_from st2 rest = decode_full_from st rest.
  Proof.
    destruct rest as [|[[x l] lab] r]; cbn [head_le decode_full_from]; intros Heq Hl; [reflexivity|].
    rewrite (Heq l Hl). reflexivity.
  Qed.

  Lemma decode_from_pushed (level : nat) (p : list bytes) (st : stack) (rest : list row) :
    head_le level rest ->
    decode_full_from ((level, p) :: pop_to level st) rest = decode_full_from st rest.
  Proof.
    intros H. apply (decode_from_equiv level); [|assumption].
    intros l' Hl'. rewrite pop_to_push_ge by assumption. apply pop_to_le, Hl'.
  Qed.

  Lemma decode_from_cons (st : stack) (x : T) (level : nat) (lab : bytes) (rest : list row) :
    decode_full_from st ((x, level, lab) :: rest) =
    (stack_path (pop_to level st), split_on c_slash lab, x, is_leaf_row NM level rest)
      :: decode_full_from ((level, stack_path (pop_to level st) ++ split_on c_slash lab) :: pop_to level st) rest.
  Proof. reflexivity. Qed.

  (** ** A forest printed at one level decodes child by child *)
  Lemma decode_forest (rows_of : tree -> list row) (dec_of : list bytes -> tree -> list fdec)
        (level : nat) (ch : list tree) :
    Forall (fun c =>
              starts_at level (rows_of c) /\
              forall st rest, head_le level rest ->
                decode_full_from st (rows_of c ++ rest) =
                dec_of (stack_path (pop_to level st)) c ++ decode_full_from st rest) ch ->
    forall st rest, head_le level rest ->
      decode_full_from st (flat_map rows_of ch ++ rest) =
      flat_map (dec_of (stack_path (pop_to level st))) ch ++ decode_full_from st rest.
  Proof.
    induction 1 as [|c r [Hs Hc] Hr IH]; intros st rest Hrest; cbn [flat_map app]; [reflexivity|].
    rewrite <- !app_assoc. rewrite Hc.
    - rewrite IH by assumption. reflexivity.
    - apply head_le_flat_map; [|assumption].
      eapply Forall_impl; [|exact Hr]. intros a [Ha _]. exact Ha.
  Qed.

  (** ** Unfolding the tree predicates *)
  Lemma slash_free_node (n : bytes) (x : T) (ch : list tree) :
    slash_free NM (Node n x ch) <-> ~ In c_slash n /\ Forall (slash_free NM) ch.
  Proof.
    cbn [slash_free]. split; intros [Hn Hall]; (split; [assumption|]).
    - induction ch as [|c r IH]; [constructor|]. destruct Hall as [Hc Hr].
      constructor; [assumption|apply IH, Hr].
    - induction Hall as [|c r Hc _ IH]; [exact I|]. split; assumption.
  Qed.

  Lemma chain_const_node (n : bytes) (x : T) (ch : list tree) :
    chain_const NM (Node n x ch) <->
    match ch with [only] => x = t_total NM only | _ => True end /\ Forall (chain_const NM) ch.
  Proof.
    cbn [chain_const]. split; intros [Hn Hall]; (split; [assumption|]); clear Hn.
    - induction ch as [|c r IH]; [constructor|]. destruct Hall as [Hc Hr].
      constructor; [assumption|apply IH, Hr].
    - induction Hall as [|c r Hc _ IH]; [exact I|]. split; assumption.
  Qed.

  Lemma wf_tree_node (n : bytes) (x : T) (ch : list tree) :
    wf_tree NM (Node n x ch) <-> NoDup (map (t_name NM) ch) /\ Forall (wf_tree NM) ch.
  Proof.
    cbn [wf_tree]. split; intros [Hn Hall]; (split; [assumption|]); clear Hn.
    - induction ch as [|c r IH]; [constructor|]. destruct Hall as [Hc Hr].
      constructor; [assumption|apply IH, Hr].
    - induction Hall as [|c r Hc _ IH]; [exact I|]. split; assumption.
  Qed.

  (** ** Unfolding the reference lists of TreeShared *)
  Definition child_paths (prefix : list bytes) (c : tree) : list (list bytes * T) :=
    (prefix ++ [t_name NM c], t_total NM c) :: paths_below NM (prefix ++ [t_name NM c]) c.

  Definition child_leaves (prefix : list bytes) (c : tree) : list (list bytes * T) :=
    match t_children NM c with
    | [] => [(prefix ++ [t_name NM c], t_total NM c)]
    | _ => leaves_below NM (prefix ++ [t_name NM c]) c
    end.

  Definition child_forks (prefix : list bytes) (c : tree) : list (list bytes) :=
    match t_children NM c with
    | _ :: _ :: _ => [prefix ++ [t_name NM c]]
    | _ => []
    end ++ forks_below NM (prefix ++ [t_name NM c]) c.

  Lemma paths_below_eq prefix n x ch :
    paths_below NM prefix (Node n x ch) = flat_map (child_paths prefix) ch.
  Proof. reflexivity. Qed.

  Lemma leaves_below_eq prefix n x ch :
    leaves_below NM prefix (Node n x ch) = flat_map (child_leaves prefix) ch.
  Proof. reflexivity. Qed.

  Lemma forks_below_eq prefix n x ch :
    forks_below NM prefix (Node n x ch) = flat_map (child_forks prefix) ch.
  Proof. reflexivity. Qed.

  (** ** Unfolding the printers *)
  Definition child_rows (cl : bool) (level : nat) (child : tree) : list row :=
    match child with
    | Node cn ct [] => [(ct, level, cn)]
    | Node cn ct [Node gn gt []] =>
        if (cl && t_eqb NM gt ct)%bool then [(ct, level, cn ++ [c_slash] ++ gn)]
        else (ct, level, cn) :: print_node NM cl (S level) child
    | Node cn ct _ => (ct, level, cn) :: print_node NM cl (S level) child
    end.

  Lemma print_node_eq cl level n x ch :
    print_node NM cl level (Node n x ch) = flat_map (child_rows cl level) ch.
  Proof. reflexivity. Qed.

  Lemma print_node_children cl level t :
    print_node NM cl level t = flat_map (child_rows cl level) (t_children NM t).
  Proof. destruct t as [n x ch]. reflexivity. Qed.

  Lemma child_rows_false level c :
    child_rows false level c =
    (t_total NM c, level, t_name NM c) :: flat_map (child_rows false (S level)) (t_children NM c).
  Proof.
    destruct c as [cn ct [|[gn gt [|g2 gr]] [|c2 r]]]; reflexivity.
  Qed.

  (** where the chain of sole children goes on from a node with total [x] and
      children [ch]: to the only child, if its total is Go-equal to [x] *)
  Definition jump_next (x : T) (ch : list tree) : option tree :=
    match ch with
    | [only] => if t_eqb NM (t_total NM only) x then Some only else None
    | _ => None
    end.

  Lemma jump_next_some x ch only :
    jump_next x ch = Some only -> ch = [only] /\ t_eqb NM (t_total NM only) x = true.
  Proof.
    destruct ch as [|c1 [|c2 r]]; cbn [jump_next]; try discriminate.
    destruct (t_eqb NM (t_total NM c1) x) eqn:E; [|discriminate].
    intros H. inversion H; subst c1. split; [reflexivity|exact E].
  Qed.

  Lemma jump_next_cases x ch : (exists only, jump_next x ch = Some only) \/ jump_next x ch = None.
  Proof. destruct (jump_next x ch) as [o|]; [left; exists o; reflexivity|right; reflexivity]. Qed.

  Lemma jump_print_follow level tot acc n x ch only :
    jump_next x ch = Some only ->
    jump_print NM level tot acc (Node n x ch) = jump_print NM level tot (acc ++ [n]) only.
  Proof.
    intros H. destruct (jump_next_some _ _ _ H) as [E Heq]. subst ch.
    cbn [jump_print]. rewrite Heq. reflexivity.
  Qed.

  Lemma jump_print_stop level tot acc n x ch :
    jump_next x ch = None ->
    jump_print NM level tot acc (Node n x ch) =
    (tot, level, join [c_slash] (acc ++ [n]))
      :: flat_map (fun c => jump_print NM (S level) (t_total NM c) [] c) ch.
  Proof.
    destruct ch as [|c1 [|c2 r]]; cbn [jump_next jump_print]; intros H; try reflexivity.
    destruct (t_eqb NM (t_total NM c1) x); [discriminate|reflexivity].
  Qed.

  Lemma print_collapsed_eq t :
    print_collapsed NM t = flat_map (fun c => jump_print NM O (t_total NM c) [] c) (t_children NM t).
  Proof. reflexivity. Qed.
End Base.
