(** WP23, Part B (instance) -- property C14 at binary64 with no number law left.

    1. For any [Num] and any invariant [Q] that every value [of_lexeme] returns
       satisfies and that [add] preserves: every amount of every day of every
       log the tool reads ([read_log ... = Some L]) satisfies [Q]
       ([read_log_in]): the amounts of the parser's records are results of
       [of_lexeme] ([events_in]), the walk merges duplicates of a day with [add]
       ([merge_elements_in]).
    2. At [B64] with [Q := canonical]: [parse_float] returns canonical values and
       [SFadd] preserves them (Proofs/FloatValid.v), so [read_log_canonical].
    3. With [FmtStableOn_B64_lemma] (Proofs/FloatFmt.v) the theorems of
       Proofs/PrintOn*.v give C14 at [B64] for every readable log, with only the
       hypotheses on notes and line lengths of the generic theorems.
    Axiom-free. *)
From Coq Require Import Lia ZifyBool ZifyNat ZifyN Floats.SpecFloat.
From HP Require Import Base.Bytes Base.Utf8 Base.Num Base.GoFloat Model.Scanner Model.Parser Model.Elements
     Model.Dates Model.Writer Model.Reporters Model.Cli Spec.PrintSpec Spec.PrintOnSpec
     Proofs.PrintBytes Proofs.PrintDates Proofs.PrintMain Proofs.PrintRun Proofs.PrintExamples
     Proofs.PrintOnParse Proofs.PrintOnMain Proofs.PrintOnRun
     Proofs.FloatCanon Proofs.FloatValid Proofs.FloatFmtText Proofs.FloatFmt.
Open Scope N_scope.

(** * the amounts of a log the tool reads *)
Section ReadIn.
  Context (NM : Num) (Q : T NM -> Prop).
  Context (Qlex : forall (l : bytes) (v : T NM), of_lexeme NM l = Some v -> Q v).
  Context (Qadd : forall x y : T NM, Q x -> Q y -> Q (add NM x y)).
  Notation T := (T NM).
  Notation QE := (Forall (fun nv : bytes * T => Q (snd nv))).

  (** an entry's amount is what [of_lexeme] returned *)
  Lemma classify_entry_in ln line r name v : classify NM ln line r = LEntry NM name v -> Q v.
  Proof.
    unfold classify. destruct (trim trim_text line) as [|t0 t] eqn:Et; [discriminate|].
    destruct line as [|l0 l]; [discriminate|].
    destruct (l0 =? comment_char); [discriminate|].
    destruct (negb ((l0 =? c_space) || (l0 =? c_tab) || (l0 =? c_dash))); [discriminate|].
    destruct (negb r); [discriminate|]. destruct (t0 =? comment_char); [discriminate|].
    destruct (last_index_any blanks (t0 :: t)) as [sep|]; [|discriminate]. cbv zeta.
    destruct (of_lexeme NM _) as [v'|] eqn:El; [|discriminate]. intros H. injection H as _ <-.
    apply (Qlex _ _ El).
  Qed.

  Lemma parse_loop_in lines : forall ln cur,
    (forall n, cur = Some n -> QE (elems n)) ->
    (forall n, In (ENode n) (fst (parse_loop NM lines ln cur)) -> QE (elems n))
    /\ (forall n, snd (parse_loop NM lines ln cur) = Some n -> QE (elems n)).
  Proof.
    induction lines as [|line rest IH]; intros ln cur Hcur.
    - cbn. split; [intros n []|exact Hcur].
    - cbn [parse_loop].
      destruct (classify NM (ln + 1) line match cur with Some _ => true | None => false end)
        as [|h|mp|name v|e] eqn:Ec.
      + apply IH; assumption.
      + assert (Hn : forall n, Some (new_node NM h) = Some n -> QE (elems n)).
        { intros n E. injection E as <-. constructor. }
        destruct (IH (ln + 1) (Some (new_node NM h)) Hn) as [H1 H2].
        destruct (parse_loop NM rest (ln + 1) (Some (new_node NM h))) as [evs last]. cbn [fst snd] in *.
        split; [|exact H2]. destruct cur as [n0|]; [|exact H1].
        intros n [E|HI]; [injection E as <-; apply Hcur; reflexivity|apply H1, HI].
      + apply IH. intros n E. destruct cur as [n0|]; [|discriminate]. injection E as <-.
        cbn [elems add_meta]. apply Hcur. reflexivity.
      + apply IH. intros n E. destruct cur as [n0|]; [|discriminate]. injection E as <-.
        cbn [elems add_elem]. apply Forall_app. split; [apply Hcur; reflexivity|].
        constructor; [|constructor]. cbn [snd]. apply (classify_entry_in _ _ _ _ _ Ec).
      + destruct (IH (ln + 1) cur Hcur) as [H1 H2].
        destruct (parse_loop NM rest (ln + 1) cur) as [evs last]. cbn [fst snd] in *.
        split; [|exact H2]. intros n [E|HI]; [discriminate|apply H1, HI].
  Qed.

  (** every amount of every record of ANY input *)
  Lemma events_in data n : In (ENode n) (events NM data) -> QE (elems n).
  Proof.
    unfold events, parse_lines.
    destruct (parse_loop_in (fst (scan data NoFault)) 0 None) as [H1 H2]; [intros n0 E; discriminate|].
    destruct (parse_loop NM (fst (scan data NoFault)) 0 None) as [evs last]. cbn [fst snd] in *.
    intros HI. apply in_app_or in HI. destruct HI as [HI|HI]; [apply H1, HI|].
    destruct last as [n0|]; [|destruct HI]. destruct HI as [E|[]]. injection E as <-. apply H2. reflexivity.
  Qed.

  (** merging the duplicates of a day *)
  Lemma add_to_in name v (el : list (bytes * T)) : Q v -> QE el -> QE (add_to NM name v el).
  Proof.
    intros Hv. induction el as [|[n x] el IH]; intros Hel; cbn [add_to].
    - constructor; [exact Hv|constructor].
    - inversion Hel as [|? ? Hx Hr]; subst. cbn [snd] in Hx. destruct (beq n name).
      + constructor; [cbn [snd]; apply Qadd; assumption|exact Hr].
      + constructor; [exact Hx|apply IH; exact Hr].
  Qed.

  Lemma merge_elements_in (el : list (bytes * T)) : QE el -> QE (merge_elements NM el).
  Proof.
    unfold merge_elements. assert (G : forall acc, QE acc -> QE el ->
      QE (fold_left (fun acc nv => add_to NM (fst nv) (snd nv) acc) el acc)).
    { induction el as [|[n v] el IH]; intros acc Ha He; [exact Ha|].
      inversion He as [|? ? Hv Hr]; subst. cbn [fold_left fst snd] in *. apply IH; [|exact Hr].
      apply add_to_in; assumption. }
    intros H. apply G; [constructor|exact H].
  Qed.

  Lemma lognodes_of_in toks evs : forall L,
    (forall n, In (ENode n) evs -> QE (elems n)) ->
    lognodes_of NM toks evs = Some L -> days_in NM Q L.
  Proof.
    induction evs as [|ev evs IH]; intros L Hev H.
    - cbn in H. injection H as <-. constructor.
    - destruct ev as [n|e]; [|discriminate]. cbn [lognodes_of] in H.
      destruct (parse_date toks (header n)) as [cv|]; [|discriminate].
      destruct (lognodes_of NM toks evs) as [L0|] eqn:E0; [|discriminate].
      cbn in H. injection H as <-. constructor.
      + unfold day_in. cbn [ln_elems]. apply merge_elements_in. apply Hev. left. reflexivity.
      + apply (IH L0); [|reflexivity]. intros n0 Hn0. apply Hev. right. exact Hn0.
  Qed.

  (** every amount of every day of every log the tool reads *)
  Theorem read_log_in toks data L : read_log NM toks data = Some L -> days_in NM Q L.
  Proof.
    unfold read_log. destruct (snd (scan data NoFault)); try discriminate.
    apply lognodes_of_in. intros n Hn. apply (events_in data n Hn).
  Qed.
End ReadIn.

(** * binary64 *)

Theorem read_log_canonical_lemma : forall (toks : list ltoken) (data : bytes) (L : list (lognode B64)),
  read_log B64 toks data = Some L -> days_in B64 canonical L.
Proof.
  intros toks data L. apply (read_log_in B64 canonical).
  - exact parse_float_canonical_lemma.
  - exact SFadd_canonical_lemma.
Qed.

(** days in the normal form with canonical amounts *)
Theorem B64_print_reads_back_lemma : forall (c : rconfig) (L : list (lognode B64)),
  heading_layout (rc_date c) = true -> Forall (day_ok B64 c) L -> days_in B64 canonical L ->
  events B64 (print_output B64 c L) = map (fun d => ENode (reread_node B64 c d)) L
  /\ read_log B64 (rc_date c) (print_output B64 c L) = Some (map (reread_day B64) L)
  /\ Forall (fun d => Forall (fun nv => parse_float (format_fixed 2 (snd nv)) = Some (reread B64 (snd nv))
                                        /\ format_fixed 2 (reread B64 (snd nv)) = format_fixed 2 (snd nv))
                             (ln_elems B64 d)) L
  /\ days_in B64 canonical (map (reread_day B64) L).
Proof. exact (print_reads_back_on B64 canonical FmtStableOn_B64_lemma). Qed.

Theorem B64_print_idempotent_lemma : forall (c : rconfig) (L L' : list (lognode B64)),
  heading_layout (rc_date c) = true -> Forall (day_ok B64 c) L -> days_in B64 canonical L ->
  read_log B64 (rc_date c) (print_output B64 c L) = Some L' ->
  print_output B64 c L' = print_output B64 c L /\ days_in B64 canonical L'.
Proof. exact (print_idempotent_on B64 canonical FmtStableOn_B64_lemma). Qed.

(** every readable log *)
Theorem B64_print_reads_back_log_lemma : forall (c : rconfig) (data : bytes) (L : list (lognode B64)),
  forallb safe_tok (rc_date c) = true -> stable_layout (rc_date c) = true ->
  read_log B64 (rc_date c) data = Some L ->
  Forall (fun d => Forall (fun mp => documented_note mp = true) (notes_of B64 d)) L ->
  Forall (fun d => Forall (fun l => lengthN l < max_token) (day_lines B64 c d)) L ->
  read_log B64 (rc_date c) (print_output B64 c L) = Some (map (reread_day B64) L)
  /\ print_output B64 c (map (reread_day B64) L) = print_output B64 c L
  /\ days_in B64 canonical (map (reread_day B64) L).
Proof.
  intros c data L Hsafe Hst Hread Hnotes Hlen.
  apply (print_reads_back_log_on B64 canonical FmtStableOn_B64_lemma c data L Hsafe Hst Hread); try assumption.
  apply (read_log_canonical_lemma _ _ _ Hread).
Qed.

Theorem B64_print_idempotent_log_lemma : forall (c : rconfig) (data : bytes) (L L' : list (lognode B64)),
  forallb safe_tok (rc_date c) = true -> stable_layout (rc_date c) = true ->
  read_log B64 (rc_date c) data = Some L ->
  Forall (fun d => Forall (fun mp => documented_note mp = true) (notes_of B64 d)) L ->
  Forall (fun d => Forall (fun l => lengthN l < max_token) (day_lines B64 c d)) L ->
  read_log B64 (rc_date c) (print_output B64 c L) = Some L' ->
  print_output B64 c L' = print_output B64 c L.
Proof.
  intros c data L L' Hsafe Hst Hread Hnotes Hlen H.
  destruct (B64_print_reads_back_log_lemma c data L Hsafe Hst Hread Hnotes Hlen) as (E & P & _).
  rewrite E in H. injection H as <-. exact P.
Qed.

(** the command, run twice *)
Theorem B64_run_print_twice_log_lemma :
  forall (w1 w2 : world) (op : options) (c : rconfig) (data : bytes) (toks : list ltoken) (L : list (lognode B64)),
    rc_date c = toks -> stable_layout toks = true ->
    print_setting w1 op data toks -> read_log B64 toks data = Some L ->
    Forall (fun d => Forall (fun mp => documented_note mp = true) (notes_of B64 d)) (filter (in_period B64 op) L) ->
    Forall (fun d => Forall (fun l => lengthN l < max_token) (day_lines B64 c d)) (filter (in_period B64 op) L) ->
    print_setting w2 op (out_stdout (run_log B64 w1 op (rep_print B64 c))) toks ->
    run_log B64 w2 op (rep_print B64 c) = run_log B64 w1 op (rep_print B64 c)
    /\ out_status (run_log B64 w1 op (rep_print B64 c)) = Ok.
Proof.
  intros w1 w2 op c data toks L Hc Hst S1 Hread Hnotes Hlen S2.
  apply (run_print_twice_log_on_all B64 canonical FmtStableOn_B64_lemma w1 w2 op c data toks L); try assumption.
  apply (read_log_canonical_lemma _ _ _ Hread).
Qed.

(** * non-vacuity: the hand-written two-day log [messy] of Proofs/PrintExamples.v
    ("soup: with bread" twice in the first day: -3.14159 and 1.005, merged with
    [SFadd]; 2.5e2; a note of each documented form) through the theorems *)

Definition option_bits (t : string) : Z :=
  match parse_float (b t) with Some v => bits_of v | None => (-1)%Z end.

Definition messy_days : list (lognode B64) :=
  match read_log B64 toks0 messy with Some L => L | None => [] end.

(** (results whose type mentions [B64] are never normalised: only booleans, numbers and bytes are computed) *)
Example messy_readable : (match read_log B64 toks0 messy with Some _ => true | None => false end) = true.
Proof. vm_compute. reflexivity. Qed.

Example messy_read : read_log B64 toks0 messy = Some messy_days.
Proof.
  unfold messy_days. pose proof messy_readable as H.
  destruct (read_log B64 toks0 messy); [reflexivity|discriminate H].
Qed.

(** two days; the amounts as bit patterns: -3.14159 + 1.005 = -2.13659 (merged with [SFadd]), 250, 2 *)
Example messy_amounts :
  map (fun d => map (fun nv => bits_of (snd nv)) (ln_elems B64 d)) messy_days
  = [[option_bits "-2.13659"; option_bits "250"]; [option_bits "2"]].
Proof. vm_compute. reflexivity. Qed.

(** the merged amount is not a two-decimal number: the re-read day holds another value (-2.14) *)
Example messy_not_fixed :
  map (fun d => map (fun nv => bits_of (snd nv)) (ln_elems B64 d)) (map (reread_day B64) messy_days)
  = [[option_bits "-2.14"; option_bits "250"]; [option_bits "2"]]
  /\ option_bits "-2.14" <> option_bits "-2.13659".
Proof. vm_compute. split; [reflexivity|discriminate]. Qed.

Example messy_canonical : days_in B64 canonical messy_days.
Proof. apply (read_log_canonical_lemma toks0 messy). apply messy_read. Qed.

Lemma Forall_of_forallb {A} (P : A -> Prop) (p : A -> bool) (l : list A) :
  (forall x, p x = true -> P x) -> forallb p l = true -> Forall P l.
Proof.
  intros HP H. apply Forall_forall. intros x Hx. apply HP. rewrite forallb_forall in H. apply H, Hx.
Qed.

Example messy_notes : Forall (fun d => Forall (fun mp => documented_note mp = true) (notes_of B64 d)) messy_days.
Proof.
  apply (Forall_of_forallb _ (fun d => forallb documented_note (notes_of B64 d))).
  - intros d H. apply (Forall_of_forallb _ documented_note); [auto|exact H].
  - vm_compute. reflexivity.
Qed.

Example messy_lengths :
  Forall (fun d => Forall (fun l => lengthN l < max_token) (day_lines B64 (cfg toks0) d)) messy_days.
Proof.
  apply (Forall_of_forallb _ (fun d => forallb (fun l => lengthN l <? max_token) (day_lines B64 (cfg toks0) d))).
  - intros d H. apply (Forall_of_forallb _ (fun l => lengthN l <? max_token)); [|exact H].
    intros l Hl. apply N.ltb_lt. exact Hl.
  - vm_compute. reflexivity.
Qed.

Example messy_through_theorem :
  read_log B64 toks0 (print_output B64 (cfg toks0) messy_days) = Some (map (reread_day B64) messy_days)
  /\ print_output B64 (cfg toks0) (map (reread_day B64) messy_days) = print_output B64 (cfg toks0) messy_days.
Proof.
  destruct (B64_print_reads_back_log_lemma (cfg toks0) messy messy_days eq_refl eq_refl messy_read
              messy_notes messy_lengths) as (H1 & H2 & _).
  split; assumption.
Qed.

(** the command twice on that file *)
Example messy_period : filter (in_period B64 op_ex) messy_days = messy_days.
Proof.
  apply filter_all. apply (Forall_of_forallb _ (in_period B64 op_ex)); [auto|]. vm_compute. reflexivity.
Qed.

Example messy_run_twice :
  let out1 := run_log B64 (world_with messy) op_ex (rep_print B64 (cfg toks0)) in
  run_log B64 (world_with (out_stdout out1)) op_ex (rep_print B64 (cfg toks0)) = out1 /\ out_status out1 = Ok.
Proof.
  cbv zeta.
  apply (B64_run_print_twice_log_lemma (world_with messy) _ op_ex (cfg toks0) messy toks0 messy_days eq_refl eq_refl
           (setting_ex messy) messy_read).
  - rewrite messy_period. exact messy_notes.
  - rewrite messy_period. exact messy_lengths.
  - apply setting_ex.
Qed.
