(** WP08: [order_tree] sorts the children of every node by name, keeps the
    nodes, and does not depend on the order in which the runtime delivers map
    keys. *)
From HP Require Import Base.Bytes Base.Num Model.Elements Model.Tree Model.Reporters.
From HP Require Import Spec.TreeShared Spec.TreeSpec Proofs.TreeBytes Proofs.TreeBuild Proofs.TreeChain.
From Coq Require Import Lia Sorted Permutation.

Section TreeOrder.
  Context (NM : Num).
  Notation T := (T NM).
  Notation tree := (tree NM).
  Notation t_name := (t_name NM).
  Notation t_total := (t_total NM).
  Notation t_children := (t_children NM).
  Notation find_child := (find_child NM).
  Notation order_tree := (order_tree NM).
  Notation tpaths := (tpaths NM).
  Notation fpaths := (fpaths NM).

  Definition is_perm (pi : list bytes -> list bytes) : Prop := forall l, Permutation (pi l) l.

  (** * picking the children in a given order of names *)
  Lemma in_filter_some : forall {A} (l : list (option A)) x, In x (filter_some l) <-> In (Some x) l.
  Proof.
    intros A l x. induction l as [|[y|] r IH]; cbn [filter_some In].
    - reflexivity.
    - rewrite IH. split; (intros [E|H]; [left; congruence|right; exact H]).
    - rewrite IH. split; [intro H; right; exact H|intros [E|H]; [discriminate|exact H]].
  Qed.

  Definition pick (ks : list bytes) (l : list tree) : list tree :=
    filter_some (map (fun k => find_child k l) ks).

  Lemma pick_names : forall ks l, incl ks (map t_name l) -> map t_name (pick ks l) = ks.
  Proof.
    induction ks as [|k ks IH]; intros l Hincl; [reflexivity|].
    unfold pick. cbn [map]. destruct (find_child k l) as [t|] eqn:E.
    - cbn [filter_some map]. apply find_child_some in E. destruct E as [_ E]. rewrite E. f_equal.
      apply IH. intros k' Hk'. apply Hincl. right. exact Hk'.
    - apply find_child_none in E. exfalso. apply E. apply Hincl. left. reflexivity.
  Qed.

  Lemma pick_in : forall ks l t, In t (pick ks l) -> In t l.
  Proof.
    intros ks l t H. apply in_filter_some in H. apply in_map_iff in H. destruct H as [k [E _]].
    apply find_child_some in E. apply E.
  Qed.

  Lemma pick_perm : forall ks l,
    NoDup (map t_name l) -> Permutation ks (map t_name l) -> Permutation (pick ks l) l.
  Proof.
    intros ks l Hnd HP.
    assert (Hincl : incl ks (map t_name l)) by (intros k Hk; eapply Permutation_in; eassumption).
    apply NoDup_Permutation.
    - apply (NoDup_map_inv t_name). rewrite pick_names by exact Hincl.
      eapply Permutation_NoDup; [apply Permutation_sym; exact HP|exact Hnd].
    - apply (NoDup_map_inv t_name). exact Hnd.
    - intro t. split; [apply pick_in|]. intro Ht. apply in_filter_some. apply in_map_iff.
      exists (t_name t). split; [apply find_child_nodup; assumption|].
      eapply Permutation_in; [apply Permutation_sym; exact HP|]. apply in_map. exact Ht.
  Qed.

  (** * [order_tree] at one node *)
  Lemma order_tree_node : forall pi n x ch,
    order_tree pi (Node n x ch) =
    Node n x (pick (sort_bytes (pi (map t_name (map (order_tree pi) ch)))) (map (order_tree pi) ch)).
  Proof. reflexivity. Qed.

  Lemma order_tree_name : forall pi t, t_name (order_tree pi t) = t_name t.
  Proof. intros pi [n x ch]. reflexivity. Qed.

  Lemma order_tree_total : forall pi t, t_total (order_tree pi t) = t_total t.
  Proof. intros pi [n x ch]. reflexivity. Qed.

  Lemma order_tree_names : forall pi ch, map t_name (map (order_tree pi) ch) = map t_name ch.
  Proof. intros pi ch. rewrite map_map. apply map_ext. intro t. apply order_tree_name. Qed.

  Lemma order_children_names : forall pi t,
    is_perm pi -> NoDup (map t_name (t_children t)) ->
    map t_name (t_children (order_tree pi t)) = sort_bytes (map t_name (t_children t)).
  Proof.
    intros pi [n x ch] Hpi Hnd. rewrite order_tree_node. cbn [Tree.t_children] in *.
    rewrite order_tree_names. rewrite pick_names.
    - apply sort_bytes_perm_eq. apply Hpi.
    - intros k Hk. rewrite order_tree_names. eapply Permutation_in; [|exact Hk].
      eapply Permutation_trans; [apply sort_bytes_perm|apply Hpi].
  Qed.

  Lemma order_children_perm : forall pi t,
    is_perm pi -> NoDup (map t_name (t_children t)) ->
    Permutation (t_children (order_tree pi t)) (map (order_tree pi) (t_children t)).
  Proof.
    intros pi [n x ch] Hpi Hnd. rewrite order_tree_node. cbn [Tree.t_children] in *.
    apply pick_perm; rewrite order_tree_names; [exact Hnd|].
    eapply Permutation_trans; [apply sort_bytes_perm|apply Hpi].
  Qed.

  (** [Forall] through the ordering of the children *)
  Lemma order_children_Forall : forall (P : tree -> Prop) pi t,
    is_perm pi -> NoDup (map t_name (t_children t)) ->
    Forall (fun c => P (order_tree pi c)) (t_children t) ->
    Forall P (t_children (order_tree pi t)).
  Proof.
    intros P pi t Hpi Hnd H. rewrite Forall_forall in *. intros c Hc.
    apply (Permutation_in _ (order_children_perm pi t Hpi Hnd)) in Hc.
    apply in_map_iff in Hc. destruct Hc as [c0 [E Hc0]]. subst c. apply H. exact Hc0.
  Qed.

  Lemma node_eta : forall t : tree, t = Node (t_name t) (t_total t) (t_children t).
  Proof. intros [n x ch]. reflexivity. Qed.

  (** * independence from the oracle *)
  Theorem order_tree_oracle_independent : forall pi1 pi2 t,
    is_perm pi1 -> is_perm pi2 -> order_tree pi1 t = order_tree pi2 t.
  Proof.
    intros pi1 pi2 t H1 H2. induction t as [n x ch IH] using (tree_ind' NM).
    rewrite !order_tree_node.
    assert (E : map (order_tree pi1) ch = map (order_tree pi2) ch).
    { apply map_ext_in. rewrite Forall_forall in IH. exact IH. }
    rewrite E. f_equal. f_equal. apply sort_bytes_perm_eq.
    eapply Permutation_trans; [apply H1|]. apply Permutation_sym. apply H2.
  Qed.

  (** * well-formedness is kept *)
  Theorem order_tree_wf_gen : forall pi t, is_perm pi -> wf_tree NM t -> wf_tree NM (order_tree pi t).
  Proof.
    intros pi t Hpi. induction t as [n x ch IH] using (tree_ind' NM). intro Hwf.
    apply wf_tree_unfold in Hwf. destruct Hwf as [Hnd Hall].
    rewrite (node_eta (order_tree pi (Node n x ch))). apply wf_tree_unfold. split.
    - rewrite order_children_names by assumption. cbn [Tree.t_children].
      eapply Permutation_NoDup; [apply Permutation_sym; apply sort_bytes_perm|exact Hnd].
    - apply order_children_Forall; [exact Hpi|exact Hnd|]. cbn [Tree.t_children].
      rewrite Forall_forall in *. intros c Hc. apply IH; [exact Hc|apply Hall; exact Hc].
  Qed.

  (** * siblings strictly increasing *)
  Lemma StronglySorted_map_inv : forall {A B} (R : B -> B -> Prop) (f : A -> B) l,
    StronglySorted R (map f l) -> StronglySorted (fun a c => R (f a) (f c)) l.
  Proof.
    intros A B R f l. induction l as [|a r IH]; intro H; [constructor|].
    cbn [map] in H. apply StronglySorted_inv in H. destruct H as [H1 H2]. constructor; [apply IH; exact H1|].
    rewrite Forall_forall in *. intros c Hc. apply H2. apply in_map. exact Hc.
  Qed.

  Theorem order_tree_sorted_gen : forall pi t, is_perm pi -> wf_tree NM t -> sorted_tree NM (order_tree pi t).
  Proof.
    intros pi t Hpi. induction t as [n x ch IH] using (tree_ind' NM). intro Hwf.
    apply wf_tree_unfold in Hwf. destruct Hwf as [Hnd Hall].
    rewrite (node_eta (order_tree pi (Node n x ch))). apply sorted_tree_unfold. split.
    - apply (StronglySorted_map_inv (fun a c => bltb a c = true)).
      rewrite order_children_names by assumption. apply sort_bytes_strict. exact Hnd.
    - apply order_children_Forall; [exact Hpi|exact Hnd|]. cbn [Tree.t_children].
      rewrite Forall_forall in *. intros c Hc. apply IH; [exact Hc|apply Hall; exact Hc].
  Qed.

  (** * same nodes *)
  Lemma Permutation_flat_map_pointwise : forall {A B} (f g : A -> list B) l,
    Forall (fun a => Permutation (f a) (g a)) l -> Permutation (flat_map f l) (flat_map g l).
  Proof.
    intros A B f g l H. induction H as [|a r Ha Hr IH]; [apply Permutation_refl|].
    cbn [flat_map]. apply Permutation_app; assumption.
  Qed.

  Lemma tpaths_node : forall t,
    tpaths t = ([t_name t], t_total t) :: map (fun px => (t_name t :: fst px, snd px)) (fpaths (t_children t)).
  Proof. intros [n x ch]. reflexivity. Qed.

  Lemma order_tree_tpaths : forall pi t, is_perm pi -> wf_tree NM t ->
    Permutation (tpaths (order_tree pi t)) (tpaths t).
  Proof.
    intros pi t Hpi. induction t as [n x ch IH] using (tree_ind' NM). intro Hwf.
    apply wf_tree_unfold in Hwf. destruct Hwf as [Hnd Hall].
    rewrite (tpaths_node (order_tree pi (Node n x ch))), (tpaths_node (Node n x ch)).
    cbn [Tree.t_name Tree.t_total]. apply perm_skip. apply Permutation_map.
    unfold TreeBuild.fpaths.
    eapply Permutation_trans; [apply Permutation_flat_map; apply order_children_perm; assumption|].
    cbn [Tree.t_children]. rewrite flat_map_concat_map, map_map, <- flat_map_concat_map.
    apply Permutation_flat_map_pointwise. rewrite Forall_forall in *. intros c Hc.
    apply IH; [exact Hc|apply Hall; exact Hc].
  Qed.

  Theorem order_tree_paths_perm : forall pi t, is_perm pi -> wf_tree NM t ->
    Permutation (tree_paths NM (order_tree pi t)) (tree_paths NM t).
  Proof.
    intros pi [n x ch] Hpi Hwf.
    pose proof (order_tree_tpaths pi _ Hpi Hwf) as H.
    rewrite (tpaths_node (order_tree pi (Node n x ch))), (tpaths_node (Node n x ch)) in H.
    cbn [Tree.t_name Tree.t_total] in H. apply Permutation_cons_inv in H.
    rewrite !tree_paths_fpaths.
    set (l1 := fpaths (t_children (order_tree pi (Node n x ch)))) in *.
    set (l2 := fpaths (t_children (Node n x ch))) in *.
    assert (E : forall l : list (list bytes * T), l = map (fun px => (tl (fst px), snd px)) (map (fun px => (n :: fst px, snd px)) l)).
    { intro l. rewrite map_map. rewrite <- (map_id l) at 1. apply map_ext. intros [p y]. reflexivity. }
    rewrite (E l1), (E l2). apply Permutation_map. exact H.
  Qed.

  (** * the interface predicates are kept *)
  Theorem order_tree_slash_free : forall pi t, is_perm pi -> wf_tree NM t ->
    slash_free NM t -> slash_free NM (order_tree pi t).
  Proof.
    intros pi t Hpi. induction t as [n x ch IH] using (tree_ind' NM). intros Hwf Hsf.
    apply wf_tree_unfold in Hwf. destruct Hwf as [Hnd Hall].
    apply slash_free_unfold in Hsf. destruct Hsf as [Hn Hsf].
    rewrite (node_eta (order_tree pi (Node n x ch))). apply slash_free_unfold. split; [exact Hn|].
    apply order_children_Forall; [exact Hpi|exact Hnd|]. cbn [Tree.t_children].
    rewrite Forall_forall in *. intros c Hc. apply IH; [exact Hc|apply Hall; exact Hc|apply Hsf; exact Hc].
  Qed.

  Lemma order_children_single : forall pi t only',
    is_perm pi -> NoDup (map t_name (t_children t)) ->
    t_children (order_tree pi t) = [only'] ->
    exists only, t_children t = [only] /\ only' = order_tree pi only.
  Proof.
    intros pi t only' Hpi Hnd E. pose proof (order_children_perm pi t Hpi Hnd) as HP. rewrite E in HP.
    apply Permutation_length_1_inv in HP.
    destruct (t_children t) as [|only [|c2 r]]; cbn [map] in HP; try discriminate.
    inversion HP. exists only. split; reflexivity.
  Qed.

  Theorem order_tree_chain_const : forall pi t, is_perm pi -> wf_tree NM t ->
    chain_const NM t -> chain_const NM (order_tree pi t).
  Proof.
    intros pi t Hpi. induction t as [n x ch IH] using (tree_ind' NM). intros Hwf Hcc.
    apply wf_tree_unfold in Hwf. destruct Hwf as [Hnd Hall].
    apply chain_const_unfold in Hcc. destruct Hcc as [Hhere Hcc].
    rewrite (node_eta (order_tree pi (Node n x ch))). apply chain_const_unfold. split.
    - destruct (t_children (order_tree pi (Node n x ch))) as [|only' [|c2 r]] eqn:E; try exact I.
      apply order_children_single in E; [|exact Hpi|exact Hnd]. destruct E as [only [E1 E2]].
      cbn [Tree.t_children] in E1. subst ch only'. rewrite !order_tree_total. cbn [Tree.t_total]. exact Hhere.
    - apply order_children_Forall; [exact Hpi|exact Hnd|]. cbn [Tree.t_children].
      rewrite Forall_forall in *. intros c Hc. apply IH; [exact Hc|apply Hall; exact Hc|apply Hcc; exact Hc].
  Qed.
End TreeOrder.
