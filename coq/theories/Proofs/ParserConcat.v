(** WP03 – stretch: parsing a concatenation (used by C12).  Byte level, for
    arbitrary data: if the first part ends in LF (or is empty) and the second
    part begins – after lines that are skipped unconditionally – with a
    heading (or the first part has no open record), the events of the whole are
    the events of the parts, the error line numbers of the second part shifted
    by the number of lines of the first. *)
From Coq Require Import Lia ZifyBool ZifyNat ZifyN.
From HP Require Import Base.Bytes Base.Utf8 Base.Num Model.Scanner Model.Parser Model.Syntax.
From HP Require Import Proofs.ParserBytes Proofs.ParserScan Proofs.ParserClassify Proofs.ParserRoundtrip
  Proofs.ParserCorollaries.
Open Scope N_scope.

(** ** scanner *)

Lemma raw_lines_app_lf s d2 cur :
  raw_lines cur (s ++ c_lf :: d2) = raw_lines cur (s ++ [c_lf]) ++ raw_lines [] d2.
Proof.
  revert cur. induction s as [|x s IH]; intros cur.
  - cbn [app raw_lines]. rewrite N.eqb_refl. reflexivity.
  - cbn [app raw_lines]. destruct (x =? c_lf); rewrite IH; reflexivity.
Qed.

Lemma take_lines_app a c :
  take_lines (a ++ c)
  = let '(la, ta) := take_lines a in
    if ta then (la, true) else let '(lc, tc) := take_lines c in (la ++ lc, tc).
Proof.
  induction a as [|[raw t] a IH].
  - cbn [app take_lines]. destruct (take_lines c); reflexivity.
  - cbn [app take_lines]. destruct (max_token <=? lengthN raw); [reflexivity|].
    rewrite IH. destruct (take_lines a) as [la ta]. destruct ta; [reflexivity|].
    destruct (take_lines c); reflexivity.
Qed.

Definition ends_lf (d : bytes) : Prop := d = [] \/ exists d', d = d' ++ [c_lf].

Definition lines_of (d : bytes) : list bytes := fst (scan d NoFault).

Lemma raw_lines_concat d1 d2 :
  ends_lf d1 -> raw_lines [] (d1 ++ d2) = raw_lines [] d1 ++ raw_lines [] d2.
Proof.
  intros [->|[d' ->]]; [reflexivity|].
  rewrite <- app_assoc. cbn [app]. apply raw_lines_app_lf.
Qed.

Lemma scan_eof_iff d : snd (scan d NoFault) = ScanEOF <-> snd (take_lines (raw_lines [] d)) = false.
Proof.
  unfold scan. destruct (take_lines (raw_lines [] d)) as [ls tl]. cbn [snd].
  destruct tl; split; intros H; try reflexivity; discriminate.
Qed.

Lemma lines_of_eq d : lines_of d = fst (take_lines (raw_lines [] d)).
Proof. unfold lines_of, scan. destruct (take_lines (raw_lines [] d)); reflexivity. Qed.

(** the lines of a concatenation, when no line is too long *)
Lemma scan_concat d1 d2 :
  ends_lf d1 ->
  (snd (scan (d1 ++ d2) NoFault) = ScanEOF
   <-> snd (scan d1 NoFault) = ScanEOF /\ snd (scan d2 NoFault) = ScanEOF)
  /\ (snd (scan (d1 ++ d2) NoFault) = ScanEOF -> lines_of (d1 ++ d2) = lines_of d1 ++ lines_of d2).
Proof.
  intros H. rewrite !scan_eof_iff, !lines_of_eq, (raw_lines_concat d1 d2 H), take_lines_app.
  destruct (take_lines (raw_lines [] d1)) as [l1 t1].
  destruct (take_lines (raw_lines [] d2)) as [l2 t2].
  destruct t1; cbn [fst snd]; (split; [split|]); try tauto; try discriminate.
Qed.

Section Concat.
  Context (NM : Num).

  Definition shift_err (k : N) (e : perr) : perr :=
    match e with
    | BadSyntax ln raw => BadSyntax (k + ln) raw
    | Conversion t ln raw => Conversion t (k + ln) raw
    end.

  Definition shift_ev (k : N) (ev : event NM) : event NM :=
    match ev with ENode n => ENode n | EErr e => EErr (shift_err k e) end.

  Definition shift_class (k : N) (c : line_class NM) : line_class NM :=
    match c with LBad _ e => LBad NM (shift_err k e) | _ => c end.

  Lemma classify_shift k ln line inrec :
    classify NM (k + ln) line inrec = shift_class k (classify NM ln line inrec).
  Proof.
    unfold classify.
    destruct (trim trim_text line) as [|t0 t]; [reflexivity|].
    destruct line as [|l0 l]; [reflexivity|].
    destruct (l0 =? comment_char); [reflexivity|].
    destruct (negb ((l0 =? c_space) || (l0 =? c_tab) || (l0 =? c_dash))); [reflexivity|].
    destruct (negb inrec); [reflexivity|].
    destruct (t0 =? comment_char); [reflexivity|].
    destruct (last_index_any blanks (t0 :: t)) as [sep|]; [|reflexivity].
    cbv zeta. destruct (of_lexeme NM _); reflexivity.
  Qed.

  Lemma parse_loop_shift k lines ln cur :
    parse_loop NM lines (k + ln) cur
    = let '(e, c) := parse_loop NM lines ln cur in (map (shift_ev k) e, c).
  Proof.
    revert ln cur. induction lines as [|line lines IH]; intros ln cur; [reflexivity|].
    cbn [parse_loop]. replace (k + ln + 1) with (k + (ln + 1)) by lia.
    rewrite classify_shift.
    destruct (classify NM (ln + 1) line match cur with Some _ => true | None => false end);
      cbn [shift_class]; rewrite IH; try reflexivity.
    - destruct (parse_loop NM lines (ln + 1) (Some (new_node NM h))) as [e c].
      destruct cur; reflexivity.
    - destruct (parse_loop NM lines (ln + 1) cur) as [e' c]. reflexivity.
  Qed.

  Lemma parse_loop_app l1 l2 ln cur :
    parse_loop NM (l1 ++ l2) ln cur
    = let '(e1, c1) := parse_loop NM l1 ln cur in
      let '(e2, c2) := parse_loop NM l2 (ln + lengthN l1) c1 in (e1 ++ e2, c2).
  Proof.
    revert ln cur. induction l1 as [|line l1 IH]; intros ln cur.
    - cbn [app parse_loop lengthN]. rewrite N.add_0_r. destruct (parse_loop NM l2 ln cur); reflexivity.
    - cbn [app parse_loop lengthN].
      replace (ln + N.succ (lengthN l1)) with (ln + 1 + lengthN l1) by lia.
      destruct (classify NM (ln + 1) line match cur with Some _ => true | None => false end);
        rewrite IH; try reflexivity.
      + destruct (parse_loop NM l1 (ln + 1) (Some (new_node NM h))) as [e1 c1].
        destruct (parse_loop NM l2 (ln + 1 + lengthN l1) c1) as [e2 c2]. destruct cur; reflexivity.
      + destruct (parse_loop NM l1 (ln + 1) cur) as [e1 c1].
        destruct (parse_loop NM l2 (ln + 1 + lengthN l1) c1) as [e2 c2]. reflexivity.
  Qed.

  (** ** lines that never matter, lines that are headings *)

  (** skipped whatever the parser state: nothing left after trimming, or a
      comment *)
  Definition insignificant (line : bytes) : bool :=
    match trim trim_text line, line with
    | [], _ => true
    | _, [] => true
    | _ :: _, l0 :: _ => l0 =? comment_char
    end.

  Definition is_heading_line (line : bytes) : bool :=
    match trim trim_text line, line with
    | _ :: _, l0 :: _ => negb (l0 =? comment_char) && negb ((l0 =? c_space) || (l0 =? c_tab) || (l0 =? c_dash))
    | _, _ => false
    end.

  (** the first line that is not skipped unconditionally (if any) is a heading *)
  Fixpoint heading_first (lines : list bytes) : bool :=
    match lines with
    | [] => true
    | line :: r => if insignificant line then heading_first r else is_heading_line line
    end.

  Lemma classify_insignificant ln line inrec :
    insignificant line = true -> classify NM ln line inrec = LSkip NM.
  Proof.
    unfold insignificant, classify.
    destruct (trim trim_text line) as [|t0 t]; [reflexivity|].
    destruct line as [|l0 l]; [reflexivity|]. intros ->. reflexivity.
  Qed.

  Lemma classify_heading_line ln line inrec :
    is_heading_line line = true -> classify NM ln line inrec = LHeading NM (trim trim_text line).
  Proof.
    unfold is_heading_line, classify.
    destruct (trim trim_text line) as [|t0 t]; [discriminate|].
    destruct line as [|l0 l]; [discriminate|]. intros H. apply andb_true_iff in H as [H1 H2].
    apply negb_true_iff in H1. rewrite H1, H2. reflexivity.
  Qed.

  Definition evs_of (p : list (event NM) * option (pnode NM)) : list (event NM) :=
    fst p ++ opt_node NM (snd p).

  Lemma events_evs_of data : events NM data = evs_of (parse_lines NM (lines_of data)).
  Proof. unfold events, evs_of, lines_of. destruct (parse_lines NM (fst (scan data NoFault))). reflexivity. Qed.

  (** when the lines begin with a heading, an open record is simply closed *)
  Lemma parse_loop_heading_first lines :
    heading_first lines = true ->
    forall ln c,
      evs_of (parse_loop NM lines ln (Some c)) = ENode c :: evs_of (parse_loop NM lines ln None).
  Proof.
    induction lines as [|line lines IH]; intros H ln c; [reflexivity|].
    cbn [heading_first] in H. cbn [parse_loop].
    destruct (insignificant line) eqn:Ei.
    - rewrite !(classify_insignificant _ _ _ Ei). apply IH, H.
    - rewrite !(classify_heading_line _ _ _ H).
      destruct (parse_loop NM lines (ln + 1) (Some (new_node NM (trim trim_text line)))) as [e last].
      reflexivity.
  Qed.

  Lemma map_shift_evs_of k p : map (shift_ev k) (evs_of p) = evs_of (map (shift_ev k) (fst p), snd p).
  Proof.
    unfold evs_of. cbn [fst snd]. rewrite map_app. f_equal. destruct (snd p); reflexivity.
  Qed.

  (** *** the byte-level composition theorem *)
  Theorem parse_concat d1 d2 :
    ends_lf d1 ->
    snd (scan (d1 ++ d2) NoFault) = ScanEOF ->
    snd (parse_lines NM (lines_of d1)) = None \/ heading_first (lines_of d2) = true ->
    events NM (d1 ++ d2)
    = events NM d1 ++ map (shift_ev (lengthN (lines_of d1))) (events NM d2).
  Proof.
    intros Hlf Heof Hb.
    destruct (scan_concat d1 d2 Hlf) as [_ Hlines]. specialize (Hlines Heof).
    rewrite !events_evs_of, Hlines. unfold parse_lines in *.
    rewrite parse_loop_app. rewrite N.add_0_l.
    destruct (parse_loop NM (lines_of d1) 0 None) as [e1 c1]. cbn [snd] in Hb.
    rewrite map_shift_evs_of.
    pose proof (parse_loop_shift (lengthN (lines_of d1)) (lines_of d2) 0 None) as Hs.
    rewrite N.add_0_r in Hs.
    destruct c1 as [c|].
    - destruct Hb as [Hb|Hb]; [discriminate|].
      pose proof (parse_loop_heading_first _ Hb (lengthN (lines_of d1)) c) as Hh.
      destruct (parse_loop NM (lines_of d2) (lengthN (lines_of d1)) (Some c)) as [e2 c2].
      rewrite Hs in Hh.
      destruct (parse_loop NM (lines_of d2) 0 None) as [e2' c2'].
      unfold evs_of in *. cbn [fst snd opt_node] in *.
      rewrite <- !app_assoc. cbn [app]. rewrite <- Hh. reflexivity.
    - rewrite Hs. destruct (parse_loop NM (lines_of d2) 0 None) as [e2' c2'].
      unfold evs_of. cbn [fst snd opt_node]. rewrite app_nil_r, app_assoc. reflexivity.
  Qed.

  (** without malformed lines in the second part nothing is shifted *)
  Lemma shift_no_errs k evs : errs_of NM evs = [] -> map (shift_ev k) evs = evs.
  Proof.
    induction evs as [|ev evs IH]; [reflexivity|].
    destruct ev as [n|e]; cbn [errs_of flat_map app map shift_ev].
    - intros H. rewrite (IH H). reflexivity.
    - discriminate.
  Qed.

  Corollary parse_concat_no_errors d1 d2 :
    ends_lf d1 ->
    snd (scan (d1 ++ d2) NoFault) = ScanEOF ->
    snd (parse_lines NM (lines_of d1)) = None \/ heading_first (lines_of d2) = true ->
    errs_of NM (events NM d2) = [] ->
    events NM (d1 ++ d2) = events NM d1 ++ events NM d2.
  Proof.
    intros Hlf Heof Hb He. rewrite parse_concat by assumption. rewrite shift_no_errs by exact He. reflexivity.
  Qed.
End Concat.

(** ** the same for rendered well-formed files *)

(** the first item that is not a blank or comment line (if any) is a heading *)
Fixpoint heading_first_items (l : list item) : bool :=
  match l with
  | [] => true
  | (IBlank _ | IComment _) :: r => heading_first_items r
  | IHeading _ _ :: _ => true
  | _ => false
  end.

Section ConcatWf.
  Context (NM : Num).

  Lemma insignificant_blank ws : all_in fill5 ws = true -> insignificant ws = true.
  Proof.
    intros H. unfold insignificant. rewrite trim_all_in by (apply fill5_trim_text, H). reflexivity.
  Qed.

  Lemma insignificant_comment t : insignificant (c_hash :: t) = true.
  Proof. unfold insignificant. destruct (trim trim_text (c_hash :: t)); reflexivity. Qed.

  Lemma heading_line_facts n s :
    wf_name n = true -> wf_post s = true ->
    insignificant (n ++ s) = false /\ is_heading_line (n ++ s) = true.
  Proof.
    intros Hn Hs. apply wf_name_ends in Hn as [Hn0 [Hn1 Hn2]].
    unfold is_heading_line, insignificant.
    replace (trim trim_text (n ++ s)) with n
      by (symmetry; apply (trim_core trim_text [] n s); [reflexivity | apply fill5_trim_text, Hs | exact Hn1 | exact Hn2]).
    apply opt_notin_first in Hn0 as [c [r [-> Hc]]]. cbn [app].
    assert (E1 : (c =? comment_char) = false) by memb_tac.
    assert (E2 : negb ((c =? c_space) || (c =? c_tab) || (c =? c_dash)) = true) by memb_tac.
    rewrite E1, E2. split; reflexivity.
  Qed.

  Lemma heading_first_seen l fnl :
    Forall (fun ic : item * bool => wf_item NM (fst ic) = true) l ->
    heading_first_items (map fst l) = true ->
    heading_first (map render_line (seen_items l fnl)) = true.
  Proof.
    induction l as [|[it crlf] r IH]; intros Hwf H; [reflexivity|].
    inversion Hwf as [|x y Hit Hr]; subst. cbn [fst] in Hit.
    assert (Hcons : heading_first (render_line it :: map render_line (seen_items r fnl)) = true).
    { cbn [map fst heading_first_items] in H.
      destruct it as [ws|t|n s|pre n mid lx post|pre raw|pre t|pre n mid t post]; try discriminate;
        cbn [heading_first render_line wf_item] in *.
      - rewrite insignificant_blank by exact Hit. apply IH; assumption.
      - rewrite insignificant_comment. apply IH; assumption.
      - apply andb_true_iff in Hit as [Hn Hs].
        destruct (heading_line_facts n s Hn Hs) as [Hi Hh]. rewrite Hi. exact Hh. }
    destruct r as [|ic2 r'].
    - cbn [seen_items]. destruct fnl; [exact Hcons|].
      destruct (render_line it) eqn:E; [reflexivity|]. cbn [map]. rewrite E. exact Hcons.
    - exact Hcons.
  Qed.

  Lemma render_items_ends_lf l : ends_lf (render_items l true).
  Proof.
    induction l as [|[it crlf] r IH]; [left; reflexivity|]. right.
    destruct r as [|ic2 r'].
    - cbn [render_items]. exists (render_line it ++ cr_if crlf).
      rewrite <- (app_nil_r (eol crlf)), eol_split. reflexivity.
    - change (render_items ((it, crlf) :: ic2 :: r') true)
        with (render_line it ++ eol crlf ++ render_items (ic2 :: r') true).
      destruct IH as [E|[d' E]]; rewrite E.
      + exists (render_line it ++ cr_if crlf). rewrite eol_split. reflexivity.
      + exists (render_line it ++ eol crlf ++ d'). rewrite <- !app_assoc. reflexivity.
  Qed.

  Lemma seen_items_newline l : seen_items l true = map fst l.
  Proof.
    induction l as [|[it crlf] r IH]; [reflexivity|].
    destruct r as [|ic2 r']; [reflexivity|].
    change (seen_items ((it, crlf) :: ic2 :: r') true) with (it :: seen_items (ic2 :: r') true).
    rewrite IH. reflexivity.
  Qed.

  Lemma lengthN_map {A B} (g : A -> B) l : lengthN (map g l) = lengthN l.
  Proof. induction l as [|x l IH]; [reflexivity|]. cbn [map lengthN]. rewrite IH. reflexivity. Qed.

  Lemma bad_walk_no_bad l i seen :
    forallb (fun it => negb (is_bad it)) l = true -> bad_walk l i seen = [].
  Proof.
    revert i seen. induction l as [|it l IH]; intros i seen H; [reflexivity|].
    cbn [forallb] in H. apply andb_true_iff in H as [Hit H].
    cbn [bad_walk]. rewrite (IH _ _ H). apply negb_true_iff in Hit. rewrite Hit, andb_false_r. reflexivity.
  Qed.

  Lemma no_bad_no_errs f : no_bad_items f -> errs_of NM (expected_events NM f) = [].
  Proof.
    unfold no_bad_items, expected_events. intros H. rewrite errs_expect.
    rewrite bad_walk_no_bad by (rewrite forallb_map; exact H). reflexivity.
  Qed.

  (** *** composition for rendered files: a log that ends in a newline,
      followed by a log whose first significant line is a heading *)
  Theorem parse_concat_wf f1 f2 :
    wf_file NM f1 = true -> short_lines f1 -> f_final_newline f1 = true ->
    wf_file NM f2 = true -> short_lines f2 ->
    heading_first_items (map fst (f_items f2)) = true ->
    events NM (render f1 ++ render f2)
    = events NM (render f1) ++ map (shift_ev NM (lengthN (f_items f1))) (events NM (render f2)).
  Proof.
    intros Hwf1 Hs1 Hnl Hwf2 Hs2 Hh.
    assert (Hlf : ends_lf (render f1)).
    { unfold render. rewrite Hnl. apply render_items_ends_lf. }
    assert (Hlen : lengthN (lines_of (render f1)) = lengthN (f_items f1)).
    { unfold lines_of. rewrite (scan_render NM f1 Hwf1 Hs1). cbn [fst].
      rewrite Hnl, seen_items_newline, !lengthN_map. reflexivity. }
    rewrite <- Hlen. apply parse_concat.
    - exact Hlf.
    - apply (scan_concat _ _ Hlf). split; [apply (short_lines_exact NM f1 Hwf1), Hs1 | apply (short_lines_exact NM f2 Hwf2), Hs2].
    - right. unfold lines_of. rewrite (scan_render NM f2 Hwf2 Hs2). cbn [fst].
      apply heading_first_seen; [apply wf_file_Forall, Hwf2 | exact Hh].
  Qed.

  Corollary parse_concat_wf_no_bad f1 f2 :
    wf_file NM f1 = true -> short_lines f1 -> f_final_newline f1 = true ->
    wf_file NM f2 = true -> short_lines f2 -> no_bad_items f2 ->
    heading_first_items (map fst (f_items f2)) = true ->
    events NM (render f1 ++ render f2) = events NM (render f1) ++ events NM (render f2).
  Proof.
    intros Hwf1 Hs1 Hnl Hwf2 Hs2 Hb Hh.
    rewrite parse_concat_wf by assumption. rewrite shift_no_errs; [reflexivity|].
    rewrite parse_render_roundtrip by assumption. apply no_bad_no_errs, Hb.
  Qed.
End ConcatWf.

(** non-vacuity: two days, then a third appended after a comment line; the
    second part has a malformed line whose number is shifted by the 3 lines of
    the first part *)
Definition cc_part1 : file :=
  {| f_items := [(IHeading (b "mon") [], false);
                 (IEntry (b " ") (b "tea") (b " ") (b "2") [], true);
                 (IEntry [c_tab] (b "egg") (b ": ") (b "1") [], false)];
     f_final_newline := true |}.
Definition cc_part2 : file :=
  {| f_items := [(IComment (b " appended"), false);
                 (IHeading (b "tue") (b ":"), false);
                 (IBadNoSep (b "  ") (b "oops"), false);
                 (IEntry (b "- ") (b "jam") (b " ") (b "7") [], false)];
     f_final_newline := false |}.

Example cc_hyps :
  wf_file ZNum cc_part1 = true /\ wf_file ZNum cc_part2 = true /\
  heading_first_items (map fst (f_items cc_part2)) = true.
Proof. vm_compute. auto. Qed.

Example cc_events :
  events ZNum (render cc_part1 ++ render cc_part2) =
  [ENode (Build_pnode ZNum (b "mon") [(b "tea", 2%Z); (b "egg", 1%Z)] None);
   EErr (BadSyntax 6 (b "  oops"));
   ENode (Build_pnode ZNum (b "tue") [(b "jam", 7%Z)] None)]
  /\ events ZNum (render cc_part2) =
  [EErr (BadSyntax 3 (b "  oops"));
   ENode (Build_pnode ZNum (b "tue") [(b "jam", 7%Z)] None)].
Proof. vm_compute. auto. Qed.

(** the boundary condition is needed: an entry line first in the second part
    joins the open record of the first part *)
Example cc_boundary_needed :
  let d2 := b " jam 7" in
  events ZNum (render cc_part1 ++ d2) <> events ZNum (render cc_part1) ++ events ZNum d2.
Proof. vm_compute. discriminate. Qed.
