(** WP08: conservation laws of the balance tree (these need the additive
    monoid laws) and the contributions of the single-element balance. *)
From HP Require Import Base.Bytes Base.Num Model.Elements Model.Tree Model.Reporters.
From HP Require Import Spec.TreeShared Spec.TreeSpec Proofs.TreeBytes Proofs.TreeBuild Proofs.TreeChain.
From Coq Require Import Lia Sorted Permutation.

Section TreeSums.
  Context (NM : Num).
  Notation T := (T NM).
  Notation tree := (tree NM).
  Notation t_name := (t_name NM).
  Notation t_total := (t_total NM).
  Notation t_children := (t_children NM).
  Notation add_deep := (add_deep NM).
  Notation find_child := (find_child NM).
  Notation node_at := (node_at NM).
  Notation forest_add := (forest_add NM).
  Notation wf_forest := (wf_forest NM).
  Notation entries := (list (bytes * T)).
  Notation add := (add NM).
  Notation zero := (zero NM).
  Notation sum_l := (sum_l NM).
  Notation sum_r := (sum_r NM).
  Notation sum_first := (sum_first NM).

  (** * what [bal_single_contributions] feeds to the tree (no law needed) *)
  Theorem single_contributions_spec : forall (d : list (bytes * elements NM)) (x : bytes) (ln : lognode NM),
    bal_single_contributions NM d x ln =
    flat_map (fun fq =>
      match lookup (fst fq) d with
      | Some els => map (fun r => (fst fq, mul NM (snd r) (snd fq))) (filter (fun r => beq (fst r) x) els)
      | None => if beq (fst fq) x then [(fst fq, snd fq)] else []
      end) (ln_elems NM ln).
  Proof.
    intros d x ln. unfold bal_single_contributions. apply flat_map_ext. intros [f q]. cbn [fst snd].
    destruct (lookup f d) as [els|]; [|reflexivity].
    induction els as [|[k c] r IH]; [reflexivity|]. cbn [flat_map filter fst snd].
    destruct (beq k x); cbn [app map fst snd]; rewrite IH; reflexivity.
  Qed.

  Lemma lookup_none_notin : forall {V} (x : bytes) (l : list (bytes * V)), ~ In x (map fst l) -> lookup x l = None.
  Proof.
    intros V x l. induction l as [|[k v] r IH]; intro H; [reflexivity|]. cbn [lookup].
    destruct (beq_spec x k) as [E|E].
    - exfalso. apply H. left. symmetry. exact E.
    - apply IH. intro Hin. apply H. right. exact Hin.
  Qed.

  Lemma filter_unique_name : forall (x : bytes) (els : elements NM),
    NoDup (map fst els) ->
    filter (fun r => beq (fst r) x) els = match lookup x els with Some c => [(x, c)] | None => [] end.
  Proof.
    intros x els. induction els as [|[k c] r IH]; intro Hnd; [reflexivity|].
    cbn [map fst] in Hnd. inversion Hnd as [|k' l Hnin Hnd']; subst.
    cbn [filter lookup fst]. rewrite (beq_sym x k). destruct (beq_spec k x) as [E|E].
    - subst k. f_equal. rewrite (IH Hnd'). rewrite (lookup_none_notin x r Hnin). reflexivity.
    - apply IH. exact Hnd'.
  Qed.

  (** with unique element names in the resolved food there is at most one contribution per logged food *)
  Theorem single_contributions_unique : forall (d : list (bytes * elements NM)) (x : bytes) (ln : lognode NM),
    (forall f els, lookup f d = Some els -> NoDup (map fst els)) ->
    bal_single_contributions NM d x ln =
    flat_map (fun fq =>
      match lookup (fst fq) d with
      | Some els => match lookup x els with Some c => [(fst fq, mul NM c (snd fq))] | None => [] end
      | None => if beq (fst fq) x then [(fst fq, snd fq)] else []
      end) (ln_elems NM ln).
  Proof.
    intros d x ln Hd. rewrite single_contributions_spec. apply flat_map_ext. intros [f q]. cbn [fst snd].
    destruct (lookup f d) as [els|] eqn:E; [|reflexivity].
    rewrite (filter_unique_name x els (Hd f els E)). destruct (lookup x els); reflexivity.
  Qed.

  (** * runs of the two balance reporters: the state is the tree of all contributions so far *)
  Lemma bal_run_tree : forall c perms lns,
    bal_run NM c perms lns = tree_add_all NM (empty_root NM) (flat_map (ln_elems NM) lns).
  Proof.
    intros c perms lns. unfold bal_run. cbn [r_init r_process rep_balance fst].
    generalize (empty_root NM) as t. generalize O as k. induction lns as [|ln lns IH]; intros k t; [reflexivity|].
    cbn [fold_left flat_map fst snd]. rewrite IH. rewrite tree_add_all_app. reflexivity.
  Qed.

  Lemma bal_single_run_state : forall c d perms lns,
    let cs := flat_map (bal_single_contributions NM d (rc_single_element c)) lns in
    bal_single_run NM c d perms lns =
    (tree_add_all NM (empty_root NM) cs, fold_left (fun a nv => add a (snd nv)) cs zero).
  Proof.
    intros c d perms lns cs. subst cs. unfold bal_single_run. cbn [r_init r_process rep_balance_single fst].
    generalize (empty_root NM) as t. generalize zero as z. generalize O as k.
    induction lns as [|ln lns IH]; intros k z t; [reflexivity|].
    cbn [fold_left flat_map fst snd]. rewrite IH. rewrite tree_add_all_app, fold_left_app. reflexivity.
  Qed.

  (** * sums in an additive monoid *)
  Section Laws.
    Hypothesis AM : AddMonoid NM.

    Lemma add_0_r : forall x, add x zero = x.
    Proof. intro x. rewrite (am_comm NM AM). apply (am_0_l NM AM). Qed.

    Lemma fold_left_add_acc : forall l a, fold_left add l a = add a (sum_l l).
    Proof.
      unfold TreeSpec.sum_l. induction l as [|y l IH]; intro a; cbn [fold_left].
      - symmetry. apply add_0_r.
      - rewrite IH. rewrite (IH (add zero y)). rewrite (am_0_l NM AM). symmetry. apply (am_assoc NM AM).
    Qed.

    Lemma sum_l_cons : forall x l, sum_l (x :: l) = add x (sum_l l).
    Proof.
      intros x l. unfold TreeSpec.sum_l at 1. cbn [fold_left]. rewrite (am_0_l NM AM). apply fold_left_add_acc.
    Qed.

    Lemma sum_first_sum_l : forall l, sum_first l = sum_l l.
    Proof.
      intros [|x l]; [reflexivity|]. cbn [TreeSpec.sum_first]. rewrite sum_l_cons. apply fold_left_add_acc.
    Qed.

    Lemma sum_r_sum_l : forall l, sum_r l = sum_l l.
    Proof.
      induction l as [|x l IH]; [reflexivity|]. rewrite sum_l_cons, <- IH. reflexivity.
    Qed.

    Lemma add_swap : forall x y z, add x (add y z) = add y (add x z).
    Proof.
      intros x y z. rewrite !(am_assoc NM AM). f_equal. apply (am_comm NM AM).
    Qed.

    Lemma sum_r_cons : forall x l, sum_r (x :: l) = add x (sum_r l).
    Proof. reflexivity. Qed.

    Lemma sum_r_perm : forall l1 l2, Permutation l1 l2 -> sum_r l1 = sum_r l2.
    Proof.
      intros l1 l2 H. induction H as [|x l1 l2 H IH|x y l|l1 l2 l3 H1 IH1 H2 IH2].
      - reflexivity.
      - rewrite !sum_r_cons, IH. reflexivity.
      - rewrite !sum_r_cons. apply add_swap.
      - congruence.
    Qed.

    Lemma sum_r_zeros : forall {A} (l : list A), sum_r (map (fun _ => zero) l) = zero.
    Proof. intros A l. induction l as [|a l IH]; [reflexivity|]. cbn [map]. rewrite sum_r_cons, IH. apply add_0_r. Qed.

    Lemma sum_r_bump : forall (g : bytes -> T) (q : T) (c0 : bytes) (cs : list bytes),
      NoDup cs -> In c0 cs ->
      sum_r (map (fun c => if beq c c0 then add q (g c) else g c) cs) = add q (sum_r (map g cs)).
    Proof.
      intros g q c0 cs Hnd. induction Hnd as [|c cs Hnin Hnd IH]; intro Hin; [destruct Hin|].
      cbn [map]. rewrite !sum_r_cons.
      destruct (beq_spec c c0) as [E|E].
      - subst c0. rewrite <- (am_assoc NM AM). f_equal. f_equal. f_equal. apply map_ext_in. intros c' Hc'.
        destruct (beq_spec c' c) as [E|E]; [subst; contradiction|reflexivity].
      - destruct Hin as [E'|Hin]; [congruence|]. rewrite (IH Hin). apply add_swap.
    Qed.

    (** ** a path's entries split into those exactly there and those below each next segment *)
    Lemma is_prefix_path_snoc_under : forall p c c0 r,
      is_prefix_path (p ++ [c]) (p ++ c0 :: r) = beq c c0.
    Proof.
      induction p as [|a p IH]; intros c c0 r; cbn [app is_prefix_path].
      - apply andb_true_r.
      - rewrite beq_refl. apply IH.
    Qed.

    Lemma is_prefix_path_snoc_self : forall p c, is_prefix_path (p ++ [c]) p = false.
    Proof.
      intros p c. destruct (is_prefix_path (p ++ [c]) p) eqn:E; [|reflexivity].
      apply is_prefix_path_snoc in E. destruct E as [r Er]. exfalso.
      apply (f_equal (@Datatypes.length bytes)) in Er. rewrite app_length in Er. cbn in Er. lia.
    Qed.

    Definition below (es : entries) (p : list bytes) (c : bytes) : T := sum_l (map snd (matching NM es (p ++ [c]))).

    Lemma partition_sum : forall (p : list bytes) (cs : list bytes) (es : entries),
      NoDup cs ->
      (forall f q, In (f, q) es -> is_prefix_path p (segs f) = true ->
                   segs f = p \/ exists c r, In c cs /\ segs f = p ++ c :: r) ->
      sum_l (map snd (matching NM es p)) = add (own NM es p) (sum_r (map (below es p) cs)).
    Proof.
      intros p cs es Hnd. induction es as [|[f q] es IH]; intro H.
      - unfold own, below. cbn. rewrite sum_r_zeros. symmetry. apply add_0_r.
      - assert (IH' : sum_l (map snd (matching NM es p)) = add (own NM es p) (sum_r (map (below es p) cs))).
        { apply IH. intros f' q' Hin Hp. apply (H f' q'); [right; exact Hin|exact Hp]. }
        clear IH. specialize (H f q (or_introl eq_refl)).
        unfold own, exactly_at, below, matching in *. cbn [filter fst].
        destruct (is_prefix_path p (segs f)) eqn:Ep.
        + destruct (H eq_refl) as [E|[c0 [r [Hc0 E]]]].
          * (* logged exactly here *)
            rewrite E, path_eqb_refl. cbn [map snd]. rewrite !sum_l_cons, IH', <- (am_assoc NM AM).
            f_equal. f_equal. f_equal. apply map_ext. intro c. rewrite is_prefix_path_snoc_self. reflexivity.
          * (* logged below the child c0 *)
            assert (Ene : path_eqb (segs f) p = false).
            { destruct (path_eqb_spec (segs f) p) as [E'|E']; [|reflexivity]. exfalso. rewrite E in E'.
              symmetry in E'. exact (app_cons_not_self _ _ _ E'). }
            rewrite Ene. cbn [map snd]. rewrite sum_l_cons, IH', add_swap.
            rewrite <- (sum_r_bump (fun c => sum_l (map snd (filter (fun fq => is_prefix_path (p ++ [c]) (segs (fst fq))) es))) q c0 cs Hnd Hc0).
            f_equal. f_equal. apply map_ext. intro c.
            rewrite E, is_prefix_path_snoc_under. destruct (beq c c0); [|reflexivity].
            cbn [map snd]. rewrite sum_l_cons. reflexivity.
        + assert (Ene : path_eqb (segs f) p = false).
          { destruct (path_eqb_spec (segs f) p) as [E'|E']; [|reflexivity]. rewrite E', is_prefix_path_refl in Ep. discriminate. }
          rewrite Ene, IH'. f_equal. f_equal. apply map_ext. intro c.
          destruct (is_prefix_path (p ++ [c]) (segs f)) eqn:Epc; [|reflexivity].
          rewrite (is_prefix_path_trans _ _ _ (is_prefix_path_app p [c]) Epc) in Ep. discriminate.
    Qed.

    Lemma node_at_wf : forall p ch t, wf_forest ch -> node_at p ch = Some t -> wf_tree NM t.
    Proof.
      induction p as [|a p IH]; intros ch t Hwf H; [discriminate|].
      rewrite node_at_cons in H. destruct (find_child a ch) as [c|] eqn:E; [|discriminate].
      apply find_child_some in E. destruct E as [Hc _]. destruct Hwf as [_ Hall].
      rewrite Forall_forall in Hall. specialize (Hall c Hc).
      destruct p as [|a' p]; cbn [nonnil] in H.
      - inversion H; subst. exact Hall.
      - eapply IH; [|exact H]. apply wf_forest_children. exact Hall.
    Qed.

    (** every parent equals its own entries plus its children; [cs] is the
        list of the children's names in any order (as built, or sorted) *)
    Theorem parent_is_own_plus_children : forall es p nd cs,
      node_at p (t_children (tree_add_all NM (empty_root NM) es)) = Some nd ->
      Permutation cs (map t_name (t_children nd)) ->
      total_at NM es p = add (own NM es p) (sum_r (map (fun c => total_at NM es (p ++ [c])) cs)).
    Proof.
      intros es p nd cs Hnd HP. rewrite empty_root_built in Hnd. cbn [Tree.t_children] in Hnd.
      assert (Hne : p <> []) by (intro E; subst; discriminate).
      assert (Hwf : wf_tree NM nd) by (eapply node_at_wf; [apply wf_forest_built|exact Hnd]).
      apply wf_forest_children in Hwf. destruct Hwf as [Hnames _].
      unfold total_at. rewrite sum_first_sum_l.
      rewrite (partition_sum p cs es).
      - f_equal. f_equal. apply map_ext. intro c. unfold below. symmetry. apply sum_first_sum_l.
      - eapply Permutation_NoDup; [apply Permutation_sym; exact HP|exact Hnames].
      - intros f q Hin Hp. apply is_prefix_path_iff in Hp. destruct Hp as [r Er]. destruct r as [|c r].
        + left. rewrite Er. apply app_nil_r.
        + right. exists c, r. split; [|exact Er].
          assert (Hs : exists t, node_at (p ++ [c]) (forest_add [] es) = Some t).
          { apply node_at_forest_some. split; [destruct p; discriminate|]. exists f, q. split; [exact Hin|].
            apply is_prefix_path_snoc. exists r. exact Er. }
          destruct Hs as [t Ht]. rewrite node_at_snoc in Ht by exact Hne. rewrite Hnd in Ht.
          apply find_child_some in Ht. destruct Ht as [Ht En].
          eapply Permutation_in; [apply Permutation_sym; exact HP|]. rewrite <- En. apply in_map. exact Ht.
    Qed.

    (** the same on the totals stored in the tree *)
    Theorem node_total_is_own_plus_children : forall es p nd,
      node_at p (t_children (tree_add_all NM (empty_root NM) es)) = Some nd ->
      t_total nd = add (own NM es p) (sum_r (map t_total (t_children nd))).
    Proof.
      intros es p nd Hnd.
      pose proof (parent_is_own_plus_children es p nd _ Hnd (Permutation_refl _)) as H.
      rewrite empty_root_built in Hnd. cbn [Tree.t_children] in Hnd.
      assert (Hne : p <> []) by (intro E; subst; discriminate).
      assert (Hwf : wf_tree NM nd) by (eapply node_at_wf; [apply wf_forest_built|exact Hnd]).
      apply wf_forest_children in Hwf. destruct Hwf as [Hnames _].
      rewrite (node_at_forest_total NM _ _ _ Hnd), H. f_equal. f_equal. rewrite map_map.
      apply map_ext_in. intros c Hc. symmetry. apply (node_at_forest_total NM es).
      rewrite node_at_snoc by exact Hne. rewrite Hnd. apply find_child_nodup; assumption.
    Qed.

    (** ** grand total of the single-element balance *)
    Lemma top_sum_add_deep : forall names v ch,
      names <> [] -> sum_r (map t_total (add_deep names v ch)) = add (sum_r (map t_total ch)) v.
    Proof.
      intros [|n rest] v ch Hne; [congruence|]. rewrite add_deep_cons.
      induction ch as [|[n' t c] r IH]; cbn [upd_child].
      - cbn. rewrite add_0_r. symmetry. apply (am_0_l NM AM).
      - destruct (beq n n'); cbn [map Tree.t_total]; rewrite !sum_r_cons.
        + rewrite <- !(am_assoc NM AM). f_equal. apply (am_comm NM AM).
        + rewrite IH. apply (am_assoc NM AM).
    Qed.

    Lemma top_sum_forest_add : forall (es : entries) ch,
      sum_r (map t_total (forest_add ch es)) = fold_left (fun a nv => add a (snd nv)) es (sum_r (map t_total ch)).
    Proof.
      induction es as [|[f q] es IH]; intro ch; [reflexivity|].
      cbn [TreeBuild.forest_add fold_left fst snd]. fold (forest_add (add_deep (segs f) q ch) es).
      rewrite IH, top_sum_add_deep; [reflexivity|apply segs_not_nil].
    Qed.

    Theorem single_total_is_sum_of_top : forall c d perms lns,
      let st := bal_single_run NM c d perms lns in
      snd st = sum_r (map t_total (t_children (fst st))).
    Proof.
      intros c d perms lns st. subst st. rewrite bal_single_run_state. cbn [fst snd].
      rewrite empty_root_built. cbn [Tree.t_children]. rewrite top_sum_forest_add. reflexivity.
    Qed.
  End Laws.
End TreeSums.
