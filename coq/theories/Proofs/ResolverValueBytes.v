(** WP02 (C01, value of the reference resolver) – generic facts:
    byte-string equality and order, association lists, [add_to] / [sum_merge],
    insertion sort by name.  No [Num] law is used in this file. *)
From Coq Require Import Lia ZifyBool ZifyNat ZifyN Permutation Sorted.
From HP Require Import Base.Bytes Base.Num Model.Elements.

(** * [beq] is Leibniz equality *)
Lemma beq_true_iff : forall x y, beq x y = true <-> x = y.
Proof.
  induction x as [|a x IH]; destruct y as [|c y]; cbn [beq]; split; intro H;
    try congruence; try reflexivity.
  - apply andb_true_iff in H. destruct H as [H1 H2].
    apply N.eqb_eq in H1. apply IH in H2. congruence.
  - injection H as H1 H2. subst. rewrite N.eqb_refl. cbn [andb]. apply IH. reflexivity.
Qed.

Lemma beq_refl : forall x, beq x x = true.
Proof. intro x. apply beq_true_iff. reflexivity. Qed.

Lemma beq_false_iff : forall x y, beq x y = false <-> x <> y.
Proof.
  intros x y. split.
  - intros H E. apply beq_true_iff in E. congruence.
  - intro H. destruct (beq x y) eqn:E; [|reflexivity]. apply beq_true_iff in E. contradiction.
Qed.

Lemma beq_spec : forall x y, reflect (x = y) (beq x y).
Proof.
  intros x y. destruct (beq x y) eqn:E; constructor.
  - apply beq_true_iff; exact E.
  - apply beq_false_iff; exact E.
Qed.

Lemma beq_sym : forall x y, beq x y = beq y x.
Proof.
  intros x y. destruct (beq_spec x y) as [E|E], (beq_spec y x) as [E'|E']; congruence.
Qed.

Lemma bytes_eq_dec : forall x y : bytes, {x = y} + {x <> y}.
Proof. intros x y. destruct (beq_spec x y); [left|right]; assumption. Qed.

(** * [bltb] is a strict total order *)
Lemma bltb_irrefl : forall x, bltb x x = false.
Proof.
  induction x as [|a x IH]; cbn [bltb]; [reflexivity|].
  rewrite N.ltb_irrefl. exact IH.
Qed.

Lemma bltb_trans : forall x y z, bltb x y = true -> bltb y z = true -> bltb x z = true.
Proof.
  induction x as [|a x IH]; intros [|c y] [|d z]; cbn [bltb]; try congruence; auto.
  intros H1 H2.
  destruct (N.ltb_spec a c) as [Hac|Hac]; destruct (N.ltb_spec c a) as [Hca|Hca];
    destruct (N.ltb_spec c d) as [Hcd|Hcd]; destruct (N.ltb_spec d c) as [Hdc|Hdc];
    destruct (N.ltb_spec a d) as [Had|Had]; destruct (N.ltb_spec d a) as [Hda|Hda];
    try congruence; try lia.
  eapply IH; eassumption.
Qed.

Lemma bltb_asym : forall x y, bltb x y = true -> bltb y x = false.
Proof.
  intros x y H. destruct (bltb y x) eqn:E; [|reflexivity].
  pose proof (bltb_trans _ _ _ H E) as H'. rewrite bltb_irrefl in H'. discriminate.
Qed.

Lemma bltb_trichotomy : forall x y, bltb x y = false -> bltb y x = false -> x = y.
Proof.
  induction x as [|a x IH]; intros [|c y]; cbn [bltb]; try congruence.
  intros H1 H2.
  destruct (N.ltb_spec a c) as [Hac|Hac]; destruct (N.ltb_spec c a) as [Hca|Hca];
    try congruence; try lia.
  assert (a = c) by lia. subst. f_equal. apply IH; assumption.
Qed.

Lemma bltb_total : forall x y, x <> y -> bltb x y = false -> bltb y x = true.
Proof.
  intros x y Hne H. destruct (bltb y x) eqn:E; [reflexivity|].
  exfalso. apply Hne. apply bltb_trichotomy; assumption.
Qed.

Lemma bltb_neq : forall x y, bltb x y = true -> x <> y.
Proof. intros x y H E. subst. rewrite bltb_irrefl in H. discriminate. Qed.

(** * Association lists *)
Section Assoc.
  Context {V : Type}.
  Implicit Types l : list (bytes * V).

  Lemma lookup_In : forall k v l, lookup k l = Some v -> In (k, v) l.
  Proof.
    intros k v l. induction l as [|[k' v'] l IH]; cbn [lookup]; [discriminate|].
    destruct (beq_spec k k') as [E|E]; intro H.
    - injection H as H. subst. left. reflexivity.
    - right. apply IH. exact H.
  Qed.

  Lemma lookup_None_iff : forall k l, lookup k l = None <-> ~ In k (map fst l).
  Proof.
    intros k l. induction l as [|[k' v'] l IH]; cbn [lookup map fst In].
    - split; [intros _ []|reflexivity].
    - destruct (beq_spec k k') as [E|E].
      + split; [discriminate|]. intro H. exfalso. apply H. left. congruence.
      + rewrite IH. split.
        * intros H [H'|H']; [congruence|contradiction].
        * intros H H'. apply H. right. exact H'.
  Qed.

  Lemma lookup_Some_In_keys : forall k v l, lookup k l = Some v -> In k (map fst l).
  Proof.
    intros k v l H. apply lookup_In in H. apply (in_map fst) in H. exact H.
  Qed.

  Lemma In_keys_lookup : forall k l, In k (map fst l) -> exists v, lookup k l = Some v.
  Proof.
    intros k l H. destruct (lookup k l) as [v|] eqn:E; [eauto|].
    apply lookup_None_iff in E. contradiction.
  Qed.

  Lemma NoDup_In_lookup : forall k v l, NoDup (map fst l) -> In (k, v) l -> lookup k l = Some v.
  Proof.
    intros k v l. induction l as [|[k' v'] l IH]; cbn [lookup map fst In]; [intros _ []|].
    intros Hnd [H|H].
    - injection H as H1 H2. subst. rewrite beq_refl. reflexivity.
    - inversion Hnd as [|x xs Hnotin Hnd']; subst.
      destruct (beq_spec k k') as [E|E].
      + subst. exfalso. apply Hnotin. apply (in_map fst) in H. exact H.
      + apply IH; assumption.
  Qed.

  (** on lists with unique keys [lookup] only depends on the set of pairs *)
  Lemma lookup_perm : forall k l l', NoDup (map fst l) -> Permutation l l' -> lookup k l' = lookup k l.
  Proof.
    intros k l l' Hnd Hp.
    assert (Hnd' : NoDup (map fst l')).
    { eapply Permutation_NoDup; [|exact Hnd]. apply Permutation_map. exact Hp. }
    destruct (lookup k l) as [v|] eqn:E.
    - apply NoDup_In_lookup; [exact Hnd'|]. eapply Permutation_in; [exact Hp|].
      apply lookup_In. exact E.
    - apply lookup_None_iff. apply lookup_None_iff in E. intro H. apply E.
      eapply Permutation_in; [|exact H]. apply Permutation_map. apply Permutation_sym. exact Hp.
  Qed.
End Assoc.

(** * Insertion sort *)
Section SortFacts.
  Context {A : Type} (leb : A -> A -> bool).

  Lemma insert_sorted_perm : forall x l, Permutation (insert_sorted leb x l) (x :: l).
  Proof.
    intros x l. induction l as [|y l IH]; cbn [insert_sorted]; [apply Permutation_refl|].
    destruct (leb x y); [apply Permutation_refl|].
    eapply Permutation_trans; [apply perm_skip; exact IH|]. apply perm_swap.
  Qed.

  Lemma isort_perm : forall l, Permutation (isort leb l) l.
  Proof.
    induction l as [|x l IH]; cbn [isort]; [constructor|].
    eapply Permutation_trans; [apply insert_sorted_perm|]. apply perm_skip. exact IH.
  Qed.
End SortFacts.

(** * Elements: [add_to], [sum_merge], [sort_elements] – structure *)
Section ElemFacts.
  Context (NM : Num).
  Notation T := (T NM).
  Notation elements := (elements NM).
  Implicit Types el left : elements.

  Definition lt_name (x y : bytes * T) : Prop := bltb (fst x) (fst y) = true.

  (** ** names after [add_to] *)
  Lemma add_to_fresh : forall n v el, ~ In n (map fst el) -> add_to NM n v el = el ++ [(n, v)].
  Proof.
    intros n v el. induction el as [|[k x] el IH]; cbn [add_to map fst In app]; [reflexivity|].
    intro H. destruct (beq_spec k n) as [E|E].
    - exfalso. apply H. left. exact E.
    - f_equal. apply IH. intro H'. apply H. right. exact H'.
  Qed.

  Lemma add_to_names_present : forall n v el, In n (map fst el) -> map fst (add_to NM n v el) = map fst el.
  Proof.
    intros n v el. induction el as [|[k x] el IH]; cbn [add_to map fst In]; [intros []|].
    intro H. destruct (beq_spec k n) as [E|E]; cbn [map fst]; [reflexivity|].
    f_equal. apply IH. destruct H as [H|H]; [contradiction|exact H].
  Qed.

  Lemma add_to_names_fresh : forall n v el, ~ In n (map fst el) -> map fst (add_to NM n v el) = map fst el ++ [n].
  Proof.
    intros n v el H. rewrite add_to_fresh by exact H. rewrite map_app. reflexivity.
  Qed.

  Lemma add_to_names_iff : forall n v el x, In x (map fst (add_to NM n v el)) <-> x = n \/ In x (map fst el).
  Proof.
    intros n v el x. destruct (in_dec bytes_eq_dec n (map fst el)) as [Hin|Hout].
    - rewrite add_to_names_present by exact Hin. split; [auto|]. intros [E|H]; [subst; exact Hin|exact H].
    - rewrite add_to_names_fresh by exact Hout. rewrite in_app_iff. cbn [In]. split.
      + intros [H|[H|[]]]; auto.
      + intros [H|H]; auto.
  Qed.

  Lemma add_to_NoDup : forall n v el, NoDup (map fst el) -> NoDup (map fst (add_to NM n v el)).
  Proof.
    intros n v el Hnd. destruct (in_dec bytes_eq_dec n (map fst el)) as [Hin|Hout].
    - rewrite add_to_names_present by exact Hin. exact Hnd.
    - rewrite add_to_names_fresh by exact Hout.
      eapply Permutation_NoDup; [apply Permutation_cons_append|]. constructor; assumption.
  Qed.

  (** ** names after [sum_merge] *)
  Lemma sum_merge_nil : forall el m, sum_merge NM el [] m = el.
  Proof. reflexivity. Qed.

  Lemma sum_merge_cons : forall el n v left m,
    sum_merge NM el ((n, v) :: left) m = sum_merge NM (add_to NM n (mul NM v m) el) left m.
  Proof. reflexivity. Qed.

  Lemma sum_merge_names_iff : forall left el m x,
    In x (map fst (sum_merge NM el left m)) <-> In x (map fst el) \/ In x (map fst left).
  Proof.
    induction left as [|[n v] left IH]; intros el m x.
    - rewrite sum_merge_nil. cbn [map In]. tauto.
    - rewrite sum_merge_cons, IH, add_to_names_iff. cbn [map fst In].
      split; intros H; intuition (subst; auto).
  Qed.

  Lemma sum_merge_NoDup : forall left el m, NoDup (map fst el) -> NoDup (map fst (sum_merge NM el left m)).
  Proof.
    induction left as [|[n v] left IH]; intros el m H.
    - exact H.
    - rewrite sum_merge_cons. apply IH. apply add_to_NoDup. exact H.
  Qed.

  (** ** sorting by name *)
  Lemma sort_elements_perm : forall el, Permutation (sort_elements NM el) el.
  Proof. intro el. apply isort_perm. Qed.

  Lemma insert_name_sorted : forall x l,
    StronglySorted lt_name l -> ~ In (fst x) (map fst l) ->
    StronglySorted lt_name (insert_sorted (name_leb NM) x l).
  Proof.
    intros x l Hs. induction Hs as [|y l Hs IH Hall]; intro Hout; cbn [insert_sorted].
    - constructor; constructor.
    - cbn [map In] in Hout.
      assert (Hne : fst x <> fst y) by (intro E; apply Hout; left; symmetry; exact E).
      unfold name_leb at 1, bleb. destruct (bltb (fst y) (fst x)) eqn:Eyx; cbn [negb].
      + (* y < x : goes further *)
        constructor.
        * apply IH. intro H. apply Hout. right. exact H.
        * rewrite Forall_forall. intros z Hz.
          apply (Permutation_in _ (insert_sorted_perm (name_leb NM) x l)) in Hz.
          destruct Hz as [Hz|Hz]; [subst z; exact Eyx|].
          rewrite Forall_forall in Hall. apply Hall. exact Hz.
      + (* x < y : stays in front *)
        assert (Hxy : lt_name x y).
        { unfold lt_name. apply bltb_total; [congruence|exact Eyx]. }
        constructor.
        * constructor; assumption.
        * constructor; [exact Hxy|].
          rewrite Forall_forall in Hall |- *. intros z Hz.
          unfold lt_name in *. eapply bltb_trans; [exact Hxy|]. apply Hall. exact Hz.
  Qed.

  Lemma sort_elements_sorted : forall el,
    NoDup (map fst el) -> StronglySorted lt_name (sort_elements NM el).
  Proof.
    induction el as [|x el IH]; cbn [map]; intro Hnd.
    - constructor.
    - inversion Hnd as [|k ks Hout Hnd']; subst.
      unfold sort_elements. cbn [isort]. apply insert_name_sorted.
      + apply IH. exact Hnd'.
      + intro H. apply Hout. eapply Permutation_in; [|exact H].
        apply Permutation_map. apply sort_elements_perm.
  Qed.

  Lemma sorted_names_NoDup : forall l : elements, StronglySorted lt_name l -> NoDup (map fst l).
  Proof.
    intros l Hs. induction Hs as [|y l Hs IH Hall]; cbn [map]; constructor; [|exact IH].
    intro H. apply in_map_iff in H. destruct H as [z [Hz1 Hz2]].
    rewrite Forall_forall in Hall. specialize (Hall z Hz2). unfold lt_name in Hall.
    rewrite Hz1 in Hall. rewrite bltb_irrefl in Hall. discriminate.
  Qed.

  (** sorting an already strictly sorted list changes nothing *)
  Lemma sort_elements_sorted_id : forall l : elements, StronglySorted lt_name l -> sort_elements NM l = l.
  Proof.
    intros l Hs. induction Hs as [|y l Hs IH Hall]; [reflexivity|].
    unfold sort_elements in *. cbn [isort]. rewrite IH.
    destruct l as [|z l]; [reflexivity|]. cbn [insert_sorted].
    inversion Hall as [|z' l' Hyz Hall']; subst. unfold lt_name in Hyz.
    unfold name_leb, bleb. rewrite (bltb_asym _ _ Hyz). reflexivity.
  Qed.

  Lemma sort_elements_lookup : forall el x, NoDup (map fst el) -> lookup x (sort_elements NM el) = lookup x el.
  Proof.
    intros el x Hnd. apply lookup_perm; [exact Hnd|]. apply Permutation_sym. apply sort_elements_perm.
  Qed.

  Lemma sort_elements_names_iff : forall el x, In x (map fst (sort_elements NM el)) <-> In x (map fst el).
  Proof.
    intros el x. split; intro H; (eapply Permutation_in; [|exact H]); apply Permutation_map;
      [|apply Permutation_sym]; apply sort_elements_perm.
  Qed.
End ElemFacts.
