(** WP16 / property C16, last sentence: "--no-database behaves as an empty
    recipe book".

    Since fix F24 --no-database makes the book the NULL DEVICE [dev_null] (which
    [open_file] opens as an empty readable file in every world, whatever the
    world's file system says), and an EMPTY file name is a file that cannot be
    opened (it used to stand for "nothing to read"): [empty_log_name_fails],
    [empty_book_name_fails] at the end of this file. *)
From Coq Require Import Lia ZifyBool.
From HP Require Import Base.Bytes Base.Utf8 Base.Num Model.Scanner Model.Parser Model.Elements Model.Resolver
  Model.Dates Model.Tree Model.Writer Model.Reporters Model.Cli.
From HP Require Import Proofs.Settings.

(** * Record updates used in the statements *)

(** the invocation with the -d flag and the --no-database switch replaced *)
Definition set_db_source (i : invocation) (fdb : option bytes) (nodb : bool) : invocation :=
  {| i_f_db := fdb; i_e_db := i_e_db i; i_f_log := i_f_log i; i_e_log := i_e_log i;
     i_f_fmt := i_f_fmt i; i_e_fmt := i_e_fmt i; i_f_depth := i_f_depth i; i_e_depth := i_e_depth i;
     i_f_today := i_f_today i; i_f_config := i_f_config i; i_e_config := i_e_config i;
     i_no_database := nodb;
     i_g_begin := i_g_begin i; i_g_end := i_g_end i; i_l_begin := i_l_begin i; i_l_end := i_l_end i;
     i_g_no_color := i_g_no_color i; i_l_no_color := i_l_no_color i;
     i_single_food := i_single_food i; i_single_element := i_single_element i;
     i_group_food := i_group_food i; i_csv := i_csv i; i_no_totals := i_no_totals i;
     i_totals_only := i_totals_only i; i_shorten := i_shorten i; i_old := i_old i; i_template := i_template i;
     i_collapse := i_collapse i; i_collapse_last := i_collapse_last i; i_desc := i_desc i; i_silent := i_silent i;
     i_cmd := i_cmd i |}.

(** [i with i_no_database := true] *)
Definition with_no_database (i : invocation) : invocation := set_db_source i (i_f_db i) true.
(** [i with i_no_database := false, i_f_db := Some p] *)
Definition with_db_flag (i : invocation) (p : bytes) : invocation := set_db_source i (Some p) false.

Definition set_op_db (op : options) (p : bytes) : options :=
  {| op_db := p; op_log := op_log op; op_fmt := op_fmt op; op_depth := op_depth op; op_now := op_now op;
     op_begin := op_begin op; op_end := op_end op; op_rc := op_rc op |}.

(** the two worlds agree on everything but the file system and the read faults *)
Definition same_but_fs (w w' : world) : Prop :=
  w_default_config w' = w_default_config w /\ w_tz w' = w_tz w /\ w_clock w' = w_clock w /\
  w_or w' = w_or w /\ w_sink w' = w_sink w.

(** ... and on those too, at every path other than [p] *)
Definition agree_off (p : bytes) (w w' : world) : Prop :=
  same_but_fs w w' /\
  forall q, q <> p -> lookup q (w_fs w') = lookup q (w_fs w) /\ lookup q (w_read_fault w') = lookup q (w_read_fault w).

(** * [load] under the two invocations *)

Lemma load_db_source : forall w i fdb nodb,
  load w (set_db_source i fdb nodb) =
  match load w (set_db_source i None true) with
  | inl e => inl e
  | inr op =>
      match load_config w i with
      | inl e => inl e
      | inr cfg => inr (set_op_db op (if nodb then dev_null else pick_string fdb (i_e_db i) (ce_db cfg) default_db))
      end
  end.
Proof.
  intros w i fdb nodb. unfold load.
  change (load_config w (set_db_source i fdb nodb)) with (load_config w i).
  change (load_config w (set_db_source i None true)) with (load_config w i).
  cbn [set_db_source i_f_db i_e_db i_f_log i_e_log i_f_fmt i_e_fmt i_f_depth i_e_depth i_f_today i_no_database
       i_g_begin i_g_end i_l_begin i_l_end i_g_no_color i_l_no_color i_single_food i_single_element i_group_food
       i_csv i_no_totals i_totals_only i_shorten i_old i_template i_collapse i_collapse_last i_desc i_silent].
  destruct (load_config w i) as [e|cfg]; [reflexivity|].
  destruct (tokenize (pick_string (i_f_fmt i) (i_e_fmt i) (ce_fmt cfg) default_fmt)) as [toks|]; [|reflexivity].
  destruct (i_f_today i) as [s|].
  - destruct (parse_date toks s) as [c|]; [|reflexivity].
    destruct (pick_period w (time_of_civil c) toks (i_g_begin i) (i_l_begin i)) as [e|bt]; [reflexivity|].
    destruct (pick_period w (time_of_civil c) toks (i_g_end i) (i_l_end i)) as [e|et]; reflexivity.
  - destruct (pick_period w (time_of_civil (civ (or_default (ce_now cfg) (w_clock w)))) toks (i_g_begin i) (i_l_begin i)) as [e|bt]; [reflexivity|].
    destruct (pick_period w (time_of_civil (civ (or_default (ce_now cfg) (w_clock w)))) toks (i_g_end i) (i_l_end i)) as [e|et]; reflexivity.
Qed.

Lemma load_no_database : forall w i,
  load w (with_no_database i) =
  match load w (set_db_source i None true) with inl e => inl e | inr op => inr (set_op_db op dev_null) end.
Proof.
  intros w i. unfold with_no_database. rewrite load_db_source.
  destruct (load w (set_db_source i None true)) as [e|op] eqn:El; [reflexivity|].
  destruct (load_config w i) as [e|cfg] eqn:Ec; [|reflexivity].
  exfalso. unfold load in El. change (load_config w (set_db_source i None true)) with (load_config w i) in El.
  rewrite Ec in El. discriminate.
Qed.

Lemma load_db_flag : forall w i p,
  load w (with_db_flag i p) =
  match load w (set_db_source i None true) with inl e => inl e | inr op => inr (set_op_db op p) end.
Proof.
  intros w i p. unfold with_db_flag. rewrite load_db_source.
  destruct (load w (set_db_source i None true)) as [e|op] eqn:El; [reflexivity|].
  destruct (load_config w i) as [e|cfg] eqn:Ec.
  - exfalso. unfold load in El. change (load_config w (set_db_source i None true)) with (load_config w i) in El.
    rewrite Ec in El. discriminate.
  - rewrite pick_string_spec. reflexivity.
Qed.

(** * The null device and an empty file open to the same thing *)

Lemma open_all_cons : forall w p ps o,
  open_file w p = Some o -> open_all w (p :: ps) = option_map (cons o) (open_all w ps).
Proof. intros w p ps o H. cbn [open_all]. rewrite H. reflexivity. Qed.

(** the null device opens as an empty readable file, in every world *)
Lemma open_file_dev_null : forall w, open_file w dev_null = Some (OData [] NoFault).
Proof. reflexivity. Qed.

(** the empty name does not open, in any world (fix F24) *)
Lemma open_file_nil : forall w, open_file w [] = None.
Proof. reflexivity. Qed.

Lemma open_file_empty_file : forall w p,
  p <> [] -> lookup p (w_fs w) = Some (FFile []) -> lookup p (w_read_fault w) = None ->
  open_file w p = Some (OData [] NoFault).
Proof.
  intros w p Hp Hf Hr. unfold open_file, lookup_fs. destruct (beq p dev_null); [reflexivity|].
  destruct p as [|c r]; [congruence|]. rewrite Hf, Hr. reflexivity.
Qed.

Section SameWorld.
  Context (NM : Num).
  Variables (w : world) (op : options) (p : bytes).
  Hypothesis Hdb : op_db op = dev_null.
  Hypothesis Hopen : open_file w p = Some (OData [] NoFault).

  Lemma resolved_db_empty : forall o, resolved_db NM w (set_op_db op p) o = resolved_db NM w op o.
  Proof. reflexivity. Qed.

  Lemma run_db_log_nodb : forall mk bt et,
    run_db_log NM w (set_op_db op p) mk bt et = run_db_log NM w op mk bt et.
  Proof.
    intros mk bt et. unfold run_db_log. rewrite Hdb.
    cbn [set_op_db op_db op_log op_fmt].
    rewrite (open_all_cons w p [op_log op] _ Hopen), (open_all_cons w dev_null [op_log op] _ (open_file_dev_null w)).
    destruct (open_all w [op_log op]) as [[|olog [|o2 r]]|]; cbn [option_map]; try reflexivity.
  Qed.

  Lemma run_log_nodb : forall R, run_log NM w (set_op_db op p) R = run_log NM w op R.
  Proof. reflexivity. Qed.

  Lemma run_element_total_nodb : forall x desc,
    run_element_total NM w (set_op_db op p) x desc = run_element_total NM w op x desc.
  Proof.
    intros x desc. unfold run_element_total. rewrite Hdb. cbn [set_op_db op_db].
    rewrite (open_all_cons w p [] _ Hopen), (open_all_cons w dev_null [] _ (open_file_dev_null w)).
    reflexivity.
  Qed.

  Lemma run_csv_db_nodb : run_csv_db NM w (set_op_db op p) = run_csv_db NM w op.
  Proof.
    unfold run_csv_db. rewrite Hdb. cbn [set_op_db op_db].
    rewrite (open_all_cons w p [] _ Hopen), (open_all_cons w dev_null [] _ (open_file_dev_null w)).
    reflexivity.
  Qed.

  Lemma run_csv_db_resolved_nodb : run_csv_db_resolved NM w (set_op_db op p) = run_csv_db_resolved NM w op.
  Proof.
    unfold run_csv_db_resolved. rewrite Hdb. cbn [set_op_db op_db].
    rewrite (open_all_cons w p [] _ Hopen), (open_all_cons w dev_null [] _ (open_file_dev_null w)).
    reflexivity.
  Qed.
End SameWorld.

(** * Same world: in any world where [p] is an empty readable file,
      --no-database and -d p are indistinguishable (every command but stats) *)
Theorem no_database_is_empty_book_same_world : forall NM w i p,
  i_cmd i <> CStats ->
  p <> [] -> lookup p (w_fs w) = Some (FFile []) -> lookup p (w_read_fault w) = None ->
  run NM w (with_no_database i) = run NM w (with_db_flag i p).
Proof.
  intros NM w i p Hcmd Hp Hf Hr.
  pose proof (open_file_empty_file w p Hp Hf Hr) as Hopen.
  unfold run. rewrite load_no_database, load_db_flag.
  destruct (load w (set_db_source i None true)) as [e|op0]; [reflexivity|].
  change (i_cmd (with_no_database i)) with (i_cmd i). change (i_cmd (with_db_flag i p)) with (i_cmd i).
  change (i_desc (with_no_database i)) with (i_desc i). change (i_desc (with_db_flag i p)) with (i_desc i).
  change (i_silent (with_no_database i)) with (i_silent i). change (i_silent (with_db_flag i p)) with (i_silent i).
  set (op := set_op_db op0 dev_null).
  assert (Hdb : op_db op = dev_null) by reflexivity.
  change (set_op_db op0 p) with (set_op_db op p).
  change (op_rc (set_op_db op p)) with (op_rc op).
  change (op_begin (set_op_db op p)) with (op_begin op).
  change (op_end (set_op_db op p)) with (op_end op).
  change (op_now (set_op_db op p)) with (op_now op).
  destruct (i_cmd i) as [| |file|arg| | | | | | | |arg| ] eqn:Ec;
    try (symmetry; apply run_db_log_nodb; assumption);
    try reflexivity.
  - symmetry; apply run_element_total_nodb; assumption.
  - symmetry; apply run_csv_db_nodb; assumption.
  - symmetry; apply run_csv_db_resolved_nodb; assumption.
  - congruence.
  - destruct (time_from_string w (op_now op) (rc_date (op_rc op)) arg) as [e|t]; [reflexivity|].
    symmetry; apply run_db_log_nodb; assumption.
Qed.

(** * Frame: a command does not look at files it does not name *)

Lemma time_from_string_frame : forall w w' now toks s,
  w_tz w' = w_tz w -> time_from_string w' now toks s = time_from_string w now toks s.
Proof. intros w w' now toks s _. reflexivity. Qed.   (* since fix 4fa5d57 the world does not enter at all *)

Lemma pick_period_frame : forall w w' now toks g l,
  w_tz w' = w_tz w -> pick_period w' now toks g l = pick_period w now toks g l.
Proof.
  intros w w' now toks g l H. unfold pick_period.
  destruct g as [gs|]; destruct l as [ls|]; rewrite ?(time_from_string_frame w w') by assumption; reflexivity.
Qed.

Lemma load_frame : forall w w' i,
  same_but_fs w w' ->
  lookup (config_path w i) (w_fs w') = lookup (config_path w i) (w_fs w) ->
  load w' i = load w i.
Proof.
  intros w w' i (Hd & Htz & Hck & _) Hl. unfold load.
  destruct (config_path_precedence w i) as (_ & _ & _ & _ & Hframe). rewrite (Hframe w' Hd Hl).
  destruct (load_config w i) as [e|cfg]; [reflexivity|]. cbv zeta. rewrite Hck.
  destruct (tokenize (pick_string (i_f_fmt i) (i_e_fmt i) (ce_fmt cfg) default_fmt)) as [toks|]; [|reflexivity].
  destruct (i_f_today i) as [s|].
  - destruct (parse_date toks s) as [c|]; [|reflexivity].
    rewrite !(pick_period_frame w w') by assumption. reflexivity.
  - rewrite !(pick_period_frame w w') by assumption. reflexivity.
Qed.

Lemma open_file_frame : forall p w w' q, agree_off p w w' -> q <> p -> open_file w' q = open_file w q.
Proof.
  intros p w w' q (_ & H) Hq. destruct (H q Hq) as (Hf & Hr). unfold open_file, lookup_fs.
  destruct (beq q dev_null); [reflexivity|].
  destruct q as [|c r]; [reflexivity|]. rewrite Hf, Hr. reflexivity.
Qed.

Section Frame.
  Context (NM : Num).
  Variables (w w' : world).
  Hypothesis Hs : same_but_fs w w'.

  Lemma open_all_frame : forall ps,
    (forall q, In q ps -> open_file w' q = open_file w q) -> open_all w' ps = open_all w ps.
  Proof.
    induction ps as [|q ps IH]; intros H; [reflexivity|]. cbn [open_all].
    rewrite (H q (or_introl eq_refl)), IH; [reflexivity|]. intros q' Hq'. apply H. right. exact Hq'.
  Qed.

  Lemma run_db_log_frame : forall op mk bt et,
    open_file w' (op_db op) = open_file w (op_db op) -> open_file w' (op_log op) = open_file w (op_log op) ->
    run_db_log NM w' op mk bt et = run_db_log NM w op mk bt et.
  Proof.
    intros op mk bt et H1 H2. destruct Hs as (_ & _ & _ & Hor & Hsink).
    unfold run_db_log, resolved_db, new_writer. rewrite Hor, Hsink.
    rewrite open_all_frame; [reflexivity|]. intros q [<-|[<-|[]]]; assumption.
  Qed.

  Lemma run_log_frame : forall op R,
    open_file w' (op_log op) = open_file w (op_log op) -> run_log NM w' op R = run_log NM w op R.
  Proof.
    intros op R H2. destruct Hs as (_ & _ & _ & Hor & Hsink).
    unfold run_log, new_writer. rewrite Hor, Hsink.
    rewrite open_all_frame; [reflexivity|]. intros q [<-|[]]; assumption.
  Qed.

  Lemma run_element_total_frame : forall op x desc,
    open_file w' (op_db op) = open_file w (op_db op) ->
    run_element_total NM w' op x desc = run_element_total NM w op x desc.
  Proof.
    intros op x desc H1. destruct Hs as (_ & _ & _ & Hor & Hsink).
    unfold run_element_total, resolved_db, new_writer. rewrite Hor, Hsink.
    rewrite open_all_frame; [reflexivity|]. intros q [<-|[]]; assumption.
  Qed.

  Lemma run_csv_db_frame : forall op,
    open_file w' (op_db op) = open_file w (op_db op) -> run_csv_db NM w' op = run_csv_db NM w op.
  Proof.
    intros op H1. destruct Hs as (_ & _ & _ & Hor & Hsink).
    unfold run_csv_db, new_writer. rewrite Hsink.
    rewrite open_all_frame; [reflexivity|]. intros q [<-|[]]; assumption.
  Qed.

  Lemma run_csv_db_resolved_frame : forall op,
    open_file w' (op_db op) = open_file w (op_db op) -> run_csv_db_resolved NM w' op = run_csv_db_resolved NM w op.
  Proof.
    intros op H1. destruct Hs as (_ & _ & _ & Hor & Hsink).
    unfold run_csv_db_resolved, resolved_db, new_writer. rewrite Hor, Hsink.
    rewrite open_all_frame; [reflexivity|]. intros q [<-|[]]; assumption.
  Qed.

  Lemma run_lint_frame : forall file silent,
    open_file w' file = open_file w file -> run_lint NM w' file silent = run_lint NM w file silent.
  Proof.
    intros file silent H1. destruct Hs as (_ & _ & _ & Hor & Hsink).
    unfold run_lint. rewrite Hsink.
    rewrite open_all_frame; [reflexivity|]. intros q [<-|[]]; assumption.
  Qed.

  (** stats opens the log and the book (the null device under --no-database, which opens alike in all worlds) *)
  Lemma run_stats_frame : forall op,
    open_file w' (op_log op) = open_file w (op_log op) ->
    open_file w' (op_db op) = open_file w (op_db op) ->
    run_stats NM w' op = run_stats NM w op.
  Proof.
    intros op H2 H1. destruct Hs as (_ & _ & _ & Hor & Hsink).
    unfold run_stats, new_writer. rewrite Hsink, H2, H1. reflexivity.
  Qed.
End Frame.

(** the paths an invocation can consult, other than the recipe book: the
    configuration file, the log, the file to lint.  [p] is fresh for [i] in [w]
    when it is none of them. *)
Definition fresh_for (w : world) (i : invocation) (p : bytes) : Prop :=
  p <> config_path w i /\
  (forall op, load w i = inr op -> p <> op_log op) /\
  (forall f, i_cmd i = CLint f -> p <> f).

Theorem run_frame : forall NM p w w' i,
  agree_off p w w' -> fresh_for w i p ->
  (forall op, load w i = inr op -> op_db op = dev_null \/ p <> op_db op) ->
  run NM w' i = run NM w i.
Proof.
  intros NM p w w' i Ha (Hcfg & Hlog & Hlint) Hdb. pose proof Ha as (Hs & Hoff).
  assert (Hof : forall q, q <> p -> open_file w' q = open_file w q)
    by (intros q Hq; eapply open_file_frame; eassumption).
  unfold run. rewrite (load_frame w w' i Hs).
  2:{ apply Hoff. intros Heq. apply Hcfg. symmetry. exact Heq. }
  destruct (load w i) as [e|op] eqn:El; [reflexivity|].
  assert (Hl : open_file w' (op_log op) = open_file w (op_log op)).
  { apply Hof. intros Heq. apply (Hlog op eq_refl). symmetry. exact Heq. }
  assert (Hd : open_file w' (op_db op) = open_file w (op_db op)).
  { destruct (Hdb op eq_refl) as [Hd|Hd]; [rewrite Hd; reflexivity|]. apply Hof. intros Heq. apply Hd. symmetry. exact Heq. }
  destruct (i_cmd i) as [| |file|arg| | | | | | | |arg| ] eqn:Ec.
  - apply run_db_log_frame; assumption.
  - apply run_db_log_frame; assumption.
  - apply run_lint_frame; [assumption|]. apply Hof. intros Heq. apply (Hlint file eq_refl). symmetry. exact Heq.
  - apply run_element_total_frame; assumption.
  - apply run_db_log_frame; assumption.
  - apply run_log_frame; assumption.
  - apply run_db_log_frame; assumption.
  - apply run_log_frame; assumption.
  - apply run_csv_db_frame; assumption.
  - apply run_csv_db_resolved_frame; assumption.
  - apply run_stats_frame; assumption.
  - pose proof Hs as (_ & Htz & _). rewrite (time_from_string_frame w w') by assumption.
    destruct (time_from_string w (op_now op) (rc_date (op_rc op)) arg) as [e|t]; [reflexivity|].
    apply run_db_log_frame; assumption.
  - apply run_log_frame; assumption.
Qed.

(** * The statement of the brief: two worlds, [w'] = [w] plus an empty file at a fresh path *)
Theorem no_database_is_empty_book : forall NM w w' i p,
  i_cmd i <> CStats ->
  p <> [] ->
  agree_off p w w' ->                                (* w' is w except at path p ... *)
  lookup p (w_fs w') = Some (FFile []) ->            (* ... where it has an empty file ... *)
  lookup p (w_read_fault w') = None ->               (* ... that can be read *)
  fresh_for w (with_no_database i) p ->              (* p is not the configuration file, the log or the linted file *)
  run NM w (with_no_database i) = run NM w' (with_db_flag i p).
Proof.
  intros NM w w' i p Hcmd Hp Ha Hf Hr Hfresh.
  rewrite <- (no_database_is_empty_book_same_world NM w' i p Hcmd Hp Hf Hr).
  symmetry. apply (run_frame NM p w w'); try assumption.
  intros op Hl. left. rewrite load_no_database in Hl.
  destruct (load w (set_db_source i None true)) as [e|op0]; [discriminate|]. inversion Hl. reflexivity.
Qed.

(** [fresh_for] holds for a path that differs from every path any source could name *)
Lemma fresh_for_no_database_intro : forall w i p,
  p <> config_path w i ->
  (forall cfg, load_config w i = inr cfg ->
     p <> or_default (first_some [i_f_log i; i_e_log i; file_string (ce_log cfg)]) default_log) ->
  (forall f, i_cmd i = CLint f -> p <> f) ->
  fresh_for w (with_no_database i) p.
Proof.
  intros w i p H1 H2 H3. split; [exact H1|]. split; [|exact H3].
  intros op Hl.
  destruct (load_inr_inv _ _ _ Hl) as (cfg & toks & Hc & _ & Hlog & _).
  change (load_config w (with_no_database i)) with (load_config w i) in Hc.
  rewrite Hlog, pick_string_spec. apply (H2 cfg Hc).
Qed.

(** * What "the empty recipe book" is *)

(** parsing the empty file (what the null device opens as) gives no events ... *)
Lemma events_empty : forall NM, events NM [] = [].
Proof. reflexivity. Qed.

Lemma parse_stream_empty : forall NM S E (cb : S -> event NM -> S * bool * option E) s,
  parse_stream NM cb [] NoFault s = (s, None).
Proof. reflexivity. Qed.

(** ... so the book loaded under --no-database has no recipes ... *)
Lemma load_db_no_database : forall NM, load_db NM (OData [] NoFault) = ([], None).
Proof. reflexivity. Qed.

(** ... and resolving it leaves it empty, for every depth limit (a
    non-positive one included), as long as the map-order oracle delivers no
    names for a map without keys *)
Lemma resolve_empty : forall NM n perm, perm [] = [] -> resolve NM n perm [] = Some [].
Proof. intros NM n perm H. unfold resolve. cbn [keys map]. rewrite H. reflexivity. Qed.

Lemma resolved_db_no_database : forall NM w op,
  o_resolve (w_or w) [] = [] -> resolved_db NM w op (OData [] NoFault) = inr [].
Proof.
  intros NM w op H. unfold resolved_db. rewrite load_db_no_database, resolve_empty by assumption. reflexivity.
Qed.

(** * stats under --no-database *)

(** ** bufio.Writer: when the final Flush succeeds, everything written has reached the sink *)
Definition bw_inv (w : bw) (all : bytes) : Prop := bw_err w = false -> s_got (bw_sink w) ++ bw_buf w = all.

Lemma sink_write_ok : forall s p s', sink_write s p = (s', false) -> s_got s' = s_got s ++ p.
Proof.
  intros s p s' H. unfold sink_write in H. destruct (s_limit s) as [k|].
  - destruct (Nat.leb (length p) (k - length (s_got s))); inversion H; reflexivity.
  - inversion H; reflexivity.
Qed.

(* NB: never [cbn]/[simpl] without a list of names here: [buf_size] is the unary numeral 4096 *)
Lemma bw_flush_inv : forall w all w' e,
  bw_inv w all -> bw_flush w = (w', e) ->
  bw_err w' = e /\ (e = false -> bw_err w = false /\ s_got (bw_sink w') = all /\ bw_buf w' = []).
Proof.
  intros w all w' e Hi H. unfold bw_flush in H. destruct (bw_err w) eqn:Ee.
  - injection H as <- <-. split; [assumption|discriminate].
  - specialize (Hi Ee). destruct (bw_buf w) as [|c r] eqn:Eb.
    + injection H as <- <-. split; [assumption|]. intros _. rewrite app_nil_r in Hi. repeat split; assumption.
    + destruct (sink_write (bw_sink w) (c :: r)) as [s' e'] eqn:Es. destruct e'.
      * injection H as <- <-. split; [reflexivity|discriminate].
      * injection H as <- <-. cbn [bw_err bw_buf bw_sink]. split; [reflexivity|]. intros _. repeat split.
        rewrite (sink_write_ok _ _ _ Es). exact Hi.
Qed.

Lemma bw_direct_inv : forall w p all w' e,
  bw_err w = false -> bw_buf w = [] -> s_got (bw_sink w) = all -> bw_direct w p = (w', e) ->
  bw_err w' = e /\ bw_inv w' (all ++ p).
Proof.
  intros w p all w' e He Hb Hg H. unfold bw_direct in H.
  destruct (sink_write (bw_sink w) p) as [s' e'] eqn:Es. injection H as <- <-.
  cbn [bw_err bw_buf bw_sink]. split; [reflexivity|].
  unfold bw_inv. cbn [bw_err bw_buf bw_sink]. intros ->.
  rewrite (sink_write_ok _ _ _ Es), Hb, app_nil_r, Hg. reflexivity.
Qed.

Lemma bw_write_inv : forall w p all w' e,
  bw_inv w all -> bw_write w p = (w', e) -> bw_err w' = e /\ bw_inv w' (all ++ p).
Proof.
  intros w p all w' e Hi H. unfold bw_write in H.
  generalize dependent buf_size. intros bsz H.
  destruct (bw_err w) eqn:Ee.
  - injection H as <- <-. split; [assumption|]. unfold bw_inv. rewrite Ee. discriminate.
  - specialize (Hi Ee).
    destruct (Nat.leb (length p) (bsz - length (bw_buf w))).
    + injection H as <- <-. cbn [bw_err bw_buf bw_sink]. split; [reflexivity|].
      unfold bw_inv. cbn [bw_err bw_buf bw_sink]. intros _. rewrite app_assoc, Hi. reflexivity.
    + destruct (bw_buf w) as [|c r] eqn:Eb.
      * rewrite app_nil_r in Hi. eapply bw_direct_inv; eassumption.
      * remember (bsz - length (c :: r)) as avail eqn:Eavail. clear Eavail.
        destruct (bw_flush {| bw_buf := (c :: r) ++ firstn avail p; bw_err := false; bw_sink := bw_sink w |})
          as [w1 e1] eqn:Ef.
        assert (Hi1 : bw_inv {| bw_buf := (c :: r) ++ firstn avail p; bw_err := false; bw_sink := bw_sink w |}
                             (all ++ firstn avail p)).
        { unfold bw_inv. cbn [bw_err bw_sink bw_buf]. intros _. rewrite app_assoc, Hi. reflexivity. }
        destruct (bw_flush_inv _ _ _ _ Hi1 Ef) as (He1 & Hok).
        destruct e1.
        -- injection H as <- <-. split; [assumption|]. unfold bw_inv. rewrite He1. discriminate.
        -- destruct (Hok eq_refl) as (_ & Hg1 & Hb1).
           destruct (Nat.leb (length (skipn avail p)) bsz).
           ++ injection H as <- <-. cbn [bw_err bw_buf bw_sink]. split; [reflexivity|].
              unfold bw_inv. cbn [bw_err bw_buf bw_sink]. intros _.
              rewrite Hg1, <- app_assoc, firstn_skipn. reflexivity.
           ++ destruct (bw_direct_inv w1 (skipn avail p) (all ++ firstn avail p) w' e He1 Hb1 Hg1 H) as (Hx & Hy).
              split; [assumption|]. rewrite <- app_assoc, firstn_skipn in Hy. exact Hy.
Qed.

Lemma bw_chunks_inv : forall cs w all w' e,
  bw_inv w all -> bw_chunks w cs = (w', e) -> bw_inv w' (all ++ List.concat (map fst cs)).
Proof.
  induction cs as [|[p chk] cs IH]; intros w all w' e Hi H; cbn [bw_chunks] in H.
  - injection H as <- <-. cbn [map List.concat]. rewrite app_nil_r. assumption.
  - destruct (bw_write w p) as [w1 e1] eqn:Ew. destruct (bw_write_inv _ _ _ _ _ Hi Ew) as (He1 & Hi1).
    cbn [map fst List.concat]. rewrite app_assoc.
    destruct (e1 && chk)%bool eqn:Eb.
    + injection H as <- <-. destruct e1; [|discriminate]. unfold bw_inv. rewrite He1. discriminate.
    + eapply IH; eassumption.
Qed.

Lemma new_writer_inv : forall w, bw_inv (new_writer w) [].
Proof. intros w. unfold bw_inv, new_writer, bw_new. cbn [bw_err bw_buf bw_sink s_got app]. reflexivity. Qed.

(** ** the statement for stats *)
Theorem no_database_stats : forall NM w i,
  i_cmd i = CStats ->
  (* no book file of the world is opened: the outcome depends on the configuration file and the log only *)
  (forall w', same_but_fs w w' ->
              lookup (config_path w i) (w_fs w') = lookup (config_path w i) (w_fs w) ->
              (forall op, load w (with_no_database i) = inr op -> open_file w' (op_log op) = open_file w (op_log op)) ->
              run NM w' (with_no_database i) = run NM w (with_no_database i)) /\
  (* and the report, when there is one, says: the null device, 0 records *)
  (out_status (run NM w (with_no_database i)) = Ok ->
   exists rest, out_stdout (run NM w (with_no_database i))
                = b "  Database file:      " ++ dev_null ++ [c_lf] ++ b "  Database records:   0" ++ [c_lf] ++ rest).
Proof.
  intros NM w i Hc.
  assert (Hnull : forall op, load w (with_no_database i) = inr op -> op_db op = dev_null).
  { intros op El. rewrite load_no_database in El. destruct (load w (set_db_source i None true)); [discriminate|].
    inversion El. reflexivity. }
  split.
  - intros w' Hs Hcfg Hlog. unfold run. rewrite (load_frame w w' _ Hs) by exact Hcfg.
    destruct (load w (with_no_database i)) as [e|op] eqn:El; [reflexivity|].
    change (i_cmd (with_no_database i)) with (i_cmd i). rewrite Hc.
    apply run_stats_frame; [assumption|apply Hlog; reflexivity|].
    rewrite (Hnull op eq_refl). reflexivity.
  - unfold run. destruct (load w (with_no_database i)) as [e|op] eqn:El; [discriminate|].
    change (i_cmd (with_no_database i)) with (i_cmd i). rewrite Hc.
    pose proof (Hnull op eq_refl) as Hdb.
    unfold run_stats. rewrite Hdb, open_file_dev_null.
    destruct (open_file w (op_log op)) as [olog|]; [|discriminate].
    destruct (parse_opened NM _ olog _) as [[[cl fs] ls] [e1|]]; [discriminate|].
    change (parse_opened NM _ (OData [] NoFault) 0%nat) with (0%nat, @None cerr).
    cbv beta iota zeta.
    destruct (bw_chunks (new_writer w) _) as [wr1 ec] eqn:Ech.
    destruct (bw_flush wr1) as [wr2 e2] eqn:Efl.
    pose proof (bw_chunks_inv _ _ _ _ _ (new_writer_inv w) Ech) as Hi1.
    destruct (bw_flush_inv _ _ _ _ Hi1 Efl) as (_ & Hok).
    destruct e2; [discriminate|]. intros _. destruct (Hok eq_refl) as (_ & Hg & _).
    unfold finish. cbn [out_stdout]. rewrite Hg. cbn [map fst List.concat app].
    rewrite <- !app_assoc. eexists. reflexivity.
Qed.

(** * fix F24: an EMPTY file name is a file that cannot be opened -- for the log, and for the book
      (without --no-database, which makes the book the null device, never the empty name) *)
Definition failed_open : outcome := {| out_stdout := []; out_status := Failed EOpen |}.

Section EmptyName.
  Context (NM : Num).
  Variables (w : world) (op : options).

  Lemma finish_new_writer : forall st, finish (new_writer w) st = {| out_stdout := []; out_status := st |}.
  Proof. reflexivity. Qed.

  Lemma open_all_log_nil : forall p, op_log op = [] -> open_all w [p; op_log op] = None.
  Proof. intros p H. cbn [open_all]. rewrite H, open_file_nil. destruct (open_file w p); reflexivity. Qed.

  Lemma run_db_log_empty_log : forall mk bt et, op_log op = [] -> run_db_log NM w op mk bt et = failed_open.
  Proof. intros mk bt et H. unfold run_db_log. rewrite (open_all_log_nil _ H). reflexivity. Qed.

  Lemma run_log_empty_log : forall R, op_log op = [] -> run_log NM w op R = failed_open.
  Proof. intros R H. unfold run_log. cbn [open_all]. rewrite H, open_file_nil. reflexivity. Qed.

  Lemma run_stats_empty_log : op_log op = [] -> run_stats NM w op = failed_open.
  Proof. intros H. unfold run_stats. rewrite H, open_file_nil. reflexivity. Qed.

  Lemma run_db_log_empty_book : forall mk bt et, op_db op = [] -> run_db_log NM w op mk bt et = failed_open.
  Proof. intros mk bt et H. unfold run_db_log. cbn [open_all]. rewrite H, open_file_nil. reflexivity. Qed.

  Lemma run_element_total_empty_book : forall x desc, x <> [] -> op_db op = [] ->
    run_element_total NM w op x desc = failed_open.
  Proof.
    intros x desc Hx H. unfold run_element_total. destruct x as [|c x']; [contradiction|].
    cbn [open_all]. rewrite H, open_file_nil. reflexivity.
  Qed.

  Lemma run_csv_db_empty_book : op_db op = [] -> run_csv_db NM w op = failed_open.
  Proof. intros H. unfold run_csv_db. cbn [open_all]. rewrite H, open_file_nil. reflexivity. Qed.

  Lemma run_csv_db_resolved_empty_book : op_db op = [] -> run_csv_db_resolved NM w op = failed_open.
  Proof. intros H. unfold run_csv_db_resolved. cbn [open_all]. rewrite H, open_file_nil. reflexivity. Qed.

  (** stats reads the log first: it fails (with the log's error if there is one, else with the open error) *)
  Lemma run_stats_empty_book : op_db op = [] ->
    exists e, run_stats NM w op = {| out_stdout := []; out_status := Failed e |}.
  Proof.
    intros H. unfold run_stats. rewrite H, open_file_nil.
    destruct (open_file w (op_log op)) as [olog|]; [|exists EOpen; reflexivity].
    destruct (parse_opened NM _ olog _) as [[[cl fs] ls] [e1|]]; [exists e1|exists EOpen]; reflexivity.
  Qed.
End EmptyName.

(** the program: every command that reads the log fails with the open error when the log's name is empty
    (summary only after its argument has been accepted: it is stated apart) *)
Theorem empty_log_name_fails : forall NM w i op,
  load w i = inr op -> op_log op = [] ->
  In (i_cmd i) [CReg; CBal; CUnresolved; CTotals; CQuantity; CCsvLog; CPrint; CStats] ->
  run NM w i = failed_open.
Proof.
  intros NM w i op Hl Hn Hc. unfold run. rewrite Hl.
  destruct Hc as [Hc|[Hc|[Hc|[Hc|[Hc|[Hc|[Hc|[Hc|[]]]]]]]]]; rewrite <- Hc;
    first [apply run_db_log_empty_log; exact Hn | apply run_log_empty_log; exact Hn | apply run_stats_empty_log; exact Hn].
Qed.

Theorem empty_log_name_fails_summary : forall NM w i op arg,
  load w i = inr op -> op_log op = [] -> i_cmd i = CSummary arg ->
  exists e, run NM w i = {| out_stdout := []; out_status := Failed e |}.
Proof.
  intros NM w i op arg Hl Hn Hc. unfold run. rewrite Hl, Hc.
  destruct (time_from_string w (op_now op) (rc_date (op_rc op)) arg) as [e|t]; [exists e; reflexivity|].
  exists EOpen. apply run_db_log_empty_log. exact Hn.
Qed.

(** the same for the book; its name is empty only WITHOUT --no-database (e.g. -d "" or HR_DATABASE="") *)
Theorem empty_book_name_fails : forall NM w i op,
  load w i = inr op -> op_db op = [] ->
  (In (i_cmd i) [CReg; CBal; CUnresolved; CTotals; CCsvDb; CCsvDbResolved]
   \/ exists x, x <> [] /\ i_cmd i = CElementTotal x) ->
  run NM w i = failed_open.
Proof.
  intros NM w i op Hl Hn Hc. unfold run. rewrite Hl.
  destruct Hc as [Hc|(x & Hx & Hc)].
  - destruct Hc as [Hc|[Hc|[Hc|[Hc|[Hc|[Hc|[]]]]]]]; rewrite <- Hc;
      first [apply run_db_log_empty_book; exact Hn | apply run_csv_db_empty_book; exact Hn
            | apply run_csv_db_resolved_empty_book; exact Hn].
  - rewrite Hc. apply run_element_total_empty_book; assumption.
Qed.

Theorem empty_book_name_fails_stats_summary : forall NM w i op,
  load w i = inr op -> op_db op = [] ->
  (i_cmd i = CStats \/ exists arg, i_cmd i = CSummary arg) ->
  exists e, run NM w i = {| out_stdout := []; out_status := Failed e |}.
Proof.
  intros NM w i op Hl Hn [Hc|(arg & Hc)]; unfold run; rewrite Hl, Hc.
  - apply run_stats_empty_book. exact Hn.
  - destruct (time_from_string w (op_now op) (rc_date (op_rc op)) arg) as [e|t]; [exists e; reflexivity|].
    exists EOpen. apply run_db_log_empty_book. exact Hn.
Qed.

(** --no-database never yields the empty name *)
Lemma no_database_name : forall w i op, load w (with_no_database i) = inr op -> op_db op = dev_null /\ op_db op <> [].
Proof.
  intros w i op El. rewrite load_no_database in El. destruct (load w (set_db_source i None true)); [discriminate|].
  inversion El. split; [reflexivity|discriminate].
Qed.
