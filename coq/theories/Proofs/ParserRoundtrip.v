(** WP03 – step 3 and the core theorem: parsing the rendering of a well-formed
    file yields exactly its expected events. *)
From Coq Require Import Lia ZifyBool ZifyNat ZifyN.
From HP Require Import Base.Bytes Base.Utf8 Base.Num Model.Scanner Model.Parser Model.Syntax.
From HP Require Import Proofs.ParserBytes Proofs.ParserScan Proofs.ParserClassify.
Open Scope N_scope.

Section Roundtrip.
  Context (NM : Num).

  Definition opt_node (o : option (pnode NM)) : list (event NM) :=
    match o with Some n => [ENode n] | None => [] end.

  (** the record loop against [expect], for any line counter and open record *)
  Lemma parse_loop_expect items :
    Forall (fun it => wf_item NM it = true) items ->
    forall ln cur,
      fst (parse_loop NM (map render_line items) ln cur)
        ++ opt_node (snd (parse_loop NM (map render_line items) ln cur))
      = expect NM items ln cur.
  Proof.
    induction items as [|it items IH]; intros Hwf ln cur.
    - cbn [map parse_loop expect fst snd app]. destruct cur; reflexivity.
    - inversion Hwf as [|x y Hit Hr]; subst. specialize (IH Hr).
      cbn [map parse_loop]. rewrite (classify_item NM _ _ _ Hit).
      destruct it as [ws|t|n s|pre n mid lx post|pre raw|pre t|pre n mid t post]; cbn [expect].
      + apply IH.
      + apply IH.
      + specialize (IH (ln + 1) (Some (new_node NM n))).
        destruct (parse_loop NM (map render_line items) (ln + 1) (Some (new_node NM n))) as [evs last].
        cbn [fst snd] in *. rewrite <- IH. destruct cur; reflexivity.
      + destruct cur as [c|]; cbn [option_map]; apply IH.
      + destruct cur as [c|]; cbn [option_map]; apply IH.
      + destruct cur as [c|].
        * specialize (IH (ln + 1) (Some c)).
          destruct (parse_loop NM (map render_line items) (ln + 1) (Some c)) as [evs last].
          cbn [fst snd] in *. rewrite <- IH. reflexivity.
        * apply IH.
      + destruct cur as [c|].
        * specialize (IH (ln + 1) (Some c)).
          destruct (parse_loop NM (map render_line items) (ln + 1) (Some c)) as [evs last].
          cbn [fst snd] in *. rewrite <- IH. reflexivity.
        * apply IH.
  Qed.

  (** an undelivered final empty line is a blank item: no event is lost *)
  Lemma expect_seen l fnl :
    Forall (fun ic : item * bool => wf_item NM (fst ic) = true) l ->
    forall ln cur, expect NM (seen_items l fnl) ln cur = expect NM (map fst l) ln cur.
  Proof.
    induction l as [|[it crlf] r IH]; intros Hwf ln cur; [reflexivity|].
    inversion Hwf as [|x y Hit Hr]; subst. cbn [fst] in Hit.
    destruct r as [|ic2 r'].
    - cbn [seen_items map fst]. destruct fnl; [reflexivity|].
      destruct (render_line it) as [|c l] eqn:E; [|reflexivity].
      rewrite (wf_item_empty_line NM it Hit E). reflexivity.
    - change (seen_items ((it, crlf) :: ic2 :: r') fnl) with (it :: seen_items (ic2 :: r') fnl).
      change (map fst ((it, crlf) :: ic2 :: r')) with (it :: map fst (ic2 :: r')).
      specialize (IH Hr).
      destruct it; cbn [expect]; rewrite ?IH; reflexivity.
  Qed.

  Lemma wf_file_Forall f :
    wf_file NM f = true -> Forall (fun ic : item * bool => wf_item NM (fst ic) = true) (f_items f).
  Proof.
    unfold wf_file. intros H. apply Forall_forall. intros ic Hin.
    rewrite forallb_forall in H. exact (H ic Hin).
  Qed.

  Lemma seen_items_wf l fnl :
    Forall (fun ic : item * bool => wf_item NM (fst ic) = true) l ->
    Forall (fun it => wf_item NM it = true) (seen_items l fnl).
  Proof.
    induction l as [|[it crlf] r IH]; intros Hwf; [constructor|].
    inversion Hwf as [|x y Hit Hr]; subst. cbn [fst] in Hit.
    destruct r as [|ic2 r'].
    - cbn [seen_items]. destruct fnl; [constructor; [exact Hit|constructor]|].
      destruct (render_line it); [constructor | constructor; [exact Hit|constructor]].
    - change (seen_items ((it, crlf) :: ic2 :: r') fnl) with (it :: seen_items (ic2 :: r') fnl).
      constructor; [exact Hit | apply IH, Hr].
  Qed.

  (** *** C04, core: for every [Num] instance, every well-formed file of any
      size whose lines the scanner accepts *)
  Theorem parse_render_roundtrip f :
    wf_file NM f = true -> short_lines f ->
    events NM (render f) = expected_events NM f.
  Proof.
    intros Hwf Hs. unfold events. rewrite (scan_render NM f Hwf Hs). cbn [fst].
    apply wf_file_Forall in Hwf.
    unfold parse_lines, expected_events.
    pose proof (parse_loop_expect _ (seen_items_wf _ (f_final_newline f) Hwf) 0 None) as H.
    destruct (parse_loop NM (map render_line (seen_items (f_items f) (f_final_newline f))) 0 None)
      as [evs last].
    cbn [fst snd] in H. unfold opt_node in H. rewrite H. apply expect_seen, Hwf.
  Qed.
End Roundtrip.
