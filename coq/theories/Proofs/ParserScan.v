(** WP03 – step 1: what [bufio.Scanner] (model: [scan]) sees of a rendered
    well-formed file: one line per item, the optional CR dropped, a final
    unterminated empty line not delivered. *)
From Coq Require Import Lia ZifyBool ZifyNat ZifyN.
From HP Require Import Base.Bytes Base.Num Model.Scanner Model.Parser Model.Syntax.
From HP Require Import Proofs.ParserBytes.
Open Scope N_scope.

(** ** raw lines *)

Lemma raw_lines_line cur l rest :
  ~ In c_lf l -> raw_lines cur (l ++ c_lf :: rest) = (rev cur ++ l, true) :: raw_lines [] rest.
Proof.
  revert cur. induction l as [|x l IH]; intros cur H.
  - cbn [app raw_lines]. rewrite N.eqb_refl, app_nil_r. reflexivity.
  - cbn [app raw_lines]. destruct (x =? c_lf) eqn:E.
    + apply N.eqb_eq in E. subst x. exfalso. apply H. left. reflexivity.
    + rewrite IH by (intros Hin; apply H; right; exact Hin).
      cbn [rev]. rewrite <- app_assoc. reflexivity.
Qed.

Lemma raw_lines_last cur l :
  ~ In c_lf l ->
  raw_lines cur l = match rev cur ++ l with [] => [] | x => [(x, false)] end.
Proof.
  revert cur. induction l as [|x l IH]; intros cur H.
  - cbn [raw_lines]. rewrite app_nil_r. destruct cur as [|c cur]; [reflexivity|].
    cbn [rev]. destruct (rev cur); reflexivity.
  - cbn [raw_lines]. destruct (x =? c_lf) eqn:E.
    + apply N.eqb_eq in E. subst x. exfalso. apply H. left. reflexivity.
    + rewrite IH by (intros Hin; apply H; right; exact Hin).
      cbn [rev]. rewrite <- app_assoc. reflexivity.
Qed.

(** ** [drop_cr] *)

Lemma drop_cr_cr l : drop_cr (l ++ [c_cr]) = l.
Proof.
  unfold drop_cr. rewrite rev_app_distr. cbn [rev app]. rewrite N.eqb_refl. apply rev_involutive.
Qed.

Lemma drop_cr_id l :
  (match last_byte l with Some c => c =? c_cr | None => false end) = false -> drop_cr l = l.
Proof.
  unfold drop_cr, last_byte. destruct (rev l) as [|c r]; cbn [first_byte]; [reflexivity|].
  intros ->. reflexivity.
Qed.

(** ** lines of well-formed items contain no line ending *)

Lemma no_eol_spec s :
  no_eol s = true <->
  none_of [c_lf] s = true /\ (match last_byte s with Some c => c =? c_cr | None => false end) = false.
Proof.
  unfold no_eol. rewrite andb_true_iff, negb_true_iff. reflexivity.
Qed.

(** last byte is not CR *)
Definition endok (s : bytes) : Prop :=
  (match last_byte s with Some c => c =? c_cr | None => false end) = false.

Lemma endok_nil : endok [].
Proof. reflexivity. Qed.

Lemma endok_app_r a s : s <> [] -> endok s -> endok (a ++ s).
Proof. intros Hne H. unfold endok. rewrite last_byte_app by exact Hne. exact H. Qed.

Lemma endok_all_in s : all_in fill5 s = true -> endok s.
Proof.
  destruct (snoc_cases s) as [->|[r [c ->]]]; [reflexivity|].
  rewrite all_in_app. intros H. apply andb_true_iff in H as [_ H].
  cbn [all_in forallb] in H. rewrite andb_true_r in H.
  unfold endok. rewrite last_byte_snoc. memb_tac.
Qed.

Lemma endok_app_fill a s : all_in fill5 s = true -> endok a -> endok (a ++ s).
Proof.
  intros Hs Ha. destruct s as [|c s]; [rewrite app_nil_r; exact Ha|].
  apply endok_app_r; [discriminate|]. apply endok_all_in. exact Hs.
Qed.

Lemma endok_opt_notin s set :
  opt_notin (last_byte s) (c_cr :: set) = true -> s <> [] /\ endok s.
Proof.
  intros H. apply opt_notin_last in H as [r [c [-> Hc]]]. split.
  - destruct r; discriminate.
  - unfold endok. rewrite last_byte_snoc. cbn [memb existsb] in Hc.
    apply orb_false_iff in Hc as [Hc _]. exact Hc.
Qed.

Lemma fill5_no_lf s : all_in fill5 s = true -> none_of [c_lf] s = true.
Proof. apply all_in_none_of. intros c Hc. memb_tac. Qed.

Lemma fill4_fill5 s : all_in fill4 s = true -> all_in fill5 s = true.
Proof. apply all_in_sub. intros c Hc. memb_tac. Qed.

Lemma lfblanks_no_lf s : none_of (c_lf :: blanks) s = true -> none_of [c_lf] s = true.
Proof. apply none_of_sub. intros c Hc. memb_tac. Qed.

Lemma wf_pre_fill p : wf_pre p = true -> all_in fill5 p = true.
Proof.
  unfold wf_pre. destruct p as [|c p]; [discriminate|].
  intros H. apply andb_true_iff in H as [_ H]. exact H.
Qed.

Lemma wf_mid_fill m : wf_mid m = true -> all_in fill4 m = true.
Proof. unfold wf_mid. intros H. apply andb_true_iff in H as [H _]. exact H. Qed.

Section Scan.
  Context (NM : Num).

  Lemma wf_name_no_eol n : wf_name n = true -> none_of [c_lf] n = true /\ n <> [] /\ endok n.
  Proof.
    unfold wf_name. intros H. apply andb_true_iff in H as [H H3]. apply andb_true_iff in H as [H1 H2].
    apply endok_opt_notin in H2 as [Hne He]. auto.
  Qed.

  Lemma wf_value_text_no_eol t : wf_value_text t = true -> none_of [c_lf] t = true /\ t <> [] /\ endok t.
  Proof.
    unfold wf_value_text. intros H. apply andb_true_iff in H as [H H3]. apply andb_true_iff in H as [H1 H2].
    apply endok_opt_notin in H2 as [Hne He]. apply lfblanks_no_lf in H3. auto.
  Qed.

  Lemma wf_item_no_eol it : wf_item NM it = true -> no_eol (render_line it) = true.
  Proof.
    intros H. destruct it as [ws|t|n s|pre n mid lx post|pre raw|pre t|pre n mid t post];
      cbn [wf_item render_line] in *.
    - apply no_eol_spec. split; [apply fill5_no_lf, H | apply endok_all_in, H].
    - exact H.
    - apply andb_true_iff in H as [Hn Hs]. apply wf_name_no_eol in Hn as [Hn1 [Hn2 Hn3]].
      apply no_eol_spec. split.
      + rewrite none_of_app, Hn1. apply fill5_no_lf, Hs.
      + apply endok_app_fill; assumption.
    - repeat (apply andb_true_iff in H as [H ?Hx]).
      unfold wf_lexeme in Hx0. apply andb_true_iff in Hx0 as [Hlx _].
      apply wf_value_text_no_eol in Hlx as [Hl1 [Hl2 Hl3]].
      apply wf_name_no_eol in Hx2 as [Hn1 _].
      apply wf_pre_fill in H. apply wf_mid_fill, fill4_fill5 in Hx1.
      apply no_eol_spec. split.
      + rewrite !none_of_app, Hn1, Hl1, !fill5_no_lf by assumption. reflexivity.
      + rewrite !app_assoc. apply endok_app_fill; [assumption|]. apply endok_app_r; assumption.
    - repeat (apply andb_true_iff in H as [H ?Hx]).
      apply endok_opt_notin in Hx0 as [Hne He]. apply wf_pre_fill in H.
      apply no_eol_spec. split.
      + rewrite none_of_app, Hx, fill5_no_lf by assumption. reflexivity.
      + apply endok_app_r; assumption.
    - repeat (apply andb_true_iff in H as [H ?Hx]).
      apply wf_value_text_no_eol in Hx0 as [Hl1 [Hl2 Hl3]]. apply wf_pre_fill in H.
      apply no_eol_spec. split.
      + rewrite none_of_app, Hl1, fill5_no_lf by assumption. reflexivity.
      + apply endok_app_r; assumption.
    - repeat (apply andb_true_iff in H as [H ?Hx]).
      apply wf_value_text_no_eol in Hx1 as [Hl1 [Hl2 Hl3]].
      apply wf_name_no_eol in Hx3 as [Hn1 _].
      apply wf_pre_fill in H. apply wf_mid_fill, fill4_fill5 in Hx2.
      apply no_eol_spec. split.
      + rewrite !none_of_app, Hn1, Hl1, !fill5_no_lf by assumption. reflexivity.
      + rewrite !app_assoc. apply endok_app_fill; [assumption|]. apply endok_app_r; assumption.
  Qed.

  (** an item that renders as the empty line is the empty blank item *)
  Lemma wf_item_empty_line it : wf_item NM it = true -> render_line it = [] -> it = IBlank [].
  Proof.
    intros H E. destruct it as [ws|t|n s|pre n mid lx post|pre raw|pre t|pre n mid t post];
      cbn [wf_item render_line] in *.
    - subst ws. reflexivity.
    - discriminate.
    - apply andb_true_iff in H as [Hn _]. apply wf_name_no_eol in Hn as [_ [Hn _]].
      destruct n; [congruence|discriminate].
    - repeat (apply andb_true_iff in H as [H ?Hx]). destruct pre; discriminate.
    - repeat (apply andb_true_iff in H as [H ?Hx]). destruct pre; discriminate.
    - repeat (apply andb_true_iff in H as [H ?Hx]). destruct pre; discriminate.
    - repeat (apply andb_true_iff in H as [H ?Hx]). destruct pre; discriminate.
  Qed.

  (** ** the raw lines of a rendered file *)

  Definition cr_if (crlf : bool) : bytes := if crlf then [c_cr] else [].

  (** the raw (CR included) lines between the LFs of [render_items l fnl], with
      the flag "terminated by LF" *)
  Fixpoint raws_of (l : list (item * bool)) (fnl : bool) : list (bytes * bool) :=
    match l with
    | [] => []
    | [(it, crlf)] =>
        if fnl then [(render_line it ++ cr_if crlf, true)]
        else match render_line it with [] => [] | x => [(x, false)] end
    | (it, crlf) :: r => (render_line it ++ cr_if crlf, true) :: raws_of r fnl
    end.

  (** the items whose line the scanner delivers: all, except a last item that
      renders as an empty unterminated line *)
  Fixpoint seen_items (l : list (item * bool)) (fnl : bool) : list item :=
    match l with
    | [] => []
    | [(it, _)] => if fnl then [it] else match render_line it with [] => [] | _ => [it] end
    | (it, _) :: r => it :: seen_items r fnl
    end.

  Lemma eol_split line crlf rest : line ++ eol crlf ++ rest = (line ++ cr_if crlf) ++ c_lf :: rest.
  Proof. destruct crlf; cbn [eol cr_if app]; rewrite <- app_assoc; reflexivity. Qed.

  Lemma no_lf_raw line crlf : no_eol line = true -> ~ In c_lf (line ++ cr_if crlf).
  Proof.
    intros H. apply no_eol_spec in H as [H _]. apply none_of_not_In in H.
    intros Hin. apply in_app_or in Hin as [Hin|Hin]; [exact (H Hin)|].
    destruct crlf; cbn [cr_if] in Hin; [|exact Hin].
    destruct Hin as [Hin|[]]. discriminate.
  Qed.

  Lemma raw_lines_render l fnl :
    Forall (fun ic => no_eol (render_line (fst ic)) = true) l ->
    raw_lines [] (render_items l fnl) = raws_of l fnl.
  Proof.
    induction l as [|[it crlf] r IH]; intros H; [reflexivity|].
    inversion H as [|ic r0 Hit Hr]; subst. cbn [fst] in Hit.
    destruct r as [|ic2 r'].
    - cbn [render_items raws_of]. destruct fnl.
      + rewrite <- (app_nil_r (eol crlf)), eol_split.
        rewrite raw_lines_line by (apply no_lf_raw; exact Hit). reflexivity.
      + rewrite app_nil_r. rewrite raw_lines_last.
        * reflexivity.
        * apply no_eol_spec in Hit as [Hit _]. apply none_of_not_In. exact Hit.
    - change (render_items ((it, crlf) :: ic2 :: r') fnl)
        with (render_line it ++ eol crlf ++ render_items (ic2 :: r') fnl).
      change (raws_of ((it, crlf) :: ic2 :: r') fnl)
        with ((render_line it ++ cr_if crlf, true) :: raws_of (ic2 :: r') fnl).
      rewrite eol_split, raw_lines_line by (apply no_lf_raw; exact Hit).
      rewrite IH by exact Hr. reflexivity.
  Qed.

  (** ** the length bound *)

  (** every raw line of the rendered file (the CR of a CRLF ending counts, the
      LF does not; the CRLF flag of a last line without final newline is not
      rendered and does not count) is shorter than [max_token] *)
  Definition short_items (l : list (item * bool)) (fnl : bool) : Prop :=
    Forall (fun r => lengthN (fst r) < max_token) (raws_of l fnl).

  Definition short_lines (f : file) : Prop := short_items (f_items f) (f_final_newline f).

  Lemma take_lines_short raws :
    Forall (fun r : bytes * bool => lengthN (fst r) < max_token) raws ->
    take_lines raws = (map drop_cr (map fst raws), false).
  Proof.
    induction raws as [|[raw t] r IH]; intros H; [reflexivity|].
    inversion H as [|x y H1 H2]; subst. cbn [fst] in H1.
    cbn [take_lines map fst]. rewrite (IH H2).
    destruct (max_token <=? lengthN raw) eqn:E; [lia|reflexivity].
  Qed.

  Lemma take_lines_not_long raws :
    snd (take_lines raws) = false -> Forall (fun r : bytes * bool => lengthN (fst r) < max_token) raws.
  Proof.
    induction raws as [|[raw t] r IH]; intros H; [constructor|].
    cbn [take_lines] in H. destruct (max_token <=? lengthN raw) eqn:E; [discriminate|].
    destruct (take_lines r) as [ls tl] eqn:Et. cbn [snd] in *.
    constructor; [cbn [fst]; lia | apply IH, H].
  Qed.

  Lemma drop_cr_raw line crlf : no_eol line = true -> drop_cr (line ++ cr_if crlf) = line.
  Proof.
    intros H. destruct crlf; cbn [cr_if].
    - apply drop_cr_cr.
    - rewrite app_nil_r. apply drop_cr_id. apply no_eol_spec in H as [_ H]. exact H.
  Qed.

  Lemma raws_seen l fnl :
    Forall (fun ic => no_eol (render_line (fst ic)) = true) l ->
    map drop_cr (map fst (raws_of l fnl)) = map render_line (seen_items l fnl).
  Proof.
    induction l as [|[it crlf] r IH]; intros H; [reflexivity|].
    inversion H as [|ic r0 Hit Hr]; subst. cbn [fst] in Hit.
    destruct r as [|ic2 r'].
    - cbn [raws_of seen_items]. destruct fnl.
      + cbn [map fst]. rewrite drop_cr_raw by exact Hit. reflexivity.
      + apply no_eol_spec in Hit as [_ Hit]. apply drop_cr_id in Hit.
        destruct (render_line it) as [|c l] eqn:E; [reflexivity|].
        cbn [map fst]. rewrite Hit, E. reflexivity.
    - change (raws_of ((it, crlf) :: ic2 :: r') fnl)
        with ((render_line it ++ cr_if crlf, true) :: raws_of (ic2 :: r') fnl).
      change (seen_items ((it, crlf) :: ic2 :: r') fnl) with (it :: seen_items (ic2 :: r') fnl).
      cbn [map fst]. rewrite drop_cr_raw by exact Hit. rewrite IH by exact Hr. reflexivity.
  Qed.

  Lemma wf_file_no_eol f :
    wf_file NM f = true -> Forall (fun ic => no_eol (render_line (fst ic)) = true) (f_items f).
  Proof.
    unfold wf_file. intros H. apply Forall_forall. intros ic Hin.
    apply wf_item_no_eol. rewrite forallb_forall in H. exact (H ic Hin).
  Qed.

  (** step 1 of the round trip *)
  Theorem scan_render f :
    wf_file NM f = true -> short_lines f ->
    scan (render f) NoFault
    = (map render_line (seen_items (f_items f) (f_final_newline f)), ScanEOF).
  Proof.
    intros Hwf Hs. apply wf_file_no_eol in Hwf.
    unfold scan, render. rewrite raw_lines_render by exact Hwf.
    rewrite take_lines_short by exact Hs. rewrite raws_seen by exact Hwf. reflexivity.
  Qed.

  (** [short_lines] is exactly the condition under which the scanner reads the
      whole rendered file *)
  Theorem short_lines_exact f :
    wf_file NM f = true ->
    (short_lines f <-> snd (scan (render f) NoFault) = ScanEOF).
  Proof.
    intros Hwf. split.
    - intros Hs. rewrite scan_render by assumption. reflexivity.
    - apply wf_file_no_eol in Hwf. unfold scan, render.
      rewrite raw_lines_render by exact Hwf. intros H.
      apply take_lines_not_long.
      destruct (take_lines (raws_of (f_items f) (f_final_newline f))) as [ls tl].
      cbn [snd] in *. destruct tl; [discriminate|reflexivity].
  Qed.

  (** a simpler sufficient bound: every rendered line plus one byte for a
      possible CR stays below the limit *)
  Lemma short_lines_simple f :
    Forall (fun ic : item * bool => lengthN (render_line (fst ic)) + 1 < max_token) (f_items f) ->
    short_lines f.
  Proof.
    unfold short_lines, short_items. generalize (f_final_newline f) as fnl. generalize (f_items f) as l.
    induction l as [|[it crlf] r IH]; intros fnl H; [constructor|].
    inversion H as [|ic r0 Hit Hr]; subst. cbn [fst] in Hit.
    assert (Hraw : lengthN (render_line it ++ cr_if crlf) < max_token).
    { rewrite lengthN_app. destruct crlf; cbn [cr_if lengthN]; lia. }
    destruct r as [|ic2 r'].
    - cbn [raws_of]. destruct fnl.
      + constructor; [exact Hraw|constructor].
      + destruct (render_line it) as [|c l] eqn:E; [constructor|].
        constructor; [|constructor]. cbn [fst]. lia.
    - change (raws_of ((it, crlf) :: ic2 :: r') fnl)
        with ((render_line it ++ cr_if crlf, true) :: raws_of (ic2 :: r') fnl).
      constructor; [exact Hraw | apply IH, Hr].
  Qed.

  (** the bound does not depend on the final newline in the wrong direction:
      with a final newline it is at least as strong *)
  Lemma short_items_drop_final_newline l :
    short_items l true -> short_items l false.
  Proof.
    unfold short_items. induction l as [|[it crlf] r IH]; intros H; [constructor|].
    destruct r as [|ic2 r'].
    - cbn [raws_of] in *. inversion H as [|x y H1 H2]; subst. cbn [fst] in H1.
      rewrite lengthN_app in H1.
      destruct (render_line it) as [|c l] eqn:E; [constructor|].
      constructor; [|constructor]. cbn [fst]. lia.
    - change (raws_of ((it, crlf) :: ic2 :: r') true)
        with ((render_line it ++ cr_if crlf, true) :: raws_of (ic2 :: r') true) in H.
      change (raws_of ((it, crlf) :: ic2 :: r') false)
        with ((render_line it ++ cr_if crlf, true) :: raws_of (ic2 :: r') false).
      inversion H as [|x y H1 H2]; subst. constructor; [exact H1 | apply IH, H2].
  Qed.
End Scan.
