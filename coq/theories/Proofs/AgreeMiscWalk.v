(** WP11 (stretch): from the abstract walk ([walk_state] / [walk_chunks] over the selected days) to the
    program ([walk_and_finish], [run_log], [run_db_log]) when standard output never fails, the log is
    readable to its end, has no parse error and every heading parses as a date. *)
From HP Require Import Base.Bytes Base.Utf8 Base.Num Model.Scanner Model.Parser Model.Elements Model.Resolver
  Model.Dates Model.Tree Model.Writer Model.Reporters Model.Cli
  Spec.Agree2Spec Proofs.AgreeMiscBase Proofs.AgreeMiscStats.
From Coq Require Import Lia.

(** *** the buffered writer in front of a sink that never fails *)
Definition bw_ok (w : bw) : Prop := bw_err w = false /\ s_limit (bw_sink w) = None.
Definition bw_content (w : bw) : bytes := s_got (bw_sink w) ++ bw_buf w.

Lemma sink_write_ok : forall s p,
  s_limit s = None -> sink_write s p = ({| s_limit := None; s_got := s_got s ++ p |}, false).
Proof. intros s p H. unfold sink_write. rewrite H. reflexivity. Qed.

Lemma bw_flush_ok : forall w, bw_ok w ->
  exists w', bw_flush w = (w', false) /\ bw_ok w' /\ bw_buf w' = [] /\ s_got (bw_sink w') = bw_content w.
Proof.
  intros [buf err snk] [He Hs]. cbn [bw_err bw_sink] in He, Hs. subst err.
  unfold bw_flush, bw_content. cbn [bw_err bw_buf bw_sink].
  destruct buf as [|c r].
  - eexists. split; [reflexivity|]. split; [split; [reflexivity | exact Hs]|]. split; [reflexivity|].
    cbn [bw_sink]. rewrite app_nil_r. reflexivity.
  - rewrite sink_write_ok by exact Hs. eexists. split; [reflexivity|].
    split; [split; reflexivity|]. split; reflexivity.
Qed.

Lemma bw_write_ok : forall w p, bw_ok w ->
  exists w', bw_write w p = (w', false) /\ bw_ok w' /\ bw_content w' = bw_content w ++ p.
Proof.
  intros [buf err snk] p [He Hs]. cbn [bw_err bw_sink] in He, Hs. subst err.
  unfold bw_write, bw_content. cbn [bw_err bw_buf bw_sink].
  destruct (Nat.leb (length p) (buf_size - length buf)) eqn:E1.
  - eexists. split; [reflexivity|]. split; [split; [reflexivity | exact Hs]|].
    cbn [bw_sink bw_buf]. rewrite app_assoc. reflexivity.
  - destruct buf as [|c r].
    + unfold bw_direct. cbn [bw_sink bw_buf]. rewrite sink_write_ok by exact Hs.
      eexists. split; [reflexivity|]. split; [split; reflexivity|].
      cbn [bw_sink bw_buf s_got]. rewrite !app_nil_r. reflexivity.
    + set (buf := c :: r) in *. set (avail := buf_size - length buf) in *.
      destruct (bw_flush_ok {| bw_buf := buf ++ firstn avail p; bw_err := false; bw_sink := snk |})
        as [w1 [Hf [[He1 Hs1] [Hb1 Hg1]]]]; [split; [reflexivity | exact Hs]|].
      rewrite Hf. unfold bw_content in Hg1. cbn [bw_sink bw_buf] in Hg1.
      destruct (Nat.leb (length (skipn avail p)) buf_size) eqn:E2.
      * eexists. split; [reflexivity|]. split; [split; [reflexivity | exact Hs1]|].
        cbn [bw_sink bw_buf]. rewrite Hg1, <- !app_assoc. rewrite firstn_skipn. reflexivity.
      * unfold bw_direct. rewrite sink_write_ok by exact Hs1.
        eexists. split; [reflexivity|]. split; [split; reflexivity|].
        cbn [bw_sink bw_buf s_got]. rewrite Hb1, Hg1, app_nil_r, <- !app_assoc. rewrite firstn_skipn. reflexivity.
Qed.

Lemma bw_chunks_ok : forall cs w, bw_ok w ->
  exists w', bw_chunks w cs = (w', false) /\ bw_ok w' /\ bw_content w' = bw_content w ++ chunk_bytes cs.
Proof.
  induction cs as [|[p chk] r IH]; intros w Hw.
  - exists w. split; [reflexivity|]. split; [exact Hw|]. unfold chunk_bytes. cbn [map concat]. rewrite app_nil_r. reflexivity.
  - cbn [bw_chunks]. destruct (bw_write_ok w p Hw) as [w1 [H1 [Hok1 Hc1]]]. rewrite H1. cbn [andb].
    destruct (IH w1 Hok1) as [w2 [H2 [Hok2 Hc2]]]. exists w2. split; [exact H2|]. split; [exact Hok2|].
    rewrite Hc2, Hc1. unfold chunk_bytes. cbn [map concat fst]. rewrite app_assoc. reflexivity.
Qed.

Lemma new_writer_ok : forall w : world, w_sink w = None -> bw_ok (new_writer w) /\ bw_content (new_writer w) = [].
Proof. intros w H. unfold new_writer, bw_new, bw_ok, bw_content. cbn [bw_err bw_sink bw_buf s_limit s_got]. rewrite H. repeat split. Qed.

Section Walk.
  Context (NM : Num).
  Notation lognode := (lognode NM).
  Notation pnode := (pnode NM).
  Notation db := (list (bytes * elements NM)).

  Section OneReporter.
    Context (R : reporter NM) (πd : nat -> list bytes -> list bytes) (πf : list bytes -> list bytes)
            (toks : list ltoken) (bt et : option time).
    Hypothesis R_ok : never_fails NM R.

    (** one record *)
    Lemma walk_cb_step : forall (n : pnode) rs i wr,
      bw_ok wr -> parse_date toks (header n) <> None ->
      let L := selected_days NM toks bt et [n] in
      exists wr',
        walk_cb NM R πd toks bt et (rs, i, wr) (ENode n)
        = ((walk_from NM R πd i L rs, (i + length L)%nat, wr'), false, None)
        /\ bw_ok wr'
        /\ bw_content wr' = bw_content wr ++ chunk_bytes (walk_chunks_from NM R πd i L rs).
    Proof.
      intros n rs i wr Hok Hn. cbv zeta. unfold selected_days. cbn [flat_map]. rewrite app_nil_r.
      unfold walk_cb. destruct (parse_date toks (header n)) as [c|] eqn:Ep; [|contradiction].
      destruct (in_interval bt et (time_of_civil c)) eqn:Ei.
      - fold (lognode_of NM n c).
        pose proof (R_ok (πd i) rs (lognode_of NM n c)) as Hnf.
        cbn [walk_from walk_chunks_from length].
        destruct (r_process NM R (πd i) rs (lognode_of NM n c)) as [[rs' chunks] perr] eqn:Epr.
        cbn [fst snd] in *. subst perr.
        destruct (bw_chunks_ok chunks wr Hok) as [wr1 [Hw1 [Hok1 Hc1]]]. rewrite Hw1.
        exists wr1. split; [|split; [exact Hok1|]].
        + f_equal. f_equal. f_equal. f_equal. lia.
        + rewrite Hc1, app_nil_r. reflexivity.
      - exists wr. cbn [walk_from walk_chunks_from length]. rewrite Nat.add_0_r.
        split; [reflexivity|]. split; [exact Hok|]. unfold chunk_bytes. cbn [map concat]. rewrite app_nil_r. reflexivity.
    Qed.

    Lemma walk_from_app : forall L1 L2 i st,
      walk_from NM R πd i (L1 ++ L2) st = walk_from NM R πd (i + length L1) L2 (walk_from NM R πd i L1 st).
    Proof.
      induction L1 as [|ln r IH]; intros L2 i st; cbn [walk_from app length]; [rewrite Nat.add_0_r; reflexivity|].
      rewrite IH. f_equal. lia.
    Qed.

    Lemma walk_chunks_from_app : forall L1 L2 i st,
      walk_chunks_from NM R πd i (L1 ++ L2) st
      = walk_chunks_from NM R πd i L1 st
        ++ walk_chunks_from NM R πd (i + length L1) L2 (walk_from NM R πd i L1 st).
    Proof.
      induction L1 as [|ln r IH]; intros L2 i st; cbn [walk_from walk_chunks_from app length]; [rewrite Nat.add_0_r; reflexivity|].
      rewrite IH, <- app_assoc. f_equal. f_equal. f_equal. lia.
    Qed.

    (** the loop over the records *)
    Lemma selected_days_cons : forall n ns,
      selected_days NM toks bt et (n :: ns) = selected_days NM toks bt et [n] ++ selected_days NM toks bt et ns.
    Proof. intros n ns. unfold selected_days. cbn [flat_map]. rewrite app_nil_r. reflexivity. Qed.

    Lemma walk_loop : forall (ns : list pnode) rs i wr,
      bw_ok wr -> all_dated NM toks ns ->
      let L := selected_days NM toks bt et ns in
      exists wr',
        drive_loop NM (walk_cb NM R πd toks bt et) (map ENode ns) (rs, i, wr)
        = ((walk_from NM R πd i L rs, (i + length L)%nat, wr'), None)
        /\ bw_ok wr'
        /\ bw_content wr' = bw_content wr ++ chunk_bytes (walk_chunks_from NM R πd i L rs).
    Proof.
      induction ns as [|n r IH]; intros rs i wr Hok Hd; cbv zeta.
      - exists wr. cbn [map drive_loop selected_days flat_map walk_from walk_chunks_from length].
        rewrite Nat.add_0_r. split; [reflexivity|]. split; [exact Hok|].
        unfold chunk_bytes. cbn [map concat]. rewrite app_nil_r. reflexivity.
      - inversion Hd as [|? ? Hn Hr]; subst. cbn [map drive_loop].
        destruct (walk_cb_step n rs i wr Hok Hn) as [wr1 [H1 [Hok1 Hc1]]]. rewrite H1.
        destruct (IH (walk_from NM R πd i (selected_days NM toks bt et [n]) rs)
                    (i + length (selected_days NM toks bt et [n]))%nat wr1 Hok1 Hr) as [wr2 [H2 [Hok2 Hc2]]].
        exists wr2. rewrite (selected_days_cons n r), walk_from_app, walk_chunks_from_app, app_length.
        split; [|split; [exact Hok2|]].
        + rewrite H2. f_equal. f_equal. f_equal. lia.
        + rewrite Hc2, Hc1. unfold chunk_bytes. rewrite map_app, concat_app, app_assoc. reflexivity.
    Qed.

    (** the whole walk with FinishReport *)
    Theorem walk_and_finish_ok : forall data wr,
      bw_ok wr ->
      snd (scan data NoFault) = ScanEOF -> no_parse_error NM (events NM data) ->
      all_dated NM toks (nodes_of NM (events NM data)) ->
      let L := selected_days NM toks bt et (nodes_of NM (events NM data)) in
      let rs := walk_state NM R πd L in
      exists wr',
        walk_and_finish NM R πd πf toks bt et (OData data NoFault) wr = (wr', None, rs)
        /\ bw_ok wr' /\ bw_buf wr' = []
        /\ s_got (bw_sink wr')
           = bw_content wr ++ chunk_bytes (walk_chunks NM R πd L) ++ chunk_bytes (r_flush NM R πf rs).
    Proof.
      intros data wr Hok Hfin Hne Hd. cbv zeta.
      assert (Hev : exists evs last, parse_lines NM (fst (scan data NoFault)) = (evs, last)
                                     /\ events NM data = evs ++ match last with Some n => [ENode n] | None => [] end).
      { unfold events. destruct (parse_lines NM (fst (scan data NoFault))) as [evs last]. exists evs, last. split; reflexivity. }
      destruct Hev as [evs [last [Hpl Hev]]]. rewrite Hev in *. clear Hev.
      unfold walk_and_finish, parse_opened, parse_stream.
      destruct (scan data NoFault) as [lines fin]. cbn [fst snd] in *. subst fin. rewrite Hpl.
      assert (Hne1 : no_parse_error NM evs) by (intros e K; apply (Hne e); apply in_or_app; left; exact K).
      rewrite nodes_of_app in *. unfold all_dated in Hd. apply Forall_app in Hd. destruct Hd as [Hd1 Hd2].
      set (L := selected_days NM toks bt et (nodes_of NM evs ++ nodes_of NM match last with Some n => [ENode n] | None => [] end)).
      set (rs := walk_state NM R πd L).
      unfold drive. rewrite <- (nodes_of_events NM evs Hne1).
      destruct (walk_loop (nodes_of NM evs) (r_init NM R) O wr Hok Hd1) as [wr1 [H1 [Hok1 Hc1]]].
      rewrite H1. cbn [Nat.add] in *.
      set (L1 := selected_days NM toks bt et (nodes_of NM evs)) in *.
      destruct last as [n|].
      - (* the pending last record *)
        cbn [nodes_of] in Hd2, L.
        inversion Hd2 as [|? ? Hn _]; subst.
        destruct (walk_cb_step n (walk_from NM R πd O L1 (r_init NM R)) (length L1) wr1 Hok1 Hn) as [wr2 [H2 [Hok2 Hc2]]].
        rewrite H2.
        set (L2 := selected_days NM toks bt et [n]) in *.
        assert (HL : L = L1 ++ L2) by (unfold L, L1, L2, selected_days; rewrite flat_map_app; reflexivity).
        assert (Hrs : walk_from NM R πd (length L1) L2 (walk_from NM R πd O L1 (r_init NM R)) = rs).
        { unfold rs, walk_state. rewrite HL, walk_from_app. reflexivity. }
        assert (Hcs : walk_chunks_from NM R πd O L1 (r_init NM R)
                      ++ walk_chunks_from NM R πd (length L1) L2 (walk_from NM R πd O L1 (r_init NM R))
                      = walk_chunks NM R πd L).
        { unfold walk_chunks. rewrite HL, walk_chunks_from_app. reflexivity. }
        rewrite Hrs in *.
        destruct (bw_chunks_ok (r_flush NM R πf rs) wr2 Hok2) as [wr3 [H3 [Hok3 Hc3]]]. rewrite H3.
        destruct (bw_flush_ok wr3 Hok3) as [wr4 [H4 [Hok4 [Hb4 Hg4]]]]. rewrite H4.
        exists wr4. split; [reflexivity|]. split; [exact Hok4|]. split; [exact Hb4|].
        rewrite Hg4, Hc3, Hc2, Hc1, <- Hcs. unfold chunk_bytes. rewrite map_app, concat_app, <- !app_assoc. reflexivity.
      - assert (HL : L = L1) by (unfold L, L1; cbn [nodes_of]; rewrite app_nil_r; reflexivity).
        assert (Hrs : walk_from NM R πd O L1 (r_init NM R) = rs) by (unfold rs, walk_state; rewrite HL; reflexivity).
        assert (Hcs : walk_chunks_from NM R πd O L1 (r_init NM R) = walk_chunks NM R πd L)
          by (unfold walk_chunks; rewrite HL; reflexivity).
        rewrite Hrs, Hcs in *.
        destruct (bw_chunks_ok (r_flush NM R πf rs) wr1 Hok1) as [wr3 [H3 [Hok3 Hc3]]]. rewrite H3.
        destruct (bw_flush_ok wr3 Hok3) as [wr4 [H4 [Hok4 [Hb4 Hg4]]]]. rewrite H4.
        exists wr4. split; [reflexivity|]. split; [exact Hok4|]. split; [exact Hb4|].
        rewrite Hg4, Hc3, Hc1. rewrite <- app_assoc. reflexivity.
    Qed.
  End OneReporter.

  (** *** commands that only walk the log (quantity, csv log, print) *)
  Theorem run_log_ok : forall (w : world) (op : options) (R : reporter NM) toks ldata,
    never_fails NM R ->
    w_sink w = None ->
    open_file w (op_log op) = Some (OData ldata NoFault) ->
    tokenize (op_fmt op) = Some toks ->
    snd (scan ldata NoFault) = ScanEOF -> no_parse_error NM (events NM ldata) ->
    all_dated NM toks (nodes_of NM (events NM ldata)) ->
    let L := selected_days NM toks (op_begin op) (op_end op) (nodes_of NM (events NM ldata)) in
    let rs := walk_state NM R (o_day (w_or w)) L in
    run_log NM w op R
    = {| out_stdout := chunk_bytes (walk_chunks NM R (o_day (w_or w)) L) ++ chunk_bytes (r_flush NM R (o_flush (w_or w)) rs);
         out_status := Ok |}.
  Proof.
    intros w op R toks ldata HR Hs Ho Ht Hfin Hne Hd L rs. unfold run_log. cbn [open_all]. rewrite Ho.
    cbn [option_map]. rewrite Ht.
    destruct (new_writer_ok w Hs) as [Hok Hc].
    destruct (walk_and_finish_ok R (o_day (w_or w)) (o_flush (w_or w)) toks (op_begin op) (op_end op) HR
                ldata (new_writer w) Hok Hfin Hne Hd) as [wr' [H1 [_ [_ Hg]]]].
    rewrite H1. unfold finish, status_of. rewrite Hg, Hc. reflexivity.
  Qed.

  (** *** commands that resolve the book and walk the log (register, balance, unresolved, totals, summary) *)
  Theorem run_db_log_ok : forall (w : world) (op : options) (mk : db -> reporter NM) bt et toks odb d ldata,
    never_fails NM (mk d) ->
    (forall rs, r_panic NM (mk d) rs = None) ->
    w_sink w = None ->
    open_file w (op_db op) = Some odb -> resolved_db NM w op odb = inr d ->
    open_file w (op_log op) = Some (OData ldata NoFault) ->
    tokenize (op_fmt op) = Some toks ->
    snd (scan ldata NoFault) = ScanEOF -> no_parse_error NM (events NM ldata) ->
    all_dated NM toks (nodes_of NM (events NM ldata)) ->
    let L := selected_days NM toks bt et (nodes_of NM (events NM ldata)) in
    let rs := walk_state NM (mk d) (o_day (w_or w)) L in
    run_db_log NM w op mk bt et
    = {| out_stdout := chunk_bytes (walk_chunks NM (mk d) (o_day (w_or w)) L)
                       ++ chunk_bytes (r_flush NM (mk d) (o_flush (w_or w)) rs);
         out_status := Ok |}.
  Proof.
    intros w op mk bt et toks odb d ldata HR Hp Hs Hodb Hres Ho Ht Hfin Hne Hd L rs.
    unfold run_db_log. cbn [open_all]. rewrite Hodb, Ho. cbn [option_map]. rewrite Hres, Ht.
    destruct (new_writer_ok w Hs) as [Hok Hc].
    destruct (walk_and_finish_ok (mk d) (o_day (w_or w)) (o_flush (w_or w)) toks bt et HR
                ldata (new_writer w) Hok Hfin Hne Hd) as [wr' [H1 [_ [_ Hg]]]].
    rewrite H1. rewrite Hp. unfold finish, status_of. rewrite Hg, Hc. reflexivity.
  Qed.

  (** the reporters of this work package never fail and never panic *)
  Lemma never_fails_quantity : forall desc, never_fails NM (rep_quantity NM desc).
  Proof. intros desc π st ln. reflexivity. Qed.
  Lemma never_fails_csv_log : never_fails NM (rep_csv_log NM).
  Proof. intros π st ln. reflexivity. Qed.
  Lemma never_fails_balance : forall c, never_fails NM (rep_balance NM c).
  Proof. intros c π st ln. reflexivity. Qed.
  Lemma never_fails_unresolved : forall d, never_fails NM (rep_unresolved NM d).
  Proof. intros d π st ln. reflexivity. Qed.
  Lemma never_fails_summary : forall c d, never_fails NM (rep_summary NM c d).
  Proof. intros c d π st ln. reflexivity. Qed.
  Lemma never_fails_template : forall c d, never_fails NM (rep_template NM c d).
  Proof. intros c d π st ln. reflexivity. Qed.
End Walk.
