(** WP16 / property C16: precedence of the settings sources in [load]
    (options.Load): command line, HR_* environment, configuration file, default;
    which configuration file is consulted; explicit configuration file loaded
    or an error.

    [load], [load_config], [pick_string], [pick_depth] do not mention the
    arithmetic [NM] at all (Coq's section mechanism did not generalise them
    over it), so every theorem of this file holds "for every [NM]" trivially:
    the settings logic is independent of the number type.

    NOTE (model defect, see SettingsPickString.v and Settings.REPORT.md):
    the three string settings read a configuration-file entry through
    [file_string] (defined in SettingsPickString.v together with the single
    lemma [pick_string_spec] that looks inside [pick_string]).  In the current
    model [file_string] drops the first byte of the entry (a transliteration
    slip in [pick_string]); once Model/Cli.v is repaired [file_string] is
    "the entry when it is not empty" and every statement below is the intended
    one.  This file compiles unchanged against both. *)
From Coq Require Import Lia ZifyBool.
From HP Require Import Base.Bytes Base.Utf8 Base.Num Model.Scanner Model.Parser Model.Elements Model.Resolver
  Model.Dates Model.Tree Model.Writer Model.Reporters Model.Cli.
From HP Require Export Proofs.SettingsPickString.

(** * Helper notions used to state the theorems *)

(** "0 in the file counts as unset" *)
Definition nonzero (o : option Z) : option Z :=
  match o with Some v => if (v =? 0)%Z then None else Some v | None => None end.

(** the configuration file that [load_config] consults *)
Definition config_path (w : world) (i : invocation) : bytes :=
  or_default (first_some [i_f_config i; i_e_config i]) (w_default_config w).

(** * Which configuration file *)

Lemma config_path_flag : forall w i p, i_f_config i = Some p -> config_path w i = p.
Proof. intros w i p H. unfold config_path. cbn. rewrite H. reflexivity. Qed.

Lemma config_path_env : forall w i p, i_f_config i = None -> i_e_config i = Some p -> config_path w i = p.
Proof. intros w i p H1 H2. unfold config_path. cbn. rewrite H1, H2. reflexivity. Qed.

Lemma config_path_default : forall w i, i_f_config i = None -> i_e_config i = None -> config_path w i = w_default_config w.
Proof. intros w i H1 H2. unfold config_path. cbn. rewrite H1, H2. reflexivity. Qed.

Lemma load_config_spec : forall w i,
  load_config w i =
  match lookup (config_path w i) (w_fs w) with
  | None => if is_set (i_f_config i) (i_e_config i) then inl EConfigMissing else inr no_cfg
  | Some (FConfig e) => inr e
  | Some FDir => inl (EScan false)
  | Some (FFile data) => read_config data
  end.
Proof. reflexivity. Qed.

(** The file consulted is --config, else HR_CONFIG, else the default location;
    and [load_config] looks at nothing else in the file system: its result is
    the displayed function of the entry found at that one path. *)
Theorem config_path_precedence : forall w i,
  (forall p, i_f_config i = Some p -> config_path w i = p) /\
  (forall p, i_f_config i = None -> i_e_config i = Some p -> config_path w i = p) /\
  (i_f_config i = None -> i_e_config i = None -> config_path w i = w_default_config w) /\
  load_config w i =
    match lookup (config_path w i) (w_fs w) with
    | None => if is_set (i_f_config i) (i_e_config i) then inl EConfigMissing else inr no_cfg
    | Some (FConfig e) => inr e
    | Some FDir => inl (EScan false)
    | Some (FFile data) => read_config data
    end /\
  (forall w', w_default_config w' = w_default_config w ->
              lookup (config_path w i) (w_fs w') = lookup (config_path w i) (w_fs w) ->
              load_config w' i = load_config w i).
Proof.
  intros w i. repeat split.
  - apply config_path_flag.
  - apply config_path_env.
  - apply config_path_default.
  - intros w' Hd Hl. rewrite !load_config_spec.
    assert (Hp : config_path w' i = config_path w i) by (unfold config_path; rewrite Hd; reflexivity).
    rewrite Hp, Hl. reflexivity.
Qed.

(** * Explicit configuration file: loaded, or an error *)

Lemma load_config_missing_explicit : forall w i,
  is_set (i_f_config i) (i_e_config i) = true ->
  lookup (config_path w i) (w_fs w) = None ->
  load_config w i = inl EConfigMissing.
Proof. intros w i Hs Hl. rewrite load_config_spec, Hl, Hs. reflexivity. Qed.

Lemma load_config_inl : forall w i e, load_config w i = inl e -> load w i = inl e.
Proof. intros w i e H. unfold load. rewrite H. reflexivity. Qed.

Theorem explicit_config_loaded_or_error : forall w i,
  (* named explicitly and absent: an error, whatever else is on the command line *)
  (is_set (i_f_config i) (i_e_config i) = true ->
   lookup (config_path w i) (w_fs w) = None ->
   load w i = inl EConfigMissing) /\
  (* present (explicitly named or at the default location): loaded *)
  (forall e, lookup (config_path w i) (w_fs w) = Some (FConfig e) -> load_config w i = inr e) /\
  (* not named and absent at the default location: no entries, not an error *)
  (is_set (i_f_config i) (i_e_config i) = false ->
   lookup (config_path w i) (w_fs w) = None ->
   load_config w i = inr no_cfg).
Proof.
  intros w i. repeat split.
  - intros Hs Hl. apply load_config_inl. apply load_config_missing_explicit; assumption.
  - intros e Hl. rewrite load_config_spec, Hl. reflexivity.
  - intros Hs Hl. rewrite load_config_spec, Hl, Hs. reflexivity.
Qed.

(** [is_set] spelled out: the flag or the environment variable is present (an
    empty value counts as present) *)
Lemma is_set_true_iff : forall A (f e : option A), is_set f e = true <-> (f <> None \/ e <> None).
Proof.
  intros A f e. unfold is_set. cbn. destruct f as [x|]; destruct e as [y|]; split; intros H; try reflexivity;
    try discriminate; try (left; discriminate); try (right; discriminate).
  destruct H as [H|H]; congruence.
Qed.

(** * Precedence of the five settings *)

Lemma pick_depth_spec : forall f e c,
  pick_depth f e c = or_default (first_some [f; e; nonzero c]) default_depth.
Proof.
  intros f e c. unfold pick_depth, is_set, nonzero. cbn.
  destruct c as [v|]; destruct f as [x|]; destruct e as [y|]; cbn; try reflexivity;
    destruct (v =? 0)%Z; reflexivity.
Qed.

(** what a successful [load] computed, field by field *)
Lemma load_inr_inv : forall w i op,
  load w i = inr op ->
  exists cfg toks,
    load_config w i = inr cfg /\
    op_db op = (if i_no_database i then dev_null else pick_string (i_f_db i) (i_e_db i) (ce_db cfg) default_db) /\
    op_log op = pick_string (i_f_log i) (i_e_log i) (ce_log cfg) default_log /\
    op_fmt op = pick_string (i_f_fmt i) (i_e_fmt i) (ce_fmt cfg) default_fmt /\
    tokenize (op_fmt op) = Some toks /\
    rc_date (op_rc op) = toks /\
    op_depth op = pick_depth (i_f_depth i) (i_e_depth i) (ce_depth cfg) /\
    match i_f_today i with
    | Some s => exists c, parse_date toks s = Some c /\ op_now op = time_of_civil c
    | None => op_now op = time_of_civil (civ (or_default (ce_now cfg) (w_clock w)))
    end /\
    pick_period w (op_now op) toks (i_g_begin i) (i_l_begin i) = inr (op_begin op) /\
    pick_period w (op_now op) toks (i_g_end i) (i_l_end i) = inr (op_end op).
Proof.
  intros w i op H. unfold load in H.
  destruct (load_config w i) as [e|cfg] eqn:Ec; [discriminate|].
  destruct (tokenize (pick_string (i_f_fmt i) (i_e_fmt i) (ce_fmt cfg) default_fmt)) as [toks|] eqn:Et; [|discriminate].
  exists cfg, toks.
  destruct (i_f_today i) as [s|] eqn:Etoday.
  - destruct (parse_date toks s) as [c|] eqn:Ep; [|discriminate].
    destruct (pick_period w (time_of_civil c) toks (i_g_begin i) (i_l_begin i)) as [e|bt] eqn:Eb; [discriminate|].
    destruct (pick_period w (time_of_civil c) toks (i_g_end i) (i_l_end i)) as [e|et] eqn:Ee; [discriminate|].
    inversion H; subst op; clear H. cbn [op_db op_log op_fmt op_depth op_now op_begin op_end op_rc rc_date].
    repeat split; try reflexivity; try assumption. exists c. split; reflexivity.
  - destruct (pick_period w (time_of_civil (civ (or_default (ce_now cfg) (w_clock w)))) toks (i_g_begin i) (i_l_begin i)) as [e|bt] eqn:Eb; [discriminate|].
    destruct (pick_period w (time_of_civil (civ (or_default (ce_now cfg) (w_clock w)))) toks (i_g_end i) (i_l_end i)) as [e|et] eqn:Ee; [discriminate|].
    inversion H; subst op; clear H. cbn [op_db op_log op_fmt op_depth op_now op_begin op_end op_rc rc_date].
    repeat split; try reflexivity; assumption.
Qed.

Section Precedence.
  Variables (w : world) (i : invocation) (op : options) (cfg : cfg_entries).
  Hypothesis Hload : load w i = inr op.
  Hypothesis Hcfg : load_config w i = inr cfg.

  Lemma load_inr_cfg :
    op_db op = (if i_no_database i then dev_null else pick_string (i_f_db i) (i_e_db i) (ce_db cfg) default_db) /\
    op_log op = pick_string (i_f_log i) (i_e_log i) (ce_log cfg) default_log /\
    op_fmt op = pick_string (i_f_fmt i) (i_e_fmt i) (ce_fmt cfg) default_fmt /\
    op_depth op = pick_depth (i_f_depth i) (i_e_depth i) (ce_depth cfg) /\
    exists toks, tokenize (op_fmt op) = Some toks /\ rc_date (op_rc op) = toks /\
    match i_f_today i with
    | Some s => exists c, parse_date toks s = Some c /\ op_now op = time_of_civil c
    | None => op_now op = time_of_civil (civ (or_default (ce_now cfg) (w_clock w)))
    end.
  Proof.
    destruct (load_inr_inv w i op Hload) as (cfg' & toks & H0 & H1 & H2 & H3 & H4 & H5 & H6 & H7 & _).
    rewrite Hcfg in H0. inversion H0; subst cfg'.
    repeat split; try assumption. exists toks. repeat split; assumption.
  Qed.

  (** --no-database: the recipe-book path is the null device (fix F24; it used to be the empty name),
      whatever the other sources say *)
  Theorem settings_precedence_no_database : i_no_database i = true -> op_db op = dev_null.
  Proof. intros Hn. destruct load_inr_cfg as (H & _). rewrite Hn in H. exact H. Qed.

  (** recipe-book path: flag, else HR_DATABASE, else the file's DbFileName when not empty, else "food.yaml" *)
  Theorem settings_precedence_db :
    i_no_database i = false ->
    op_db op = or_default (first_some [i_f_db i; i_e_db i; file_string (ce_db cfg)]) default_db.
  Proof. intros Hn. destruct load_inr_cfg as (H & _). rewrite Hn in H. rewrite H. apply pick_string_spec. Qed.

  (** log path: flag, else HR_LOGFILE, else the file's LogFileName when not empty, else "log.yaml" *)
  Theorem settings_precedence_log :
    op_log op = or_default (first_some [i_f_log i; i_e_log i; file_string (ce_log cfg)]) default_log.
  Proof. destruct load_inr_cfg as (_ & H & _). rewrite H. apply pick_string_spec. Qed.

  (** date format: flag, else HR_DATE_FORMAT, else the file's DateFormat when not empty, else "2006/01/02" *)
  Theorem settings_precedence_fmt :
    op_fmt op = or_default (first_some [i_f_fmt i; i_e_fmt i; file_string (ce_fmt cfg)]) default_fmt.
  Proof. destruct load_inr_cfg as (_ & _ & H & _). rewrite H. apply pick_string_spec. Qed.

  (** resolve depth: flag, else HR_MAXDEPTH, else the file's MaxDepth when not 0, else 10 *)
  Theorem settings_precedence_depth :
    op_depth op = or_default (first_some [i_f_depth i; i_e_depth i; nonzero (ce_depth cfg)]) default_depth.
  Proof. destruct load_inr_cfg as (_ & _ & _ & H & _). rewrite H. apply pick_depth_spec. Qed.

  (** current date: --today parsed in the EFFECTIVE layout (the one [op_fmt]
      ended up with), at midnight UTC; else the CALENDAR DAY of the file's Now (in
      its own zone); else the calendar day of the clock -- at midnight UTC as well
      (fix F25; it used to be the instant itself).  No environment variable. *)
  Theorem settings_precedence_now :
    exists toks, tokenize (op_fmt op) = Some toks /\
      match i_f_today i with
      | Some s => exists c, parse_date toks s = Some c /\ op_now op = time_of_civil c
      | None => op_now op = time_of_civil (civ (or_default (first_some [ce_now cfg]) (w_clock w)))
      end.
  Proof.
    destruct load_inr_cfg as (_ & _ & _ & _ & toks & Ht & _ & Hn). exists toks. split; [assumption|].
    destruct (i_f_today i) as [s|]; [assumption|]. rewrite Hn. cbn. destruct (ce_now cfg); reflexivity.
  Qed.

  (** a flag (or environment variable) given as the EMPTY string is still
      "set" and wins over the configuration file and the default; the resulting
      empty name is a file that cannot be opened (fix F24: for the recipe book it
      used to mean "no recipe book"; see [empty_book_name_fails] / [empty_log_name_fails]
      in SettingsNoDb.v) *)
  Theorem empty_flag_still_wins :
    (i_no_database i = false -> i_f_db i = Some [] -> op_db op = []) /\
    (i_f_log i = Some [] -> op_log op = []) /\
    (i_f_fmt i = Some [] -> op_fmt op = []) /\
    (i_no_database i = false -> i_f_db i = None -> i_e_db i = Some [] -> op_db op = []) /\
    (i_f_log i = None -> i_e_log i = Some [] -> op_log op = []).
  Proof.
    repeat split.
    - intros Hn Hf. rewrite (settings_precedence_db Hn), Hf. reflexivity.
    - intros Hf. rewrite settings_precedence_log, Hf. reflexivity.
    - intros Hf. rewrite settings_precedence_fmt, Hf. reflexivity.
    - intros Hn Hf He. rewrite (settings_precedence_db Hn), Hf, He. reflexivity.
    - intros Hf He. rewrite settings_precedence_log, Hf, He. reflexivity.
  Qed.

  (** an EMPTY string / a 0 in the file counts as unset: the chain falls through to the default *)
  Theorem empty_file_entry_is_unset :
    (i_no_database i = false -> i_f_db i = None -> i_e_db i = None -> ce_db cfg = Some [] -> op_db op = default_db) /\
    (i_f_log i = None -> i_e_log i = None -> ce_log cfg = Some [] -> op_log op = default_log) /\
    (i_f_fmt i = None -> i_e_fmt i = None -> ce_fmt cfg = Some [] -> op_fmt op = default_fmt) /\
    (i_f_depth i = None -> i_e_depth i = None -> ce_depth cfg = Some 0%Z -> op_depth op = default_depth).
  Proof.
    repeat split.
    - intros Hn Hf He Hc. rewrite (settings_precedence_db Hn), Hf, He, Hc. reflexivity.
    - intros Hf He Hc. rewrite settings_precedence_log, Hf, He, Hc. reflexivity.
    - intros Hf He Hc. rewrite settings_precedence_fmt, Hf, He, Hc. reflexivity.
    - intros Hf He Hc. rewrite settings_precedence_depth, Hf, He, Hc. reflexivity.
  Qed.
End Precedence.

(** the five equalities in one statement *)
Theorem settings_precedence : forall w i op cfg,
  load w i = inr op -> load_config w i = inr cfg ->
  op_db op = (if i_no_database i then dev_null
              else or_default (first_some [i_f_db i; i_e_db i; file_string (ce_db cfg)]) default_db) /\
  op_log op = or_default (first_some [i_f_log i; i_e_log i; file_string (ce_log cfg)]) default_log /\
  op_fmt op = or_default (first_some [i_f_fmt i; i_e_fmt i; file_string (ce_fmt cfg)]) default_fmt /\
  op_depth op = or_default (first_some [i_f_depth i; i_e_depth i; nonzero (ce_depth cfg)]) default_depth /\
  exists toks, tokenize (op_fmt op) = Some toks /\
    match i_f_today i with
    | Some s => exists c, parse_date toks s = Some c /\ op_now op = time_of_civil c
    | None => op_now op = time_of_civil (civ (or_default (first_some [ce_now cfg]) (w_clock w)))
    end.
Proof.
  intros w i op cfg Hl Hc. repeat split.
  - destruct (i_no_database i) eqn:En.
    + eapply settings_precedence_no_database; eassumption.
    + eapply settings_precedence_db; eassumption.
  - eapply settings_precedence_log; eassumption.
  - eapply settings_precedence_fmt; eassumption.
  - eapply settings_precedence_depth; eassumption.
  - eapply settings_precedence_now; eassumption.
Qed.

(** the other direction for --today: a value that does not parse in the
    effective layout is an error, not a silent fall-back to the clock *)
Theorem today_unparsable_is_error : forall w i cfg toks s,
  load_config w i = inr cfg ->
  tokenize (or_default (first_some [i_f_fmt i; i_e_fmt i; file_string (ce_fmt cfg)]) default_fmt) = Some toks ->
  i_f_today i = Some s -> parse_date toks s = None ->
  load w i = inl EBadDate.
Proof.
  intros w i cfg toks s Hc Ht Hs Hp. unfold load. rewrite Hc, pick_string_spec, Ht, Hs, Hp. reflexivity.
Qed.

(** * fix F25: without --today the current date is a calendar day, exactly as with --today *)

(** the invocation with --today [s] *)
Definition with_today (i : invocation) (s : bytes) : invocation :=
  {| i_f_db := i_f_db i; i_e_db := i_e_db i; i_f_log := i_f_log i; i_e_log := i_e_log i;
     i_f_fmt := i_f_fmt i; i_e_fmt := i_e_fmt i; i_f_depth := i_f_depth i; i_e_depth := i_e_depth i;
     i_f_today := Some s; i_f_config := i_f_config i; i_e_config := i_e_config i;
     i_no_database := i_no_database i;
     i_g_begin := i_g_begin i; i_g_end := i_g_end i; i_l_begin := i_l_begin i; i_l_end := i_l_end i;
     i_g_no_color := i_g_no_color i; i_l_no_color := i_l_no_color i; i_single_food := i_single_food i;
     i_single_element := i_single_element i; i_group_food := i_group_food i; i_csv := i_csv i;
     i_no_totals := i_no_totals i; i_totals_only := i_totals_only i; i_shorten := i_shorten i; i_old := i_old i;
     i_template := i_template i; i_collapse := i_collapse i; i_collapse_last := i_collapse_last i;
     i_desc := i_desc i; i_silent := i_silent i; i_cmd := i_cmd i |}.

(** the loaded current date is the midnight-UTC time of a civil date in all three cases *)
Theorem loaded_now_is_a_day : forall w i op, load w i = inr op -> op_now op = time_of_civil (civ (op_now op)).
Proof.
  intros w i op H. destruct (load_inr_inv w i op H) as (cfg & toks & _ & _ & _ & _ & _ & _ & _ & Hn & _).
  destruct (i_f_today i) as [s|].
  - destruct Hn as (c & _ & ->). destruct c as [[y m] d]. reflexivity.
  - rewrite Hn. destruct (civ (or_default (ce_now cfg) (w_clock w))) as [[y m] d]. reflexivity.
Qed.

(** a world whose clock (or whose configured Now, which wins) shows the civil date D loads the same
    settings as the same invocation with --today D -- for every way [s] of writing D in the effective
    layout.  So the keywords today / yesterday / last7 / last30 and every period computed from the
    current date behave for the clock day exactly as for --today of that day. *)
Theorem clock_day_as_today : forall w i cfg toks s,
  load_config w i = inr cfg ->
  tokenize (or_default (first_some [i_f_fmt i; i_e_fmt i; file_string (ce_fmt cfg)]) default_fmt) = Some toks ->
  i_f_today i = None ->
  parse_date toks s = Some (civ (or_default (first_some [ce_now cfg]) (w_clock w))) ->
  load w i = load w (with_today i s).
Proof.
  intros w i cfg toks s Hc Ht Hn Hp.
  assert (Hc' : load_config w (with_today i s) = inr cfg) by exact Hc.
  assert (E : or_default (first_some [ce_now cfg]) (w_clock w) = or_default (ce_now cfg) (w_clock w))
    by (cbn; destruct (ce_now cfg); reflexivity).
  rewrite E in Hp.
  unfold load. rewrite Hc, Hc'. cbn [with_today i_f_db i_e_db i_f_log i_e_log i_f_fmt i_e_fmt i_f_depth i_e_depth
    i_f_today i_no_database i_g_begin i_g_end i_l_begin i_l_end i_g_no_color i_l_no_color i_single_food
    i_single_element i_group_food i_csv i_no_totals i_totals_only i_shorten i_old i_template i_collapse
    i_collapse_last].
  rewrite pick_string_spec, Ht, Hn, Hp. reflexivity.
Qed.

(** * Examples (all of them hold of the current and of the repaired model) *)
Module SettingsExample.
  Definition cfgfile : cfg_entries :=
    {| ce_db := Some (b "/cfg/db.yaml"); ce_log := Some (b "/cfg/log.yaml"); ce_fmt := Some (b "2006-01-02");
       ce_depth := Some 7%Z; ce_now := Some (time_of_civil (2020, 1, 1)%Z) |}.
  Definition id_oracles : oracles := {| o_resolve := fun l => l; o_day := fun _ l => l; o_flush := fun l => l |}.
  Definition w0 : world :=
    {| w_fs := [(b "/home/u/.hranoprovod/config", FConfig cfgfile); (b "/other/config", FConfig no_cfg)];
       w_default_config := b "/home/u/.hranoprovod/config";
       w_tz := 7200; w_clock := time_of_civil (2026, 10, 1)%Z; w_or := id_oracles; w_sink := None; w_read_fault := [] |}.

  (** an invocation with the settings sources given and everything else off *)
  Definition mk_inv (fdb edb flog elog ffmt efmt : option bytes) (fdep edep : option Z)
                    (ftoday fcfg ecfg : option bytes) (nodb : bool) (cmd : command) : invocation :=
    {| i_f_db := fdb; i_e_db := edb; i_f_log := flog; i_e_log := elog; i_f_fmt := ffmt; i_e_fmt := efmt;
       i_f_depth := fdep; i_e_depth := edep; i_f_today := ftoday; i_f_config := fcfg; i_e_config := ecfg;
       i_no_database := nodb;
       i_g_begin := None; i_g_end := None; i_l_begin := None; i_l_end := None;
       i_g_no_color := false; i_l_no_color := false; i_single_food := []; i_single_element := [];
       i_group_food := false; i_csv := false; i_no_totals := false; i_totals_only := false;
       i_shorten := false; i_old := false; i_template := None; i_collapse := false; i_collapse_last := false;
       i_desc := false; i_silent := false; i_cmd := cmd |}.

  (** The file gives all five settings; the environment gives HR_DATABASE
      (loses to the flag) and HR_DATE_FORMAT (beats the file); the command
      line gives -d.  The log path, the depth and Now come from the file. *)
  Definition i0 : invocation :=
    mk_inv (Some (b "flag.yaml")) (Some (b "env-db.yaml")) None None None (Some (b "02.01.2006"))
           None None None None None false CReg.

  Example ex_load_config : load_config w0 i0 = inr cfgfile.
  Proof. vm_compute. reflexivity. Qed.

  Example ex_settings :
    exists op, load w0 i0 = inr op /\
      op_db op = b "flag.yaml" /\ op_fmt op = b "02.01.2006" /\
      op_log op = or_default (file_string (Some (b "/cfg/log.yaml"))) default_log /\
      op_depth op = 7%Z /\ op_now op = time_of_civil (2020, 1, 1)%Z.
  Proof. eexists. split; [vm_compute; reflexivity|]. vm_compute. repeat split. Qed.

  (** nothing but the defaults when no source says anything and there is no default file *)
  Definition w_bare : world :=
    {| w_fs := []; w_default_config := b "/home/u/.hranoprovod/config";
       w_tz := 0; w_clock := time_of_civil (2026, 10, 1)%Z; w_or := id_oracles; w_sink := None; w_read_fault := [] |}.
  Definition i_bare : invocation := mk_inv None None None None None None None None None None None false CReg.
  Example ex_defaults :
    exists op, load w_bare i_bare = inr op /\
      op_db op = b "food.yaml" /\ op_log op = b "log.yaml" /\ op_fmt op = b "2006/01/02" /\
      op_depth op = 10%Z /\ op_now op = time_of_civil (2026, 10, 1)%Z.
  Proof. eexists. split; [vm_compute; reflexivity|]. cbn. repeat split. Qed.

  (** --today is read in the effective layout (here from HR_DATE_FORMAT); HR_CONFIG names the file;
      empty / 0 entries of the file are unset; HR_MAXDEPTH beats the file *)
  Definition w1 : world :=
    {| w_fs := [(b "/x/cfg", FConfig {| ce_db := Some []; ce_log := None; ce_fmt := None;
                                         ce_depth := Some 0%Z; ce_now := Some (time_of_civil (2020, 1, 1)%Z) |})];
       w_default_config := b "/home/u/.hranoprovod/config";
       w_tz := 0; w_clock := time_of_civil (2026, 10, 1)%Z; w_or := id_oracles; w_sink := None; w_read_fault := [] |}.
  Definition i1 : invocation :=
    mk_inv None None None None None (Some (b "02.01.2006")) None (Some 3%Z) (Some (b "24.12.2021")) None
           (Some (b "/x/cfg")) false CReg.
  Example ex_today_env_config :
    exists op, load w1 i1 = inr op /\
      op_db op = b "food.yaml" /\ op_fmt op = b "02.01.2006" /\ op_depth op = 3%Z /\
      op_now op = time_of_civil (2021, 12, 24)%Z.
  Proof. eexists. split; [vm_compute; reflexivity|]. cbn. repeat split. Qed.

  (** --today that does not parse in the effective layout *)
  Example ex_today_bad :
    load w1 (mk_inv None None None None None (Some (b "02.01.2006")) None None (Some (b "2021/12/24")) None
                    (Some (b "/x/cfg")) false CReg) = inl EBadDate.
  Proof. vm_compute. reflexivity. Qed.

  (** explicit configuration file that does not exist: error; the same world without naming it: fine *)
  Example ex_missing_explicit :
    load w_bare (mk_inv None None None None None None None None None (Some (b "/nope")) None false CReg)
    = inl EConfigMissing.
  Proof. vm_compute. reflexivity. Qed.

  (** -d "" is "set": it overrides the file and the default (the empty name is a file that cannot be opened) *)
  Example ex_empty_flag :
    exists op, load w0 (mk_inv (Some []) None None None None (Some (b "2006/01/02")) None None None None None false CReg)
               = inr op /\ op_db op = [].
  Proof. eexists. split; [vm_compute; reflexivity|]. reflexivity. Qed.

  (** fix F25: a clock late in the evening of 2026/10/01 in a zone two hours east of UTC (the instant is already
      past 22:00 UTC): the current date is the calendar day of the clock, as with --today 2026/10/01 *)
  Definition w_evening : world :=
    {| w_fs := []; w_default_config := b "/home/u/.hranoprovod/config"; w_tz := 7200;
       w_clock := {| inst := inst (time_of_civil (2026, 10, 1)%Z) + 79200000000000; off := 7200; civ := (2026, 10, 1)%Z |};
       w_or := id_oracles; w_sink := None; w_read_fault := [] |}.
  Example ex_clock_day_as_today :
    load w_evening i_bare = load w_evening (with_today i_bare (b "2026/10/01"))
    /\ exists op, load w_evening i_bare = inr op /\ op_now op = time_of_civil (2026, 10, 1)%Z.
  Proof.
    split.
    - eapply clock_day_as_today; [vm_compute; reflexivity|vm_compute; reflexivity|reflexivity|vm_compute; reflexivity].
    - eexists. split; [vm_compute; reflexivity|]. vm_compute. reflexivity.
  Qed.
End SettingsExample.
