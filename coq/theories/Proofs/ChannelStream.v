(** WP18 / C18, part 2: what [ParseStream] / [ParseFile] send, related to the
    callback parser, and the end-to-end statements obtained by instantiating
    the schedule-generic theorems of [ChannelLTS] with [stream_sends]. *)
From Coq Require Import List Arith Lia.
From HP Require Import Base.Bytes Base.Num Model.Scanner Model.Parser Model.Channel.
From HP Require Import Proofs.ChannelLTS.
Import ListNotations.
Local Open Scope nat_scope.
Local Open Scope list_scope.

Section ChannelStream.
  Context (NM : Num).

  Notation msg := (msg NM).
  Notation state := (state NM).
  Notation pending := (pending NM).
  Notation obs := (obs NM).
  Notation cons := (cons NM).
  Notation ptau := (ptau NM).
  Notation ctau := (ctau NM).
  Notation step := (step NM).
  Notation reachable := (reachable NM).
  Notation init := (init NM).
  Notation after_receive := (after_receive NM).
  Notation spec := (spec NM).
  Notation run_consumer := (run_consumer NM).
  Notation stream_sends := (stream_sends NM).
  Notation file_sends := (file_sends NM).
  Notation pnode := (pnode NM).
  Notation event := (event NM).

  (** ** The callback parser used as the reference

      [ParseStreamCallback] with the callback that collects the records and
      stops at the first error, returning it. *)
  Definition collect_cb (acc : list pnode) (ev : event) : list pnode * bool * option perr :=
    match ev with
    | ENode n => (acc ++ [n], false, None)
    | EErr e => (acc, true, Some e)
    end.

  (** the records the callback parser reports before its first error, and the
      error [ParseStreamCallback] returns ([inl] a parse error, [inr] the
      scanner's error), [None] when it returns nil *)
  Definition callback_result (data : bytes) (f : read_fault) : list pnode * option (perr + scan_end) :=
    parse_stream NM collect_cb data f [].

  Definition lift_err (e : perr + scan_end) : cherr :=
    match e with inl pe => ChParse pe | inr se => ChScan se end.

  (** the message that ends the documented receive loop *)
  Definition closing (r : option (perr + scan_end)) : msg :=
    match r with None => MDone | Some e => MErr (lift_err e) end.

  Definition err_msgs (r : option (perr + scan_end)) : list msg :=
    match r with None => [] | Some e => [MErr (lift_err e)] end.

  (** purely list-level description of the callback parser's result *)
  Fixpoint nodes_before_error (evs : list event) : list pnode :=
    match evs with
    | ENode n :: r => n :: nodes_before_error r
    | _ => []
    end.

  Fixpoint first_error (evs : list event) : option perr :=
    match evs with
    | [] => None
    | ENode _ :: r => first_error r
    | EErr e :: _ => Some e
    end.

  (** the events the callback is offered: those of the loop, then the last
      open record, but the latter only when the scanner ended without error *)
  Definition offered_events (data : bytes) (f : read_fault) : list event :=
    let '(lines, fin) := scan data f in
    let '(evs, last) := parse_lines NM lines in
    evs ++ match fin, last with ScanEOF, Some n => [ENode n] | _, _ => [] end.

  Definition scan_error (data : bytes) (f : read_fault) : option scan_end :=
    match snd (scan data f) with ScanEOF => None | se => Some se end.

  Definition is_err (m : msg) : bool := match m with MErr _ => true | _ => false end.
  Definition count_errs (l : list msg) : nat := length (filter is_err l).

  (** ** simulation between the channel callback and the collecting callback *)

  Lemma drive_loop_chan_collect : forall evs acc,
    drive_loop NM (chan_cb NM) evs (map MNode acc) =
    (map MNode (fst (drive_loop NM collect_cb evs acc)),
     option_map (option_map ChParse) (snd (drive_loop NM collect_cb evs acc))).
  Proof.
    induction evs as [|ev r IH]; intros acc; [reflexivity|].
    destruct ev as [n|e]; cbn [drive_loop chan_cb collect_cb].
    - replace (map MNode acc ++ [MNode n]) with (map (@MNode NM) (acc ++ [n])) by (now rewrite map_app).
      apply IH.
    - reflexivity.
  Qed.

  Lemma drive_chan_collect : forall evs last fin acc,
    drive NM (chan_cb NM) evs last fin (map MNode acc) =
    (map MNode (fst (drive NM collect_cb evs last fin acc)),
     option_map (fun e => match e with inl pe => inl (ChParse pe) | inr se => inr se end)
                (snd (drive NM collect_cb evs last fin acc))).
  Proof.
    intros evs last fin acc. unfold drive. rewrite drive_loop_chan_collect.
    destruct (drive_loop NM collect_cb evs acc) as [acc' [[e|]|]]; cbn [fst snd option_map]; try reflexivity.
    destruct fin; try reflexivity.
    destruct last as [n|]; [|reflexivity].
    cbn [chan_cb collect_cb fst snd option_map]. now rewrite map_app.
  Qed.

  Lemma parse_stream_chan_collect : forall data f,
    parse_stream NM (chan_cb NM) data f [] =
    (map MNode (fst (callback_result data f)),
     option_map (fun e => match e with inl pe => inl (ChParse pe) | inr se => inr se end)
                (snd (callback_result data f))).
  Proof.
    intros data f. unfold callback_result, parse_stream.
    destruct (scan data f) as [lines fin]. destruct (parse_lines NM lines) as [evs last].
    exact (drive_chan_collect evs last fin []).
  Qed.

  (** ** the shape of [stream_sends] *)

  Theorem stream_sends_callback : forall data f,
    stream_sends data f =
    map MNode (fst (callback_result data f)) ++ err_msgs (snd (callback_result data f)) ++ [MDone].
  Proof.
    intros data f. unfold Channel.stream_sends. rewrite parse_stream_chan_collect.
    destruct (callback_result data f) as [nodes [[pe|se]|]]; reflexivity.
  Qed.

  Lemma map_MNode_continuing : forall p (l : list pnode), Forall (continuing NM p) (map MNode l).
  Proof. intros p l. induction l as [|n r IH]; constructor; [destruct p; reflexivity | exact IH]. Qed.

  Lemma MDone_returning : forall p, returning NM p (@MDone NM).
  Proof. intros p. destruct p; reflexivity. Qed.

  Lemma MErr_returning_stop : forall e, returning NM StopAtFirstError (@MErr NM e).
  Proof. reflexivity. Qed.

  Lemma MErr_continuing_drain : forall e, continuing NM DrainUntilDone (@MErr NM e).
  Proof. reflexivity. Qed.

  Lemma err_msgs_continuing_drain : forall r, Forall (continuing NM DrainUntilDone) (err_msgs r).
  Proof. intros [e|]; repeat constructor. Qed.

  Lemma stream_sends_has_returning : forall p data f, has_returning NM p (stream_sends data f).
  Proof.
    intros p data f. exists MDone. split; [|apply MDone_returning].
    rewrite stream_sends_callback. apply in_or_app. right. apply in_or_app. right. left. reflexivity.
  Qed.

  (** ** the callback parser's result in terms of the event list *)

  Lemma drive_loop_collect : forall evs acc,
    drive_loop NM collect_cb evs acc =
    (acc ++ nodes_before_error evs, option_map Some (first_error evs)).
  Proof.
    induction evs as [|ev r IH]; intros acc.
    - cbn. now rewrite app_nil_r.
    - destruct ev as [n|e]; cbn [drive_loop collect_cb nodes_before_error first_error option_map].
      + rewrite IH, <- app_assoc. reflexivity.
      + now rewrite app_nil_r.
  Qed.

  Lemma nodes_before_error_app : forall evs evs',
    nodes_before_error (evs ++ evs') =
    nodes_before_error evs ++ match first_error evs with Some _ => [] | None => nodes_before_error evs' end.
  Proof.
    induction evs as [|ev r IH]; intros evs'; [reflexivity|].
    destruct ev as [n|e]; cbn [app nodes_before_error first_error]; [now rewrite IH | reflexivity].
  Qed.

  Lemma first_error_app : forall evs evs',
    first_error (evs ++ evs') = match first_error evs with Some e => Some e | None => first_error evs' end.
  Proof.
    induction evs as [|ev r IH]; intros evs'; [reflexivity|].
    destruct ev as [n|e]; cbn [app first_error]; [apply IH | reflexivity].
  Qed.

  (** [ParseStreamCallback] with the collecting callback returns: the records
      among the offered events up to the first error event; that error, else
      the scanner's error, else nil *)
  Theorem callback_result_events : forall data f,
    callback_result data f =
    (nodes_before_error (offered_events data f),
     match first_error (offered_events data f) with
     | Some e => Some (inl e)
     | None => option_map inr (scan_error data f)
     end).
  Proof.
    intros data f. unfold callback_result, parse_stream, offered_events, scan_error.
    destruct (scan data f) as [lines fin]. destruct (parse_lines NM lines) as [evs last]. cbn [snd].
    unfold drive. rewrite drive_loop_collect. cbn [app].
    rewrite nodes_before_error_app, first_error_app.
    destruct (first_error evs) as [e|]; cbn [option_map]; [now rewrite app_nil_r|].
    destruct fin; cbn [option_map]; try (now rewrite app_nil_r).
    destruct last as [n|]; cbn [collect_cb nodes_before_error first_error option_map];
      [reflexivity | now rewrite app_nil_r].
  Qed.

  (** for a readable input without over-long line the offered events are
      [events data] *)
  Lemma offered_events_events : forall data,
    snd (scan data NoFault) = ScanEOF -> offered_events data NoFault = events NM data.
  Proof.
    intros data H. unfold offered_events, events.
    destruct (scan data NoFault) as [lines fin]. cbn [fst snd] in *. subst fin.
    destruct (parse_lines NM lines) as [evs last]. reflexivity.
  Qed.

  (** ** documented_loop_sees_callback_result *)

  Theorem documented_loop_sees_callback_result : forall data f,
    spec StopAtFirstError (stream_sends data f) =
    map MNode (fst (callback_result data f)) ++ [closing (snd (callback_result data f))].
  Proof.
    intros data f. rewrite stream_sends_callback.
    destruct (snd (callback_result data f)) as [e|]; cbn [err_msgs closing app].
    - apply spec_at_returning; [apply map_MNode_continuing | apply MErr_returning_stop].
    - apply spec_at_returning; [apply map_MNode_continuing | apply MDone_returning].
  Qed.

  (** the same, with the callback parser's result spelt out on the events *)
  Theorem documented_loop_events : forall data f,
    spec StopAtFirstError (stream_sends data f) =
    map MNode (nodes_before_error (offered_events data f)) ++
    [match first_error (offered_events data f) with
     | Some e => MErr (ChParse e)
     | None => match scan_error data f with Some se => MErr (ChScan se) | None => MDone end
     end].
  Proof.
    intros data f. rewrite documented_loop_sees_callback_result, callback_result_events. cbn [fst snd].
    destruct (first_error (offered_events data f)) as [e|]; [reflexivity|].
    destruct (scan_error data f) as [se|]; reflexivity.
  Qed.

  Corollary documented_loop_complete_file : forall data,
    snd (scan data NoFault) = ScanEOF ->
    spec StopAtFirstError (stream_sends data NoFault) =
    map MNode (nodes_before_error (events NM data)) ++
    [match first_error (events NM data) with Some e => MErr (ChParse e) | None => MDone end].
  Proof.
    intros data H. rewrite documented_loop_events, (offered_events_events data H).
    unfold scan_error. rewrite H. reflexivity.
  Qed.

  (** ** drain_sees_each_error_once: the list-level part *)

  Lemma count_errs_app : forall l l', count_errs (l ++ l') = count_errs l + count_errs l'.
  Proof. intros l l'. unfold count_errs. now rewrite filter_app, app_length. Qed.

  Lemma count_errs_nodes : forall l : list pnode, count_errs (map MNode l) = 0.
  Proof. induction l as [|n r IH]; [reflexivity | exact IH]. Qed.

  Lemma not_In_MDone_nodes : forall l : list pnode, ~ In (@MDone NM) (map MNode l).
  Proof. induction l as [|n r IH]; intros H; [exact H | destruct H as [H|H]; [discriminate | exact (IH H)]]. Qed.

  Theorem drain_spec_stream : forall data f,
    spec DrainUntilDone (stream_sends data f) = stream_sends data f /\
    count_errs (stream_sends data f) <= 1 /\
    (count_errs (stream_sends data f) = 1 <-> snd (callback_result data f) <> None) /\
    exists pre, stream_sends data f = pre ++ [MDone] /\ ~ In MDone pre /\
                Forall (continuing NM DrainUntilDone) pre.
  Proof.
    intros data f.
    assert (Hpre : Forall (continuing NM DrainUntilDone)
                     (map MNode (fst (callback_result data f)) ++ err_msgs (snd (callback_result data f)))).
    { apply Forall_app. split; [apply map_MNode_continuing | apply err_msgs_continuing_drain]. }
    rewrite stream_sends_callback. rewrite app_assoc. split; [|split; [|split]].
    - rewrite spec_at_returning; [reflexivity | exact Hpre | apply MDone_returning].
    - rewrite !count_errs_app, count_errs_nodes. destruct (snd (callback_result data f)); cbn; lia.
    - rewrite !count_errs_app, count_errs_nodes.
      destruct (snd (callback_result data f)); cbn; split; intros H; try lia; try discriminate; congruence.
    - eexists. split; [reflexivity|]. split; [|exact Hpre].
      intros H. apply in_app_or in H. destruct H as [H|H]; [exact (not_In_MDone_nodes _ H)|].
      destruct (snd (callback_result data f)); cbn in H; [destruct H as [H|[]]; discriminate | exact H].
  Qed.

  (** ** End-to-end statements: every schedule, every budget *)

  (** The documented receive loop on [ParseStream]: whatever the interleaving,
      a run that cannot be extended has the consumer returned, having
      observed exactly the callback parser's records before its first error,
      then that error or Done.  (Together with [termination] /
      [no_infinite_schedule] of [ChannelLTS]: every schedule is finite, so
      the consumer terminates.)  The last conjunct records what is left in
      the producer: nothing after a clean run, the unsendable [Done] after an
      error (see the report: the producer goroutine then blocks forever). *)
  Theorem documented_loop_end_to_end : forall data f pt ct s,
    reachable StopAtFirstError (init (stream_sends data f) pt ct) s ->
    maximal NM StopAtFirstError s ->
    cons s = Returned /\
    obs s = map MNode (fst (callback_result data f)) ++ [closing (snd (callback_result data f))] /\
    pending s = match snd (callback_result data f) with None => [] | Some _ => [MDone] end.
  Proof.
    intros data f pt ct s H Hmax.
    destruct (final_spec NM _ _ _ _ _ H Hmax) as [Ho [Hp [_ [Hr _]]]].
    split; [exact (Hr (stream_sends_has_returning _ data f))|].
    split; [rewrite Ho; apply documented_loop_sees_callback_result|].
    rewrite Hp, stream_sends_callback.
    destruct (snd (callback_result data f)) as [e|]; cbn [err_msgs app].
    - rewrite run_consumer_at_returning; [reflexivity | apply map_MNode_continuing | apply MErr_returning_stop].
    - rewrite run_consumer_at_returning; [reflexivity | apply map_MNode_continuing | apply MDone_returning].
  Qed.

  (** The draining consumer on [ParseStream]: in every maximal run it has
      returned, has seen everything that was sent -- the records, the error
      (at most one [MErr], exactly one iff the callback parser returns an
      error) and a final [MDone] -- and the producer has nothing left to
      send, i.e. the goroutine runs off the end of [ParseStream]. *)
  Theorem drain_sees_each_error_once : forall data f pt ct s,
    reachable DrainUntilDone (init (stream_sends data f) pt ct) s ->
    maximal NM DrainUntilDone s ->
    cons s = Returned /\
    pending s = [] /\
    obs s = stream_sends data f /\
    obs s = map MNode (fst (callback_result data f)) ++ err_msgs (snd (callback_result data f)) ++ [MDone] /\
    count_errs (obs s) <= 1 /\
    (count_errs (obs s) = 1 <-> snd (callback_result data f) <> None).
  Proof.
    intros data f pt ct s H Hmax.
    destruct (final_spec NM _ _ _ _ _ H Hmax) as [Ho [_ [_ [Hr _]]]].
    destruct (drain_spec_stream data f) as [Hs [Hc [Hc1 _]]].
    rewrite Hs in Ho.
    destruct (safety NM _ _ _ _ _ H) as [Hsends _]. rewrite Ho in Hsends.
    assert (Hp : pending s = []).
    { rewrite <- (app_nil_r (stream_sends data f)) in Hsends at 1. exact (eq_sym (app_inv_head _ _ _ Hsends)). }
    split; [exact (Hr (stream_sends_has_returning _ data f))|].
    split; [exact Hp|]. split; [exact Ho|]. rewrite Ho.
    split; [apply stream_sends_callback|]. split; assumption.
  Qed.

  (** at every moment of every schedule the documented loop has observed a
      prefix of the callback parser's result *)
  Theorem documented_loop_safety : forall data f pt ct s,
    reachable StopAtFirstError (init (stream_sends data f) pt ct) s ->
    is_prefix NM (obs s)
      (map MNode (fst (callback_result data f)) ++ [closing (snd (callback_result data f))]).
  Proof.
    intros data f pt ct s H. rewrite <- documented_loop_sees_callback_result.
    exact (proj1 (proj2 (safety NM _ _ _ _ _ H))).
  Qed.

  (** no consumer of [ParseStream] following either policy is ever left
      waiting on channels nobody will send on *)
  Theorem stream_no_deadlock : forall p data f pt ct s,
    reachable p (init (stream_sends data f) pt ct) s -> ~ deadlocked NM s.
  Proof.
    intros p data f pt ct s H D.
    destruct (deadlock_only_without_returning NM _ _ _ _ _ H D) as [Hn _].
    exact (Hn (stream_sends_has_returning p data f)).
  Qed.

  (** ** [ParseFile]

      After repair F23 an unreadable path sends the I/O error AND Done
      ([file_sends None = [MErr ChIO; MDone]]), as [ParseStream] does after every
      other error: every [ParseFile], readable or not, now contains the
      returning message of both policies. *)

  Lemma file_sends_unreadable : file_sends None = [MErr ChIO; MDone].
  Proof. reflexivity. Qed.

  Lemma file_sends_unreadable_stop : has_returning NM StopAtFirstError (file_sends None).
  Proof. exists (MErr ChIO). split; [left; reflexivity | reflexivity]. Qed.

  Lemma file_sends_unreadable_drain_returning : has_returning NM DrainUntilDone (file_sends None).
  Proof. exists MDone. split; [right; left; reflexivity | reflexivity]. Qed.

  Lemma file_sends_unreadable_has_returning : forall p, has_returning NM p (file_sends None).
  Proof. intros [|]; [apply file_sends_unreadable_stop | apply file_sends_unreadable_drain_returning]. Qed.

  Lemma file_sends_has_returning : forall p content, has_returning NM p (file_sends content).
  Proof.
    intros p [[d f]|]; [apply stream_sends_has_returning | apply file_sends_unreadable_has_returning].
  Qed.

  Lemma file_sends_has_returning_stop : forall content, has_returning NM StopAtFirstError (file_sends content).
  Proof. intros content. apply file_sends_has_returning. Qed.

  (** every [ParseFile] ends with its only [MDone], and everything before it
      lets the draining consumer go on *)
  Lemma file_sends_ends_in_done : forall content,
    exists pre, file_sends content = pre ++ [MDone] /\ ~ In MDone pre /\
                Forall (continuing NM DrainUntilDone) pre.
  Proof.
    intros [[d f]|].
    - destruct (drain_spec_stream d f) as [_ [_ [_ H]]]. exact H.
    - exists [MErr ChIO]. split; [reflexivity|]. split.
      + intros [H|[]]; discriminate.
      + repeat constructor.
  Qed.

  (** the error a [ParseFile] reports: the I/O error of an unreadable path, else
      the callback parser's error *)
  Definition file_error (content : option (bytes * read_fault)) : option cherr :=
    match content with
    | None => Some ChIO
    | Some (d, f) => option_map lift_err (snd (callback_result d f))
    end.

  Definition file_nodes (content : option (bytes * read_fault)) : list pnode :=
    match content with
    | None => []
    | Some (d, f) => fst (callback_result d f)
    end.

  Definition cherr_msgs (e : option cherr) : list msg :=
    match e with None => [] | Some e => [MErr e] end.

  Theorem file_sends_shape : forall content,
    file_sends content = map MNode (file_nodes content) ++ cherr_msgs (file_error content) ++ [MDone].
  Proof.
    intros [[d f]|]; [|reflexivity]. cbn [Channel.file_sends file_nodes file_error].
    rewrite stream_sends_callback. destruct (snd (callback_result d f)) as [e|]; reflexivity.
  Qed.

  (** the documented loop terminates on every [ParseFile], readable or not *)
  Theorem documented_loop_file : forall content pt ct s,
    reachable StopAtFirstError (init (file_sends content) pt ct) s ->
    maximal NM StopAtFirstError s ->
    cons s = Returned /\
    obs s = match content with
            | None => [MErr ChIO]
            | Some (d, f) => map MNode (fst (callback_result d f)) ++ [closing (snd (callback_result d f))]
            end.
  Proof.
    intros content pt ct s H Hmax.
    destruct (consumer_returns NM _ _ _ _ _ H Hmax (file_sends_has_returning_stop content)) as [Hc Ho].
    split; [exact Hc|]. rewrite Ho. destruct content as [[d f]|]; [|reflexivity].
    apply documented_loop_sees_callback_result.
  Qed.

  (** ... and, as after every [ParseStream] error, the consumer that returns at
      the error leaves the producer holding the [MDone] it can never deliver:
      after F23 this is so for the unreadable path too (before, the producer
      had exited) *)
  Theorem documented_loop_file_pending : forall content pt ct s,
    reachable StopAtFirstError (init (file_sends content) pt ct) s ->
    maximal NM StopAtFirstError s ->
    pending s = match file_error content with None => [] | Some _ => [MDone] end.
  Proof.
    intros content pt ct s H Hmax.
    destruct (final_spec NM _ _ _ _ _ H Hmax) as [_ [Hp _]]. rewrite Hp.
    destruct content as [[d f]|]; [|reflexivity].
    cbn [Channel.file_sends file_error]. rewrite stream_sends_callback.
    destruct (snd (callback_result d f)) as [e|]; cbn [err_msgs app option_map].
    - rewrite run_consumer_at_returning; [reflexivity | apply map_MNode_continuing | apply MErr_returning_stop].
    - rewrite run_consumer_at_returning; [reflexivity | apply map_MNode_continuing | apply MDone_returning].
  Qed.

  (** no consumer of [ParseFile] following either policy is ever left waiting on
      channels nobody will send on: for every content, readable or not *)
  Theorem file_no_deadlock : forall p content pt ct s,
    reachable p (init (file_sends content) pt ct) s -> ~ deadlocked NM s.
  Proof.
    intros p content pt ct s H D.
    destruct (deadlock_only_without_returning NM _ _ _ _ _ H D) as [Hn _].
    exact (Hn (file_sends_has_returning p content)).
  Qed.

  (** the draining consumer on every [ParseFile]: in every maximal run it has
      returned, the producer has nothing left to send, and the consumer has
      seen all that was sent: the records, at most one error (exactly one iff
      the path is unreadable or the callback parser returns an error), Done *)
  Theorem drain_file : forall content pt ct s,
    reachable DrainUntilDone (init (file_sends content) pt ct) s ->
    maximal NM DrainUntilDone s ->
    cons s = Returned /\
    pending s = [] /\
    obs s = file_sends content /\
    obs s = map MNode (file_nodes content) ++ cherr_msgs (file_error content) ++ [MDone] /\
    count_errs (obs s) <= 1 /\
    (count_errs (obs s) = 1 <-> file_error content <> None) /\
    ~ deadlocked NM s.
  Proof.
    intros content pt ct s H Hmax.
    destruct (final_spec NM _ _ _ _ _ H Hmax) as [Ho [_ [_ [Hr _]]]].
    destruct (file_sends_ends_in_done content) as [pre [E [_ Hpre]]].
    assert (Hs : spec DrainUntilDone (file_sends content) = file_sends content).
    { rewrite E. rewrite spec_at_returning; [reflexivity | exact Hpre | apply MDone_returning]. }
    rewrite Hs in Ho.
    destruct (safety NM _ _ _ _ _ H) as [Hsends _]. rewrite Ho in Hsends.
    assert (Hp : pending s = []).
    { rewrite <- (app_nil_r (file_sends content)) in Hsends at 1. exact (eq_sym (app_inv_head _ _ _ Hsends)). }
    split; [exact (Hr (file_sends_has_returning _ content))|].
    split; [exact Hp|]. split; [exact Ho|]. rewrite Ho.
    split; [apply file_sends_shape|]. rewrite file_sends_shape.
    rewrite !count_errs_app, count_errs_nodes.
    split; [destruct (file_error content); cbn; lia|].
    split; [|exact (file_no_deadlock _ _ _ _ _ H)].
    destruct (file_error content); cbn; split; intros H1; try lia; try discriminate; congruence.
  Qed.

  (** the unreadable path under [DrainUntilDone] (before F23: a deadlock): the
      consumer sees the I/O error once and then Done, returns, the producer
      has exited, and there is no deadlock *)
  Theorem drain_unreadable_file_terminates : forall pt ct s,
    reachable DrainUntilDone (init (file_sends None) pt ct) s ->
    maximal NM DrainUntilDone s ->
    cons s = Returned /\ obs s = [MErr ChIO; MDone] /\ pending s = [] /\ ~ deadlocked NM s.
  Proof.
    intros pt ct s H Hmax.
    destruct (drain_file None pt ct s H Hmax) as [Hc [Hp [Ho [_ [_ [_ Hd]]]]]].
    repeat split; assumption.
  Qed.

  (** ... and no deadlock at ANY moment of any schedule on the unreadable path,
      under either policy (the negation of the old
      [drain_unreadable_file_deadlock_reachable]) *)
  Theorem unreadable_file_no_deadlock_reachable : forall p pt ct,
    ~ exists s, reachable p (init (file_sends None) pt ct) s /\ deadlocked NM s.
  Proof. intros p pt ct [s [Hr Hd]]. exact (file_no_deadlock p None pt ct s Hr Hd). Qed.

  (** the unreadable path under the documented loop: the consumer returns at
      the error; the producer stays blocked on Done *)
  Theorem stop_unreadable_file : forall pt ct s,
    reachable StopAtFirstError (init (file_sends None) pt ct) s ->
    maximal NM StopAtFirstError s ->
    cons s = Returned /\ obs s = [MErr ChIO] /\ pending s = [MDone].
  Proof.
    intros pt ct s H Hmax.
    destruct (documented_loop_file None pt ct s H Hmax) as [Hc Ho].
    pose proof (documented_loop_file_pending None pt ct s H Hmax) as Hp.
    repeat split; assumption.
  Qed.
End ChannelStream.
