(** WP08: in binary64 the two conservation statements need the monoid laws:
    concrete logs where they fail bit-for-bit (rounding of 2^53 + 1). *)
From HP Require Import Base.Bytes Base.Num Base.GoFloat Model.Elements Model.Tree Model.Reporters Model.Dates.
From HP Require Import Spec.TreeShared Spec.TreeSpec.
Open Scope string_scope.

Definition big : f64 := f_of_Z (2 ^ 53).
Definition one64 : f64 := f_of_Z 1.

(** a/x: 2^53, a/y: 1, and a/y: 1 again on a later day *)
Definition fex : list (bytes * T B64) := [(b "a/x", big); (b "a/y", one64); (b "a/y", one64)].

(** the node "a" shows 2^53 (each +1 is rounded away) but its children sum to 2^53 + 2 *)
Example parent_is_own_plus_children_float_refuted :
  bits_of (total_at B64 fex [b "a"]) = bits_of (f_of_Z (2 ^ 53)) /\
  bits_of (add B64 (own B64 fex [b "a"])
             (sum_r B64 (map (fun c => total_at B64 fex ([b "a"] ++ [c])) [b "x"; b "y"])))
    = bits_of (f_of_Z (2 ^ 53 + 2)) /\
  total_at B64 fex [b "a"] <>
  add B64 (own B64 fex [b "a"]) (sum_r B64 (map (fun c => total_at B64 fex ([b "a"] ++ [c])) [b "x"; b "y"])).
Proof.
  split; [vm_compute; reflexivity|]. split; [vm_compute; reflexivity|].
  intro H. apply (f_equal bits_of) in H. vm_compute in H. discriminate.
Qed.

(** the single-element balance: grand total 2^53, top-level rows 2^53 and 2 *)
Definition fdb : list (bytes * elements B64) := [(b "p", [(b "k", one64)]); (b "q", [(b "k", one64)])].
Definition fday1_elems : elements B64 := [(b "p", big); (b "q", one64)].
Definition fday2_elems : elements B64 := [(b "q", one64)].
Definition fdays : list (lognode B64) :=
  [Build_lognode B64 zero_time fday1_elems None; Build_lognode B64 (add_days zero_time 1) fday2_elems None].
Definition fcfg : rconfig :=
  {| rc_color := false; rc_totals_only := false; rc_totals := false; rc_date := [];
     rc_single_element := b "k"; rc_single_food := []; rc_collapse_last := false; rc_collapse := false;
     rc_group_food := false; rc_shorten := false; rc_old := false; rc_template := []; rc_csv := false |}.

Example single_total_is_sum_of_top_float_refuted :
  let st := bal_single_run B64 fcfg fdb (fun _ l => l) fdays in
  bits_of (snd st) = bits_of (f_of_Z (2 ^ 53)) /\
  map (fun c => (t_name B64 c, bits_of (t_total B64 c))) (t_children B64 (fst st))
    = [(b "p", bits_of (f_of_Z (2 ^ 53))); (b "q", bits_of (f_of_Z 2))] /\
  snd st <> sum_r B64 (map (t_total B64) (t_children B64 (fst st))).
Proof.
  split; [vm_compute; reflexivity|]. split; [vm_compute; reflexivity|].
  intro H. apply (f_equal bits_of) in H. vm_compute in H. discriminate.
Qed.
Print Assumptions parent_is_own_plus_children_float_refuted.
Print Assumptions single_total_is_sum_of_top_float_refuted.
