(** WP06 (C02) – non-vacuity: concrete days run through the model and through the
    specification ([ZNum] exact integers; [B64] for the sign-of-zero corner). *)
From Coq Require Import Permutation Sorted SpecFloat.
From HP Require Import Base.Bytes Base.Num Base.GoFloat Model.Elements Model.Dates Model.Tree Model.Writer Model.Reporters.
From HP Require Import Spec.RegisterSpec Proofs.RegisterSort Proofs.RegisterAssoc Proofs.Register Proofs.RegisterExtra.

(** an order oracle that is not the identity *)
Lemma rev_oracle : oracle (@rev bytes).
Proof. intro l. apply Permutation_sym, Permutation_rev. Qed.

Definition cfg (totals_only totals : bool) : rconfig :=
  {| rc_color := false; rc_totals_only := totals_only; rc_totals := totals; rc_date := iso_date;
     rc_single_element := []; rc_single_food := []; rc_collapse_last := false; rc_collapse := false;
     rc_group_food := false; rc_shorten := false; rc_old := false; rc_template := []; rc_csv := false |}.

(** the day: soup twice (2 + 3), salt twice (-1 + 4) and also an ingredient of
    soup and of "neg" (contributions of both signs), water direct and from soup,
    "mystery" unknown to the book (logged with 0), "air" an empty recipe,
    "neg" logged with a negative quantity *)
Definition es : list (bytes * Z) :=
  [(b "soup", 2); (b "salt", -1); (b "soup", 3); (b "water", 5); (b "salt", 4);
   (b "mystery", 0); (b "air", 7); (b "neg", -2)]%Z.

Definition book : list (bytes * list (bytes * Z)) :=
  [(b "soup", [(b "salt", 2); (b "water", 10); (b "fat", -3)]);
   (b "air", []);
   (b "neg", [(b "fat", 5); (b "salt", 1)])]%Z.

Definition the_day : day ZNum := (time_of_civil (2024, 2, 29)%Z, es, None).

Definition expected_rows : list (bytes * Z * list (bytes * Z)) :=
  [(b "soup", 5, [(b "salt", 10); (b "water", 50); (b "fat", -15)]);
   (b "salt", 3, [(b "salt", 3)]);
   (b "water", 5, [(b "water", 5)]);
   (b "mystery", 0, [(b "mystery", 0)]);
   (b "air", 7, []);
   (b "neg", -2, [(b "fat", -10); (b "salt", -2)])]%Z.

Definition expected_totals : list (bytes * Z * Z * Z) :=
  [(b "fat", 0, -25, -25);        (* first contribution negative: positive column stays [zero] *)
   (b "mystery", 0, 0, 0);        (* a zero contribution is routed to the positive column *)
   (b "salt", 13, -2, 11);        (* 10 + 3 | -2 *)
   (b "water", 55, 0, 55)]%Z.

Example rows_model : ri_elements ZNum (get_report_item ZNum (cfg false true) (@rev bytes) book (day_node ZNum the_day))
                     = expected_rows.
Proof. vm_compute. reflexivity. Qed.

Example rows_spec : day_rows ZNum book es = expected_rows.
Proof. vm_compute. reflexivity. Qed.

Example totals_model : ri_totals ZNum (get_report_item ZNum (cfg false true) (@rev bytes) book (day_node ZNum the_day))
                       = Some expected_totals.
Proof. vm_compute. reflexivity. Qed.

Example totals_spec : day_totals ZNum book es = expected_totals.
Proof. vm_compute. reflexivity. Qed.

(** the theorems apply to this day (the oracle hypothesis is met by [rev]) *)
Example item_by_theorem :
  get_report_item ZNum (cfg false true) (@rev bytes) book (day_node ZNum the_day)
  = day_item ZNum (cfg false true) book (time_of_civil (2024, 2, 29)%Z) es.
Proof. apply (register_item_spec ZNum), rev_oracle. Qed.

Example totals_only_model :
  ri_elements ZNum (get_report_item ZNum (cfg true true) (@rev bytes) book (day_node ZNum the_day)) = []
  /\ ri_totals ZNum (get_report_item ZNum (cfg false false) (@rev bytes) book (day_node ZNum the_day)) = None.
Proof. vm_compute. split; reflexivity. Qed.

(** the old reporter on this day: same bytes as the default template *)
Example old_bytes_example :
  chunk_bytes (snd (fst (r_process ZNum (rep_old ZNum (cfg false true) book) (@rev bytes) tt (day_node ZNum the_day))))
  = fst (hd ([], true) (snd (fst (r_process ZNum (rep_template ZNum (cfg false true) book) (fun l => l) tt
                                            (day_node ZNum the_day))))).
Proof. vm_compute. reflexivity. Qed.

Example old_bytes_hypothesis : rc_totals (cfg false true) = true -> day_totals ZNum book es <> [].
Proof. intros _. vm_compute. discriminate. Qed.

(** a day whose only food is an empty recipe: no contribution at all.  The
    template prints the TOTAL header, the old reporter does not. *)
Definition empty_day : list (bytes * Z) := [(b "air", 7%Z)].

Example no_contribution : day_totals ZNum book empty_day = [] /\ day_rows ZNum book empty_day = [(b "air", 7%Z, [])].
Proof. vm_compute. split; reflexivity. Qed.

Example old_differs_on_no_contribution :
  chunk_bytes (old_day_chunks ZNum (cfg false true) book (time_of_civil (2024, 2, 29)%Z) empty_day)
  <> render_default ZNum (cfg false true) (day_item ZNum (cfg false true) book (time_of_civil (2024, 2, 29)%Z) empty_day).
Proof. vm_compute. discriminate. Qed.

(** two days in a row through each reporter: chunks in file order *)
Example two_days :
  snd (process_days ZNum (rep_template ZNum (cfg false true) book) (fun _ => @rev bytes) 0 tt
         (map (day_node ZNum) [the_day; (time_of_civil (2024, 3, 1)%Z, empty_day, None)]))
  = [template_day_chunk ZNum (cfg false true) book (time_of_civil (2024, 2, 29)%Z) es;
     template_day_chunk ZNum (cfg false true) book (time_of_civil (2024, 3, 1)%Z) empty_day].
Proof. vm_compute. reflexivity. Qed.

(** the sum column under the additive laws ([ZNum] is lawful) *)
Lemma ZNum_AddMonoid : AddMonoid ZNum.
Proof. constructor; cbn; intros; [apply Z.add_comm | apply Z.add_assoc | reflexivity]. Qed.

Example salt_sum : values_of ZNum (contributed ZNum book es) (b "salt") = [10; 3; -2]%Z
                   /\ add ZNum (pos_of ZNum (contributed ZNum book es) (b "salt"))
                               (neg_of ZNum (contributed ZNum book es) (b "salt")) = 11%Z.
Proof. vm_compute. split; reflexivity. Qed.

(** * float64: why the specification is "the first contribution OF THE NAME
    assigns", not "the first contribution of each column assigns" *)
Definition x : bytes := b "x".
Definition minus_one : f64 := f_of_Z (-1).
Definition neg_zero : f64 := S754_zero true.

(** the per-column reading of "first assign, then add" *)
Definition pos_naive (NM : Num) (cs : list (bytes * T NM)) (y : bytes) : T NM :=
  sum1 NM (filter (fun w => negb (is_neg NM w)) (values_of NM cs y)).

(** [-0] is not [< 0]: positive column.  After a first, negative, contribution the
    positive column holds [zero] and the code computes [0 + -0 = +0]; the
    per-column reading would give [-0] (printed "-0.00" instead of "0.00"). *)
Example per_column_reading_refuted :
  exists cs y,
    lookup y (accumulate B64 cs) = Some (pos_of B64 cs y, neg_of B64 cs y)
    /\ pos_of B64 cs y <> pos_naive B64 cs y
    /\ f2 B64 (pos_of B64 cs y) <> f2 B64 (pos_naive B64 cs y).
Proof.
  exists [(x, minus_one); (x, neg_zero)], x. vm_compute.
  split; [reflexivity|]. split; discriminate.
Qed.

(** consequently the printed positive column can depend on the order of the
    foods of a day even in the sign of a zero *)
Example zero_sign_depends_on_order :
  let d := [(b "r", [(x, minus_one)])] in
  let one := f_of_Z 1 in
  map (fun r => f2 B64 (snd (fst (fst r)))) (day_totals B64 d [(b "r", one); (x, neg_zero)]) = [b "0.00"]
  /\ map (fun r => f2 B64 (snd (fst (fst r)))) (day_totals B64 d [(x, neg_zero); (b "r", one)]) = [b "-0.00"].
Proof. vm_compute. split; reflexivity. Qed.

(** a NaN contribution goes to the positive column *)
Example nan_is_positive :
  accumulate B64 [(x, minus_one); (x, S754_nan)] = [(x, (S754_nan, minus_one))].
Proof. vm_compute. reflexivity. Qed.
