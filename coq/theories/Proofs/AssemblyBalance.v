(** WP20 (assembly) - C03 from the log entries to the printed rows: joins
      - WP08 (Proofs/Tree*.v): the tree built from the logged entries and
        ordered for printing is well formed, its segments are slash free, its
        paths / leaves are the logged prefixes / names with the specified
        totals, and (no logged name a path-prefix of another) chains are constant;
      - WP09 (Proofs/BalancePrint*.v): what an independent reader ([decode])
        reads back from the rows of each display mode, for every tree with
        these properties. *)
From Coq Require Import Lia Sorted Permutation.
From HP Require Import Base.Bytes Base.Num Model.Elements Model.Tree Model.Reporters.
From HP Require Import Spec.TreeShared Spec.TreeSpec Spec.BalancePrintSpec.
From HP Require Import Proofs.TreeBytes Proofs.TreeBuild Proofs.TreeLeaves Proofs.TreeMain.
From HP Require Proofs.BalancePrint.

(** the two copies of [prefixes] (one per Spec file) are the same function *)
Lemma prefixes_same : forall q : list bytes, BalancePrintSpec.prefixes q = TreeSpec.prefixes q.
Proof.
  induction q as [|a q IH]; cbn [BalancePrintSpec.prefixes TreeSpec.prefixes]; [reflexivity|].
  rewrite IH. reflexivity.
Qed.

Lemma path_ltb_irrefl : forall p, path_ltb p p = false.
Proof.
  induction p as [|a p IH]; cbn [path_ltb]; [reflexivity|]. rewrite bltb_irrefl. exact IH.
Qed.

Lemma strictly_sorted_NoDup : forall l : list (list bytes),
  StronglySorted (fun p q => path_ltb p q = true) l -> NoDup l.
Proof.
  induction l as [|p l IH]; intros H; [constructor|].
  apply StronglySorted_inv in H. destruct H as [Hs Hall]. constructor; [|apply IH; exact Hs].
  intros Hin. rewrite Forall_forall in Hall. specialize (Hall p Hin).
  rewrite path_ltb_irrefl in Hall. discriminate.
Qed.

Section AssemblyBalance.
  Context (NM : Num).
  Notation T := (T NM).
  Notation tree := (tree NM).
  Notation entries := (list (bytes * T)).
  Notation built es := (tree_add_all NM (empty_root NM) es).

  (** ** every display mode shows the same leaves: the logged names *)
  Theorem balance_modes_same_leaves : forall (es : entries) (pi : list bytes -> list bytes),
    (forall l, Permutation (pi l) l) -> prefix_free NM es ->
    let L := tree_leaves NM (order_tree NM pi (built es)) in
    (forall collapse collapse_last,
        leaf_rows NM (balance_rows NM pi collapse collapse_last (built es)) = L) /\
    NoDup (map fst L) /\
    StronglySorted (fun p q => path_ltb p q = true) (map fst L) /\
    (forall p x, In (p, x) L <->
       (exists f q, In (f, q) es /\ segs f = p) /\ x = sum_first NM (map snd (exactly_at NM es p))).
  Proof.
    intros es pi Hpi Hpf L. subst L.
    destruct (segments_slash_free NM es pi Hpi) as [_ Hsf].
    destruct (prefix_free_chain_const NM es pi Hpi Hpf) as [_ Hcc].
    destruct (order_tree_leaves NM es pi Hpi) as [Hperm Hsorted].
    split; [|split; [|split]].
    - intros collapse cl. apply BalancePrint.balance_rows_leaves; assumption.
    - apply strictly_sorted_NoDup. exact Hsorted.
    - exact Hsorted.
    - intros p x. rewrite <- (built_leaves_prefix_free NM es p x Hpf). split.
      + apply Permutation_in. exact Hperm.
      + apply Permutation_in. apply Permutation_sym. exact Hperm.
  Qed.

  (** ** no mode drops a category path, and no mode invents one *)
  Theorem balance_visible_paths : forall (es : entries) (pi : list bytes -> list bytes) (collapse collapse_last : bool),
    (forall l, Permutation (pi l) l) ->
    forall p, In p (all_paths NM (balance_rows NM pi collapse collapse_last (built es))) <->
              p <> [] /\ exists f q, In (f, q) es /\ is_prefix_path p (segs f) = true.
  Proof.
    intros es pi collapse cl Hpi p.
    destruct (segments_slash_free NM es pi Hpi) as [_ Hsf].
    destruct (ordered_paths_spec NM es pi Hpi) as (_ & _ & Hspec). split.
    - intros Hin. unfold all_paths in Hin. apply in_flat_map in Hin. destruct Hin as [rp [Hrp Hp]].
      rewrite prefixes_same in Hp. apply in_prefixes_iff in Hp. destruct Hp as [Hne Hpre].
      split; [exact Hne|].
      destruct (BalancePrint.balance_rows_only_joins NM pi collapse cl (built es) Hsf) as [Hsub _].
      assert (Hrp' : In rp (map fst (tree_paths NM (order_tree NM pi (built es))))).
      { clear - Hsub Hrp. induction Hsub as [|l m y Hs IH|l m x Hs IH].
        - destruct Hrp.
        - right. apply IH. exact Hrp.
        - destruct Hrp as [E|Hrp]; [left; exact E|right; apply IH; exact Hrp]. }
      apply in_map_iff in Hrp'. destruct Hrp' as [[rp' x] [E Hx]]. cbn [fst] in E. subst rp'.
      apply Hspec in Hx. destruct Hx as (_ & (f & q & Hf & Hpre') & _).
      exists f, q. split; [exact Hf|]. eapply is_prefix_path_trans; eassumption.
    - intros [Hne Hex].
      apply (BalancePrint.balance_rows_never_drops NM pi collapse cl (built es) Hsf p (total_at NM es p)).
      apply Hspec. split; [exact Hne|]. split; [exact Hex|reflexivity].
  Qed.

  Theorem balance_never_drops_a_logged_food : forall (es : entries) (pi : list bytes -> list bytes) (collapse collapse_last : bool),
    (forall l, Permutation (pi l) l) ->
    forall f q, In (f, q) es ->
      In (segs f) (all_paths NM (balance_rows NM pi collapse collapse_last (built es))).
  Proof.
    intros es pi collapse cl Hpi f q Hf. apply balance_visible_paths; [exact Hpi|].
    split; [apply segs_not_nil|]. exists f, q. split; [exact Hf|apply is_prefix_path_refl].
  Qed.

  (** ** plain mode: one row per category path, in order, with the specified total *)
  Theorem balance_plain_rows_spec : forall (es : entries) (pi : list bytes -> list bytes),
    (forall l, Permutation (pi l) l) ->
    let rows := map (fun '(p, x, _) => (p, x)) (decode NM (balance_rows NM pi false false (built es))) in
    NoDup (map fst rows) /\
    StronglySorted (fun p q => path_ltb p q = true) (map fst rows) /\
    (forall p x, In (p, x) rows <->
       p <> [] /\ (exists f q, In (f, q) es /\ is_prefix_path p (segs f) = true) /\ x = total_at NM es p).
  Proof.
    intros es pi Hpi rows. subst rows.
    destruct (segments_slash_free NM es pi Hpi) as [_ Hsf].
    unfold balance_rows.
    rewrite (BalancePrint.plain_rows_are_nodes NM (order_tree NM pi (built es)) Hsf).
    exact (ordered_paths_spec NM es pi Hpi).
  Qed.

  (** ** every row of every mode shows the specified total of the path it names
         (no logged name a path-prefix of another; plain mode needs no hypothesis,
         see [balance_plain_rows_spec]) *)
  Theorem balance_rows_amounts : forall (es : entries) (pi : list bytes -> list bytes) (collapse collapse_last : bool),
    (forall l, Permutation (pi l) l) -> prefix_free NM es ->
    forall p x lf, In (p, x, lf) (decode NM (balance_rows NM pi collapse collapse_last (built es))) ->
      p <> [] /\ (exists f q, In (f, q) es /\ is_prefix_path p (segs f) = true) /\ x = total_at NM es p.
  Proof.
    intros es pi collapse cl Hpi Hpf p x lf Hin.
    destruct (segments_slash_free NM es pi Hpi) as [_ Hsf].
    destruct (prefix_free_chain_const NM es pi Hpi Hpf) as [_ Hcc].
    destruct (ordered_paths_spec NM es pi Hpi) as (_ & _ & Hspec).
    apply Hspec.
    assert (Hin' : In (p, x) (map (fun '(p, x, _) => (p, x))
                                  (decode NM (balance_rows NM pi collapse cl (built es))))).
    { apply in_map_iff. exists (p, x, lf). split; [reflexivity|exact Hin]. }
    rewrite BalancePrint.balance_rows_eq in Hin'.
    destruct collapse; [|destruct cl].
    - eapply BalancePrintBase.subseq_In; [apply BalancePrint.collapsed_rows_are_nodes; assumption|exact Hin'].
    - eapply BalancePrintBase.subseq_In; [apply BalancePrint.collapse_last_rows_are_nodes; assumption|exact Hin'].
    - unfold rows_plain in Hin'. rewrite BalancePrint.plain_rows_are_nodes in Hin' by assumption. exact Hin'.
  Qed.

  (** ** from the days of the log to the chunks the reporter writes at Flush *)
  Theorem balance_report_rows : forall (c : rconfig) (perms : nat -> list bytes -> list bytes)
      (pi : list bytes -> list bytes) (lns : list (lognode NM)),
    r_flush NM (rep_balance NM c) pi (bal_run NM c perms lns) =
    map (fun r => (render_row NM r, rc_collapse c))
        (balance_rows NM pi (rc_collapse c) (rc_collapse_last c) (built (flat_map (ln_elems NM) lns))).
  Proof.
    intros c perms pi lns. rewrite (bal_run_is_built NM c perms lns). reflexivity.
  Qed.
End AssemblyBalance.
