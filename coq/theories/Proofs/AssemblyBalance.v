(** WP20 (assembly) - C03 from the log entries to the printed rows: joins
      - WP08 (Proofs/Tree*.v): the tree built from the logged entries and
        ordered for printing is well formed, its segments are slash free, its
        paths / leaves are the logged prefixes / names with the specified
        totals, and (no logged name a path-prefix of another) chains are constant;
      - WP09 (Proofs/BalancePrint*.v): what an independent reader ([decode])
        reads back from the rows of each display mode, for every tree with
        these properties. *)
From Coq Require Import Lia Sorted Permutation.
From HP Require Import Base.Bytes Base.Num Model.Elements Model.Tree Model.Reporters.
From HP Require Import Spec.TreeShared Spec.TreeSpec Spec.BalancePrintSpec.
From HP Require Import Proofs.TreeBytes Proofs.TreeBuild Proofs.TreeLeaves Proofs.TreeMain.
From HP Require Proofs.BalancePrint.

(** the two copies of [prefixes] (one per Spec file) are the same function *)
Lemma prefixes_same : forall q : list bytes, BalancePrintSpec.prefixes q = TreeSpec.prefixes q.
Proof.
  induction q as [|a q IH]; cbn [BalancePrintSpec.prefixes TreeSpec.prefixes]; [reflexivity|].
  rewrite IH. reflexivity.
Qed.

Lemma path_ltb_irrefl : forall p, path_ltb p p = false.
Proof.
  induction p as [|a p IH]; cbn [path_ltb]; [reflexivity|]. rewrite bltb_irrefl. exact IH.
Qed.

Lemma strictly_sorted_NoDup : forall l : list (list bytes),
  StronglySorted (fun p q => path_ltb p q = true) l -> NoDup l.
Proof.
  induction l as [|p l IH]; intros H; [constructor|].
  apply StronglySorted_inv in H. destruct H as [Hs Hall]. constructor; [|apply IH; exact Hs].
  intros Hin. rewrite Forall_forall in Hall. specialize (Hall p Hin).
  rewrite path_ltb_irrefl in Hall. discriminate.
Qed.

Section AssemblyBalance.
  Context (NM : Num).
  Notation T := (T NM).
  Notation tree := (tree NM).
  Notation entries := (list (bytes * T)).
  Notation built es := (tree_add_all NM (empty_root NM) es).

  (** ** every display mode shows the same leaves: the logged names *)
  Theorem balance_modes_same_leaves : forall (es : entries) (pi : list bytes -> list bytes),
    (forall l, Permutation (pi l) l) -> prefix_free NM es ->
    let L := tree_leaves NM (order_tree NM pi (built es)) in
    (forall collapse collapse_last,
        leaf_rows NM (balance_rows NM pi collapse collapse_last (built es)) = L) /\
    NoDup (map fst L) /\
    StronglySorted (fun p q => path_ltb p q = true) (map fst L) /\
    (forall p x, In (p, x) L <->
       (exists f q, In (f, q) es /\ segs f = p) /\ x = sum_first NM (map snd (exactly_at NM es p))).
  Proof.
    intros es pi Hpi Hpf L. subst L.
    destruct (segments_slash_free NM es pi Hpi) as [_ Hsf].
    destruct (prefix_free_chain_const NM es pi Hpi Hpf) as [_ Hcc].
    destruct (order_tree_leaves NM es pi Hpi) as [Hperm Hsorted].
    split; [|split; [|split]].
    - intros collapse cl. apply BalancePrint.balance_rows_leaves; assumption.
    - apply strictly_sorted_NoDup. exact Hsorted.
    - exact Hsorted.
    - intros p x. rewrite <- (built_leaves_prefix_free NM es p x Hpf). split.
      + apply Permutation_in. exact Hperm.
      + apply Permutation_in. apply Permutation_sym. exact Hperm.
  Qed.

  (** ** no mode drops a category path, and no mode invents one *)
  Theorem balance_visible_paths : forall (es : entries) (pi : list bytes -> list bytes) (collapse collapse_last : bool),
    (forall l, Permutation (pi l) l) ->
    forall p, In p (all_paths NM (balance_rows NM pi collapse collapse_last (built es))) <->
              p <> [] /\ exists f q, In (f, q) es /\ is_prefix_path p (segs f) = true.
  Proof.
    intros es pi collapse cl Hpi p.
    destruct (segments_slash_free NM es pi Hpi) as [_ Hsf].
    destruct (ordered_paths_spec NM es pi Hpi) as (_ & _ & Hspec). split.
    - intros Hin. unfold all_paths in Hin. apply in_flat_map in Hin. destruct Hin as [rp [Hrp Hp]].
      rewrite prefixes_same in Hp. apply in_prefixes_iff in Hp. destruct Hp as [Hne Hpre].
      split; [exact Hne|].
      destruct (BalancePrint.balance_rows_only_joins NM pi collapse cl (built es) Hsf) as [Hsub _].
      assert (Hrp' : In rp (map fst (tree_paths NM (order_tree NM pi (built es))))).
      { clear - Hsub Hrp. induction Hsub as [|l m y Hs IH|l m x Hs IH].
        - destruct Hrp.
        - right. apply IH. exact Hrp.
        - destruct Hrp as [E|Hrp]; [left; exact E|right; apply IH; exact Hrp]. }
      apply in_map_iff in Hrp'. destruct Hrp' as [[rp' x] [E Hx]]. cbn [fst] in E. subst rp'.
      apply Hspec in Hx. destruct Hx as (_ & (f & q & Hf & Hpre') & _).
      exists f, q. split; [exact Hf|]. eapply is_prefix_path_trans; eassumption.
    - intros [Hne Hex].
      apply (BalancePrint.balance_rows_never_drops NM pi collapse cl (built es) Hsf p (total_at NM es p)).
      apply Hspec. split; [exact Hne|]. split; [exact Hex|reflexivity].
  Qed.

  Theorem balance_never_drops_a_logged_food : forall (es : entries) (pi : list bytes -> list bytes) (collapse collapse_last : bool),
    (forall l, Permutation (pi l) l) ->
    forall f q, In (f, q) es ->
      In (segs f) (all_paths NM (balance_rows NM pi collapse collapse_last (built es))).
  Proof.
    intros es pi collapse cl Hpi f q Hf. apply balance_visible_paths; [exact Hpi|].
    split; [apply segs_not_nil|]. exists f, q. split; [exact Hf|apply is_prefix_path_refl].
  Qed.

  (** ** plain mode: one row per category path, in order, with the specified total *)
  Theorem balance_plain_rows_spec : forall (es : entries) (pi : list bytes -> list bytes),
    (forall l, Permutation (pi l) l) ->
    let rows := map (fun '(p, x, _) => (p, x)) (decode NM (balance_rows NM pi false false (built es))) in
    NoDup (map fst rows) /\
    StronglySorted (fun p q => path_ltb p q = true) (map fst rows) /\
    (forall p x, In (p, x) rows <->
       p <> [] /\ (exists f q, In (f, q) es /\ is_prefix_path p (segs f) = true) /\ x = total_at NM es p).
  Proof.
    intros es pi Hpi rows. subst rows.
    destruct (segments_slash_free NM es pi Hpi) as [_ Hsf].
    unfold balance_rows.
    rewrite (BalancePrint.plain_rows_are_nodes NM (order_tree NM pi (built es)) Hsf).
    exact (ordered_paths_spec NM es pi Hpi).
  Qed.

  (** ** every row of every mode shows the specified total of the path it names
         (no logged name a path-prefix of another; plain mode needs no hypothesis,
         see [balance_plain_rows_spec]) *)
  Theorem balance_rows_amounts : forall (es : entries) (pi : list bytes -> list bytes) (collapse collapse_last : bool),
    (forall l, Permutation (pi l) l) -> prefix_free NM es ->
    forall p x lf, In (p, x, lf) (decode NM (balance_rows NM pi collapse collapse_last (built es))) ->
      p <> [] /\ (exists f q, In (f, q) es /\ is_prefix_path p (segs f) = true) /\ x = total_at NM es p.
  Proof.
    intros es pi collapse cl Hpi Hpf p x lf Hin.
    destruct (segments_slash_free NM es pi Hpi) as [_ Hsf].
    destruct (prefix_free_chain_const NM es pi Hpi Hpf) as [_ Hcc].
    destruct (ordered_paths_spec NM es pi Hpi) as (_ & _ & Hspec).
    apply Hspec.
    assert (Hin' : In (p, x) (map (fun '(p, x, _) => (p, x))
                                  (decode NM (balance_rows NM pi collapse cl (built es))))).
    { apply in_map_iff. exists (p, x, lf). split; [reflexivity|exact Hin]. }
    rewrite BalancePrint.balance_rows_eq in Hin'.
    destruct collapse; [|destruct cl].
    - eapply BalancePrintBase.subseq_In; [apply BalancePrint.collapsed_rows_are_nodes; assumption|exact Hin'].
    - eapply BalancePrintBase.subseq_In; [apply BalancePrint.collapse_last_rows_are_nodes; assumption|exact Hin'].
    - unfold rows_plain in Hin'. rewrite BalancePrint.plain_rows_are_nodes in Hin' by assumption. exact Hin'.
  Qed.

  (** ** after fix 3cc3ec3, for EVERY log (a logged name may be a path-prefix of
         another): in every mode the visible category paths, each taken once
         with the amount of the row in which its last segment is printed, are
         the non-empty prefixes of the logged paths, each once, in increasing
         order, each with an amount linked by Go-equalities ([==]) to the
         specified total of that path - joining rows hides no amount *)
  Theorem balance_rows_show_every_total : forall (es : entries) (pi : list bytes -> list bytes) (collapse collapse_last : bool),
    (forall l, Permutation (pi l) l) ->
    let shown := shown_paths NM (balance_rows NM pi collapse collapse_last (built es)) in
    NoDup (map fst shown) /\
    StronglySorted (fun p q => path_ltb p q = true) (map fst shown) /\
    (forall p y, In (p, y) shown ->
       p <> [] /\ (exists f q, In (f, q) es /\ is_prefix_path p (segs f) = true) /\
       go_eq_chain NM y (total_at NM es p)) /\
    (forall p, p <> [] -> (exists f q, In (f, q) es /\ is_prefix_path p (segs f) = true) ->
       exists y, In (p, y) shown /\ go_eq_chain NM y (total_at NM es p)).
  Proof.
    intros es pi collapse cl Hpi shown. subst shown.
    destruct (segments_slash_free NM es pi Hpi) as [_ Hsf].
    destruct (ordered_paths_spec NM es pi Hpi) as (Hnd & Hsorted & Hspec).
    pose proof (BalancePrint.balance_rows_show_every_total NM pi collapse cl (built es) Hsf) as HF.
    assert (Hfst : map fst (shown_paths NM (balance_rows NM pi collapse cl (built es))) =
                   map fst (tree_paths NM (order_tree NM pi (built es)))).
    { clear - HF. induction HF as [|a c l m [Hac _] _ IH]; [reflexivity|].
      cbn [map]. rewrite Hac, IH. reflexivity. }
    rewrite Hfst. split; [exact Hnd|]. split; [exact Hsorted|]. split.
    - intros p y Hin.
      destruct (BalancePrint.Forall2_In_l _ _ _ _ HF Hin) as [[q x] [Hq [Hpath Hamt]]].
      cbn [fst snd] in Hpath, Hamt. subst q.
      apply Hspec in Hq. destruct Hq as (Hne & Hex & Hx). subst x. repeat split; assumption.
    - intros p Hne Hex.
      assert (Hq : In (p, total_at NM es p) (tree_paths NM (order_tree NM pi (built es)))).
      { apply Hspec. repeat split; assumption. }
      destruct (BalancePrint.Forall2_In_r _ _ _ _ HF Hq) as [[q y] [Hy [Hpath Hamt]]].
      cbn [fst snd] in Hpath, Hamt. subst q. exists y. split; assumption.
  Qed.

  (** in particular a row whose label joins several segments: its amount is
      linked by Go-equalities to the specified total of EVERY category path on
      the joined part; equal or Go-equal to it when [==] is transitive *)
  Theorem balance_joined_row_totals : forall (es : entries) (pi : list bytes -> list bytes) (collapse collapse_last : bool),
    (forall l, Permutation (pi l) l) ->
    forall pp own y,
      In (pp, own, y) (decode_own NM (balance_rows NM pi collapse collapse_last (built es))) ->
      forall o, In o (BalancePrintSpec.prefixes own) ->
        go_eq_chain NM y (total_at NM es (pp ++ o)) /\
        (go_eq_transitive NM -> y = total_at NM es (pp ++ o) \/ t_eqb NM y (total_at NM es (pp ++ o)) = true).
  Proof.
    intros es pi collapse cl Hpi pp own y Hrow o Ho.
    destruct (balance_rows_show_every_total es pi collapse cl Hpi) as (_ & _ & H & _).
    assert (Hin : In (pp ++ o, y) (shown_paths NM (balance_rows NM pi collapse cl (built es)))).
    { unfold shown_paths. apply in_flat_map. exists (pp, own, y). split; [exact Hrow|].
      apply in_map_iff. exists o. split; [reflexivity|exact Ho]. }
    destruct (H _ _ Hin) as (_ & _ & Hc). split; [exact Hc|].
    intros Htr. apply BalancePrint.go_eq_chain_trans; assumption.
  Qed.

  (** [balance_rows_amounts] without [prefix_free], up to Go-equality: every row
      of every mode, joined inner rows included, names a logged category path
      and carries an amount linked by Go-equalities to its specified total *)
  Theorem balance_rows_amounts_any_log : forall (es : entries) (pi : list bytes -> list bytes) (collapse collapse_last : bool),
    (forall l, Permutation (pi l) l) ->
    forall p y lf, In (p, y, lf) (decode NM (balance_rows NM pi collapse collapse_last (built es))) ->
      p <> [] /\ (exists f q, In (f, q) es /\ is_prefix_path p (segs f) = true) /\
      go_eq_chain NM y (total_at NM es p) /\
      (go_eq_transitive NM -> y = total_at NM es p \/ t_eqb NM y (total_at NM es p) = true).
  Proof.
    intros es pi collapse cl Hpi p y lf Hin.
    destruct (balance_rows_show_every_total es pi collapse cl Hpi) as (_ & _ & H & _).
    destruct (H p y (BalancePrint.decode_in_shown NM _ _ _ _ Hin)) as (Hne & Hex & Hc).
    repeat split; try assumption.
    intros Htr. apply BalancePrint.go_eq_chain_trans; assumption.
  Qed.

  (** the leaves of every log: all four flag settings show the same leaf paths
      with Go-equal amounts; with the same amounts where Go-equal amounts are
      equal (exact numbers) - [prefix_free] is not needed for this any more *)
  Theorem balance_modes_same_leaves_any_log : forall (es : entries) (pi : list bytes -> list bytes),
    (forall l, Permutation (pi l) l) ->
    let L := tree_leaves NM (order_tree NM pi (built es)) in
    (forall collapse collapse_last,
        Forall2 (same_path_go_equal NM)
                (leaf_rows NM (balance_rows NM pi collapse collapse_last (built es))) L) /\
    (go_eq_is_eq NM -> forall collapse collapse_last,
        leaf_rows NM (balance_rows NM pi collapse collapse_last (built es)) = L).
  Proof.
    intros es pi Hpi L. subst L.
    destruct (segments_slash_free NM es pi Hpi) as [_ Hsf]. split.
    - intros collapse cl. apply BalancePrint.balance_rows_leaves_go_equal, Hsf.
    - intros Heq collapse cl. apply BalancePrint.balance_rows_leaves_exact; assumption.
  Qed.

  (** ** from the days of the log to the chunks the reporter writes at Flush *)
  Theorem balance_report_rows : forall (c : rconfig) (perms : nat -> list bytes -> list bytes)
      (pi : list bytes -> list bytes) (lns : list (lognode NM)),
    r_flush NM (rep_balance NM c) pi (bal_run NM c perms lns) =
    map (fun r => (render_row NM r, rc_collapse c))
        (balance_rows NM pi (rc_collapse c) (rc_collapse_last c) (built (flat_map (ln_elems NM) lns))).
  Proof.
    intros c perms pi lns. rewrite (bal_run_is_built NM c perms lns). reflexivity.
  Qed.
End AssemblyBalance.
