(** C15, flag position: the global [--no-color] and the sub-command's
    [--no-color] set the same field, and the other presentation flags reach the
    reporter configuration unchanged, whatever else [load] does. *)
From HP Require Import Base.Bytes Base.Utf8 Base.Num Model.Scanner Model.Parser Model.Elements Model.Resolver
  Model.Dates Model.Tree Model.Writer Model.Reporters Model.Cli Spec.PresentationSpec.

Lemma load_rc : forall (w : world) (i : invocation) (op : options),
  load w i = inr op ->
  exists toks,
    op_rc op = {| rc_color := negb (i_g_no_color i || i_l_no_color i);
                  rc_totals_only := i_totals_only i;
                  rc_totals := negb (i_no_totals i);
                  rc_date := toks;
                  rc_single_element := i_single_element i;
                  rc_single_food := i_single_food i;
                  rc_collapse_last := i_collapse_last i;
                  rc_collapse := i_collapse i;
                  rc_group_food := i_group_food i;
                  rc_shorten := i_shorten i;
                  rc_old := i_old i;
                  rc_template := or_default (i_template i) (b "default");
                  rc_csv := i_csv i |}
    /\ tokenize (op_fmt op) = Some toks.
Proof.
  intros w i op H. unfold load in H.
  destruct (load_config w i) as [e|cfg]; [discriminate H|].
  destruct (tokenize (pick_string (i_f_fmt i) (i_e_fmt i) (ce_fmt cfg) default_fmt)) as [toks|] eqn:Etok;
    [|discriminate H].
  exists toks.
  destruct (match i_f_today i with
            | Some s => match parse_date toks s with Some c => inr (time_of_civil c) | None => inl EBadDate end
            | None => inr (time_of_civil (civ (or_default (ce_now cfg) (w_clock w))))
            end) as [e|now]; [discriminate H|].
  destruct (pick_period w now toks (i_g_begin i) (i_l_begin i)) as [e|bt]; [discriminate H|].
  destruct (pick_period w now toks (i_g_end i) (i_l_end i)) as [e|et]; [discriminate H|].
  injection H as <-. cbn [op_rc op_fmt]. split; [reflexivity|exact Etok].
Qed.

(** the colour flag may be given before or after the sub-command: same effect *)
Theorem color_flag_any_level : forall (w : world) (i : invocation) (op : options),
  load w i = inr op ->
  rc_color (op_rc op) = negb (i_g_no_color i || i_l_no_color i)
  /\ rc_totals_only (op_rc op) = i_totals_only i
  /\ rc_totals (op_rc op) = negb (i_no_totals i)
  /\ rc_shorten (op_rc op) = i_shorten i
  /\ rc_old (op_rc op) = i_old i
  /\ rc_template (op_rc op) = or_default (i_template i) (b "default")
  /\ rc_collapse (op_rc op) = i_collapse i
  /\ rc_collapse_last (op_rc op) = i_collapse_last i
  /\ rc_group_food (op_rc op) = i_group_food i
  /\ rc_csv (op_rc op) = i_csv i
  /\ rc_single_element (op_rc op) = i_single_element i
  /\ rc_single_food (op_rc op) = i_single_food i.
Proof.
  intros w i op H. destruct (load_rc w i op H) as (toks & -> & _). cbn. repeat split.
Qed.

(** the colour field is the only thing of [load]'s result that depends on the two
    [--no-color] flags, and it depends on their disjunction only *)
Theorem no_color_level_irrelevant : forall (w : world) (i : invocation),
  load w (with_no_color i true false) = load w (with_no_color i false true)
  /\ load w (with_no_color i true true) = load w (with_no_color i false true).
Proof. intros w i. split; reflexivity. Qed.

(** non-vacuity: an invocation that loads, with the flag at sub-command level only *)
Definition exf_world : world :=
  {| w_fs := []; w_default_config := b "/home/u/.hranoprovod/config"; w_tz := 0;
     w_clock := time_of_civil (2024, 3, 1)%Z;
     w_or := {| o_resolve := fun l => l; o_day := fun _ l => l; o_flush := fun l => l |};
     w_sink := None; w_read_fault := [] |}.
Definition exf_inv (g l : bool) : invocation :=
  {| i_f_db := None; i_e_db := None; i_f_log := None; i_e_log := None; i_f_fmt := None; i_e_fmt := None;
     i_f_depth := None; i_e_depth := None; i_f_today := None; i_f_config := None; i_e_config := None;
     i_no_database := false; i_g_begin := None; i_g_end := None; i_l_begin := None; i_l_end := None;
     i_g_no_color := g; i_l_no_color := l; i_single_food := []; i_single_element := [];
     i_group_food := false; i_csv := false; i_no_totals := false; i_totals_only := false;
     i_shorten := true; i_old := false; i_template := None; i_collapse := false; i_collapse_last := false;
     i_desc := false; i_silent := false; i_cmd := CReg |}.

Example exf_loads :
  match load exf_world (exf_inv false true), load exf_world (exf_inv false false) with
  | inr op1, inr op2 => rc_color (op_rc op1) = false /\ rc_color (op_rc op2) = true /\ rc_shorten (op_rc op1) = true
  | _, _ => False
  end.
Proof. vm_compute. repeat split. Qed.
