(** WP25: the totals sentence of C07 as ONE statement about four commands run on the same two files
    with the same settings: [report totals], [reg], [reg -s x], [bal -s x]. *)
From Coq Require Import Lia Permutation.
From HP Require Import Base.Bytes Base.Utf8 Base.Num Model.Scanner Model.Parser Model.Elements Model.Resolver
  Model.Dates Model.Tree Model.Writer Model.Reporters Model.Cli.
From HP Require Import Spec.RegisterSpec Spec.Agree2Spec Spec.AgreeSpec Spec.ProgramSpec.
From HP Require Import Proofs.ProgramBase Proofs.ProgramRegister Proofs.ProgramTotals Proofs.ProgramAgree.

(** the loaded options do not depend on the sub-command; [-s x] only reaches [rc_single_element] *)
Definition with_rc_single (op : options) (x : bytes) : options :=
  {| op_db := op_db op; op_log := op_log op; op_fmt := op_fmt op; op_depth := op_depth op; op_now := op_now op;
     op_begin := op_begin op; op_end := op_end op;
     op_rc := {| rc_color := rc_color (op_rc op); rc_totals_only := rc_totals_only (op_rc op);
                 rc_totals := rc_totals (op_rc op);
                 rc_date := rc_date (op_rc op); rc_single_element := x;
                 rc_single_food := rc_single_food (op_rc op); rc_collapse_last := rc_collapse_last (op_rc op);
                 rc_collapse := rc_collapse (op_rc op); rc_group_food := rc_group_food (op_rc op);
                 rc_shorten := rc_shorten (op_rc op); rc_old := rc_old (op_rc op);
                 rc_template := rc_template (op_rc op); rc_csv := rc_csv (op_rc op) |} |}.

Lemma load_with_cmd_single : forall (w : world) (i : invocation) (op : options) cmd x,
  load w i = inr op -> load w (with_cmd_single i cmd x) = inr (with_rc_single op x).
Proof.
  intros w i op cmd x H. unfold load in *.
  change (load_config w (with_cmd_single i cmd x)) with (load_config w i).
  destruct (load_config w i) as [e|cfg]; [discriminate H|].
  cbn [with_cmd_single i_f_db i_e_db i_f_log i_e_log i_f_fmt i_e_fmt i_f_depth i_e_depth i_f_today i_f_config
       i_e_config i_no_database i_g_begin i_g_end i_l_begin i_l_end i_g_no_color i_l_no_color i_single_food
       i_single_element i_group_food i_csv i_no_totals i_totals_only i_shorten i_old i_template i_collapse
       i_collapse_last i_desc i_silent i_cmd].
  destruct (tokenize (pick_string (i_f_fmt i) (i_e_fmt i) (ce_fmt cfg) default_fmt)) as [toks|]; [|discriminate H].
  destruct (match i_f_today i with
            | Some s => match parse_date toks s with Some c => inr (time_of_civil c) | None => inl EBadDate end
            | None => inr (time_of_civil (civ (or_default (ce_now cfg) (w_clock w))))
            end) as [e|now]; [discriminate H|].
  destruct (pick_period w now toks (i_g_begin i) (i_l_begin i)) as [e|bt]; [discriminate H|].
  destruct (pick_period w now toks (i_g_end i) (i_l_end i)) as [e|et]; [discriminate H|].
  injection H as <-. reflexivity.
Qed.

Section Commands.
  Context (NM : Num).
  Notation T := (T NM).
  Notation db := (list (bytes * list (bytes * T))).

  Context (w : world) (i : invocation) (op : options) (odb : opened) (d : db) (ldata : bytes).
  Hypothesis Hload : load w i = inr op.
  Hypothesis Hsink : w_sink w = None.
  Hypothesis Hodb : open_file w (op_db op) = Some odb.
  Hypothesis Hres : resolved_db NM w op odb = inr d.
  Hypothesis Hlog : open_file w (op_log op) = Some (OData ldata NoFault).
  Hypothesis Hfin : snd (scan ldata NoFault) = ScanEOF.
  Hypothesis Hne : no_parse_error NM (events NM ldata).
  Hypothesis Hdated : all_dated NM (rc_date (op_rc op)) (log_records NM ldata).
  Hypothesis Hday : forall j : nat, oracle (o_day (w_or w) j).
  Hypothesis Hflush : oracle (o_flush (w_or w)).

  (** the four commands, on the same files and settings, print renderings of these lists of numbers *)
  Theorem four_commands :
    forall x : bytes, x <> [] ->
    i_single_food i = [] -> i_old i = false -> i_template i <> Some (b "left-aligned") -> i_group_food i = false ->
    let recs := command_records NM op ldata in
    let toks := rc_date (op_rc op) in
    let color := negb (i_g_no_color i || i_l_no_color i) in
    let D := fun r : record NM => format_date toks (civ (rec_time NM r)) in
    let E := fun r : record NM => default_rows_text NM color (i_shorten i) (day_rows NM d (rec_entries NM r)) in
    (* report totals *)
    run NM w (with_cmd_single i CTotals x)
    = {| out_stdout := totals_text NM (totals_rows_of NM d recs); out_status := Ok |}
    (* reg (totals on, rows on): the TOTAL block of the k-th selected day renders the k-th list of
       [register_day_totals_of d recs] *)
    /\ run NM w (with_totals_flags (with_cmd_single i CReg []) false false)
       = {| out_stdout := concat (map (fun r => D r ++ E r
                                       ++ default_totals_text NM color (i_shorten i) (day_totals NM d (rec_entries NM r))
                                       ++ [c_lf]) recs);
            out_status := Ok |}
    /\ register_day_totals_of NM d recs = map (fun r => day_totals NM d (rec_entries NM r)) recs
    (* reg -s x *)
    /\ run NM w (with_cmd_single i CReg x)
       = {| out_stdout := concat (map (single_row_text NM (i_csv i) toks x) (single_rows_of NM d x recs));
            out_status := Ok |}
    (* bal -s x *)
    /\ run NM w (with_cmd_single i CBal x)
       = {| out_stdout := concat (map (render_row NM)
                                      (balance_rows NM (o_flush (w_or w)) (i_collapse i) (i_collapse_last i)
                                                    (bal_single_tree NM d x recs)))
                          ++ bal_single_footer_text NM x (bal_single_total_of NM d x recs);
            out_status := Ok |}.
  Proof.
    intros x Hx Hsf Hold Ht Hg recs toks color D E.
    split; [|split; [|split; [|split]]].
    - exact (totals_program NM w (with_cmd_single i CTotals x) (with_rc_single op x) odb d ldata
               (load_with_cmd_single w i op CTotals x Hload) Hsink Hodb Hres Hlog Hfin Hne Hdated eq_refl Hflush).
    - pose proof (register_program_flags NM w (with_totals_flags (with_cmd_single i CReg []) false false)
                    (with_rc_totals (with_rc_single op []) false false) odb d ldata
                    (load_with_totals_flags w _ _ false false (load_with_cmd_single w i op CReg [] Hload))
                    Hsink Hodb Hres Hlog Hfin Hne Hdated Hday eq_refl eq_refl Hsf Hold Ht) as H.
      exact H.
    - reflexivity.
    - exact (reg_single_program NM w (with_cmd_single i CReg x) (with_rc_single op x) odb d ldata
               (load_with_cmd_single w i op CReg x Hload) Hsink Hodb Hres Hlog Hfin Hne Hdated eq_refl Hx Hg).
    - exact (bal_single_program NM w (with_cmd_single i CBal x) (with_rc_single op x) odb d ldata
               (load_with_cmd_single w i op CBal x Hload) Hsink Hodb Hres Hlog Hfin Hne Hdated eq_refl Hx).
  Qed.
End Commands.
