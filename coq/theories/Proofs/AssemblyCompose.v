(** WP20 (assembly) - C12 on the BYTES of the log file.  Joins
      - the parser package (Proofs/ParserConcat.v): the events of
        [render f1 ++ render f2] are the events of the parts, one after the other;
      - the composition package (Proofs/Compose*.v): per-day reports of a
        concatenated history are the concatenation of the reports, and [report]
        is what [run_log] / [run_db_log] print on a sink that never fails;
      - the order package (Proofs/OrderSites.v, OrderRun.v): what a reporter
        does is the same under any two order oracles - this removes the shift
        [fun i => pd (k + i)] of the per-day oracles from the composition
        theorem, so that the three runs may be three unrelated executions;
      - the C01 assembly ([resolved_db_outcome]): the resolved book does not
        depend on the oracle either (for the [run_db_log] shape). *)
From Coq Require Import Lia Permutation.
From HP Require Import Base.Bytes Base.Utf8 Base.Num Model.Scanner Model.Parser Model.Syntax Model.Elements
  Model.Dates Model.Tree Model.Writer Model.Regex Model.Reporters Model.Cli.
From HP Require Import Spec.ResolverSpec Spec.ComposeSpec.
From HP Require Import Proofs.ParserBytes Proofs.ParserScan Proofs.ParserRoundtrip Proofs.ParserCorollaries
  Proofs.ParserConcat.
From HP Require Import Proofs.OrderSites Proofs.OrderRun.
From HP Require Import Proofs.ComposeWalk Proofs.ComposePerDay Proofs.ComposeRun.
From HP Require Import Proofs.AssemblyResolverCli.

Section AssemblyCompose.
  Context (NM : Num).
  Notation elements := (elements NM).
  Notation db := (list (bytes * elements)).

  (** ** the per-day reporters do not depend on the order oracles *)
  Lemma perday_rep_indep : forall R, perday_reporter NM R -> rep_indep NM R.
  Proof.
    intros R H. destruct H.
    - apply rep_template_indep.
    - apply rep_summary_indep.
    - apply rep_old_indep.
    - apply rep_csv_log_indep.
    - apply rep_print_indep.
    - apply rep_single_food_indep.
    - apply rep_single_indep.
  Qed.

  Lemma walk_events_pd_independent : forall (R : reporter NM), rep_indep NM R ->
    forall pd1 pd2 : nat -> list bytes -> list bytes,
    (forall i, order_oracle (pd1 i)) -> (forall i, order_oracle (pd2 i)) ->
    forall toks bt et evs st,
      walk_events NM R pd1 toks bt et evs st = walk_events NM R pd2 toks bt et evs st.
  Proof.
    intros R HR pd1 pd2 H1 H2 toks bt et evs.
    induction evs as [|ev r IH]; intros st; cbn [walk_events]; [reflexivity|].
    rewrite (walk_cb_independent NM R HR pd1 pd2 H1 H2 toks bt et st ev).
    destruct (walk_cb NM R pd2 toks bt et st ev) as [[st' stop] e]. destruct stop; [reflexivity|apply IH].
  Qed.

  Lemma report_pd_independent : forall (R : reporter NM), rep_indep NM R ->
    forall (pd1 pd2 : nat -> list bytes -> list bytes) (pf : list bytes -> list bytes),
    (forall i, order_oracle (pd1 i)) -> (forall i, order_oracle (pd2 i)) ->
    forall toks bt et evs,
      report NM R pd1 pf toks bt et evs = report NM R pd2 pf toks bt et evs.
  Proof.
    intros R HR pd1 pd2 pf H1 H2 toks bt et evs. unfold report, report_from.
    rewrite (walk_events_pd_independent R HR pd1 pd2 H1 H2). reflexivity.
  Qed.

  (** ** the bytes of two rendered logs, one after the other *)

  (** the hypotheses on the two parts, as one predicate: both in the documented
      format with short lines; the first ends in a newline; the second has no
      malformed line and starts (after blank / comment lines) with a heading *)
  Definition appendable (f1 f2 : file) : Prop :=
    wf_file NM f1 = true /\ short_lines f1 /\ f_final_newline f1 = true /\
    wf_file NM f2 = true /\ short_lines f2 /\ no_bad_items f2 /\
    heading_first_items (map fst (f_items f2)) = true.

  Lemma appendable_events : forall f1 f2, appendable f1 f2 ->
    events NM (render f1 ++ render f2) = events NM (render f1) ++ events NM (render f2).
  Proof.
    intros f1 f2 (Hwf1 & Hs1 & Hnl & Hwf2 & Hs2 & Hb & Hh). apply parse_concat_wf_no_bad; assumption.
  Qed.

  Lemma appendable_scan : forall f1 f2, appendable f1 f2 ->
    snd (scan (render f1) NoFault) = ScanEOF /\ snd (scan (render f2) NoFault) = ScanEOF /\
    snd (scan (render f1 ++ render f2) NoFault) = ScanEOF.
  Proof.
    intros f1 f2 (Hwf1 & Hs1 & Hnl & Hwf2 & Hs2 & Hb & Hh).
    assert (H1 : snd (scan (render f1) NoFault) = ScanEOF) by (apply (short_lines_exact NM f1 Hwf1), Hs1).
    assert (H2 : snd (scan (render f2) NoFault) = ScanEOF) by (apply (short_lines_exact NM f2 Hwf2), Hs2).
    split; [exact H1|]. split; [exact H2|].
    assert (Hlf : ends_lf (render f1)).
    { unfold render. rewrite Hnl. apply render_items_ends_lf. }
    apply (scan_concat _ _ Hlf). split; assumption.
  Qed.

  (** per-day reports, on the bytes; the same oracles on both sides *)
  Theorem perday_report_bytes_concat : forall (R : reporter NM), perday_reporter NM R ->
    forall (pd : nat -> list bytes -> list bytes) (pf : list bytes -> list bytes)
           (toks : list ltoken) (bt et : option time) (f1 f2 : file),
    (forall i, order_oracle (pd i)) ->
    appendable f1 f2 ->
    snd (report NM R pd pf toks bt et (events NM (render f1))) = None ->
    fst (report NM R pd pf toks bt et (events NM (render f1 ++ render f2)))
      = fst (report NM R pd pf toks bt et (events NM (render f1)))
        ++ fst (report NM R pd pf toks bt et (events NM (render f2)))
    /\ snd (report NM R pd pf toks bt et (events NM (render f1 ++ render f2)))
      = snd (report NM R pd pf toks bt et (events NM (render f2))).
  Proof.
    intros R HR pd pf toks bt et f1 f2 Hpd Happ Hok.
    rewrite (appendable_events f1 f2 Happ).
    pose proof (perday_reports_concat NM R HR pd pf toks bt et (events NM (render f1)) (events NM (render f2)) Hok) as H.
    cbv zeta in H.
    rewrite (report_pd_independent R (perday_rep_indep R HR)
               (fun i => pd (selected_days NM toks bt et (events NM (render f1)) + i)%nat) pd pf) in H.
    - exact H.
    - intros i. apply Hpd.
    - exact Hpd.
  Qed.

  (** unrelated oracles in the three runs *)
  Theorem perday_report_bytes_concat_oracles : forall (R : reporter NM), perday_reporter NM R ->
    forall (pd1 pd2 pd12 : nat -> list bytes -> list bytes) (pf1 pf2 pf12 : list bytes -> list bytes)
           (toks : list ltoken) (bt et : option time) (f1 f2 : file),
    (forall i, order_oracle (pd1 i)) -> (forall i, order_oracle (pd2 i)) -> (forall i, order_oracle (pd12 i)) ->
    appendable f1 f2 ->
    snd (report NM R pd1 pf1 toks bt et (events NM (render f1))) = None ->
    fst (report NM R pd12 pf12 toks bt et (events NM (render f1 ++ render f2)))
      = fst (report NM R pd1 pf1 toks bt et (events NM (render f1)))
        ++ fst (report NM R pd2 pf2 toks bt et (events NM (render f2)))
    /\ snd (report NM R pd12 pf12 toks bt et (events NM (render f1 ++ render f2)))
      = snd (report NM R pd2 pf2 toks bt et (events NM (render f2))).
  Proof.
    intros R HR pd1 pd2 pd12 pf1 pf2 pf12 toks bt et f1 f2 H1 H2 H12 Happ Hok.
    assert (Hpf : forall pd pf pf' evs, report NM R pd pf toks bt et evs = report NM R pd pf' toks bt et evs).
    { intros pd pf pf' evs. unfold report, report_from.
      destruct (walk_events NM R pd toks bt et evs (r_init NM R, 0%nat, fresh_writer)) as [[[rs i] wr1] werr].
      destruct (perday_stateless NM R HR) as [_ Hfl]. rewrite !Hfl. reflexivity. }
    pose proof (perday_rep_indep R HR) as Hind.
    rewrite (Hpf pd12 pf12 pf1), (Hpf pd2 pf2 pf1).
    rewrite (report_pd_independent R Hind pd12 pd1 pf1 H12 H1).
    rewrite (report_pd_independent R Hind pd2 pd1 pf1 H2 H1).
    apply perday_report_bytes_concat; assumption.
  Qed.

  (** ** the commands *)

  (** commands that only walk the log (csv log, print): three executions - on
      the first file, on the second file, on the file made of the bytes of the
      first followed by the bytes of the second - with unrelated map orders,
      each on a standard output that never fails *)
  Theorem run_log_bytes_concat : forall (R : reporter NM), perday_reporter NM R ->
    forall (w1 w2 w12 : world) (op : options) (f1 f2 : file),
    appendable f1 f2 ->
    w_sink w1 = None -> w_sink w2 = None -> w_sink w12 = None ->
    oracles_ok (w_or w1) -> oracles_ok (w_or w2) -> oracles_ok (w_or w12) ->
    open_file w1 (op_log op) = Some (OData (render f1) NoFault) ->
    open_file w2 (op_log op) = Some (OData (render f2) NoFault) ->
    open_file w12 (op_log op) = Some (OData (render f1 ++ render f2) NoFault) ->
    out_status (run_log NM w1 op R) = Ok ->
    out_stdout (run_log NM w12 op R) = out_stdout (run_log NM w1 op R) ++ out_stdout (run_log NM w2 op R)
    /\ out_status (run_log NM w12 op R) = out_status (run_log NM w2 op R).
  Proof.
    intros R HR w1 w2 w12 op f1 f2 Happ Hs1 Hs2 Hs12 (_ & Hd1 & _) (_ & Hd2 & _) (_ & Hd12 & _) Ho1 Ho2 Ho12 Hok.
    destruct (appendable_scan f1 f2 Happ) as (Hsc1 & Hsc2 & Hsc12).
    destruct (tokenize (op_fmt op)) as [toks|] eqn:Etok.
    - rewrite (run_log_report NM w1 op R (render f1) toks Hs1 Ho1 Hsc1 Etok) in *.
      rewrite (run_log_report NM w2 op R (render f2) toks Hs2 Ho2 Hsc2 Etok).
      rewrite (run_log_report NM w12 op R (render f1 ++ render f2) toks Hs12 Ho12 Hsc12 Etok).
      cbn [out_stdout out_status] in *.
      assert (Hok' : snd (report NM R (o_day (w_or w1)) (o_flush (w_or w1)) toks (op_begin op) (op_end op)
                            (events NM (render f1))) = None).
      { destruct (snd (report NM R (o_day (w_or w1)) (o_flush (w_or w1)) toks (op_begin op) (op_end op)
                         (events NM (render f1)))); [discriminate Hok|reflexivity]. }
      destruct (perday_report_bytes_concat_oracles R HR (o_day (w_or w1)) (o_day (w_or w2)) (o_day (w_or w12))
                  (o_flush (w_or w1)) (o_flush (w_or w2)) (o_flush (w_or w12)) toks (op_begin op) (op_end op)
                  f1 f2 Hd1 Hd2 Hd12 Happ Hok') as [Hout Hst].
      split; [exact Hout|]. rewrite Hst. reflexivity.
    - exfalso. unfold run_log in Hok. cbn [open_all] in Hok. rewrite Ho1 in Hok. cbn [option_map] in Hok.
      rewrite Etok in Hok. discriminate Hok.
  Qed.

  (** commands that resolve the book first (register and its variants): the
      database file is the same in the three executions *)
  Theorem run_db_log_bytes_concat : forall (mk : db -> reporter NM), (forall d, perday_reporter NM (mk d)) ->
    forall (w1 w2 w12 : world) (op : options) (bt et : option time) (odb : opened) (f1 f2 : file),
    appendable f1 f2 ->
    w_sink w1 = None -> w_sink w2 = None -> w_sink w12 = None ->
    oracles_ok (w_or w1) -> oracles_ok (w_or w2) -> oracles_ok (w_or w12) ->
    open_file w1 (op_db op) = Some odb -> open_file w2 (op_db op) = Some odb -> open_file w12 (op_db op) = Some odb ->
    open_file w1 (op_log op) = Some (OData (render f1) NoFault) ->
    open_file w2 (op_log op) = Some (OData (render f2) NoFault) ->
    open_file w12 (op_log op) = Some (OData (render f1 ++ render f2) NoFault) ->
    out_status (run_db_log NM w1 op mk bt et) = Ok ->
    out_stdout (run_db_log NM w12 op mk bt et)
      = out_stdout (run_db_log NM w1 op mk bt et) ++ out_stdout (run_db_log NM w2 op mk bt et)
    /\ out_status (run_db_log NM w12 op mk bt et) = out_status (run_db_log NM w2 op mk bt et).
  Proof.
    intros mk Hmk w1 w2 w12 op bt et odb f1 f2 Happ Hs1 Hs2 Hs12 Hor1 Hor2 Hor12 Hb1 Hb2 Hb12 Ho1 Ho2 Ho12 Hok.
    destruct (appendable_scan f1 f2 Happ) as (Hsc1 & Hsc2 & Hsc12).
    (* the book: resolved in the first run, hence (same file, same limit) in the other two *)
    destruct (resolved_db NM w1 op odb) as [e|d] eqn:Er1.
    { exfalso. unfold run_db_log in Hok. cbn [open_all] in Hok. rewrite Hb1, Ho1 in Hok. cbn [option_map] in Hok.
      rewrite Er1 in Hok. discriminate Hok. }
    assert (Er2 : resolved_db NM w2 op odb = inr d).
    { rewrite (resolved_db_outcome NM w2 op odb Hor2), <- (resolved_db_outcome NM w1 op odb Hor1). exact Er1. }
    assert (Er12 : resolved_db NM w12 op odb = inr d).
    { rewrite (resolved_db_outcome NM w12 op odb Hor12), <- (resolved_db_outcome NM w1 op odb Hor1). exact Er1. }
    destruct (tokenize (op_fmt op)) as [toks|] eqn:Etok.
    - destruct Hor1 as (_ & Hd1 & _), Hor2 as (_ & Hd2 & _), Hor12 as (_ & Hd12 & _).
      rewrite (run_db_log_report NM w1 op mk bt et odb d (render f1) toks Hs1 Hb1 Ho1 Er1 Hsc1 Etok) in *.
      rewrite (run_db_log_report NM w2 op mk bt et odb d (render f2) toks Hs2 Hb2 Ho2 Er2 Hsc2 Etok).
      rewrite (run_db_log_report NM w12 op mk bt et odb d (render f1 ++ render f2) toks Hs12 Hb12 Ho12 Er12 Hsc12 Etok).
      cbv zeta in *. rewrite !(perday_no_panic NM (mk d) (Hmk d)) in *.
      cbn [out_stdout out_status] in *.
      assert (Hok' : snd (report NM (mk d) (o_day (w_or w1)) (o_flush (w_or w1)) toks bt et
                            (events NM (render f1))) = None).
      { destruct (snd (report NM (mk d) (o_day (w_or w1)) (o_flush (w_or w1)) toks bt et
                         (events NM (render f1)))); [discriminate Hok|reflexivity]. }
      destruct (perday_report_bytes_concat_oracles (mk d) (Hmk d) (o_day (w_or w1)) (o_day (w_or w2)) (o_day (w_or w12))
                  (o_flush (w_or w1)) (o_flush (w_or w2)) (o_flush (w_or w12)) toks bt et
                  f1 f2 Hd1 Hd2 Hd12 Happ Hok') as [Hout Hst].
      split; [exact Hout|]. rewrite Hst. reflexivity.
    - exfalso. unfold run_db_log in Hok. cbn [open_all] in Hok. rewrite Hb1, Ho1 in Hok. cbn [option_map] in Hok.
      rewrite Er1, Etok in Hok. discriminate Hok.
  Qed.

  (** ** the program: [run] for the commands csv log, print and reg *)

  (** the flag combinations under which [reg] is a per-day report: not grouped
      by food (-g with -s is a period report), and a -f pattern inside the model *)
  Definition reg_is_perday (c : rconfig) : Prop :=
    match rc_single_element c with
    | [] => rc_single_food c = [] \/ parse_regex (rc_single_food c) <> ReUnmodelled
    | _ :: _ => rc_group_food c = false
    end.

  Lemma reg_reporter_perday : forall c (d : db), reg_is_perday c -> perday_reporter NM (reg_reporter NM c d).
  Proof.
    intros c d H. unfold reg_is_perday in H. unfold reg_reporter.
    destruct (rc_single_element c) as [|x xs].
    - destruct (rc_single_food c) as [|y ys] eqn:Ef.
      + destruct (rc_old c); constructor.
      + destruct H as [H|H]; [discriminate H|]. rewrite <- Ef in H. constructor. exact H.
    - rewrite H. constructor.
  Qed.

  (** csv log, print: only the log file is read *)
  Theorem run_bytes_concat_log : forall (w1 w2 w12 : world) (i : invocation) (op : options) (f1 f2 : file),
    i_cmd i = CCsvLog \/ i_cmd i = CPrint ->
    load w1 i = inr op -> load w2 i = inr op -> load w12 i = inr op ->
    appendable f1 f2 ->
    w_sink w1 = None -> w_sink w2 = None -> w_sink w12 = None ->
    oracles_ok (w_or w1) -> oracles_ok (w_or w2) -> oracles_ok (w_or w12) ->
    open_file w1 (op_log op) = Some (OData (render f1) NoFault) ->
    open_file w2 (op_log op) = Some (OData (render f2) NoFault) ->
    open_file w12 (op_log op) = Some (OData (render f1 ++ render f2) NoFault) ->
    out_status (run NM w1 i) = Ok ->
    out_stdout (run NM w12 i) = out_stdout (run NM w1 i) ++ out_stdout (run NM w2 i)
    /\ out_status (run NM w12 i) = out_status (run NM w2 i).
  Proof.
    intros w1 w2 w12 i op f1 f2 Hc Hl1 Hl2 Hl12 Happ Hs1 Hs2 Hs12 Hor1 Hor2 Hor12 Ho1 Ho2 Ho12.
    unfold run. rewrite Hl1, Hl2, Hl12. destruct Hc as [Hc|Hc]; rewrite Hc.
    - apply (run_log_bytes_concat (rep_csv_log NM) (PD_csv_log NM) w1 w2 w12 op f1 f2); assumption.
    - apply (run_log_bytes_concat (rep_print NM (op_rc op)) (PD_print NM (op_rc op)) w1 w2 w12 op f1 f2); assumption.
  Qed.

  (** reg (register, old register, -f PATTERN, -s ELEMENT without -g): the
      database file is read as well, the same in the three executions *)
  Theorem run_bytes_concat_reg : forall (w1 w2 w12 : world) (i : invocation) (op : options) (odb : opened) (f1 f2 : file),
    i_cmd i = CReg -> reg_is_perday (op_rc op) ->
    load w1 i = inr op -> load w2 i = inr op -> load w12 i = inr op ->
    appendable f1 f2 ->
    w_sink w1 = None -> w_sink w2 = None -> w_sink w12 = None ->
    oracles_ok (w_or w1) -> oracles_ok (w_or w2) -> oracles_ok (w_or w12) ->
    open_file w1 (op_db op) = Some odb -> open_file w2 (op_db op) = Some odb -> open_file w12 (op_db op) = Some odb ->
    open_file w1 (op_log op) = Some (OData (render f1) NoFault) ->
    open_file w2 (op_log op) = Some (OData (render f2) NoFault) ->
    open_file w12 (op_log op) = Some (OData (render f1 ++ render f2) NoFault) ->
    out_status (run NM w1 i) = Ok ->
    out_stdout (run NM w12 i) = out_stdout (run NM w1 i) ++ out_stdout (run NM w2 i)
    /\ out_status (run NM w12 i) = out_status (run NM w2 i).
  Proof.
    intros w1 w2 w12 i op odb f1 f2 Hc Hreg Hl1 Hl2 Hl12 Happ Hs1 Hs2 Hs12 Hor1 Hor2 Hor12 Hb1 Hb2 Hb12 Ho1 Ho2 Ho12.
    unfold run. rewrite Hl1, Hl2, Hl12, Hc.
    apply (run_db_log_bytes_concat (reg_reporter NM (op_rc op))) with (odb := odb) (f1 := f1) (f2 := f2); try assumption.
    intros d. apply reg_reporter_perday. exact Hreg.
  Qed.
End AssemblyCompose.
