(** WP04 / C09 -- shared definitions and generic lemmas.

    [errors_of], [nodes_of], [readable]; the structure of [events]; the
    callback protocol ([drive_loop], [drive], [parse_stream], [parse_opened])
    for callbacks that do not stop on a prefix of the events; the writer
    ([sink], [bw]) in front of a sink that never fails. *)
From Coq Require Import Lia.
From HP Require Import Base.Bytes Base.Utf8 Base.Num Model.Scanner Model.Parser Model.Elements Model.Resolver
  Model.Dates Model.Tree Model.Writer Model.Reporters Model.Cli.
Open Scope N_scope.

(** * byte-string equality *)
Lemma beq_refl : forall x, beq x x = true.
Proof.
  induction x as [|a x IH]; cbn [beq]; [reflexivity|].
  rewrite N.eqb_refl, IH. reflexivity.
Qed.

Lemma beq_true_iff : forall x y, beq x y = true <-> x = y.
Proof.
  induction x as [|a x IH]; intros [|c y]; cbn [beq]; split; intros H; try reflexivity; try discriminate.
  - apply andb_true_iff in H. destruct H as [H1 H2].
    apply N.eqb_eq in H1. apply IH in H2. subst. reflexivity.
  - inversion H; subst. rewrite N.eqb_refl. cbn. apply IH. reflexivity.
Qed.

Section Base.
  Context (NM : Num).
  Notation event := (event NM).
  Notation pnode := (pnode NM).

  (** * errors and nodes of an event list *)
  Definition errors_of (evs : list event) : list perr :=
    flat_map (fun ev => match ev with EErr e => [e] | ENode _ => [] end) evs.

  Definition nodes_of (evs : list event) : list pnode :=
    flat_map (fun ev => match ev with EErr _ => [] | ENode n => [n] end) evs.

  Definition readable (data : bytes) : Prop := snd (scan data NoFault) = ScanEOF.

  Lemma errors_of_app : forall a c, errors_of (a ++ c) = errors_of a ++ errors_of c.
  Proof. intros a c. unfold errors_of. apply flat_map_app. Qed.

  Lemma nodes_of_app : forall a c, nodes_of (a ++ c) = nodes_of a ++ nodes_of c.
  Proof. intros a c. unfold nodes_of. apply flat_map_app. Qed.

  Lemma errors_of_cons_err : forall e r, errors_of (EErr e :: r) = e :: errors_of r.
  Proof. reflexivity. Qed.

  Lemma errors_of_cons_node : forall n r, errors_of (ENode n :: r) = errors_of r.
  Proof. reflexivity. Qed.

  (** an error-free list consists of nodes *)
  Lemma errors_of_nil_nodes : forall evs, errors_of evs = [] -> evs = map ENode (nodes_of evs).
  Proof.
    induction evs as [|ev r IH]; intros H; [reflexivity|].
    destruct ev as [n|e]; [|discriminate].
    cbn in H. cbn. f_equal. apply IH. exact H.
  Qed.

  Lemma errors_of_map_node : forall ns, errors_of (map ENode ns) = [].
  Proof. induction ns as [|n r IH]; [reflexivity|exact IH]. Qed.

  Lemma nodes_of_map_node : forall ns, nodes_of (map ENode ns) = ns.
  Proof. induction ns as [|n r IH]; [reflexivity|]. cbn. f_equal. exact IH. Qed.

  (** the first error splits the list: an error-free prefix, the error, the rest *)
  Lemma first_error_split : forall evs e es,
    errors_of evs = e :: es ->
    exists pre post, evs = pre ++ EErr e :: post /\ errors_of pre = [] /\ errors_of post = es.
  Proof.
    induction evs as [|ev r IH]; intros e es H; [discriminate|].
    destruct ev as [n|e'].
    - cbn in H. destruct (IH e es H) as (pre & post & E1 & E2 & E3).
      exists (ENode n :: pre), post. subst r. repeat split; assumption.
    - cbn in H. inversion H; subst. exists [], r. repeat split.
  Qed.

  Lemma first_error_unique : forall pre e post,
    errors_of pre = [] -> errors_of (pre ++ EErr e :: post) = e :: errors_of post.
  Proof. intros pre e post H. rewrite errors_of_app, H. reflexivity. Qed.

  (** two splittings at a first error coincide *)
  Lemma first_error_split_unique : forall pre1 e1 post1 pre2 e2 post2,
    pre1 ++ EErr e1 :: post1 = pre2 ++ EErr e2 :: post2 ->
    errors_of pre1 = [] -> errors_of pre2 = [] ->
    pre1 = pre2 /\ e1 = e2 /\ post1 = post2.
  Proof.
    induction pre1 as [|a p1 IH]; intros e1 post1 pre2 e2 post2 E H1 H2.
    - destruct pre2 as [|c p2].
      + cbn in E. inversion E. auto.
      + cbn in E. inversion E; subst. discriminate.
    - destruct pre2 as [|c p2].
      + cbn in E. inversion E; subst. discriminate.
      + cbn in E. inversion E; subst.
        destruct c as [n|e]; [|discriminate].
        destruct (IH _ _ _ _ _ H3 H1 H2) as (A1 & A2 & A3). subst. auto.
  Qed.

  (** * structure of [events] *)
  Definition loop_events (data : bytes) : list event := fst (parse_lines NM (fst (scan data NoFault))).
  Definition last_node (data : bytes) : option pnode := snd (parse_lines NM (fst (scan data NoFault))).
  Definition last_events (data : bytes) : list event :=
    match last_node data with Some n => [ENode n] | None => [] end.

  Lemma events_eq : forall data, events NM data = loop_events data ++ last_events data.
  Proof.
    intros data. unfold events, loop_events, last_events, last_node.
    destruct (parse_lines NM (fst (scan data NoFault))) as [evs last]. reflexivity.
  Qed.

  Lemma last_events_no_error : forall data, errors_of (last_events data) = [].
  Proof. intros data. unfold last_events. destruct (last_node data); reflexivity. Qed.

  (** every error of the file is delivered inside the loop *)
  Lemma errors_of_events : forall data, errors_of (events NM data) = errors_of (loop_events data).
  Proof.
    intros data. rewrite events_eq, errors_of_app, last_events_no_error. apply app_nil_r.
  Qed.

  Lemma events_split_loop : forall data pre e post,
    events NM data = pre ++ EErr e :: post ->
    exists post', loop_events data = pre ++ EErr e :: post' /\ post = post' ++ last_events data.
  Proof.
    intros data pre e post H. rewrite events_eq in H.
    unfold last_events in *. destruct (last_node data) as [n|].
    - destruct post as [|x post0] using rev_ind.
      + exfalso. change (pre ++ [EErr e]) with (pre ++ [EErr e]) in H.
        apply app_inj_tail in H. destruct H as [_ H]. discriminate.
      + clear IHpost0.
        change (pre ++ EErr e :: post0 ++ [x]) with (pre ++ (EErr e :: post0) ++ [x]) in H.
        rewrite app_assoc in H. apply app_inj_tail in H. destruct H as [H1 H2].
        subst x. exists post0. split; [exact H1|reflexivity].
    - rewrite app_nil_r in H. exists post. split; [exact H|]. symmetry. apply app_nil_r.
  Qed.

  (** any event of the file is either delivered inside the loop or is the pending last record *)
  Lemma events_split_any : forall data pre ev post,
    events NM data = pre ++ ev :: post ->
    (exists post', loop_events data = pre ++ ev :: post' /\ post = post' ++ last_events data)
    \/ (post = [] /\ loop_events data = pre /\ exists n, last_node data = Some n /\ ev = ENode n).
  Proof.
    intros data pre ev post H. rewrite events_eq in H.
    unfold last_events in *. destruct (last_node data) as [n|].
    - destruct post as [|x post0] using rev_ind.
      + right. apply app_inj_tail in H. destruct H as [H1 H2]. subst ev.
        split; [reflexivity|]. split; [exact H1|]. exists n. split; reflexivity.
      + clear IHpost0. left.
        change (pre ++ ev :: post0 ++ [x]) with (pre ++ (ev :: post0) ++ [x]) in H.
        rewrite app_assoc in H. apply app_inj_tail in H. destruct H as [H1 H2].
        subst x. exists post0. split; [exact H1|reflexivity].
    - left. rewrite app_nil_r in H. exists post. split; [exact H|]. symmetry. apply app_nil_r.
  Qed.

  Lemma scan_NoFault_end : forall data,
    snd (scan data NoFault) = ScanEOF \/ snd (scan data NoFault) = ScanTooLong.
  Proof.
    intros data. unfold scan.
    destruct (take_lines (raw_lines [] data)) as [ls tl]. destruct tl; cbn; auto.
  Qed.

  Lemma not_readable : forall data, ~ readable data -> snd (scan data NoFault) = ScanTooLong.
  Proof. intros data H. destruct (scan_NoFault_end data) as [E|E]; [contradiction|exact E]. Qed.

  Lemma parse_stream_NoFault : forall {S E} (cb : S -> event -> S * bool * option E) data s,
    parse_stream NM cb data NoFault s
    = drive NM cb (loop_events data) (last_node data) (snd (scan data NoFault)) s.
  Proof.
    intros S E cb data s. unfold parse_stream, loop_events, last_node.
    destruct (scan data NoFault) as [lines fin]. cbn [fst snd].
    destruct (parse_lines NM lines) as [evs last]. reflexivity.
  Qed.

  (** * the callback protocol *)
  Section Drive.
    Context {S E : Type} (cb : S -> event -> S * bool * option E).

    Lemma drive_loop_app : forall evs1 evs2 s,
      drive_loop NM cb (evs1 ++ evs2) s =
      match drive_loop NM cb evs1 s with
      | (s', Some e) => (s', Some e)
      | (s', None) => drive_loop NM cb evs2 s'
      end.
    Proof.
      induction evs1 as [|ev r IH]; intros evs2 s; [reflexivity|].
      cbn [app drive_loop]. destruct (cb s ev) as [[s' stop] e].
      destruct stop; [reflexivity|apply IH].
    Qed.

    (** a step function [h] describes the callback on every event of [evs]
        from every state satisfying the invariant: the loop runs through *)
    Lemma drive_loop_through : forall (Inv : S -> Prop) (h : S -> event -> S) evs,
      (forall s ev, In ev evs -> Inv s -> cb s ev = (h s ev, false, None) /\ Inv (h s ev)) ->
      forall s, Inv s -> drive_loop NM cb evs s = (fold_left h evs s, None) /\ Inv (fold_left h evs s).
    Proof.
      intros Inv h. induction evs as [|ev r IH]; intros Hcb s Hs; [split; [reflexivity|exact Hs]|].
      cbn [drive_loop fold_left].
      destruct (Hcb s ev (or_introl eq_refl) Hs) as [E1 E2]. rewrite E1.
      apply IH; [|exact E2]. intros s0 ev0 Hin. apply Hcb. right. exact Hin.
    Qed.

    (** the loop runs through [pre] and the callback stops at the next event *)
    Lemma drive_stops : forall pre ev post last fin s s1 s2 e,
      drive_loop NM cb pre s = (s1, None) ->
      cb s1 ev = (s2, true, e) ->
      drive NM cb (pre ++ ev :: post) last fin s = (s2, option_map inl e).
    Proof.
      intros pre ev post last fin s s1 s2 e H1 H2. unfold drive.
      rewrite drive_loop_app, H1. cbn [drive_loop]. rewrite H2. reflexivity.
    Qed.

    (** the loop runs through everything, the last record gets no error: end of file *)
    Lemma drive_eof : forall evs last s s1,
      drive_loop NM cb evs s = (s1, None) ->
      (forall n, last = Some n -> exists s2 stop, cb s1 (ENode n) = (s2, stop, None)) ->
      drive NM cb evs last ScanEOF s
      = (match last with Some n => fst (fst (cb s1 (ENode n))) | None => s1 end, None).
    Proof.
      intros evs last s s1 H1 H2. unfold drive. rewrite H1.
      destruct last as [n|]; [|reflexivity].
      destruct (H2 n eq_refl) as (s2 & stop & E1). rewrite E1. reflexivity.
    Qed.

    Lemma drive_too_long : forall evs last s s1,
      drive_loop NM cb evs s = (s1, None) ->
      drive NM cb evs last ScanTooLong s = (s1, Some (inr ScanTooLong)).
    Proof. intros evs last s s1 H1. unfold drive. rewrite H1. reflexivity. Qed.
  End Drive.

  (** ** callbacks that stop exactly at errors (the brief's generic helper) *)
  Section StopAtErrors.
    Context {S E : Type} (cb : S -> event -> S * bool * option E) (f : perr -> E) (g : S -> pnode -> S).
    Hypothesis cb_err : forall s e, cb s (EErr e) = (s, true, Some (f e)).
    Hypothesis cb_node : forall s n, cb s (ENode n) = (g s n, false, None).

    Lemma stop_at_errors_loop_clean : forall evs s,
      errors_of evs = [] -> drive_loop NM cb evs s = (fold_left g (nodes_of evs) s, None).
    Proof.
      induction evs as [|ev r IH]; intros s H; [reflexivity|].
      destruct ev as [n|e]; [|discriminate].
      cbn [drive_loop]. rewrite cb_node. cbn. apply IH. exact H.
    Qed.

    (** the file has an error: the nodes before the first one are folded, its image is returned
        (whether or not the file is readable to the end) *)
    Theorem stop_at_errors_first : forall data pre e post s,
      events NM data = pre ++ EErr e :: post -> errors_of pre = [] ->
      parse_stream NM cb data NoFault s = (fold_left g (nodes_of pre) s, Some (inl (f e))).
    Proof.
      intros data pre e post s Hev Hpre.
      destruct (events_split_loop data pre e post Hev) as (post' & Hl & _).
      rewrite parse_stream_NoFault, Hl.
      rewrite (drive_stops cb pre (EErr e) post' _ _ s _ _ (Some (f e))
                 (stop_at_errors_loop_clean pre s Hpre) (cb_err _ e)).
      reflexivity.
    Qed.

    (** no error, readable: all nodes folded, no error returned *)
    Theorem stop_at_errors_clean : forall data s,
      errors_of (events NM data) = [] -> readable data ->
      parse_stream NM cb data NoFault s = (fold_left g (nodes_of (events NM data)) s, None).
    Proof.
      intros data s Hc Hr. rewrite parse_stream_NoFault, Hr.
      rewrite errors_of_events in Hc.
      rewrite (drive_eof cb _ _ s _ (stop_at_errors_loop_clean _ s Hc)).
      - rewrite events_eq, nodes_of_app, fold_left_app. unfold last_events.
        destruct (last_node data) as [n|]; [|reflexivity].
        rewrite cb_node. reflexivity.
      - intros n _. rewrite cb_node. eauto.
    Qed.

    (** no error before an over-long line: the nodes completed before it are folded, ErrTooLong *)
    Theorem stop_at_errors_too_long : forall data s,
      errors_of (events NM data) = [] -> ~ readable data ->
      parse_stream NM cb data NoFault s
      = (fold_left g (nodes_of (loop_events data)) s, Some (inr ScanTooLong)).
    Proof.
      intros data s Hc Hr. rewrite parse_stream_NoFault, (not_readable _ Hr).
      rewrite errors_of_events in Hc.
      apply drive_too_long. apply stop_at_errors_loop_clean. exact Hc.
    Qed.
  End StopAtErrors.

  (** ** callbacks that stop at errors and at the records that are not [good] (fix F27: the stats
         callback stops with the date error at a heading that is not a date): on a stretch of
         good records they behave like the callbacks above *)
  Section StopAtErrorsGood.
    Context {S E : Type} (cb : S -> event -> S * bool * option E) (f : perr -> E) (g : S -> pnode -> S)
            (good : pnode -> Prop).
    Hypothesis cb_err : forall s e, cb s (EErr e) = (s, true, Some (f e)).
    Hypothesis cb_node : forall s n, good n -> cb s (ENode n) = (g s n, false, None).

    Lemma stop_at_errors_good_loop_clean : forall evs s,
      errors_of evs = [] -> Forall good (nodes_of evs) ->
      drive_loop NM cb evs s = (fold_left g (nodes_of evs) s, None).
    Proof.
      induction evs as [|ev r IH]; intros s H Hg; [reflexivity|].
      destruct ev as [n|e]; [|discriminate].
      cbn [nodes_of] in Hg. inversion Hg as [|n0 r0 Hn Hr]; subst n0 r0.
      cbn [drive_loop]. rewrite (cb_node s n Hn). cbn. apply IH; [exact H|exact Hr].
    Qed.

    Theorem stop_at_errors_good_first : forall data pre e post s,
      events NM data = pre ++ EErr e :: post -> errors_of pre = [] -> Forall good (nodes_of pre) ->
      parse_stream NM cb data NoFault s = (fold_left g (nodes_of pre) s, Some (inl (f e))).
    Proof.
      intros data pre e post s Hev Hpre Hg.
      destruct (events_split_loop data pre e post Hev) as (post' & Hl & _).
      rewrite parse_stream_NoFault, Hl.
      rewrite (drive_stops cb pre (EErr e) post' _ _ s _ _ (Some (f e))
                 (stop_at_errors_good_loop_clean pre s Hpre Hg) (cb_err _ e)).
      reflexivity.
    Qed.

    Theorem stop_at_errors_good_clean : forall data s,
      errors_of (events NM data) = [] -> Forall good (nodes_of (events NM data)) -> readable data ->
      parse_stream NM cb data NoFault s = (fold_left g (nodes_of (events NM data)) s, None).
    Proof.
      intros data s Hc Hg Hr. rewrite parse_stream_NoFault, Hr.
      rewrite errors_of_events in Hc.
      rewrite events_eq, nodes_of_app in Hg. apply Forall_app in Hg. destruct Hg as [Hg1 Hg2].
      rewrite (drive_eof cb _ _ s _ (stop_at_errors_good_loop_clean _ s Hc Hg1)).
      - rewrite events_eq, nodes_of_app, fold_left_app. unfold last_events in *.
        destruct (last_node data) as [n|]; [|reflexivity].
        cbn in Hg2. inversion Hg2 as [|n0 r0 Hn Hr0]; subst n0 r0.
        rewrite (cb_node _ n Hn). reflexivity.
      - intros n En. unfold last_events in Hg2. rewrite En in Hg2. cbn in Hg2.
        inversion Hg2 as [|n0 r0 Hn Hr0]; subst n0 r0.
        rewrite (cb_node _ n Hn). eauto.
    Qed.

    (** the first record at which the callback stops with an error of its own (after a stretch of good
        records and no malformed line): that error is returned; when the record is the last of the file
        it is only delivered if the file is readable to the end *)
    Theorem stop_at_errors_good_stops_at_node : forall data pre n post s s' e,
      events NM data = pre ++ ENode n :: post -> errors_of pre = [] -> Forall good (nodes_of pre) ->
      cb (fold_left g (nodes_of pre) s) (ENode n) = (s', true, Some e) ->
      post <> [] \/ readable data ->
      parse_stream NM cb data NoFault s = (s', Some (inl e)).
    Proof.
      intros data pre n post s s' e Hev Hpre Hg Hcb Hpost.
      rewrite parse_stream_NoFault.
      destruct (events_split_any data pre (ENode n) post Hev)
        as [(post' & Hl & _)|(Hp & Hl & m & Hm & Hnm)].
      - rewrite Hl.
        rewrite (drive_stops cb pre (ENode n) post' _ _ s _ _ (Some e)
                   (stop_at_errors_good_loop_clean pre s Hpre Hg) Hcb).
        reflexivity.
      - destruct Hpost as [Hpost|Hr]; [contradiction|].
        inversion Hnm; subst m. rewrite Hl, Hm, Hr. unfold drive.
        rewrite (stop_at_errors_good_loop_clean pre s Hpre Hg), Hcb. reflexivity.
    Qed.
  End StopAtErrorsGood.

  (** ** opening a plain file *)
  Definition plain_file (w : world) (p data : bytes) : Prop :=
    p <> [] /\ p <> dev_null /\ lookup p (w_fs w) = Some (FFile data) /\ lookup p (w_read_fault w) = None.

  Lemma open_plain : forall w p data, plain_file w p data -> open_file w p = Some (OData data NoFault).
  Proof.
    intros w p data (Hp & Hd & Hf & Hr). unfold open_file, lookup_fs.
    destruct (beq p dev_null) eqn:Eb; [apply beq_true_iff in Eb; contradiction|].
    destruct p as [|c p]; [contradiction|]. rewrite Hf, Hr. reflexivity.
  Qed.

  Lemma parse_opened_data : forall {S} (cb : S -> event -> S * bool * option cerr) data s,
    parse_opened NM cb (OData data NoFault) s =
    (fst (parse_stream NM cb data NoFault s),
     match snd (parse_stream NM cb data NoFault s) with
     | None => None
     | Some (inl e) => Some e
     | Some (inr ScanTooLong) => Some (EScan true)
     | Some (inr _) => Some (EScan false)
     end).
  Proof.
    intros S cb data s. unfold parse_opened.
    destruct (parse_stream NM cb data NoFault s) as [s' r]. reflexivity.
  Qed.
End Base.

(** * the writer in front of a sink that never fails *)
Definition sink_ok (s : sink) : Prop := s_limit s = None.

Lemma sink_write_ok : forall s p, sink_ok s ->
  sink_write s p = ({| s_limit := None; s_got := s_got s ++ p |}, false).
Proof. intros s p H. unfold sink_write. rewrite H. reflexivity. Qed.

(** the bytes accepted so far: delivered to the sink or still in the buffer *)
Definition bw_content (w : bw) : bytes := s_got (bw_sink w) ++ bw_buf w.
Definition bw_ok (w : bw) : Prop := bw_err w = false /\ sink_ok (bw_sink w).

Lemma bw_new_ok : forall s, sink_ok s -> bw_ok (bw_new s).
Proof. intros s H. split; [reflexivity|exact H]. Qed.

Lemma bw_flush_ok : forall w, bw_ok w ->
  exists w', bw_flush w = (w', false) /\ bw_ok w' /\ bw_buf w' = [] /\ s_got (bw_sink w') = bw_content w.
Proof.
  intros w [He Hs]. unfold bw_flush, bw_content. rewrite He.
  destruct (bw_buf w) as [|c r] eqn:Eb.
  - exists w. repeat split; try assumption. symmetry. apply app_nil_r.
  - rewrite (sink_write_ok _ _ Hs). eexists. split; [reflexivity|]. repeat split.
Qed.

Lemma bw_write_ok : forall w p, bw_ok w ->
  exists w', bw_write w p = (w', false) /\ bw_ok w' /\ bw_content w' = bw_content w ++ p.
Proof.
  intros w p [He Hs]. unfold bw_write. rewrite He.
  destruct (Nat.leb (length p) (buf_size - length (bw_buf w))) eqn:Efit.
  - eexists. split; [reflexivity|]. split; [split; [reflexivity|exact Hs]|].
    unfold bw_content. cbn. apply app_assoc.
  - destruct (bw_buf w) as [|c r] eqn:Eb.
    + unfold bw_direct. rewrite (sink_write_ok _ _ Hs). eexists. split; [reflexivity|].
      split; [split; reflexivity|]. unfold bw_content. cbn. rewrite Eb, !app_nil_r. reflexivity.
    + set (avail := (buf_size - length (c :: r))%nat).
      unfold bw_flush. cbn [bw_err bw_buf bw_sink].
      destruct ((c :: r) ++ firstn avail p) as [|c' r'] eqn:Eb2; [discriminate|].
      rewrite (sink_write_ok _ _ Hs).
      assert (Hc : (s_got (bw_sink w) ++ c' :: r') ++ skipn avail p = bw_content w ++ p).
      { unfold bw_content. rewrite Eb, <- Eb2, <- !app_assoc. rewrite (firstn_skipn avail p). reflexivity. }
      destruct (Nat.leb (length (skipn avail p)) buf_size).
      * eexists. split; [reflexivity|]. split; [split; reflexivity|].
        unfold bw_content at 1. cbn. exact Hc.
      * unfold bw_direct. cbn [bw_sink bw_buf].
        rewrite sink_write_ok by reflexivity. eexists. split; [reflexivity|].
        split; [split; reflexivity|]. unfold bw_content at 1. cbn. rewrite app_nil_r. exact Hc.
Qed.

Definition chunk_bytes (cs : list chunk) : bytes := concat (map fst cs).

Lemma chunk_bytes_app : forall a c, chunk_bytes (a ++ c) = chunk_bytes a ++ chunk_bytes c.
Proof. intros a c. unfold chunk_bytes. rewrite map_app. apply concat_app. Qed.

Lemma bw_chunks_ok : forall cs w, bw_ok w ->
  exists w', bw_chunks w cs = (w', false) /\ bw_ok w' /\ bw_content w' = bw_content w ++ chunk_bytes cs.
Proof.
  induction cs as [|[p checked] r IH]; intros w Hw.
  - exists w. split; [reflexivity|]. split; [exact Hw|]. symmetry. apply app_nil_r.
  - cbn [bw_chunks]. destruct (bw_write_ok w p Hw) as (w1 & E1 & Hw1 & C1). rewrite E1. cbn [andb].
    destruct (IH w1 Hw1) as (w2 & E2 & Hw2 & C2). exists w2. split; [exact E2|]. split; [exact Hw2|].
    rewrite C2, C1. unfold chunk_bytes. cbn. symmetry. apply app_assoc.
Qed.
