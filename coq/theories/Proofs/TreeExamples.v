(** WP08: non-vacuity examples (exact integers, by computation). *)
From HP Require Import Base.Bytes Base.Num Model.Elements Model.Tree Model.Reporters Model.Dates.
From HP Require Import Spec.TreeShared Spec.TreeSpec.
From HP Require Import Proofs.TreeBytes Proofs.TreeBuild Proofs.TreeChain Proofs.TreeOrder Proofs.TreeSums Proofs.TreeLeaves Proofs.TreeMain.
From Coq Require Import Lia Sorted Permutation.
Open Scope string_scope.

Notation built es := (tree_add_all ZNum (empty_root ZNum) es).
Notation ZNode := (@Node ZNum).

(** the two oracles used below are permutations *)
Lemma id_is_perm : forall l : list bytes, Permutation ((fun l => l) l) l.
Proof. intro l. apply Permutation_refl. Qed.
Lemma rev_is_perm : forall l : list bytes, Permutation (rev l) l.
Proof. intro l. apply Permutation_sym. apply Permutation_rev. Qed.

Lemma ZNum_AddMonoid : AddMonoid ZNum.
Proof. constructor; intros; cbn; lia. Qed.

(** the brief's log *)
Definition ex1 : list (bytes * Z) :=
  [(b "a/b/c", 1%Z); (b "a/b/d", 2%Z); (b "a/e", 4%Z); (b "x", 8%Z); (b "a/b/c", 16%Z)].

(** the same entries logged in another order (so that sorting has work to do) *)
Definition ex2 : list (bytes * Z) :=
  [(b "x", 8%Z); (b "a/e", 4%Z); (b "a/b/d", 2%Z); (b "a/b/c", 1%Z); (b "a/b/c", 16%Z)].

Definition rows1 : list (list bytes * Z) :=
  [([b "a"], 23%Z); ([b "a"; b "b"], 19%Z); ([b "a"; b "b"; b "c"], 17%Z); ([b "a"; b "b"; b "d"], 2%Z);
   ([b "a"; b "e"], 4%Z); ([b "x"], 8%Z)].

Example ex1_totals_per_path :
  map (fun p => (p, total_at ZNum ex1 p)) (node_paths ZNum ex1) = rows1.
Proof. vm_compute. reflexivity. Qed.

Example ex1_ordered_two_oracles :
  tree_paths ZNum (order_tree ZNum (fun l => l) (built ex1)) = rows1 /\
  tree_paths ZNum (order_tree ZNum (@rev bytes) (built ex1)) = rows1.
Proof. vm_compute. split; reflexivity. Qed.

Example ex2_built_in_log_order :
  tree_paths ZNum (built ex2) =
  [([b "x"], 8%Z); ([b "a"], 23%Z); ([b "a"; b "e"], 4%Z); ([b "a"; b "b"], 19%Z);
   ([b "a"; b "b"; b "d"], 2%Z); ([b "a"; b "b"; b "c"], 17%Z)].
Proof. vm_compute. reflexivity. Qed.

Example ex2_ordered_two_oracles :
  tree_paths ZNum (order_tree ZNum (fun l => l) (built ex2)) = rows1 /\
  tree_paths ZNum (order_tree ZNum (@rev bytes) (built ex2)) = rows1.
Proof. vm_compute. split; reflexivity. Qed.

Example ex2_sorted_children : sorted_tree ZNum (order_tree ZNum (@rev bytes) (built ex2)).
Proof. exact (proj1 (order_tree_sorted ZNum ex2 _ _ rev_is_perm id_is_perm)). Qed.

Example ex1_prefix_freeb : prefix_freeb ZNum ex1 = true.
Proof. vm_compute. reflexivity. Qed.

Example ex1_prefix_free : prefix_free ZNum ex1.
Proof. apply prefix_freeb_iff. exact ex1_prefix_freeb. Qed.

Example ex1_leaves :
  tree_leaves ZNum (order_tree ZNum (@rev bytes) (built ex1)) =
  [([b "a"; b "b"; b "c"], 17%Z); ([b "a"; b "b"; b "d"], 2%Z); ([b "a"; b "e"], 4%Z); ([b "x"], 8%Z)].
Proof. vm_compute. reflexivity. Qed.

(** parent = own + children at the node "a" (own 0, children b and e) and, with an
    entry logged at an inner node, at "a" of [ex5] (own 5) *)
Definition ex5 : list (bytes * Z) := [(b "a/b", 1%Z); (b "a", 5%Z); (b "a/c/d", 2%Z); (b "a/b", 10%Z)].

Example ex1_parent_a :
  node_at ZNum [b "a"] (t_children ZNum (built ex1)) <> None /\
  total_at ZNum ex1 [b "a"] = 23%Z /\ own ZNum ex1 [b "a"] = 0%Z /\
  total_at ZNum ex1 [b "a"; b "b"] = 19%Z /\ total_at ZNum ex1 [b "a"; b "e"] = 4%Z.
Proof. vm_compute. repeat split; discriminate. Qed.

Example ex5_parent_a :
  map (t_name ZNum) (match node_at ZNum [b "a"] (t_children ZNum (built ex5)) with Some nd => t_children ZNum nd | None => [] end)
    = [b "b"; b "c"] /\
  total_at ZNum ex5 [b "a"] = 18%Z /\ own ZNum ex5 [b "a"] = 5%Z /\
  total_at ZNum ex5 [b "a"; b "b"] = 11%Z /\ total_at ZNum ex5 [b "a"; b "c"] = 2%Z.
Proof. vm_compute. repeat split. Qed.

(** single-child chains: [m/n/o] logged twice; the empty segment of [b//c] is a node of its own *)
Definition ex3 : list (bytes * Z) := [(b "z/y", 1%Z); (b "m/n/o", 3%Z); (b "m/n/o", 5%Z); (b "b//c", 7%Z)].

Example ex3_tree :
  order_tree ZNum (@rev bytes) (built ex3) =
  ZNode [] 0%Z [ZNode (b "b") 7%Z [ZNode [] 7%Z [ZNode (b "c") 7%Z []]];
               ZNode (b "m") 8%Z [ZNode (b "n") 8%Z [ZNode (b "o") 8%Z []]];
               ZNode (b "z") 1%Z [ZNode (b "y") 1%Z []]].
Proof. vm_compute. reflexivity. Qed.

Example ex3_chain_const :
  prefix_freeb ZNum ex3 = true /\ chain_const_below ZNum (order_tree ZNum (@rev bytes) (built ex3)).
Proof.
  split; [vm_compute; reflexivity|].
  apply (prefix_free_chain_const ZNum ex3 _ rev_is_perm). apply prefix_freeb_iff. vm_compute. reflexivity.
Qed.

(** the hypothesis [prefix_free] cannot be dropped: a food logged at an inner node *)
Definition ex4 : list (bytes * Z) := [(b "a", 1%Z); (b "a/b", 2%Z)].

Example chain_const_needs_prefix_free :
  prefix_freeb ZNum ex4 = false /\ ~ chain_const_below ZNum (built ex4).
Proof.
  split; [vm_compute; reflexivity|]. intro H. unfold chain_const_below in H.
  assert (E : t_children ZNum (built ex4) = [ZNode (b "a") 3%Z [ZNode (b "b") 2%Z []]]) by (vm_compute; reflexivity).
  rewrite E in H. inversion H as [|c r Hc Hr]; subst. cbn in Hc. destruct Hc as [Hc _]. discriminate.
Qed.

(** the single-element balance *)
Definition exdb : list (bytes * elements ZNum) :=
  [(b "bread/white", [(b "kcal", 3%Z); (b "fat", 1%Z)]); (b "milk", [(b "kcal", 2%Z)])].
Definition day (els : elements ZNum) : lognode ZNum :=
  {| ln_time := zero_time; ln_elems := els; ln_meta := None |}.
Definition exdays : list (lognode ZNum) :=
  [day [(b "bread/white", 2%Z); (b "milk", 5%Z); (b "kcal", 7%Z); (b "water", 1%Z)]; day [(b "bread/white", 1%Z)]].
Definition excfg : rconfig :=
  {| rc_color := false; rc_totals_only := false; rc_totals := false; rc_date := [];
     rc_single_element := b "kcal"; rc_single_food := []; rc_collapse_last := false; rc_collapse := false;
     rc_group_food := false; rc_shorten := false; rc_old := false; rc_template := []; rc_csv := false |}.

Example single_contributions_example :
  flat_map (bal_single_contributions ZNum exdb (b "kcal")) exdays =
  [(b "bread/white", 6%Z); (b "milk", 10%Z); (b "kcal", 7%Z); (b "bread/white", 3%Z)].
Proof. vm_compute. reflexivity. Qed.

Example single_total_example :
  let st := bal_single_run ZNum excfg exdb (fun _ l => l) exdays in
  snd st = 26%Z /\
  map (fun c => (t_name ZNum c, t_total ZNum c)) (t_children ZNum (fst st)) =
    [(b "bread", 9%Z); (b "milk", 10%Z); (b "kcal", 7%Z)].
Proof. vm_compute. split; reflexivity. Qed.
