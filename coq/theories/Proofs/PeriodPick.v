(** C06, part 3: resolution of the period flags: keywords, layout dates, innermost flag wins. *)
From Coq Require Import Lia ZifyBool ZifyN.
From HP Require Import Base.Bytes Base.Num Model.Dates Model.Reporters Model.Cli Spec.PeriodSpec.
Open Scope Z_scope.

Lemma beq_refl : forall x, beq x x = true.
Proof. induction x as [|a x IH]; [reflexivity|]. cbn [beq]. rewrite N.eqb_refl, IH. reflexivity. Qed.

Lemma beq_true_iff : forall x y, beq x y = true <-> x = y.
Proof.
  induction x as [|a x IH]; intros [|c y]; cbn [beq]; split; intros H; try reflexivity; try discriminate.
  - apply andb_true_iff in H. destruct H as [H1 H2]. apply N.eqb_eq in H1. apply IH in H2. subst. reflexivity.
  - inversion H; subst. rewrite N.eqb_refl. cbn. apply beq_refl.
Qed.

Lemma beq_false_iff : forall x y, beq x y = false <-> x <> y.
Proof.
  intros x y. split.
  - intros H E. apply beq_true_iff in E. congruence.
  - intros H. destruct (beq x y) eqn:E; [|reflexivity]. apply beq_true_iff in E. contradiction.
Qed.

(** *** keywords *)
Lemma tfs_today : forall w now toks, time_from_string w now toks (b "today") = inr now.
Proof. reflexivity. Qed.
Lemma tfs_yesterday : forall w now toks, time_from_string w now toks (b "yesterday") = inr (add_days now (-1)).
Proof. reflexivity. Qed.
Lemma tfs_last7 : forall w now toks, time_from_string w now toks (b "last7") = inr (add_days now (-7)).
Proof. reflexivity. Qed.
Lemma tfs_last30 : forall w now toks, time_from_string w now toks (b "last30") = inr (add_days now (-30)).
Proof. reflexivity. Qed.

Lemma tfs_not_keyword : forall w now toks s, is_keyword s = false ->
  time_from_string w now toks s =
  match parse_date toks s with
  | Some c => inr (time_of_civil c)
  | None => inl (EUnmodelled (b "naturaldate"))
  end.
Proof.
  intros w now toks s Hk. unfold is_keyword in Hk.
  apply orb_false_iff in Hk. destruct Hk as [Hk H30].
  apply orb_false_iff in Hk. destruct Hk as [Hk H7].
  apply orb_false_iff in Hk. destruct Hk as [Ht Hy].
  unfold time_from_string. rewrite Ht, Hy, H7, H30. reflexivity.
Qed.

(** *** a string that parses under a layout accepted by [tokenize] is never a keyword *)
Definition date_char (c : N) : bool := is_digit c || safe_literal c.
Definition safe_tok (t : ltoken) : Prop := match t with Lit c => safe_literal c = true | _ => True end.

Lemma tokenize_fuel_step : forall f c r,
  let T := tokenize_fuel (S f) (c :: r) in
  (exists r', T = option_map (cons Y4) (tokenize_fuel f r')) \/
  (exists r', T = option_map (cons M2) (tokenize_fuel f r')) \/
  (exists r', T = option_map (cons D2) (tokenize_fuel f r')) \/
  T = if safe_literal c then option_map (cons (Lit c)) (tokenize_fuel f r) else None.
Proof.
  intros f c r T. subst T. cbn [tokenize_fuel].
  repeat match goal with
         | |- context [match ?x with _ => _ end] => is_var x; destruct x
         end;
  first [ right; right; right; reflexivity
        | left; eexists; reflexivity
        | right; left; eexists; reflexivity
        | right; right; left; eexists; reflexivity ].
Qed.

Lemma tokenize_fuel_safe : forall fuel l toks, tokenize_fuel fuel l = Some toks -> Forall safe_tok toks.
Proof.
  induction fuel as [|f IH]; intros l toks H.
  - cbn in H. destruct l; inversion H. constructor.
  - assert (Hcons : forall (t : ltoken) r, safe_tok t -> option_map (cons t) (tokenize_fuel f r) = Some toks -> Forall safe_tok toks).
    { intros t r Ht Hm. destruct (tokenize_fuel f r) as [tl|] eqn:E; [|discriminate].
      cbn in Hm. inversion Hm; subst. constructor; [exact Ht|]. apply (IH r). exact E. }
    destruct l as [|c r]; [cbn in H; inversion H; constructor|].
    destruct (tokenize_fuel_step f c r) as [[r' Hs]|[[r' Hs]|[[r' Hs]|Hs]]]; rewrite Hs in H.
    + apply (Hcons Y4 r' I H).
    + apply (Hcons M2 r' I H).
    + apply (Hcons D2 r' I H).
    + destruct (safe_literal c) eqn:Es; [|discriminate]. apply (Hcons (Lit c) r Es H).
Qed.

Lemma tokenize_safe : forall layout toks, tokenize layout = Some toks -> Forall safe_tok toks.
Proof.
  intros layout toks H. unfold tokenize in H.
  destruct (tokenize_fuel (length layout) layout) as [l|] eqn:E; [|discriminate].
  destruct (_ && _)%bool; [|discriminate]. inversion H; subst. eapply tokenize_fuel_safe; exact E.
Qed.

Lemma take_digits_chars : forall n s acc v s', take_digits n s acc = Some (v, s') ->
  exists pre, s = pre ++ s' /\ Forall (fun c => date_char c = true) pre.
Proof.
  induction n as [|k IH]; intros s acc v s' H.
  - cbn in H. inversion H; subst. exists []. split; [reflexivity|constructor].
  - cbn [take_digits] in H. destruct s as [|c r]; [discriminate|].
    unfold digit_val in H. destruct (is_digit c) eqn:Ed; [|discriminate].
    apply IH in H. destruct H as [pre [Hs Hf]]. exists (c :: pre). split; [subst; reflexivity|].
    constructor; [unfold date_char; rewrite Ed; reflexivity|exact Hf].
Qed.

(** a space of the layout is Go's [time.skip] (a run of spaces, the space literals after it consumed
    with it): a successful parse under [Lit 32 :: r] is a successful parse under [r] of the text
    without some of its leading spaces *)
Lemma drop_spaces_split : forall s, exists pre, s = pre ++ drop_spaces s /\ Forall (fun c => c = 32%N) pre.
Proof.
  induction s as [|c s [pre [E F]]]; [exists []; split; [reflexivity|constructor]|].
  destruct (N.eqb_spec c 32) as [->|Hc].
  - exists (32%N :: pre). split; [cbn [app drop_spaces]; f_equal; exact E|constructor; [reflexivity|exact F]].
  - exists []. split; [|constructor]. cbn [app].
    destruct c as [|p]; [reflexivity|]. do 6 (try (destruct p as [p|p|]; try reflexivity)).
    exfalso; apply Hc; reflexivity.
Qed.

Lemma parse_tokens_space_step : forall r s y m d res,
  parse_tokens (Lit 32%N :: r) s y m d = Some res ->
  exists pre s', s = pre ++ s' /\ Forall (fun c => c = 32%N) pre /\ parse_tokens r s' y m d = Some res.
Proof.
  intros r s y m d res H.
  assert (Hr : drop_space_lits r = r \/ exists r', r = Lit 32%N :: r').
  { destruct r as [|[| | |c] r']; try (left; reflexivity).
    destruct (N.eqb_spec c 32) as [->|Hc]; [right; eexists; reflexivity|left].
    destruct c as [|p]; [reflexivity|]. do 6 (try (destruct p as [p|p|]; try reflexivity)).
    exfalso; apply Hc; reflexivity. }
  cbn [parse_tokens] in H. change (32 =? 32)%N with true in H. cbv iota in H.
  destruct Hr as [E|[r' ->]].
  - rewrite E in H. destruct s as [|c s0].
    + exists [], []. split; [reflexivity|split; [constructor|exact H]].
    + destruct (c =? 32)%N; [|discriminate].
      destruct (drop_spaces_split (c :: s0)) as [pre [E1 F1]].
      exists pre, (drop_spaces (c :: s0)). split; [exact E1|split; [exact F1|exact H]].
  - exists [], s. split; [reflexivity|split; [constructor|]].
    cbn [parse_tokens]. change (32 =? 32)%N with true. cbv iota. exact H.
Qed.

Lemma parse_tokens_chars : forall toks s y m d r, Forall safe_tok toks ->
  parse_tokens toks s y m d = Some r -> Forall (fun c => date_char c = true) s.
Proof.
  induction toks as [|t toks IH]; intros s y m d r Hsafe H.
  - cbn in H. destruct s; [constructor|discriminate].
  - inversion Hsafe as [|t0 l0 Ht Hrest]; subst.
    destruct t as [| | |c]; cbn [parse_tokens] in H.
    + destruct (take_digits 4 s 0) as [[v s']|] eqn:E; [|discriminate].
      apply take_digits_chars in E. destruct E as [pre [Hs Hf]]. subst s.
      apply Forall_app. split; [exact Hf|]. eapply IH; eassumption.
    + destruct (take_digits 2 s 0) as [[v s']|] eqn:E; [|discriminate].
      destruct (_ && _)%bool; [|discriminate].
      apply take_digits_chars in E. destruct E as [pre [Hs Hf]]. subst s.
      apply Forall_app. split; [exact Hf|]. eapply IH; eassumption.
    + destruct (take_digits 2 s 0) as [[v s']|] eqn:E; [|discriminate].
      destruct (_ && _)%bool; [|discriminate].
      apply take_digits_chars in E. destruct E as [pre [Hs Hf]]. subst s.
      apply Forall_app. split; [exact Hf|]. eapply IH; eassumption.
    + revert H. destruct (N.eqb_spec c 32) as [->|Hc]; intros H.
      * apply parse_tokens_space_step in H. destruct H as [pre [s' [-> [Hpre H]]]].
        apply Forall_app. split; [|eapply IH; eassumption].
        eapply Forall_impl; [|exact Hpre]. intros a ->. reflexivity.
      * destruct s as [|c' s']; [discriminate|].
        destruct (N.eqb_spec c c') as [Ec|Ec]; [|discriminate]. subst c'.
        constructor; [unfold date_char; cbn in Ht; rewrite Ht; apply orb_true_r|]. eapply IH; eassumption.
Qed.

Lemma parse_date_chars : forall toks s c, Forall safe_tok toks -> parse_date toks s = Some c ->
  Forall (fun x => date_char x = true) s.
Proof.
  intros toks s c Hsafe H. unfold parse_date in H.
  destruct (parse_tokens toks s 0 1 1) as [[[y m] d]|] eqn:E; [|discriminate].
  eapply parse_tokens_chars; eassumption.
Qed.

Lemma parsed_not_keyword : forall toks s c, Forall safe_tok toks -> parse_date toks s = Some c -> is_keyword s = false.
Proof.
  intros toks s c Hsafe H. apply parse_date_chars in H; [|exact Hsafe].
  unfold is_keyword.
  destruct (beq s (b "today")) eqn:E1; [apply beq_true_iff in E1; subst; inversion H as [|x l Hx _]; discriminate Hx|].
  destruct (beq s (b "yesterday")) eqn:E2; [apply beq_true_iff in E2; subst; inversion H as [|x l Hx _]; discriminate Hx|].
  destruct (beq s (b "last7")) eqn:E3; [apply beq_true_iff in E3; subst; inversion H as [|x l Hx _]; discriminate Hx|].
  destruct (beq s (b "last30")) eqn:E4; [apply beq_true_iff in E4; subst; inversion H as [|x l Hx _]; discriminate Hx|].
  reflexivity.
Qed.

(** a date written in the configured layout is that date's midnight UTC *)
Lemma tfs_layout_date : forall w now fmt toks s c,
  tokenize fmt = Some toks -> parse_date toks s = Some c ->
  time_from_string w now toks s = inr (time_of_civil c).
Proof.
  intros w now fmt toks s c Ht Hp.
  rewrite tfs_not_keyword; [rewrite Hp; reflexivity|].
  eapply parsed_not_keyword; [eapply tokenize_safe; exact Ht|exact Hp].
Qed.

(** *** keywords_spec *)
Theorem keywords_spec : forall w now toks,
  time_from_string w now toks (b "today") = inr now /\
  (exists t, time_from_string w now toks (b "yesterday") = inr t /\ inst t = inst now - 1 * ns_per_day) /\
  (exists t, time_from_string w now toks (b "last7") = inr t /\ inst t = inst now - 7 * ns_per_day) /\
  (exists t, time_from_string w now toks (b "last30") = inr t /\ inst t = inst now - 30 * ns_per_day) /\
  (forall fmt s c, tokenize fmt = Some toks -> parse_date toks s = Some c ->
                   time_from_string w now toks s = inr (time_of_civil c)) /\
  (forall s, is_keyword s = false -> parse_date toks s = None ->
             time_from_string w now toks s = inl (EUnmodelled (b "naturaldate"))).
Proof.
  intros w now toks. repeat split.
  - exists (add_days now (-1)). split; [reflexivity|]. cbn [inst add_days]. lia.
  - exists (add_days now (-7)). split; [reflexivity|]. cbn [inst add_days]. lia.
  - exists (add_days now (-30)). split; [reflexivity|]. cbn [inst add_days]. lia.
  - intros fmt s c Ht Hp. eapply tfs_layout_date; eassumption.
  - intros s Hk Hp. rewrite tfs_not_keyword by exact Hk. rewrite Hp. reflexivity.
Qed.

(** the only error [time_from_string] can give *)
Lemma tfs_error : forall w now toks s e, time_from_string w now toks s = inl e -> e = EUnmodelled (b "naturaldate").
Proof.
  intros w now toks s e H. unfold time_from_string in H.
  repeat match type of H with (if ?c then _ else _) = _ => destruct c; [discriminate|] end.
  destruct (parse_date toks s); [discriminate|]. inversion H. reflexivity.
Qed.

(** *** innermost flag wins *)
Theorem innermost_flag_wins : forall w now toks g l,
  pick_period w now toks g l =
  match g, l with
  | None, None => inr None
  | None, Some ls => lift_some (time_from_string w now toks ls)
  | Some gs, None => lift_some (time_from_string w now toks gs)
  | Some gs, Some ls =>
      match time_from_string w now toks gs with
      | inl e => inl e                                   (* the outer value is evaluated first *)
      | inr _ => lift_some (time_from_string w now toks ls)   (* and then overwritten *)
      end
  end.
Proof.
  intros w now toks [gs|] [ls|]; reflexivity.
Qed.

(** readable consequences *)
Corollary pick_period_local_wins : forall w now toks g ls r,
  pick_period w now toks g (Some ls) = inr r ->
  exists t, time_from_string w now toks ls = inr t /\ r = Some t.
Proof.
  intros w now toks g ls r H. rewrite innermost_flag_wins in H.
  destruct g as [gs|].
  - destruct (time_from_string w now toks gs) as [e0|t0]; [discriminate|].
    destruct (time_from_string w now toks ls) as [e|t]; [discriminate|]. inversion H. exists t. split; reflexivity.
  - destruct (time_from_string w now toks ls) as [e|t]; [discriminate|]. inversion H. exists t. split; reflexivity.
Qed.

Corollary pick_period_local_value : forall w now toks g ls t,
  time_from_string w now toks ls = inr t ->
  (forall gs, g = Some gs -> exists gt, time_from_string w now toks gs = inr gt) ->
  pick_period w now toks g (Some ls) = inr (Some t).
Proof.
  intros w now toks g ls t Hl Hg. rewrite innermost_flag_wins. destruct g as [gs|].
  - destruct (Hg gs eq_refl) as [gt Hgt]. rewrite Hgt, Hl. reflexivity.
  - rewrite Hl. reflexivity.
Qed.

(** once the sub-command gives a value and the command line is accepted, the global value has no influence *)
Corollary pick_period_global_overridden : forall w now toks gs ls r,
  pick_period w now toks (Some gs) (Some ls) = inr r -> pick_period w now toks None (Some ls) = inr r.
Proof.
  intros w now toks gs ls r H. rewrite innermost_flag_wins in *.
  destruct (time_from_string w now toks gs) as [e0|t0]; [discriminate|exact H].
Qed.

Corollary pick_period_global_only : forall w now toks gs,
  pick_period w now toks (Some gs) None = lift_some (time_from_string w now toks gs).
Proof. reflexivity. Qed.

Corollary pick_period_none : forall w now toks, pick_period w now toks None None = inr None.
Proof. reflexivity. Qed.

Corollary pick_period_outer_error : forall w now toks gs l e,
  time_from_string w now toks gs = inl e -> pick_period w now toks (Some gs) l = inl e.
Proof. intros w now toks gs l e H. unfold pick_period. rewrite H. reflexivity. Qed.

(** the result is an error exactly when one of the given values does not resolve *)
Corollary pick_period_error_iff : forall w now toks g l,
  (exists e, pick_period w now toks g l = inl e) <->
  (exists s e, (g = Some s \/ l = Some s) /\ time_from_string w now toks s = inl e).
Proof.
  intros w now toks g l. rewrite innermost_flag_wins. split.
  - intros [e H]. destruct g as [gs|], l as [ls|].
    + destruct (time_from_string w now toks gs) as [e1|t1] eqn:Eg.
      * exists gs, e1. split; [left; reflexivity|exact Eg].
      * destruct (time_from_string w now toks ls) as [e2|t2] eqn:El; [|discriminate].
        exists ls, e2. split; [right; reflexivity|exact El].
    + destruct (time_from_string w now toks gs) as [e1|t1] eqn:Eg; [|discriminate].
      exists gs, e1. split; [left; reflexivity|exact Eg].
    + destruct (time_from_string w now toks ls) as [e2|t2] eqn:El; [|discriminate].
      exists ls, e2. split; [right; reflexivity|exact El].
    + discriminate.
  - intros [s [e [[Hs|Hs] He]]]; subst.
    + rewrite He. destruct l; exists e; reflexivity.
    + destruct g as [gs|].
      * destruct (time_from_string w now toks gs) as [e1|t1]; [exists e1; reflexivity|].
        rewrite He. exists e. reflexivity.
      * rewrite He. exists e. reflexivity.
Qed.

(** *** what [load] does with the period and with --today *)
Theorem load_period : forall w i op, load w i = inr op ->
  tokenize (op_fmt op) = Some (rc_date (op_rc op)) /\
  pick_period w (op_now op) (rc_date (op_rc op)) (i_g_begin i) (i_l_begin i) = inr (op_begin op) /\
  pick_period w (op_now op) (rc_date (op_rc op)) (i_g_end i) (i_l_end i) = inr (op_end op) /\
  match i_f_today i with
  | Some s => exists c, parse_date (rc_date (op_rc op)) s = Some c /\ op_now op = time_of_civil c
  | None => True
  end.
Proof.
  intros w i op H. unfold load in H.
  destruct (load_config w i) as [e|cfg]; [discriminate|].
  destruct (tokenize _) as [toks|] eqn:Et; [|discriminate].
  destruct (i_f_today i) as [s|] eqn:Etd.
  - destruct (parse_date toks s) as [c|] eqn:Ep; [|discriminate].
    destruct (pick_period w (time_of_civil c) toks (i_g_begin i) (i_l_begin i)) as [e|bt] eqn:Eb; [discriminate|].
    destruct (pick_period w (time_of_civil c) toks (i_g_end i) (i_l_end i)) as [e|et] eqn:Ee; [discriminate|].
    inversion H; subst; clear H. cbn [op_fmt op_rc rc_date op_now op_begin op_end].
    repeat split; try assumption. exists c. split; [assumption|reflexivity].
  - destruct (pick_period w _ toks (i_g_begin i) (i_l_begin i)) as [e|bt] eqn:Eb; [discriminate|].
    destruct (pick_period w _ toks (i_g_end i) (i_l_end i)) as [e|et] eqn:Ee; [discriminate|].
    inversion H; subst; clear H. cbn [op_fmt op_rc rc_date op_now op_begin op_end].
    repeat split; assumption.
Qed.

(** non-vacuity *)
Definition ex_world : world :=
  {| w_fs := []; w_default_config := b "/home/u/.hranoprovod/config"; w_tz := 7200;
     w_clock := time_of_civil (2022, 5, 17);
     w_or := {| o_resolve := fun l => l; o_day := fun _ l => l; o_flush := fun l => l |};
     w_sink := None; w_read_fault := [] |}.
Definition ex_toks : list ltoken := [Y4; Lit 47%N; M2; Lit 47%N; D2].

Example pick_global_only :
  pick_period ex_world (time_of_civil (2022, 5, 17)) ex_toks (Some (b "2022/05/01")) None
  = inr (Some (time_of_civil (2022, 5, 1))).
Proof. vm_compute. reflexivity. Qed.
Example pick_local_wins :
  pick_period ex_world (time_of_civil (2022, 5, 17)) ex_toks (Some (b "2022/05/01")) (Some (b "yesterday"))
  = inr (Some (add_days (time_of_civil (2022, 5, 17)) (-1))).
Proof. vm_compute. reflexivity. Qed.
Example pick_outer_error :
  pick_period ex_world (time_of_civil (2022, 5, 17)) ex_toks (Some (b "nonsense")) (Some (b "2022/05/02"))
  = inl (EUnmodelled (b "naturaldate")).
Proof. vm_compute. reflexivity. Qed.
Example tokenize_default : tokenize (b "2006/01/02") = Some ex_toks.
Proof. vm_compute. reflexivity. Qed.
