(** C06, part 3: resolution of the period flags: keywords, layout dates, innermost flag wins. *)
From Coq Require Import Lia ZifyBool ZifyN.
From HP Require Import Base.Bytes Base.Num Model.Dates Model.Reporters Model.Cli Spec.PeriodSpec.
Open Scope Z_scope.

Lemma beq_refl : forall x, beq x x = true.
Proof. induction x as [|a x IH]; [reflexivity|]. cbn [beq]. rewrite N.eqb_refl, IH. reflexivity. Qed.

Lemma beq_true_iff : forall x y, beq x y = true <-> x = y.
Proof.
  induction x as [|a x IH]; intros [|c y]; cbn [beq]; split; intros H; try reflexivity; try discriminate.
  - apply andb_true_iff in H. destruct H as [H1 H2]. apply N.eqb_eq in H1. apply IH in H2. subst. reflexivity.
  - inversion H; subst. rewrite N.eqb_refl. cbn. apply beq_refl.
Qed.

Lemma beq_false_iff : forall x y, beq x y = false <-> x <> y.
Proof.
  intros x y. split.
  - intros H E. apply beq_true_iff in E. congruence.
  - intros H. destruct (beq x y) eqn:E; [|reflexivity]. apply beq_true_iff in E. contradiction.
Qed.

(** *** keywords *)
Lemma tfs_today : forall w now toks, time_from_string w now toks (b "today") = inr now.
Proof. reflexivity. Qed.
Lemma tfs_yesterday : forall w now toks, time_from_string w now toks (b "yesterday") = inr (add_days now (-1)).
Proof. reflexivity. Qed.
Lemma tfs_last7 : forall w now toks, time_from_string w now toks (b "last7") = inr (add_days now (-7)).
Proof. reflexivity. Qed.
Lemma tfs_last30 : forall w now toks, time_from_string w now toks (b "last30") = inr (add_days now (-30)).
Proof. reflexivity. Qed.

Lemma tfs_not_keyword : forall w now toks s, is_keyword s = false ->
  time_from_string w now toks s =
  match parse_date toks s with
  | Some c => inr (time_of_civil c)
  | None => inl (EUnmodelled (b "naturaldate"))
  end.
Proof.
  intros w now toks s Hk. unfold is_keyword in Hk.
  apply orb_false_iff in Hk. destruct Hk as [Hk H30].
  apply orb_false_iff in Hk. destruct Hk as [Hk H7].
  apply orb_false_iff in Hk. destruct Hk as [Ht Hy].
  unfold time_from_string. rewrite Ht, Hy, H7, H30. reflexivity.
Qed.

(** *** a string that parses under a layout accepted by [tokenize] is never a keyword: the
    first byte of a string that parses is a digit, a safe literal, or (with the case folded) the first
    letter of a month name; the keywords begin with [t], [y] and [l] *)
Definition safe_tok (t : ltoken) : Prop := match t with Lit c => safe_literal c = true | _ => True end.

(** a byte a parsed string can begin with *)
Definition first_char (c : N) : bool :=
  is_digit c || safe_literal c
  || existsb (fun name => match name with n0 :: _ => match_byte c n0 | [] => false end) (short_months ++ long_months).

Lemma next_elem_safe : forall l t n, next_elem l = Some (t, n) -> safe_tok t.
Proof.
  intros l t n. unfold next_elem. destruct l as [|c r]; [discriminate|].
  repeat match goal with
         | |- (if ?x then _ else _) = _ -> _ => destruct x eqn:?
         end; intros H; try discriminate; inversion H; subst; cbn; auto.
Qed.

Lemma tokenize_fuel_safe : forall fuel l toks, tokenize_fuel fuel l = Some toks -> Forall safe_tok toks.
Proof.
  induction fuel as [|f IH]; intros l toks H.
  - cbn in H. destruct l; inversion H. constructor.
  - cbn [tokenize_fuel] in H. destruct l as [|c r]; [inversion H; constructor|].
    destruct (next_elem (c :: r)) as [[t n]|] eqn:En; [|discriminate].
    destruct (tokenize_fuel f (skipn n (c :: r))) as [tl|] eqn:E; [|discriminate].
    cbn in H. inversion H; subst. constructor; [eapply next_elem_safe; exact En|]. eapply IH; exact E.
Qed.

Lemma tokenize_safe : forall layout toks, tokenize layout = Some toks -> Forall safe_tok toks.
Proof.
  intros layout toks H. unfold tokenize in H.
  destruct (tokenize_fuel (length layout) layout) as [l|] eqn:E; [|discriminate].
  destruct (_ && _)%bool; [|discriminate]. inversion H; subst. eapply tokenize_fuel_safe; exact E.
Qed.

Lemma take_digits_first : forall n c s acc v s', take_digits (S n) (c :: s) acc = Some (v, s') -> is_digit c = true.
Proof.
  intros n c s acc v s' H. cbn [take_digits] in H. unfold digit_val in H. destruct (is_digit c); [reflexivity|discriminate].
Qed.

Lemma get_num_first : forall c s v s', get_num (c :: s) = Some (v, s') -> is_digit c = true.
Proof.
  intros c s v s' H. cbn [get_num] in H. unfold digit_val in H. destruct (is_digit c); [reflexivity|discriminate].
Qed.

Lemma lookup_name_first : forall tab i c s v r, lookup_name tab i (c :: s) = Some (v, r) ->
  existsb (fun name => match name with n0 :: _ => match_byte c n0 | [] => false end) tab = true \/ In [] tab.
Proof.
  induction tab as [|name tab IH]; intros i c s v r H; [discriminate|]. cbn [lookup_name] in H. cbn [existsb In].
  destruct name as [|n0 name]; [right; left; reflexivity|]. cbn [match_prefix] in H.
  destruct (match_byte c n0) eqn:E; [left; reflexivity|].
  apply IH in H. destruct H as [H|H]; [left; rewrite H; apply orb_true_r|right; right; exact H].
Qed.

(** the first byte of a string that parses under a safe layout *)
Lemma parse_tokens_first : forall toks c s y m d r, Forall safe_tok toks ->
  parse_tokens toks (c :: s) y m d = Some r -> first_char c = true.
Proof.
  intros toks c s y m d r Hsafe H. unfold first_char.
  destruct toks as [|t toks]; [discriminate|]. inversion Hsafe as [|t0 l0 Ht _]; subst.
  destruct t as [| | | | | | | |c0]; cbn [parse_tokens] in H.
  - destruct (take_digits 4 (c :: s) 0) as [[v s']|] eqn:E; [|discriminate].
    rewrite (take_digits_first _ _ _ _ _ _ E). reflexivity.
  - destruct (take_digits 2 (c :: s) 0) as [[v s']|] eqn:E; [|discriminate].
    rewrite (take_digits_first _ _ _ _ _ _ E). reflexivity.
  - destruct (take_digits 2 (c :: s) 0) as [[v s']|] eqn:E; [|discriminate].
    rewrite (take_digits_first _ _ _ _ _ _ E). reflexivity.
  - destruct (get_num (c :: s)) as [[v s']|] eqn:E; [|discriminate].
    rewrite (get_num_first _ _ _ _ E). reflexivity.
  - destruct (N.eqb_spec c 32) as [->|Hc]; [reflexivity|].
    assert (E0 : drop_one_space (c :: s) = c :: s).
    { destruct c as [|p]; [reflexivity|]. do 6 (try (destruct p as [p|p|]; try reflexivity)).
      exfalso; apply Hc; reflexivity. }
    rewrite E0 in H. destruct (get_num (c :: s)) as [[v s']|] eqn:E; [|discriminate].
    rewrite (get_num_first _ _ _ _ E). reflexivity.
  - destruct (get_num (c :: s)) as [[v s']|] eqn:E; [|discriminate].
    rewrite (get_num_first _ _ _ _ E). reflexivity.
  - destruct (lookup_name short_months 1 (c :: s)) as [[v s']|] eqn:E; [|discriminate].
    apply lookup_name_first in E. destruct E as [E|E].
    + apply orb_true_iff. right. rewrite existsb_app. apply orb_true_iff. left. exact E.
    + exfalso. cbv [short_months In] in E. repeat (destruct E as [E|E]; [discriminate|]). exact E.
  - destruct (lookup_name long_months 1 (c :: s)) as [[v s']|] eqn:E; [|discriminate].
    apply lookup_name_first in E. destruct E as [E|E].
    + apply orb_true_iff. right. rewrite existsb_app. apply orb_true_iff. right. exact E.
    + exfalso. cbv [long_months In] in E. repeat (destruct E as [E|E]; [discriminate|]). exact E.
  - cbn in Ht. destruct (N.eqb_spec c0 32) as [->|Hc].
    + destruct (N.eqb_spec c 32) as [->|]; [reflexivity|discriminate].
    + destruct (N.eqb_spec c0 c) as [<-|]; [|discriminate]. rewrite Ht. rewrite orb_true_r. reflexivity.
Qed.

Lemma parsed_not_keyword : forall toks s c, Forall safe_tok toks -> parse_date toks s = Some c -> is_keyword s = false.
Proof.
  intros toks s c Hsafe H. unfold parse_date in H.
  destruct (parse_tokens toks s 0 1 1) as [r|] eqn:E; [|discriminate]. clear H.
  unfold is_keyword.
  destruct (beq s (b "today")) eqn:E1;
    [apply beq_true_iff in E1; subst; apply (parse_tokens_first _ _ _ _ _ _ _ Hsafe) in E; vm_compute in E; discriminate|].
  destruct (beq s (b "yesterday")) eqn:E2;
    [apply beq_true_iff in E2; subst; apply (parse_tokens_first _ _ _ _ _ _ _ Hsafe) in E; vm_compute in E; discriminate|].
  destruct (beq s (b "last7")) eqn:E3;
    [apply beq_true_iff in E3; subst; apply (parse_tokens_first _ _ _ _ _ _ _ Hsafe) in E; vm_compute in E; discriminate|].
  destruct (beq s (b "last30")) eqn:E4;
    [apply beq_true_iff in E4; subst; apply (parse_tokens_first _ _ _ _ _ _ _ Hsafe) in E; vm_compute in E; discriminate|].
  reflexivity.
Qed.

(** a date written in the configured layout is that date's midnight UTC *)
Lemma tfs_layout_date : forall w now fmt toks s c,
  tokenize fmt = Some toks -> parse_date toks s = Some c ->
  time_from_string w now toks s = inr (time_of_civil c).
Proof.
  intros w now fmt toks s c Ht Hp.
  rewrite tfs_not_keyword; [rewrite Hp; reflexivity|].
  eapply parsed_not_keyword; [eapply tokenize_safe; exact Ht|exact Hp].
Qed.

(** *** keywords_spec *)
Theorem keywords_spec : forall w now toks,
  time_from_string w now toks (b "today") = inr now /\
  (exists t, time_from_string w now toks (b "yesterday") = inr t /\ inst t = inst now - 1 * ns_per_day) /\
  (exists t, time_from_string w now toks (b "last7") = inr t /\ inst t = inst now - 7 * ns_per_day) /\
  (exists t, time_from_string w now toks (b "last30") = inr t /\ inst t = inst now - 30 * ns_per_day) /\
  (forall fmt s c, tokenize fmt = Some toks -> parse_date toks s = Some c ->
                   time_from_string w now toks s = inr (time_of_civil c)) /\
  (forall s, is_keyword s = false -> parse_date toks s = None ->
             time_from_string w now toks s = inl (EUnmodelled (b "naturaldate"))).
Proof.
  intros w now toks. repeat split.
  - exists (add_days now (-1)). split; [reflexivity|]. cbn [inst add_days]. lia.
  - exists (add_days now (-7)). split; [reflexivity|]. cbn [inst add_days]. lia.
  - exists (add_days now (-30)). split; [reflexivity|]. cbn [inst add_days]. lia.
  - intros fmt s c Ht Hp. eapply tfs_layout_date; eassumption.
  - intros s Hk Hp. rewrite tfs_not_keyword by exact Hk. rewrite Hp. reflexivity.
Qed.

(** the only error [time_from_string] can give *)
Lemma tfs_error : forall w now toks s e, time_from_string w now toks s = inl e -> e = EUnmodelled (b "naturaldate").
Proof.
  intros w now toks s e H. unfold time_from_string in H.
  repeat match type of H with (if ?c then _ else _) = _ => destruct c; [discriminate|] end.
  destruct (parse_date toks s); [discriminate|]. inversion H. reflexivity.
Qed.

(** *** innermost flag wins *)
Theorem innermost_flag_wins : forall w now toks g l,
  pick_period w now toks g l =
  match g, l with
  | None, None => inr None
  | None, Some ls => lift_some (time_from_string w now toks ls)
  | Some gs, None => lift_some (time_from_string w now toks gs)
  | Some gs, Some ls =>
      match time_from_string w now toks gs with
      | inl e => inl e                                   (* the outer value is evaluated first *)
      | inr _ => lift_some (time_from_string w now toks ls)   (* and then overwritten *)
      end
  end.
Proof.
  intros w now toks [gs|] [ls|]; reflexivity.
Qed.

(** readable consequences *)
Corollary pick_period_local_wins : forall w now toks g ls r,
  pick_period w now toks g (Some ls) = inr r ->
  exists t, time_from_string w now toks ls = inr t /\ r = Some t.
Proof.
  intros w now toks g ls r H. rewrite innermost_flag_wins in H.
  destruct g as [gs|].
  - destruct (time_from_string w now toks gs) as [e0|t0]; [discriminate|].
    destruct (time_from_string w now toks ls) as [e|t]; [discriminate|]. inversion H. exists t. split; reflexivity.
  - destruct (time_from_string w now toks ls) as [e|t]; [discriminate|]. inversion H. exists t. split; reflexivity.
Qed.

Corollary pick_period_local_value : forall w now toks g ls t,
  time_from_string w now toks ls = inr t ->
  (forall gs, g = Some gs -> exists gt, time_from_string w now toks gs = inr gt) ->
  pick_period w now toks g (Some ls) = inr (Some t).
Proof.
  intros w now toks g ls t Hl Hg. rewrite innermost_flag_wins. destruct g as [gs|].
  - destruct (Hg gs eq_refl) as [gt Hgt]. rewrite Hgt, Hl. reflexivity.
  - rewrite Hl. reflexivity.
Qed.

(** once the sub-command gives a value and the command line is accepted, the global value has no influence *)
Corollary pick_period_global_overridden : forall w now toks gs ls r,
  pick_period w now toks (Some gs) (Some ls) = inr r -> pick_period w now toks None (Some ls) = inr r.
Proof.
  intros w now toks gs ls r H. rewrite innermost_flag_wins in *.
  destruct (time_from_string w now toks gs) as [e0|t0]; [discriminate|exact H].
Qed.

Corollary pick_period_global_only : forall w now toks gs,
  pick_period w now toks (Some gs) None = lift_some (time_from_string w now toks gs).
Proof. reflexivity. Qed.

Corollary pick_period_none : forall w now toks, pick_period w now toks None None = inr None.
Proof. reflexivity. Qed.

Corollary pick_period_outer_error : forall w now toks gs l e,
  time_from_string w now toks gs = inl e -> pick_period w now toks (Some gs) l = inl e.
Proof. intros w now toks gs l e H. unfold pick_period. rewrite H. reflexivity. Qed.

(** the result is an error exactly when one of the given values does not resolve *)
Corollary pick_period_error_iff : forall w now toks g l,
  (exists e, pick_period w now toks g l = inl e) <->
  (exists s e, (g = Some s \/ l = Some s) /\ time_from_string w now toks s = inl e).
Proof.
  intros w now toks g l. rewrite innermost_flag_wins. split.
  - intros [e H]. destruct g as [gs|], l as [ls|].
    + destruct (time_from_string w now toks gs) as [e1|t1] eqn:Eg.
      * exists gs, e1. split; [left; reflexivity|exact Eg].
      * destruct (time_from_string w now toks ls) as [e2|t2] eqn:El; [|discriminate].
        exists ls, e2. split; [right; reflexivity|exact El].
    + destruct (time_from_string w now toks gs) as [e1|t1] eqn:Eg; [|discriminate].
      exists gs, e1. split; [left; reflexivity|exact Eg].
    + destruct (time_from_string w now toks ls) as [e2|t2] eqn:El; [|discriminate].
      exists ls, e2. split; [right; reflexivity|exact El].
    + discriminate.
  - intros [s [e [[Hs|Hs] He]]]; subst.
    + rewrite He. destruct l; exists e; reflexivity.
    + destruct g as [gs|].
      * destruct (time_from_string w now toks gs) as [e1|t1]; [exists e1; reflexivity|].
        rewrite He. exists e. reflexivity.
      * rewrite He. exists e. reflexivity.
Qed.

(** *** what [load] does with the period and with --today *)
Theorem load_period : forall w i op, load w i = inr op ->
  tokenize (op_fmt op) = Some (rc_date (op_rc op)) /\
  pick_period w (op_now op) (rc_date (op_rc op)) (i_g_begin i) (i_l_begin i) = inr (op_begin op) /\
  pick_period w (op_now op) (rc_date (op_rc op)) (i_g_end i) (i_l_end i) = inr (op_end op) /\
  match i_f_today i with
  | Some s => exists c, parse_date (rc_date (op_rc op)) s = Some c /\ op_now op = time_of_civil c
  | None => True
  end.
Proof.
  intros w i op H. unfold load in H.
  destruct (load_config w i) as [e|cfg]; [discriminate|].
  destruct (tokenize _) as [toks|] eqn:Et; [|discriminate].
  destruct (i_f_today i) as [s|] eqn:Etd.
  - destruct (parse_date toks s) as [c|] eqn:Ep; [|discriminate].
    destruct (pick_period w (time_of_civil c) toks (i_g_begin i) (i_l_begin i)) as [e|bt] eqn:Eb; [discriminate|].
    destruct (pick_period w (time_of_civil c) toks (i_g_end i) (i_l_end i)) as [e|et] eqn:Ee; [discriminate|].
    inversion H; subst; clear H. cbn [op_fmt op_rc rc_date op_now op_begin op_end].
    repeat split; try assumption. exists c. split; [assumption|reflexivity].
  - destruct (pick_period w _ toks (i_g_begin i) (i_l_begin i)) as [e|bt] eqn:Eb; [discriminate|].
    destruct (pick_period w _ toks (i_g_end i) (i_l_end i)) as [e|et] eqn:Ee; [discriminate|].
    inversion H; subst; clear H. cbn [op_fmt op_rc rc_date op_now op_begin op_end].
    repeat split; assumption.
Qed.

(** non-vacuity *)
Definition ex_world : world :=
  {| w_fs := []; w_default_config := b "/home/u/.hranoprovod/config"; w_tz := 7200;
     w_clock := time_of_civil (2022, 5, 17);
     w_or := {| o_resolve := fun l => l; o_day := fun _ l => l; o_flush := fun l => l |};
     w_sink := None; w_read_fault := [] |}.
Definition ex_toks : list ltoken := [Y4; Lit 47%N; M2; Lit 47%N; D2].

Example pick_global_only :
  pick_period ex_world (time_of_civil (2022, 5, 17)) ex_toks (Some (b "2022/05/01")) None
  = inr (Some (time_of_civil (2022, 5, 1))).
Proof. vm_compute. reflexivity. Qed.
Example pick_local_wins :
  pick_period ex_world (time_of_civil (2022, 5, 17)) ex_toks (Some (b "2022/05/01")) (Some (b "yesterday"))
  = inr (Some (add_days (time_of_civil (2022, 5, 17)) (-1))).
Proof. vm_compute. reflexivity. Qed.
Example pick_outer_error :
  pick_period ex_world (time_of_civil (2022, 5, 17)) ex_toks (Some (b "nonsense")) (Some (b "2022/05/02"))
  = inl (EUnmodelled (b "naturaldate")).
Proof. vm_compute. reflexivity. Qed.
Example tokenize_default : tokenize (b "2006/01/02") = Some ex_toks.
Proof. vm_compute. reflexivity. Qed.
