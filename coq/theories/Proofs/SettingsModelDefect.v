(** WP16 / C16 -- TEMPORARY FILE: facts that hold only of the DEFECTIVE
    [pick_string] of the current Model/Cli.v (a string taken from the
    configuration file loses its first byte).  DELETE THIS FILE once
    Model/Cli.v is repaired (see SettingsPickString.v); nothing depends on it.

    Contents:
      - [file_string_drops_first_byte]: what the current model reads;
      - [settings_precedence_strings_refuted]: the intended statement (file
        entries taken whole) is FALSE of the current model, with a witness;
      - [settings_precedence_*_partial]: the intended equalities under the side
        condition that the value does not come from the file;
      - examples of the defect. *)
From Coq Require Import Lia ZifyBool.
From HP Require Import Base.Bytes Base.Utf8 Base.Num Model.Scanner Model.Parser Model.Elements Model.Resolver
  Model.Dates Model.Tree Model.Writer Model.Reporters Model.Cli.
From HP Require Import Proofs.Settings.

(** the intended reading of a string entry: itself when not empty *)
Definition nonempty (o : option bytes) : option bytes :=
  match o with Some (c :: r) => Some (c :: r) | _ => None end.

Lemma file_string_drops_first_byte : forall c r, file_string (Some (c :: r)) = Some r.
Proof. reflexivity. Qed.

Lemma pick_string_spec_partial : forall f e c d,
  is_set f e = true \/ nonempty c = None ->
  pick_string f e c d = or_default (first_some [f; e; nonempty c]) d.
Proof.
  intros f e c d H. rewrite pick_string_spec. unfold is_set in H. cbn in *.
  destruct f as [x|]; [reflexivity|]. destruct e as [y|]; [reflexivity|].
  destruct H as [H|H]; [discriminate|]. destruct c as [[|c0 cr]|]; try reflexivity. discriminate.
Qed.

(** the intended statement.
    FULL statement = this one without the three [... \/ nonempty ... = None] hypotheses;
    it is false of the current model: [settings_precedence_strings_refuted]. *)
Theorem settings_precedence_partial : forall w i op cfg,
  load w i = inr op -> load_config w i = inr cfg ->
  (i_no_database i = true \/ is_set (i_f_db i) (i_e_db i) = true \/ nonempty (ce_db cfg) = None) ->
  (is_set (i_f_log i) (i_e_log i) = true \/ nonempty (ce_log cfg) = None) ->
  (is_set (i_f_fmt i) (i_e_fmt i) = true \/ nonempty (ce_fmt cfg) = None) ->
  op_db op = (if i_no_database i then []
              else or_default (first_some [i_f_db i; i_e_db i; nonempty (ce_db cfg)]) default_db) /\
  op_log op = or_default (first_some [i_f_log i; i_e_log i; nonempty (ce_log cfg)]) default_log /\
  op_fmt op = or_default (first_some [i_f_fmt i; i_e_fmt i; nonempty (ce_fmt cfg)]) default_fmt.
Proof.
  intros w i op cfg Hl Hc Hdb Hlog Hfmt.
  destruct (load_inr_cfg w i op cfg Hl Hc) as (H1 & H2 & H3 & _). repeat split.
  - rewrite H1. destruct (i_no_database i) eqn:En; [reflexivity|].
    apply pick_string_spec_partial. destruct Hdb as [Hdb|Hdb]; [discriminate|assumption].
  - rewrite H2. apply pick_string_spec_partial; assumption.
  - rewrite H3. apply pick_string_spec_partial; assumption.
Qed.

(** The intended statement for the three string settings is false of the
    current model: one world and one invocation refute all three at once. *)
Theorem settings_precedence_strings_refuted :
  exists w i op cfg,
    load w i = inr op /\ load_config w i = inr cfg /\ i_no_database i = false /\
    op_db op <> or_default (first_some [i_f_db i; i_e_db i; nonempty (ce_db cfg)]) default_db /\
    op_log op <> or_default (first_some [i_f_log i; i_e_log i; nonempty (ce_log cfg)]) default_log /\
    op_fmt op <> or_default (first_some [i_f_fmt i; i_e_fmt i; nonempty (ce_fmt cfg)]) default_fmt.
Proof.
  set (cfg := {| ce_db := Some (b "/cfg/db.yaml"); ce_log := Some (b "/cfg/log.yaml");
                 ce_fmt := Some (b "/2006-01-02"); ce_depth := None; ce_now := None |}).
  set (w := {| w_fs := [(b "/c", FConfig cfg)]; w_default_config := b "/c"; w_tz := 0%Z;
               w_clock := time_of_civil (2026, 10, 1)%Z; w_or := SettingsExample.id_oracles;
               w_sink := None; w_read_fault := [] |}).
  exists w, SettingsExample.i_bare.
  eexists. exists cfg.
  split; [vm_compute; reflexivity|].
  split; [vm_compute; reflexivity|].
  split; [reflexivity|].
  repeat split; vm_compute; discriminate.
Qed.

Module DefectExample.
  Import SettingsExample.

  Example ex_pick_string_drops_first_byte :
    pick_string None None (Some (b "/cfg/log.yaml")) default_log = b "cfg/log.yaml".
  Proof. vm_compute. reflexivity. Qed.

  (** the log path comes from the file, minus its first byte *)
  Example ex_log_from_file :
    exists op, load w0 i0 = inr op /\ op_log op = b "cfg/log.yaml".
  Proof. eexists. split; [vm_compute; reflexivity|]. reflexivity. Qed.

  (** a file that supplies the documented example layout "2006-01-02" makes [load] fail in the model
      (the layout read is "006-01-02") *)
  Example ex_file_layout_rejected :
    load w0 (mk_inv None None None None None None None None None None None false CReg)
    = inl (EUnmodelled (b "date layout")).
  Proof. vm_compute. reflexivity. Qed.

  (** the hypotheses of [settings_precedence_partial] are met when the strings come from flag/env *)
  Definition i0' : invocation :=
    mk_inv (Some (b "flag.yaml")) (Some (b "env-db.yaml")) None (Some (b "env-log.yaml")) None (Some (b "02.01.2006"))
           None None None None None false CReg.
  Example ex_partial_hyps :
    (exists op, load w0 i0' = inr op /\ op_log op = b "env-log.yaml" /\ op_depth op = 7%Z) /\
    load_config w0 i0' = inr cfgfile /\
    is_set (i_f_db i0') (i_e_db i0') = true /\ is_set (i_f_log i0') (i_e_log i0') = true /\
    is_set (i_f_fmt i0') (i_e_fmt i0') = true.
  Proof. split; [eexists; split; [vm_compute; reflexivity|]; cbn; split; reflexivity|]. vm_compute. repeat split. Qed.
End DefectExample.
