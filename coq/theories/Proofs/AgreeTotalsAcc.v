(** WP10: what the accumulator (accumulator.go) holds for one name, and what
    [newTotalFromAccumulator] ([totals_of_acc]) shows for it. *)
From Coq Require Import Lia Permutation.
From HP Require Import Base.Bytes Base.Num Model.Elements Model.Tree Model.Reporters Spec.AgreeSpec.
From HP Require Import Proofs.AgreeTotals.

Section Acc.
  Context (NM : Num).
  Notation T := (T NM).
  Notation elements := (elements NM).
  Notation accumulator := (accumulator NM).
  Notation oracle := (list bytes -> list bytes).

  Implicit Types (x name : bytes) (v : T) (cs : elements) (acc : accumulator).

  (** the accumulation loop every accumulator-based reporter runs *)
  Definition fold_acc cs acc : accumulator :=
    fold_left (fun a nv => acc_add NM (fst nv) (snd nv) a) cs acc.

  Lemma accumulate_fold_acc : forall cs, accumulate NM cs = fold_acc cs [].
  Proof. reflexivity. Qed.

  Lemma fold_acc_app : forall cs1 cs2 acc, fold_acc (cs1 ++ cs2) acc = fold_acc cs2 (fold_acc cs1 acc).
  Proof. intros. unfold fold_acc. apply fold_left_app. Qed.

  (** ** one step, seen from one name *)
  Definition upd v (o : option (T * T)) : T * T :=
    match o with
    | Some (p, n) => if is_neg NM v then (p, add NM n v) else (add NM p v, n)
    | None => if is_neg NM v then (zero NM, v) else (v, zero NM)
    end.

  Lemma lookup_acc_add_same : forall x v acc, lookup x (acc_add NM x v acc) = Some (upd v (lookup x acc)).
  Proof.
    intros x v acc. unfold acc_add, upd, is_neg. destruct (lookup x acc) as [[p n]|] eqn:E.
    - apply lookup_set_same.
    - rewrite lookup_app, E. cbn. rewrite beq_refl. reflexivity.
  Qed.

  Lemma lookup_acc_add_other : forall x name v acc, x <> name -> lookup x (acc_add NM name v acc) = lookup x acc.
  Proof.
    intros x name v acc Hne. unfold acc_add. destruct (lookup name acc) as [[p n]|] eqn:E.
    - apply lookup_set_other. exact Hne.
    - rewrite lookup_app. destruct (lookup x acc); [reflexivity|]. cbn.
      apply beq_false_iff in Hne. rewrite Hne. reflexivity.
  Qed.

  Definition step x (o : option (T * T)) (nv : bytes * T) : option (T * T) :=
    if beq (fst nv) x then Some (upd (snd nv) o) else o.

  (** law-free: the entry of [x] is a fold over the contributions, touching only those named [x] *)
  Lemma lookup_fold_acc : forall x cs acc, lookup x (fold_acc cs acc) = fold_left (step x) cs (lookup x acc).
  Proof.
    intros x cs. induction cs as [|[name v] r IH]; intros acc; [reflexivity|].
    cbn [fold_acc fold_left fst snd]. fold (fold_acc r (acc_add NM name v acc)). rewrite IH. f_equal.
    unfold step. cbn [fst snd]. destruct (beq_spec name x) as [->|Hne].
    - apply lookup_acc_add_same.
    - apply lookup_acc_add_other. congruence.
  Qed.

  Lemma fold_step_named : forall x cs o, fold_left (step x) cs o = fold_left (step x) (named NM x cs) o.
  Proof.
    intros x cs. unfold named. induction cs as [|[name v] r IH]; intros o; [reflexivity|].
    cbn [fold_left filter fst]. destruct (beq name x) eqn:E.
    - cbn [fold_left]. unfold step at 2 4. cbn [fst snd]. rewrite E. apply IH.
    - unfold step at 2. cbn [fst]. rewrite E. apply IH.
  Qed.

  (** law-free: the entry of [x] depends only on the contributions named [x] *)
  Theorem lookup_accumulate_named : forall x cs,
    lookup x (accumulate NM (named NM x cs)) = lookup x (accumulate NM cs).
  Proof.
    intros x cs. rewrite !accumulate_fold_acc, !lookup_fold_acc. symmetry. apply fold_step_named.
  Qed.

  Lemma fold_step_none_absent : forall x cs, occurs_in NM x cs = false -> fold_left (step x) cs None = None.
  Proof.
    intros x cs H. rewrite fold_step_named. apply occurs_in_named_nil in H. rewrite H. reflexivity.
  Qed.

  (** ** emptiness *)
  Lemma acc_add_not_nil : forall name v acc, acc_add NM name v acc <> [].
  Proof.
    intros name v acc. unfold acc_add. destruct (lookup name acc) as [[p n]|].
    - apply set_not_nil.
    - intros H. apply app_eq_nil in H. destruct H as [_ H]. discriminate.
  Qed.

  Lemma fold_acc_not_nil : forall cs acc, acc <> [] -> fold_acc cs acc <> [].
  Proof.
    intros cs. induction cs as [|[name v] r IH]; intros acc H; [exact H|].
    unfold fold_acc. cbn [fold_left fst snd]. apply IH. apply acc_add_not_nil.
  Qed.

  Lemma accumulate_nil_iff : forall cs, accumulate NM cs = [] <-> cs = [].
  Proof.
    intros cs. split; intros H; [|subst; reflexivity].
    destruct cs as [|[name v] r]; [reflexivity|]. exfalso.
    revert H. rewrite accumulate_fold_acc. unfold fold_acc. cbn [fold_left fst snd].
    apply (fold_acc_not_nil r). apply acc_add_not_nil.
  Qed.

  (** ** with [add zero v = v] the entry is the pair of plain sums *)
  Section ZeroLeft.
    Hypothesis add_0_l : forall v, add NM (zero NM) v = v.

    Lemma fold_step_some : forall x cs p n,
      fold_left (step x) cs (Some (p, n))
      = Some (fold_left (add NM) (filter (fun v => negb (is_neg NM v)) (map snd (named NM x cs))) p,
              fold_left (add NM) (filter (is_neg NM) (map snd (named NM x cs))) n).
    Proof.
      intros x cs. unfold named. induction cs as [|[name v] r IH]; intros p n; [reflexivity|].
      cbn [fold_left filter map fst snd]. unfold step at 2. cbn [fst snd]. destruct (beq name x) eqn:E.
      - cbn [map filter snd upd]. destruct (is_neg NM v) eqn:En; cbn [negb fold_left]; apply IH.
      - apply IH.
    Qed.

    Lemma fold_step_none : forall x cs,
      fold_left (step x) cs None
      = if occurs_in NM x cs then Some (pos_sum NM cs x, neg_sum NM cs x) else None.
    Proof.
      intros x cs. unfold pos_sum, neg_sum, sum, occurs_in, named.
      induction cs as [|[name v] r IH]; [reflexivity|].
      cbn [fold_left filter map existsb fst snd]. unfold step at 2. cbn [fst snd]. destruct (beq name x) eqn:E.
      - cbn [orb map filter snd upd].
        destruct (is_neg NM v) eqn:En; cbn [negb fold_left]; rewrite (fold_step_some x r); unfold named;
          rewrite add_0_l; reflexivity.
      - cbn [orb]. exact IH.
    Qed.

    (** the accumulator is first-assign-then-add; with [0 + v = v] it is the plain sum *)
    Lemma lookup_fold_acc_nil : forall x cs,
      lookup x (fold_acc cs [])
      = if occurs_in NM x cs then Some (pos_sum NM cs x, neg_sum NM cs x) else None.
    Proof. intros x cs. rewrite lookup_fold_acc. cbn [lookup]. apply fold_step_none. Qed.
  End ZeroLeft.

  (** ** the rows made from an accumulator *)
  Definition row_maker acc name : option (total_row NM) :=
    match lookup name acc with
    | Some (p, n) => Some (name, p, n, add NM p n)
    | None => None
    end.

  Lemma totals_of_acc_unfold : forall π acc,
    totals_of_acc NM π acc = filter_some (map (row_maker acc) (sort_bytes (π (keys acc)))).
  Proof. reflexivity. Qed.

  Lemma find_row_rows : forall x acc ns,
    find_row NM x (filter_some (map (row_maker acc) ns))
    = if existsb (beq x) ns then row_maker acc x else None.
  Proof.
    intros x acc ns. induction ns as [|name r IH]; [reflexivity|].
    cbn [map existsb]. unfold row_maker at 1. destruct (lookup name acc) as [[p n]|] eqn:E.
    - cbn [filter_some]. unfold find_row. cbn [find row_name fst]. fold (find_row NM x (filter_some (map (row_maker acc) r))).
      rewrite (beq_sym x name). destruct (beq_spec name x) as [->|Hne]; cbn [orb].
      + unfold row_maker. rewrite E. reflexivity.
      + exact IH.
    - cbn [filter_some]. rewrite IH. destruct (beq_spec x name) as [->|Hne]; cbn [orb]; [|reflexivity].
      unfold row_maker. rewrite E. destruct (existsb (beq name) r); reflexivity.
  Qed.

  (** an oracle that does not drop keys (every permutation is one) *)
  Definition keeps_keys (π : oracle) : Prop := forall l y, In y l -> In y (π l).

  Lemma order_oracle_keeps_keys : forall π, (forall l, Permutation (π l) l) -> keeps_keys π.
  Proof. intros π H l y Hy. eapply Permutation_in; [apply Permutation_sym, H|exact Hy]. Qed.

  Lemma find_row_totals : forall π x acc, keeps_keys π ->
    find_row NM x (totals_of_acc NM π acc) = row_maker acc x.
  Proof.
    intros π x acc Hπ. rewrite totals_of_acc_unfold, find_row_rows.
    destruct (existsb (beq x) (sort_bytes (π (keys acc)))) eqn:E; [reflexivity|].
    unfold row_maker. destruct (lookup x acc) as [[p n]|] eqn:El; [|reflexivity].
    exfalso. apply lookup_some_in_keys in El. apply Hπ in El.
    apply (isort_in bleb) in El. fold (sort_bytes (π (keys acc))) in El.
    assert (existsb (beq x) (sort_bytes (π (keys acc))) = true) as Ht.
    { apply existsb_exists. exists x. split; [exact El|apply beq_refl]. }
    congruence.
  Qed.

  (** the row of [x] shows the accumulator's entry of [x] *)
  Lemma row_of_totals : forall π x acc, keeps_keys π ->
    row_of NM x (totals_of_acc NM π acc) = lookup x acc.
  Proof.
    intros π x acc Hπ. unfold row_of. rewrite find_row_totals by exact Hπ.
    unfold row_maker. destruct (lookup x acc) as [[p n]|]; reflexivity.
  Qed.

  (** and its sum column is positive + negative *)
  Lemma row_total_of_totals : forall π x acc, keeps_keys π ->
    row_total_of NM x (totals_of_acc NM π acc)
    = option_map (fun pn => add NM (fst pn) (snd pn)) (lookup x acc).
  Proof.
    intros π x acc Hπ. unfold row_total_of. rewrite find_row_totals by exact Hπ.
    unfold row_maker. destruct (lookup x acc) as [[p n]|]; reflexivity.
  Qed.

  Lemma row_total_of_row_of : forall π x acc, keeps_keys π ->
    row_total_of NM x (totals_of_acc NM π acc)
    = option_map (fun pn => add NM (fst pn) (snd pn)) (row_of NM x (totals_of_acc NM π acc)).
  Proof. intros π x acc Hπ. rewrite row_total_of_totals, row_of_totals by exact Hπ. reflexivity. Qed.
End Acc.
