(** WP12: [report] is what the commands print.  The two command shapes of
    Cli.v ([run_log], [run_db_log]) on a readable log and a standard output that
    never fails, and the reporter choices of [reg] and [balance]. *)
From HP Require Import Base.Bytes Base.Utf8 Base.Num Model.Scanner Model.Parser Model.Elements Model.Resolver
  Model.Dates Model.Tree Model.Writer Model.Regex Model.Reporters Model.Cli Spec.ComposeSpec
  Proofs.ComposeWriter Proofs.ComposeWalk.

Section Run.
  Context (NM : Num).

  Lemma new_writer_fresh : forall w, w_sink w = None -> new_writer w = fresh_writer.
  Proof. intros w H. unfold new_writer, fresh_writer. rewrite H. reflexivity. Qed.

  (** commands that only walk the log (quantity, csv log, print) *)
  Theorem run_log_report : forall (w : world) (op : options) (R : reporter NM) data toks,
    w_sink w = None ->
    open_file w (op_log op) = Some (OData data NoFault) ->
    snd (scan data NoFault) = ScanEOF ->
    tokenize (op_fmt op) = Some toks ->
    let rp := report NM R (o_day (w_or w)) (o_flush (w_or w)) toks (op_begin op) (op_end op) (events NM data) in
    run_log NM w op R = {| out_stdout := fst rp; out_status := status_of (snd rp) |}.
  Proof.
    intros w op R data toks Hsink Hopen Hscan Htok rp.
    unfold run_log. cbn [open_all]. rewrite Hopen. cbn [option_map]. rewrite Htok.
    rewrite (new_writer_fresh w Hsink).
    pose proof (walk_and_finish_report NM R (o_day (w_or w)) (o_flush (w_or w)) toks
                  (op_begin op) (op_end op) data Hscan) as H.
    destruct (walk_and_finish NM R (o_day (w_or w)) (o_flush (w_or w)) toks (op_begin op) (op_end op)
                (OData data NoFault) fresh_writer) as [[wr e] rs].
    destruct H as [H _]. unfold rp. rewrite <- H. reflexivity.
  Qed.

  (** commands that resolve the book and walk the log (reg, balance, totals, unresolved, summary) *)
  Theorem run_db_log_report : forall (w : world) (op : options) (mk : list (bytes * elements NM) -> reporter NM)
                                     bt et odb d data toks,
    w_sink w = None ->
    open_file w (op_db op) = Some odb ->
    open_file w (op_log op) = Some (OData data NoFault) ->
    resolved_db NM w op odb = inr d ->
    snd (scan data NoFault) = ScanEOF ->
    tokenize (op_fmt op) = Some toks ->
    let R := mk d in
    let rp := report NM R (o_day (w_or w)) (o_flush (w_or w)) toks bt et (events NM data) in
    let rs := report_state NM R (o_day (w_or w)) (o_flush (w_or w)) toks bt et (events NM data) in
    run_db_log NM w op mk bt et
    = {| out_stdout := fst rp;
         out_status := match r_panic NM R rs with Some site => Panicked site | None => status_of (snd rp) end |}.
  Proof.
    intros w op mk bt et odb d data toks Hsink Hdb Hopen Hres Hscan Htok R rp rs.
    unfold run_db_log. cbn [open_all]. rewrite Hdb, Hopen. cbn [option_map]. rewrite Hres, Htok.
    rewrite (new_writer_fresh w Hsink).
    pose proof (walk_and_finish_report NM (mk d) (o_day (w_or w)) (o_flush (w_or w)) toks bt et data Hscan) as H.
    destruct (walk_and_finish NM (mk d) (o_day (w_or w)) (o_flush (w_or w)) toks bt et
                (OData data NoFault) fresh_writer) as [[wr e] rs'].
    destruct H as [H Hrs]. unfold rp, rs, R. rewrite <- H, <- Hrs.
    destruct (r_panic NM (mk d) rs'); reflexivity.
  Qed.

  (** the reporter [reg] chooses is one of the two kinds (pattern inside the model) *)
  Theorem reg_reporter_kind : forall c d,
    (rc_single_food c = [] \/ parse_regex (rc_single_food c) <> ReUnmodelled) ->
    perday_reporter NM (reg_reporter NM c d) \/ period_reporter NM (reg_reporter NM c d).
  Proof.
    intros c d Hpat. unfold reg_reporter.
    destruct (rc_single_element c) as [|x xs].
    - destruct (rc_single_food c) as [|y ys] eqn:Ef.
      + left. destruct (rc_old c); constructor.
      + left. constructor. destruct Hpat as [H|H]; [discriminate | rewrite Ef; exact H].
    - destruct (rc_group_food c); [right | left]; constructor.
  Qed.

  (** [balance] always chooses a period reporter *)
  Theorem bal_reporter_kind : forall c d, period_reporter NM (bal_reporter NM c d).
  Proof. intros c d. unfold bal_reporter. destruct (rc_single_element c); constructor. Qed.
End Run.
