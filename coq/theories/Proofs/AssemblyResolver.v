(** WP20 (assembly) - C01 as statements about the ALGORITHM [resolve]
    (Model/Resolver.v), obtained by joining
      - WP01  (Proofs/ResolverRefine.v): a successful [resolve] returns the
        reference book [ref_db NM B N]; it succeeds exactly when [depth_lt NM B N];
      - WP02  (Proofs/ResolverValue*.v): what the reference value is (sorted,
        no duplicates, only undefined names, the ends of the ingredient paths,
        the sum over paths of the products), and that [ref_db] is idempotent. *)
From Coq Require Import Lia Sorted Permutation.
From HP Require Import Base.Bytes Base.Num Model.Elements Model.Resolver Spec.ResolverSpec.
From HP Require Import Proofs.ResolverAssoc Proofs.ResolverRef Proofs.ResolverRefine.
From HP Require Import Proofs.ResolverValueBytes Proofs.ResolverValueStruct Proofs.ResolverValueSum
  Proofs.ResolverValueIdem Proofs.ResolverValueOrder Proofs.ResolverValuePaths.

Section Assembly.
  Context (NM : Num).
  Notation T := (T NM).
  Notation elements := (elements NM).
  Notation db := (db NM).

  (** ** success = shallow *)
  Lemma resolve_success_shallow : forall (B : db) N (perm : list bytes -> list bytes) B',
    NoDup (keys B) -> Permutation (perm (keys B)) (keys B) ->
    resolve NM N perm B = Some B' -> depth_lt NM B N /\ B' = ref_db NM B N.
  Proof.
    intros B N perm B' Hnd Hp Hres.
    rewrite (resolve_outcome NM B N perm Hnd Hp) in Hres.
    destruct (depth_ltb NM B N) eqn:E; [|discriminate].
    split; [apply depth_ltb_spec; exact E|]. injection Hres as Hres. symmetry. exact Hres.
  Qed.

  Lemma resolve_succeeds_when_shallow : forall (B : db) N (perm : list bytes -> list bytes),
    NoDup (keys B) -> Permutation (perm (keys B)) (keys B) ->
    depth_lt NM B N -> exists B', resolve NM N perm B = Some B'.
  Proof.
    intros B N perm Hnd Hp Hd. rewrite (resolve_outcome NM B N perm Hnd Hp).
    apply depth_ltb_spec in Hd. rewrite Hd. eexists. reflexivity.
  Qed.

  Lemma resolve_succeeds_iff_shallow : forall (B : db) N (perm : list bytes -> list bytes),
    NoDup (keys B) -> Permutation (perm (keys B)) (keys B) ->
    ((exists B', resolve NM N perm B = Some B') <-> depth_lt NM B N).
  Proof.
    intros B N perm Hnd Hp. split.
    - intros [B' HB']. apply (resolve_success_shallow B N perm B' Hnd Hp HB').
    - apply resolve_succeeds_when_shallow; assumption.
  Qed.

  (** ** an entry of the resolved book is the reference value of its recipe *)
  Lemma resolve_entry_is_ref_node : forall (B : db) N (perm : list bytes -> list bytes) B',
    NoDup (keys B) -> Permutation (perm (keys B)) (keys B) ->
    resolve NM N perm B = Some B' ->
    forall r v, lookup r B' = Some v -> exists h, ref_node NM B N r = Some (h, Some v).
  Proof.
    intros B N perm B' Hnd Hp Hres r v Hl.
    destruct (resolve_success_shallow B N perm B' Hnd Hp Hres) as [Hd HB']. subst B'.
    rewrite (ref_db_lookup NM B N r) in Hl.
    destruct (lookup r B) as [els|] eqn:El; cbn [option_map] in Hl; [|discriminate].
    injection Hl as Hl.
    assert (Hk : In r (keys B)).
    { eapply lookup_some_in_keys. exact El. }
    destruct (ref_node_recipe_defined NM B N r Hd Hk) as [h [v' Hv']].
    exists h. unfold ref_value in Hl. rewrite Hv' in Hl. subst v'. exact Hv'.
  Qed.

  (** ** the structural clauses: every [Num], no law *)
  Theorem resolve_end_to_end_structure : forall (B : db) N (perm : list bytes -> list bytes) B',
    NoDup (keys B) -> Permutation (perm (keys B)) (keys B) ->
    resolve NM N perm B = Some B' ->
    keys B' = keys B /\
    forall r v, lookup r B' = Some v ->
      StronglySorted (fun x y => bltb (fst x) (fst y) = true) v /\ NoDup (map fst v) /\
      (forall x a, In (x, a) v -> lookup x B = None) /\
      (forall x, In x (map fst v) <-> occurs NM x (paths NM B N r) = true).
  Proof.
    intros B N perm B' Hnd Hp Hres. split.
    - destruct (resolve_success_lookup NM B N perm B' Hp Hres) as [Hk _]. exact Hk.
    - intros r v Hl.
      destruct (resolve_entry_is_ref_node B N perm B' Hnd Hp Hres r v Hl) as [h Hh].
      destruct (ref_value_sorted_lemma NM B N r h v Hh) as [Hs Hn].
      split; [exact Hs|]. split; [exact Hn|]. split.
      + intros x a Hin. eapply ref_value_leaves_undefined_lemma; eassumption.
      + intros x. eapply ref_value_names_are_path_ends_lemma; eassumption.
  Qed.

  (** the leaves are undefined in the resolved book as well, and the names are
      the undefined names a chain of references leads to *)
  Theorem resolve_end_to_end_reachable : forall (B : db) N (perm : list bytes -> list bytes) B',
    NoDup (keys B) -> Permutation (perm (keys B)) (keys B) ->
    resolve NM N perm B = Some B' ->
    forall r v, lookup r B' = Some v ->
      (forall x a, In (x, a) v -> lookup x B' = None) /\
      (forall x, In x (map fst v) <-> leads_to NM B r x).
  Proof.
    intros B N perm B' Hnd Hp Hres r v Hl.
    destruct (resolve_entry_is_ref_node B N perm B' Hnd Hp Hres r v Hl) as [h Hh].
    destruct (resolve_success_shallow B N perm B' Hnd Hp Hres) as [Hd HB']. split.
    - intros x a Hin. subst B'. rewrite (ref_db_lookup NM B N x).
      rewrite (ref_value_leaves_undefined_lemma NM B N r h v x a Hh Hin). reflexivity.
    - intros x. eapply ref_value_names_reachable_lemma; eassumption.
  Qed.

  (** every recipe of the book has an entry in the resolved book *)
  Theorem resolve_every_recipe_resolved : forall (B : db) N (perm : list bytes -> list bytes) B',
    NoDup (keys B) -> Permutation (perm (keys B)) (keys B) ->
    resolve NM N perm B = Some B' ->
    forall r, In r (keys B) -> exists v, lookup r B' = Some v.
  Proof.
    intros B N perm B' Hnd Hp Hres r Hr.
    destruct (resolve_success_lookup NM B N perm B' Hp Hres) as [Hk _].
    apply in_keys_lookup. rewrite Hk. exact Hr.
  Qed.

  (** ** the value clause: commutative semiring *)
  Theorem resolve_end_to_end : CSemiring NM ->
    forall (B : db) N (perm : list bytes -> list bytes) B',
    NoDup (keys B) -> Permutation (perm (keys B)) (keys B) ->
    resolve NM N perm B = Some B' ->
    keys B' = keys B /\
    forall r v, lookup r B' = Some v ->
      StronglySorted (fun x y => bltb (fst x) (fst y) = true) v /\ NoDup (map fst v) /\
      (forall x a, In (x, a) v -> lookup x B = None) /\
      (forall x, In x (map fst v) <-> occurs NM x (paths NM B N r) = true) /\
      (forall x a, lookup x v = Some a -> a = sum_of NM x (paths NM B N r)).
  Proof.
    intros CS B N perm B' Hnd Hp Hres.
    destruct (resolve_end_to_end_structure B N perm B' Hnd Hp Hres) as [Hk Hstruct].
    split; [exact Hk|]. intros r v Hl.
    destruct (Hstruct r v Hl) as (Hs & Hn & Hu & Hnames).
    split; [exact Hs|]. split; [exact Hn|]. split; [exact Hu|]. split; [exact Hnames|].
    intros x a Hx.
    destruct (resolve_entry_is_ref_node B N perm B' Hnd Hp Hres r v Hl) as [h Hh].
    eapply ref_value_sum_of_paths_lemma; eassumption.
  Qed.

  (** the amount of every name, present or not *)
  Theorem resolve_amount_total : CSemiring NM ->
    forall (B : db) N (perm : list bytes -> list bytes) B',
    NoDup (keys B) -> Permutation (perm (keys B)) (keys B) ->
    resolve NM N perm B = Some B' ->
    forall r v x, lookup r B' = Some v ->
      match lookup x v with Some a => a | None => zero NM end = sum_of NM x (paths NM B N r).
  Proof.
    intros CS B N perm B' Hnd Hp Hres r v x Hl.
    destruct (resolve_entry_is_ref_node B N perm B' Hnd Hp Hres r v Hl) as [h Hh].
    eapply ref_value_total_sum_of_paths; eassumption.
  Qed.

  (** ** resolving the resolved book again gives it back *)
  Theorem resolve_idempotent_computed :
    (forall x : T, (exists y z, x = mul NM y z \/ x = add NM y z) -> mul NM x (one NM) = x) ->
    forall (B : db) N (perm perm' : list bytes -> list bytes) B',
    NoDup (keys B) -> Permutation (perm (keys B)) (keys B) -> Permutation (perm' (keys B)) (keys B) ->
    resolve NM N perm B = Some B' -> resolve NM N perm' B' = Some B'.
  Proof.
    intros Hmul B N perm perm' B' Hnd Hp Hp' Hres.
    destruct (resolve_success_shallow B N perm B' Hnd Hp Hres) as [Hd HB'].
    destruct (ref_db_idempotent_computed_lemma NM B N Hd Hmul) as (Hk & _ & Hid).
    assert (Hd' : depth_lt NM B' N) by (subst B'; apply ref_db_depth_lt_nolaw; exact Hd).
    assert (Hk' : keys B' = keys B) by (subst B'; exact Hk).
    rewrite (resolve_outcome NM B' N perm').
    - apply depth_ltb_spec in Hd'. rewrite Hd'. subst B'. rewrite Hid. reflexivity.
    - rewrite Hk'. exact Hnd.
    - rewrite Hk'. exact Hp'.
  Qed.

  Theorem resolve_idempotent :
    (forall x : T, mul NM x (one NM) = x) ->
    forall (B : db) N (perm perm' : list bytes -> list bytes) B',
    NoDup (keys B) -> Permutation (perm (keys B)) (keys B) -> Permutation (perm' (keys B)) (keys B) ->
    resolve NM N perm B = Some B' -> resolve NM N perm' B' = Some B'.
  Proof.
    intros Hmul. apply resolve_idempotent_computed. intros x _. apply Hmul.
  Qed.
End Assembly.
