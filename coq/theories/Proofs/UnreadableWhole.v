(** WP05 / property C10, beyond the core:

    - which error a command of the shape "resolve the book, walk the log"
      ends with when the log has a read fault (stretch item of the brief);
    - "every heading and entry of the file has been taken into account", at the
      command level: on success the book is the fold of [db_push] over ALL the
      events of the book file and the text written is computed from the
      reporter state after ALL the events of the log file. *)
From HP Require Import Base.Bytes Base.Utf8 Base.Num Model.Scanner Model.Parser Model.Elements Model.Resolver
  Model.Dates Model.Tree Model.Writer Model.Reporters Model.Cli.
From HP Require Import Proofs.UnreadableParser Proofs.UnreadableCli.

Section Whole.
  Context (NM : Num).
  Notation db := (list (bytes * elements NM)).

  (** * Which error *)

  (** the events of the part of the file that the failing reader delivered
      (the record still open at the failure is never reported) *)
  Definition prefix_events (data : bytes) (k : nat) : list (event NM) :=
    fst (parse_lines NM (fst (scan (firstn k data) NoFault))).

  Lemma parse_opened_fault_cases : forall S (cb : S -> event NM -> S * bool * option cerr) d k s,
    stops_only_with_error cb ->
    (exists s1 s2 ev e, In ev (prefix_events d k) /\ cb s1 ev = (s2, true, Some e) /\
                        snd (parse_opened NM cb (OData d (FailAt k)) s) = Some e) \/
    (snd (drive_loop NM cb (prefix_events d k) s) = None /\
     ((has_long_line (firstn k d) /\ snd (parse_opened NM cb (OData d (FailAt k)) s) = Some (EScan true)) \/
      (~ has_long_line (firstn k d) /\ snd (parse_opened NM cb (OData d (FailAt k)) s) = Some (EScan false)))).
  Proof.
    intros S cb d k s Hcb.
    pose proof (parse_stream_error_cases NM cb Hcb d (FailAt k) s (scan_fault_end d k)) as Hc.
    cbv zeta in Hc. rewrite scan_fault_lines in Hc. fold (prefix_events d k) in Hc.
    unfold parse_opened.
    destruct (parse_stream NM cb d (FailAt k) s) as [s' r]. cbn [snd] in *.
    destruct Hc as [[s1 [s2 [ev [e [Hin [Hev Hr]]]]]]|[Hns Hr]].
    - left. exists s1, s2, ev, e. subst r. repeat split; assumption.
    - right. split; [exact Hns|]. subst r.
      destruct (scan_fault_snd d k) as [[Hl ->]|[Hl ->]]; [left | right]; split; auto.
  Qed.

  (** the callback errors of the walk *)
  Lemma walk_cb_error_kinds : forall R pd toks bt et rs i wr ev st' e,
    walk_cb NM R pd toks bt et (rs, i, wr) ev = (st', true, Some e) ->
    (exists pe, ev = EErr pe /\ e = EParse (perr_message pe)) \/
    (exists n, ev = ENode n /\
       ((parse_date toks (header n) = None /\ e = EBadDate) \/
        e = EWrite \/
        exists c rs' chunks,
          parse_date toks (header n) = Some c /\
          r_process NM R (pd i) rs
            {| ln_time := time_of_civil c; ln_elems := merge_elements NM (elems n); ln_meta := meta n |}
          = (rs', chunks, Some e))).
  Proof.
    intros R pd toks bt et rs i wr ev st' e H. unfold walk_cb in H. destruct ev as [n|pe].
    - right. exists n. split; [reflexivity|].
      destruct (parse_date toks (header n)) as [c|] eqn:Ed.
      + destruct (in_interval bt et (time_of_civil c)); [|discriminate].
        destruct (r_process NM R (pd i) rs _) as [[rs' chunks] perr] eqn:Er.
        destruct (bw_chunks wr chunks) as [wr' werr].
        destruct werr.
        * injection H as _ <-. right. left. reflexivity.
        * injection H as _ _ ->. right. right. exists c, rs', chunks. split; [reflexivity | exact Er].
      + injection H as _ <-. left. split; reflexivity.
    - left. exists pe. injection H as _ <-. split; reflexivity.
  Qed.

  Lemma walk_and_finish_error : forall R pd pf toks bt et o wr e,
    snd (parse_opened NM (walk_cb NM R pd toks bt et) o (r_init NM R, O, wr)) = Some e ->
    snd (fst (walk_and_finish NM R pd pf toks bt et o wr)) = Some e.
  Proof.
    intros R pd pf toks bt et o wr e H. unfold walk_and_finish.
    destruct (parse_opened NM (walk_cb NM R pd toks bt et) o (r_init NM R, O, wr))
      as [[[rs0 n0] wr1] werr]. cbn [snd] in H. subst werr.
    destruct (bw_chunks wr1 (r_flush NM R pf rs0)) as [wr2 e2].
    destruct (if e2 then (wr2, true) else bw_flush wr2) as [wr3 ferr]. reflexivity.
  Qed.

  (** [run_db_log] once the book has been read and resolved: what remains is the walk *)
  Lemma run_db_log_after_book : forall w op mk bt et odb d toks,
    open_file w (op_db op) = Some odb -> resolved_db NM w op odb = inr d ->
    tokenize (op_fmt op) = Some toks ->
    forall olog, open_file w (op_log op) = Some olog ->
    run_db_log NM w op mk bt et =
      let '(wr', e, rs) := walk_and_finish NM (mk d) (o_day (w_or w)) (o_flush (w_or w)) toks bt et olog (new_writer w) in
      match r_panic NM (mk d) rs with
      | Some site => finish wr' (Panicked site)
      | None => finish wr' (status_of e)
      end.
  Proof.
    intros w op mk bt et odb d toks Hodb Hres Htok olog Holog. unfold run_db_log.
    cbn [open_all]. rewrite Hodb, Holog. cbn [option_map]. rewrite Hres, Htok. reflexivity.
  Qed.

  (** Stretch item: a read fault in the LOG of a reg/bal/unresolved/totals/summary
      command whose book loaded fine.  The status is [Failed (EScan false)]
      ("read error") unless (1) the reporter panicked on the part that was
      read, (2) the walk's callback stopped earlier with its own error at an
      event of the part that was read, or (3) the part that was read has an
      over-long line ([Failed (EScan true)]). *)
  Theorem run_db_log_log_fault : forall w op mk bt et odb d toks data k,
    open_file w (op_db op) = Some odb -> resolved_db NM w op odb = inr d ->
    tokenize (op_fmt op) = Some toks ->
    op_log op <> [] ->
    op_log op <> dev_null ->
    lookup (op_log op) (w_fs w) = Some (FFile data) ->
    lookup (op_log op) (w_read_fault w) = Some k ->
    let cb := walk_cb NM (mk d) (o_day (w_or w)) toks bt et in
    let st := out_status (run_db_log NM w op mk bt et) in
    (exists site, st = Panicked site) \/
    (exists s1 s2 ev e, In ev (prefix_events data k) /\ cb s1 ev = (s2, true, Some e) /\ st = Failed e) \/
    (snd (drive_loop NM cb (prefix_events data k) (r_init NM (mk d), O, new_writer w)) = None /\
     ((has_long_line (firstn k data) /\ st = Failed (EScan true)) \/
      (~ has_long_line (firstn k data) /\ st = Failed (EScan false)))).
  Proof.
    intros w op mk bt et odb d toks data k Hodb Hres Htok Hne Hnd Hfs Hfault cb st.
    assert (Holog : open_file w (op_log op) = Some (OData data (FailAt k))).
    { unfold open_file, lookup_fs. rewrite (beq_dev_null_false _ Hnd).
      destruct (op_log op) as [|c p']; [congruence|].
      rewrite Hfs, Hfault. reflexivity. }
    subst st. rewrite (run_db_log_after_book w op mk bt et odb d toks Hodb Hres Htok _ Holog).
    pose proof (walk_and_finish_error (mk d) (o_day (w_or w)) (o_flush (w_or w)) toks bt et
                  (OData data (FailAt k)) (new_writer w)) as Hwe.
    destruct (walk_and_finish NM (mk d) (o_day (w_or w)) (o_flush (w_or w)) toks bt et
                (OData data (FailAt k)) (new_writer w)) as [[wr' e] rs].
    cbn [fst snd] in Hwe.
    destruct (r_panic NM (mk d) rs) as [site|].
    { left. exists site. reflexivity. }
    right. rewrite out_status_finish.
    destruct (parse_opened_fault_cases _ cb data k (r_init NM (mk d), O, new_writer w)
                (walk_cb_stops NM (mk d) _ toks bt et))
      as [[s1 [s2 [ev [e' [Hin [Hev Hr]]]]]]|[Hns [[Hl Hr]|[Hl Hr]]]].
    - left. exists s1, s2, ev, e'. rewrite (Hwe _ Hr). repeat split; assumption.
    - right. split; [exact Hns|]. left. rewrite (Hwe _ Hr). split; [exact Hl | reflexivity].
    - right. split; [exact Hns|]. right. rewrite (Hwe _ Hr). split; [exact Hl | reflexivity].
  Qed.

  (** A read fault in the BOOK of such a command (the log at least opens):
      the status is always [Failed]: the parse error of a malformed line of
      the part that was read, else "token too long" if that part has an
      over-long line, else "read error". *)
  Theorem run_db_log_book_fault : forall w op mk bt et data k olog,
    op_db op <> [] ->
    op_db op <> dev_null ->
    lookup (op_db op) (w_fs w) = Some (FFile data) ->
    lookup (op_db op) (w_read_fault w) = Some k ->
    open_file w (op_log op) = Some olog ->
    let st := out_status (run_db_log NM w op mk bt et) in
    (exists pe, In (EErr pe) (prefix_events data k) /\ st = Failed (EParse (perr_message pe))) \/
    (has_long_line (firstn k data) /\ st = Failed (EScan true)) \/
    (~ has_long_line (firstn k data) /\ st = Failed (EScan false)).
  Proof.
    intros w op mk bt et data k olog Hne Hnd Hfs Hfault Holog st.
    assert (Hodb : open_file w (op_db op) = Some (OData data (FailAt k))).
    { unfold open_file, lookup_fs. rewrite (beq_dev_null_false _ Hnd).
      destruct (op_db op) as [|c p']; [congruence|].
      rewrite Hfs, Hfault. reflexivity. }
    subst st. unfold run_db_log. cbn [open_all]. rewrite Hodb, Holog. cbn [option_map].
    unfold resolved_db. rewrite load_db_eq.
    pose proof (parse_opened_fault_cases _ (db_cb NM) data k [] (db_cb_stops NM)) as Hc.
    destruct (parse_opened NM (db_cb NM) (OData data (FailAt k)) []) as [d0 r]. cbn [snd] in Hc.
    destruct Hc as [[s1 [s2 [ev [e [Hin [Hev Hr]]]]]]|[_ [[Hl Hr]|[Hl Hr]]]]; subst r.
    - left. unfold db_cb in Hev. destruct ev as [n|pe]; [discriminate|].
      injection Hev as _ <-. exists pe. split; [exact Hin | reflexivity].
    - right. left. split; [exact Hl | reflexivity].
    - right. right. split; [exact Hl | reflexivity].
  Qed.

  (** * Everything has been taken into account *)

  (** the book after a successful load: [db_push] folded over ALL the events of the file *)
  Lemma load_db_whole : forall o d, load_db NM o = (d, None) ->
    opened_ok o /\ d = feed (db_cb NM) (events NM (opened_data o)) [].
  Proof.
    intros o d H. rewrite load_db_eq in H.
    destruct (parse_opened_success NM _ (db_cb NM) o [] (db_cb_stops NM)) as [Hok Hst].
    - rewrite H. reflexivity.
    - rewrite H in Hst. split; [exact Hok | exact Hst].
  Qed.

  Lemma resolved_db_whole : forall w op o d, resolved_db NM w op o = inr d ->
    opened_ok o /\
    resolve NM (Z.to_nat (op_depth op)) (o_resolve (w_or w))
            (feed (db_cb NM) (events NM (opened_data o)) []) = Some d.
  Proof.
    intros w op o d H. unfold resolved_db in H.
    destruct (load_db NM o) as [d0 [e|]] eqn:El; [discriminate|].
    destruct (load_db_whole _ _ El) as [Hok ->]. split; [exact Hok|].
    destruct (resolve NM _ _ _) as [d'|]; [|discriminate]. injection H as <-. reflexivity.
  Qed.

  (** the text a successful walk leaves in the sink, as a function of the
      state reached after ALL the events of the file *)
  Definition finish_output (R : reporter NM) (pf : list bytes -> list bytes)
             (st : walk_state NM R) : bytes :=
    let '(rs, _, wr1) := st in
    s_got (bw_sink (fst (bw_flush (fst (bw_chunks wr1 (r_flush NM R pf rs)))))).

  Lemma walk_and_finish_whole : forall R pd pf toks bt et o wr wr' rs,
    walk_and_finish NM R pd pf toks bt et o wr = (wr', None, rs) ->
    opened_ok o /\
    let st := feed (walk_cb NM R pd toks bt et) (events NM (opened_data o)) (r_init NM R, O, wr) in
    rs = fst (fst st) /\ s_got (bw_sink wr') = finish_output R pf st.
  Proof.
    intros R pd pf toks bt et o wr wr' rs H. unfold walk_and_finish in H.
    pose proof (parse_opened_success NM _ (walk_cb NM R pd toks bt et) o (r_init NM R, O, wr)
                  (walk_cb_stops NM R pd toks bt et)) as Hs.
    destruct (parse_opened NM (walk_cb NM R pd toks bt et) o (r_init NM R, O, wr))
      as [[[rs0 n0] wr1] werr] eqn:Ep. cbn [fst snd] in Hs.
    destruct (bw_chunks wr1 (r_flush NM R pf rs0)) as [wr2 e2] eqn:Ec.
    destruct e2.
    - injection H as _ Herr _. destruct werr; discriminate.
    - destruct (bw_flush wr2) as [wr3 ferr] eqn:Ef.
      injection H as <- Herr <-.
      destruct werr as [e|]; [discriminate|].
      destruct (Hs eq_refl) as [Hok Hst]. split; [exact Hok|].
      cbv zeta. rewrite <- Hst. cbn [fst finish_output]. rewrite Ec. cbn [fst]. rewrite Ef.
      split; reflexivity.
  Qed.

  (** reg, bal, unresolved, totals, summary: on success both files were read to
      the end, the book is made of ALL its records, and the output is the one
      computed from ALL the records of the log *)
  Theorem run_db_log_whole : forall w op mk bt et,
    out_status (run_db_log NM w op mk bt et) = Ok ->
    exists odb olog d toks,
      open_file w (op_db op) = Some odb /\ opened_ok odb /\
      open_file w (op_log op) = Some olog /\ opened_ok olog /\
      tokenize (op_fmt op) = Some toks /\
      resolve NM (Z.to_nat (op_depth op)) (o_resolve (w_or w))
              (feed (db_cb NM) (events NM (opened_data odb)) []) = Some d /\
      out_stdout (run_db_log NM w op mk bt et) =
        finish_output (mk d) (o_flush (w_or w))
          (feed (walk_cb NM (mk d) (o_day (w_or w)) toks bt et) (events NM (opened_data olog))
                (r_init NM (mk d), O, new_writer w)).
  Proof.
    intros w op mk bt et H.
    assert (Hshape : exists odb olog d toks,
              open_file w (op_db op) = Some odb /\ open_file w (op_log op) = Some olog /\
              resolved_db NM w op odb = inr d /\ tokenize (op_fmt op) = Some toks).
    { unfold run_db_log in H.
      destruct (open_all w [op_db op; op_log op]) as [l|] eqn:Eo; [|discriminate].
      destruct (open_all_2 _ _ _ _ Eo) as [odb [olog [-> [Hodb Holog]]]].
      destruct (resolved_db NM w op odb) as [e|d] eqn:Er; [discriminate|].
      destruct (tokenize (op_fmt op)) as [toks|]; [|discriminate].
      exists odb, olog, d, toks. repeat split; assumption. }
    destruct Hshape as [odb [olog [d [toks [Hodb [Holog [Hres Htok]]]]]]].
    rewrite (run_db_log_after_book w op mk bt et odb d toks Hodb Hres Htok _ Holog) in H |- *.
    destruct (walk_and_finish NM (mk d) (o_day (w_or w)) (o_flush (w_or w)) toks bt et olog (new_writer w))
      as [[wr' e] rs] eqn:Ew.
    destruct (r_panic NM (mk d) rs) as [site|]; [discriminate|].
    rewrite out_status_finish in H. apply status_of_ok in H. subst e.
    destruct (walk_and_finish_whole _ _ _ _ _ _ _ _ _ _ Ew) as [Hokl [_ Hout]].
    destruct (resolved_db_whole _ _ _ _ Hres) as [Hokd Hd].
    exists odb, olog, d, toks. repeat split; try assumption.
  Qed.

  (** quantity, csv log, print *)
  Theorem run_log_whole : forall w op R,
    out_status (run_log NM w op R) = Ok ->
    exists olog toks,
      open_file w (op_log op) = Some olog /\ opened_ok olog /\
      tokenize (op_fmt op) = Some toks /\
      out_stdout (run_log NM w op R) =
        finish_output R (o_flush (w_or w))
          (feed (walk_cb NM R (o_day (w_or w)) toks (op_begin op) (op_end op)) (events NM (opened_data olog))
                (r_init NM R, O, new_writer w)).
  Proof.
    intros w op R H. unfold run_log in *.
    destruct (open_all w [op_log op]) as [l|] eqn:Eo; [|discriminate].
    destruct (open_all_1 _ _ _ Eo) as [olog [-> Holog]].
    destruct (tokenize (op_fmt op)) as [toks|]; [|discriminate].
    destruct (walk_and_finish NM R (o_day (w_or w)) (o_flush (w_or w)) toks (op_begin op) (op_end op) olog (new_writer w))
      as [[wr' e] rs] eqn:Ew.
    rewrite out_status_finish in H. apply status_of_ok in H. subst e.
    destruct (walk_and_finish_whole _ _ _ _ _ _ _ _ _ _ Ew) as [Hokl [_ Hout]].
    exists olog, toks. repeat split; assumption.
  Qed.
End Whole.
