(** WP11: a concrete world meeting the hypotheses of the program-level theorems (non-vacuity). *)
From HP Require Import Base.Bytes Base.Utf8 Base.Num Model.Scanner Model.Parser Model.Elements Model.Resolver
  Model.Dates Model.Tree Model.Writer Model.Reporters Model.Cli
  Spec.Agree2Spec Proofs.AgreeMiscBase Proofs.AgreeMiscQty Proofs.AgreeMiscBal Proofs.AgreeMiscSum
  Proofs.AgreeMiscElem Proofs.AgreeMiscStats Proofs.AgreeMiscWalk Proofs.AgreeMiscProgram.
From Coq Require Import Permutation.

Definition p_nl : bytes := [c_lf].
Definition p_log : bytes :=
  b "2021/01/02" ++ p_nl ++ b "  bread 2" ++ p_nl ++ b "  milk/whole 1" ++ p_nl ++ b "  bread 5" ++ p_nl ++
  b "2021/01/05" ++ p_nl ++ b "  milk/whole 4" ++ p_nl ++ b "  bread 1" ++ p_nl ++ b "  egg 6" ++ p_nl.
Definition p_book : bytes :=
  b "bread" ++ p_nl ++ b "  kcal 250" ++ p_nl ++ b "  fat 3" ++ p_nl ++
  b "egg" ++ p_nl ++ b "  kcal 80" ++ p_nl ++ b "  fat 6" ++ p_nl.
Definition p_world : world :=
  {| w_fs := [(b "log.yaml", FFile p_log); (b "food.yaml", FFile p_book)];
     w_default_config := b "/root/.hranoprovod/config"; w_tz := 0%Z; w_clock := time_of_civil (2021, 1, 10)%Z;
     w_or := {| o_resolve := fun l => l; o_day := fun _ l => rev l; o_flush := fun l => rev l |};
     w_sink := None; w_read_fault := [] |}.
Definition p_inv (cmd : command) : invocation :=
  {| i_f_db := None; i_e_db := None; i_f_log := None; i_e_log := None; i_f_fmt := None; i_e_fmt := None;
     i_f_depth := None; i_e_depth := None; i_f_today := Some (b "2021/01/10"); i_f_config := None; i_e_config := None;
     i_no_database := false; i_g_begin := None; i_g_end := None; i_l_begin := None; i_l_end := None;
     i_g_no_color := true; i_l_no_color := false; i_single_food := []; i_single_element := [];
     i_group_food := false; i_csv := false; i_no_totals := false; i_totals_only := false;
     i_shorten := false; i_old := false; i_template := None; i_collapse := false; i_collapse_last := false;
     i_desc := false; i_silent := false; i_cmd := cmd |}.

Lemma p_no_error_log : no_parse_error ZNum (events ZNum p_log).
Proof. apply no_err_b_sound. vm_compute. reflexivity. Qed.

Lemma p_no_error_book : no_parse_error ZNum (events ZNum p_book).
Proof. apply no_err_b_sound. vm_compute. reflexivity. Qed.

(** the hypotheses of [quantity_program], [csv_log_program], [unresolved_program], [balance_program],
    [stats_program] hold in this world *)
Example p_hypotheses : forall cmd, exists op odb d,
  load p_world (p_inv cmd) = inr op
  /\ w_sink p_world = None
  /\ open_file p_world (op_log op) = Some (OData p_log NoFault)
  /\ snd (scan p_log NoFault) = ScanEOF
  /\ no_parse_error ZNum (events ZNum p_log)
  /\ all_dated ZNum (rc_date (op_rc op)) (nodes_of ZNum (events ZNum p_log))
  /\ open_file p_world (op_db op) = Some odb /\ odb = OData p_book NoFault
  /\ resolved_db ZNum p_world op odb = inr d
  /\ snd (scan p_book NoFault) = ScanEOF
  /\ no_parse_error ZNum (events ZNum p_book)
  /\ (forall l, Permutation (o_flush (w_or p_world) l) l)
  /\ op_now op = time_of_civil (2021, 1, 10)%Z.
Proof.
  intro cmd. eexists. eexists. eexists.
  split; [vm_compute; reflexivity|].
  split; [reflexivity|]. split; [vm_compute; reflexivity|]. split; [vm_compute; reflexivity|].
  split; [exact p_no_error_log|].
  split; [vm_compute; repeat constructor; discriminate|].
  split; [vm_compute; reflexivity|]. split; [reflexivity|].
  split; [vm_compute; reflexivity|]. split; [vm_compute; reflexivity|].
  split; [exact p_no_error_book|].
  split; [intro l; apply Permutation_sym, Permutation_rev | reflexivity].
Qed.

(** and the commands print what the theorems say *)
Example p_outputs :
  out_stdout (run ZNum p_world (p_inv CQuantity))
  = b "5" ++ [c_tab] ++ b "milk/whole" ++ p_nl ++ b "6" ++ [c_tab] ++ b "egg" ++ p_nl ++ b "8" ++ [c_tab] ++ b "bread" ++ p_nl
  /\ out_stdout (run ZNum p_world (p_inv CCsvLog))
     = b "2021-01-02,bread,7" ++ p_nl ++ b "2021-01-02,milk/whole,1" ++ p_nl
       ++ b "2021-01-05,milk/whole,4" ++ p_nl ++ b "2021-01-05,bread,1" ++ p_nl ++ b "2021-01-05,egg,6" ++ p_nl
  /\ out_stdout (run ZNum p_world (p_inv CUnresolved)) = b "milk/whole" ++ p_nl
  /\ out_stdout (run ZNum p_world (p_inv (CElementTotal (b "fat"))))
     = b "3" ++ [c_tab] ++ b "bread" ++ p_nl ++ b "6" ++ [c_tab] ++ b "egg" ++ p_nl
  /\ out_stdout (run ZNum p_world (p_inv CBal))
     = b "         8 | bread" ++ p_nl ++ b "         6 | egg" ++ p_nl
       ++ b "         5 | milk" ++ p_nl ++ b "         5 |   whole" ++ p_nl.
Proof. vm_compute. repeat split; reflexivity. Qed.
