(** A flag under its other name ([-d] / [--database], [-s] / [--single-element], [-g] / [--group-food] ...):
    the same result, provided no form of the flag occurs again in the rest of the level (urfave refuses
    two forms of one flag in one level). *)
From Coq Require Import Lia ZifyBool ZifyNat ZifyN.
From HP Require Import Base.Bytes Model.Elements Model.Config Model.Cli Model.Argv.
From HP Require Import Proofs.ArgvBase Proofs.ArgvFlags Proofs.ArgvTheorems.

Lemma get_bool_cons_str : forall N n x a, get_bool N ((n, VS x) :: a) = get_bool N a.
Proof. intros N n x a. unfold get_bool. rewrite get_cons. cbn [fst snd]. destruct (get N a); [reflexivity|]. destruct (mem n N); reflexivity. Qed.
Lemma get_int_cons_str : forall N n x a, get_int N ((n, VS x) :: a) = get_int N a.
Proof. intros N n x a. unfold get_int. rewrite get_cons. cbn [fst snd]. destruct (get N a); [reflexivity|]. destruct (mem n N); reflexivity. Qed.
Lemma get_cons_mem : forall N n m v a, mem n N = mem m N -> get N ((n, v) :: a) = get N ((m, v) :: a).
Proof. intros N n m v a H. rewrite !get_cons. cbn [fst snd]. rewrite H. reflexivity. Qed.
Lemma get_str_cons_mem : forall N n m v a, mem n N = mem m N -> get_str N ((n, v) :: a) = get_str N ((m, v) :: a).
Proof. intros N n m v a H. unfold get_str. rewrite (get_cons_mem N n m v a H). reflexivity. Qed.
Lemma get_bool_cons_mem : forall N n m v a, mem n N = mem m N -> get_bool N ((n, v) :: a) = get_bool N ((m, v) :: a).
Proof. intros N n m v a H. unfold get_bool. rewrite (get_cons_mem N n m v a H). reflexivity. Qed.

(** the names the command level reads as strings (and the raw [no-color]), as booleans *)
Definition local_str_names : list (list bytes) :=
  [n_begin; n_end; [b "single-food"; b "f"]; [b "single-element"; b "s"]; [b "internal-template-name"]; n_no_color].
Definition local_bool_names : list (list bytes) :=
  [n_no_color; [b "group-food"; b "g"]; [b "csv"]; [b "no-totals"]; [b "totals-only"]; [b "shorten"]; [b "use-old-reg-reporter"];
   [b "collapse"; b "c"]; [b "collapse-last"]; [b "desc"]; [b "silent"; b "s"]; n_help].
Definition global_str_names : list (list bytes) :=
  [[b "database"; b "d"]; [b "logfile"; b "l"]; [b "date-format"]; [b "today"]; [b "config"; b "c"]; n_begin; n_end].

Ltac inlist := cbn [In local_str_names local_bool_names global_str_names]; tauto.

Lemma build_alias_str : forall ga e d c n m x la arg, (forall N, In N local_str_names -> mem n N = mem m N) ->
  build ga e d c ((n, VS x) :: la) arg = build ga e d c ((m, VS x) :: la) arg.
Proof.
  intros ga e d c n m x la arg H. unfold build. rewrite !get_bool_cons_str.
  rewrite (get_str_cons_mem n_begin n m), (get_str_cons_mem n_end n m), (get_str_cons_mem [b "single-food"; b "f"] n m),
    (get_str_cons_mem [b "single-element"; b "s"] n m), (get_str_cons_mem [b "internal-template-name"] n m),
    (get_cons_mem n_no_color n m) by (apply H; inlist). reflexivity.
Qed.

Lemma build_alias_bool : forall ga e d c n m v la arg, (forall N, In N local_bool_names -> mem n N = mem m N) ->
  build ga e d c ((n, VB v) :: la) arg = build ga e d c ((m, VB v) :: la) arg.
Proof.
  intros ga e d c n m v la arg H. unfold build. rewrite !get_str_cons_bool.
  rewrite (get_cons_mem n_no_color n m), (get_bool_cons_mem n_no_color n m), (get_bool_cons_mem [b "group-food"; b "g"] n m),
    (get_bool_cons_mem [b "csv"] n m), (get_bool_cons_mem [b "no-totals"] n m), (get_bool_cons_mem [b "totals-only"] n m),
    (get_bool_cons_mem [b "shorten"] n m), (get_bool_cons_mem [b "use-old-reg-reporter"] n m), (get_bool_cons_mem [b "collapse"; b "c"] n m),
    (get_bool_cons_mem [b "collapse-last"] n m), (get_bool_cons_mem [b "desc"] n m), (get_bool_cons_mem [b "silent"; b "s"] n m)
    by (apply H; inlist). reflexivity.
Qed.

Lemma leaf_alias_str : forall ga e d c two two' n m x l,
  find_flag (tbl_leaf c) n = Some KStr -> find_flag (tbl_leaf c) m = Some KStr -> good_name n = true -> good_name m = true ->
  (forall N, In N local_str_names -> mem n N = mem m N) ->
  no_alias_in (tbl_leaf c) n l -> no_alias_in (tbl_leaf c) m l ->
  leaf_level ga e d c (flag_tok two n None :: x :: l) = leaf_level ga e d c (flag_tok two' m None :: x :: l).
Proof.
  intros ga e d c two two' n m x l Fn Fm Gn Gm H An Am. unfold leaf_level.
  rewrite (pf_value_takes_next _ two n KStr), (pf_value_takes_next _ two' m KStr) by (try assumption; discriminate).
  cbn [set_value]. destruct (parse_flags (tbl_leaf c) l) as [la rest| |] eqn:E; cbn [cons_asg]; try reflexivity.
  unfold guard. rewrite !conflict_cons_alias by (try apply once_leaf; first [exact (no_alias_unused _ _ _ _ _ An E)|exact (no_alias_unused _ _ _ _ _ Am E)]).
  rewrite !get_bool_cons_str. unfold leaf_args.
  destruct rest as [|y r]; rewrite ?(build_alias_str ga e d c n m) by exact H; reflexivity.
Qed.

Lemma leaf_alias_bool : forall ga e d c two two' n m v l,
  find_flag (tbl_leaf c) n = Some KBool -> find_flag (tbl_leaf c) m = Some KBool -> good_name n = true -> good_name m = true ->
  (forall N, In N local_bool_names -> mem n N = mem m N) ->
  no_alias_in (tbl_leaf c) n l -> no_alias_in (tbl_leaf c) m l ->
  leaf_level ga e d c (flag_tok two n v :: l) = leaf_level ga e d c (flag_tok two' m v :: l).
Proof.
  intros ga e d c two two' n m v l Fn Fm Gn Gm H An Am. unfold leaf_level. cbn [parse_flags].
  rewrite !classify_flag_tok by assumption. rewrite Fn, Fm.
  destruct (match v with Some x => parse_bool x | None => Some true end) as [bv|]; [|reflexivity].
  destruct (parse_flags (tbl_leaf c) l) as [la rest| |] eqn:E; cbn [cons_asg]; try reflexivity.
  unfold guard. rewrite !conflict_cons_alias by (try apply once_leaf; first [exact (no_alias_unused _ _ _ _ _ An E)|exact (no_alias_unused _ _ _ _ _ Am E)]).
  rewrite (get_bool_cons_mem n_help n m) by (apply H; inlist). unfold leaf_args.
  destruct rest as [|y r]; rewrite ?(build_alias_bool ga e d c n m) by exact H; reflexivity.
Qed.

(** the flags before the command *)
Definition build_same (ga' ga : asg) : Prop := forall e d c la arg, build ga' e d c la arg = build ga e d c la arg.

Lemma leaf_level_build_ext : forall ga' ga e d c args, build_same ga' ga -> leaf_level ga' e d c args = leaf_level ga e d c args.
Proof.
  intros ga' ga e d c args H. unfold leaf_level. destruct (parse_flags (tbl_leaf c) args) as [la rest| |]; try reflexivity.
  f_equal. unfold leaf_args. destruct rest as [|x r]; rewrite ?H; reflexivity.
Qed.

Lemma root_args_build_ext : forall ga' ga e d rest, build_same ga' ga -> root_args ga' e d rest = root_args ga e d rest.
Proof.
  intros ga' ga e d rest H. unfold root_args. destruct rest as [|x r]; [reflexivity|].
  destruct (leaf_of_root x); [apply leaf_level_build_ext; exact H|].
  assert (G : forall ch sub args, group_level ga' e d ch sub args = group_level ga e d ch sub args).
  { intros ch sub args. unfold group_level. destruct (parse_flags tbl_help args) as [a rest| |]; try reflexivity.
    f_equal. unfold group_args. destruct rest as [|y r']; [reflexivity|].
    destruct (sub y); [apply leaf_level_build_ext; exact H|reflexivity]. }
  rewrite !G. reflexivity.
Qed.

Lemma build_same_alias_str : forall n m x ga, (forall N, In N global_str_names -> mem n N = mem m N) ->
  build_same ((n, VS x) :: ga) ((m, VS x) :: ga).
Proof.
  intros n m x ga H e d c la arg. unfold build. rewrite !get_bool_cons_str, !get_int_cons_str.
  rewrite (get_str_cons_mem [b "database"; b "d"] n m), (get_str_cons_mem [b "logfile"; b "l"] n m), (get_str_cons_mem [b "date-format"] n m),
    (get_str_cons_mem [b "today"] n m), (get_str_cons_mem [b "config"; b "c"] n m), (get_str_cons_mem n_begin n m), (get_str_cons_mem n_end n m)
    by (apply H; inlist). reflexivity.
Qed.

Lemma root_alias_str : forall e d two two' n m x argv,
  find_flag tbl_root n = Some KStr -> find_flag tbl_root m = Some KStr -> good_name n = true -> good_name m = true ->
  (forall N, In N global_str_names -> mem n N = mem m N) ->
  no_alias_in tbl_root n argv -> no_alias_in tbl_root m argv ->
  root_level e d (flag_tok two n None :: x :: argv) = root_level e d (flag_tok two' m None :: x :: argv).
Proof.
  intros e d two two' n m x argv Fn Fm Gn Gm H An Am. unfold root_level.
  rewrite (pf_value_takes_next _ two n KStr), (pf_value_takes_next _ two' m KStr) by (try assumption; discriminate).
  cbn [set_value]. destruct (parse_flags tbl_root argv) as [ga rest| |] eqn:E; cbn [cons_asg]; try reflexivity.
  unfold guard. rewrite !conflict_cons_alias by (try apply once_root; first [exact (no_alias_unused _ _ _ _ _ An E)|exact (no_alias_unused _ _ _ _ _ Am E)]).
  rewrite !get_bool_cons_str. rewrite (root_args_build_ext _ ((m, VS x) :: ga)) by (apply build_same_alias_str; exact H). reflexivity.
Qed.

(** * on whole vectors *)
Theorem flag_aliases_agree_global : forall two two' n m x argv e,
  find_flag tbl_root n = Some KStr -> find_flag tbl_root m = Some KStr -> good_name n = true -> good_name m = true ->
  (forall N, In N global_str_names -> mem n N = mem m N) ->
  no_alias_in tbl_root n argv -> no_alias_in tbl_root m argv ->
  parse_argv (flag_tok two n None :: x :: argv) e = parse_argv (flag_tok two' m None :: x :: argv) e.
Proof.
  intros two two' n m x argv e Fn Fm Gn Gm H An Am. rewrite !parse_argv_root.
  destruct (env_int e (b "HR_MAXDEPTH")); try reflexivity. apply root_alias_str; assumption.
Qed.

Theorem flag_aliases_agree_local_str : forall g ga c ws two two' n m x l e,
  In ws (paths c) -> framed g ws ga ->
  find_flag (tbl_leaf c) n = Some KStr -> find_flag (tbl_leaf c) m = Some KStr -> good_name n = true -> good_name m = true ->
  (forall N, In N local_str_names -> mem n N = mem m N) ->
  no_alias_in (tbl_leaf c) n l -> no_alias_in (tbl_leaf c) m l ->
  parse_argv (g ++ ws ++ flag_tok two n None :: x :: l) e = parse_argv (g ++ ws ++ flag_tok two' m None :: x :: l) e.
Proof.
  intros g ga c ws two two' n m x l e Hin Hf Fn Fm Gn Gm H An Am. rewrite !(parse_argv_frame g ga c ws) by assumption.
  unfold root_frame. destruct (env_int e (b "HR_MAXDEPTH")) as [d| |]; try reflexivity.
  rewrite (leaf_alias_str ga e d c two two' n m) by assumption. reflexivity.
Qed.

Theorem flag_aliases_agree_local_bool : forall g ga c ws two two' n m v l e,
  In ws (paths c) -> framed g ws ga ->
  find_flag (tbl_leaf c) n = Some KBool -> find_flag (tbl_leaf c) m = Some KBool -> good_name n = true -> good_name m = true ->
  (forall N, In N local_bool_names -> mem n N = mem m N) ->
  no_alias_in (tbl_leaf c) n l -> no_alias_in (tbl_leaf c) m l ->
  parse_argv (g ++ ws ++ flag_tok two n v :: l) e = parse_argv (g ++ ws ++ flag_tok two' m v :: l) e.
Proof.
  intros g ga c ws two two' n m v l e Hin Hf Fn Fm Gn Gm H An Am. rewrite !(parse_argv_frame g ga c ws) by assumption.
  unfold root_frame. destruct (env_int e (b "HR_MAXDEPTH")) as [d| |]; try reflexivity.
  rewrite (leaf_alias_bool ga e d c two two' n m) by assumption. reflexivity.
Qed.

(** the pairs of the tables meet the hypotheses: [-d FILE] is [--database FILE] when the flag is not given again ... *)
Corollary database_alias : forall two two' x argv e,
  no_alias_in tbl_root (b "d") argv -> no_alias_in tbl_root (b "database") argv ->
  parse_argv (flag_tok two (b "d") None :: x :: argv) e = parse_argv (flag_tok two' (b "database") None :: x :: argv) e.
Proof.
  intros two two' x argv e A1 A2. apply flag_aliases_agree_global; try assumption; try (vm_compute; reflexivity).
  intros N HN. cbn [In global_str_names] in HN. repeat (destruct HN as [<-|HN]; [vm_compute; reflexivity|]). destruct HN.
Qed.

(** ... [reg -s X] is [reg --single-element X], [bal -c] is [bal --collapse], [lint -s] is [lint --silent] *)
Corollary single_element_alias : forall g ga ws c two two' x l e,
  In c [FReg; FBal] -> In ws (paths c) -> framed g ws ga ->
  no_alias_in (tbl_leaf c) (b "s") l -> no_alias_in (tbl_leaf c) (b "single-element") l ->
  parse_argv (g ++ ws ++ flag_tok two (b "s") None :: x :: l) e = parse_argv (g ++ ws ++ flag_tok two' (b "single-element") None :: x :: l) e.
Proof.
  intros g ga ws c two two' x l e Hc Hin Hf A1 A2.
  apply (flag_aliases_agree_local_str g ga c); try assumption;
    try (cbn [In] in Hc; destruct Hc as [<-|[<-|[]]]; vm_compute; reflexivity).
  intros N HN. cbn [In local_str_names] in HN. repeat (destruct HN as [<-|HN]; [vm_compute; reflexivity|]). destruct HN.
Qed.

Corollary boolean_aliases : forall g ga ws c n m two two' v l e,
  In (c, n, m) [(FReg, b "g", b "group-food"); (FBal, b "c", b "collapse"); (FLint, b "s", b "silent")] ->
  In ws (paths c) -> framed g ws ga ->
  no_alias_in (tbl_leaf c) n l -> no_alias_in (tbl_leaf c) m l ->
  parse_argv (g ++ ws ++ flag_tok two n v :: l) e = parse_argv (g ++ ws ++ flag_tok two' m v :: l) e.
Proof.
  intros g ga ws c n m two two' v l e Hc Hin Hf A1 A2.
  assert (K : forall c0 n0 m0, (c, n, m) = (c0, n0, m0) ->
            find_flag (tbl_leaf c0) n0 = Some KBool -> find_flag (tbl_leaf c0) m0 = Some KBool -> good_name n0 = true -> good_name m0 = true ->
            (forall N, In N local_bool_names -> mem n0 N = mem m0 N) ->
            parse_argv (g ++ ws ++ flag_tok two n v :: l) e = parse_argv (g ++ ws ++ flag_tok two' m v :: l) e).
  { intros c0 n0 m0 E F1 F2 G1 G2 HN. injection E as -> -> ->. apply (flag_aliases_agree_local_bool g ga c0); assumption. }
  cbn [In] in Hc. destruct Hc as [Hc|[Hc|[Hc|[]]]]; symmetry in Hc;
    (eapply (K _ _ _ Hc); try (vm_compute; reflexivity);
     intros N HN; cbn [In local_bool_names] in HN; repeat (destruct HN as [<-|HN]; [vm_compute; reflexivity|]); destruct HN).
Qed.

(** two forms of one flag in one level are refused *)
Example two_forms_refused :
  parse_argv [b "-d"; b "x"; b "--database"; b "y"; b "reg"] [] = ArgvUsage /\
  parse_argv [b "reg"; b "-g"; b "--group-food=false"] [] = ArgvUsage.
Proof. vm_compute. split; reflexivity. Qed.
