(** WP03 – step 2: the line classifier on the rendering of each kind of
    well-formed item. *)
From Coq Require Import Lia ZifyBool ZifyNat ZifyN.
From HP Require Import Base.Bytes Base.Utf8 Base.Num Model.Scanner Model.Parser Model.Syntax.
From HP Require Import Proofs.ParserBytes Proofs.ParserScan.
Open Scope N_scope.

Lemma fill5_trim_text s : all_in fill5 s = true -> all_in trim_text s = true.
Proof. apply all_in_sub. intros c Hc. memb_tac. Qed.

Lemma fill4_trim_text s : all_in fill4 s = true -> all_in trim_text s = true.
Proof. apply all_in_sub. intros c Hc. memb_tac. Qed.

Lemma fill4_trim_qty s : all_in fill4 s = true -> all_in trim_qty s = true.
Proof. apply all_in_sub. intros c Hc. memb_tac. Qed.

(** the ends of a name *)
Lemma wf_name_ends n :
  wf_name n = true ->
  opt_notin (first_byte n) (c_hash :: trim_text) = true /\
  opt_notin (first_byte n) trim_text = true /\ opt_notin (last_byte n) trim_text = true.
Proof.
  unfold wf_name. intros H. apply andb_true_iff in H as [H _]. apply andb_true_iff in H as [H1 H2].
  split; [exact H1|]. split.
  - revert H1. apply opt_notin_sub. intros c Hc. memb_tac.
  - revert H2. apply opt_notin_sub. intros c Hc. memb_tac.
Qed.

Lemma wf_value_text_ends t :
  wf_value_text t = true ->
  opt_notin (first_byte t) trim_qty = true /\ opt_notin (last_byte t) trim_qty = true /\
  opt_notin (last_byte t) trim_text = true /\ none_of blanks t = true.
Proof.
  unfold wf_value_text. intros H. apply andb_true_iff in H as [H H3]. apply andb_true_iff in H as [H1 H2].
  split; [exact H1|]. split; [|split].
  - revert H2. apply opt_notin_sub. intros c Hc. memb_tac.
  - revert H2. apply opt_notin_sub. intros c Hc. memb_tac.
  - revert H3. apply none_of_sub. intros c Hc. memb_tac.
Qed.

(** name, separator, value text: where the classifier cuts, and what the two
    trims leave *)
Lemma entry_core_split n mid t :
  wf_name n = true -> wf_mid mid = true -> wf_value_text t = true ->
  exists sep,
    last_index_any blanks (n ++ mid ++ t) = Some sep /\
    trim trim_text (firstn sep (n ++ mid ++ t)) = n /\
    trim trim_qty (skipn sep (n ++ mid ++ t)) = t.
Proof.
  intros Hn Hm Ht.
  apply wf_name_ends in Hn as [_ [Hn1 Hn2]].
  apply wf_value_text_ends in Ht as [Ht1 [Ht2 [_ Ht4]]].
  unfold wf_mid in Hm. apply andb_true_iff in Hm as [Hm1 Hm2].
  apply split_last_in in Hm2 as [m1 [c [m2 [-> [Hc Hm2]]]]].
  change (all_in fill4 (m1 ++ c :: m2) = true) in Hm1.
  rewrite all_in_app in Hm1. apply andb_true_iff in Hm1 as [Hm1 Hcm2].
  assert (E : n ++ (m1 ++ c :: m2) ++ t = (n ++ m1) ++ c :: (m2 ++ t)).
  { rewrite <- !app_assoc. reflexivity. }
  exists (length (n ++ m1)). rewrite E. split; [|split].
  - apply last_index_any_last; [exact Hc|]. rewrite none_of_app, Hm2, Ht4. reflexivity.
  - rewrite firstn_app_exact.
    change (n ++ m1) with ([] ++ n ++ m1).
    apply trim_core; [reflexivity | apply fill4_trim_text, Hm1 | exact Hn1 | exact Hn2].
  - rewrite skipn_app_exact.
    change (c :: m2 ++ t) with ((c :: m2) ++ t). rewrite <- (app_nil_r t) at 1.
    apply trim_core; [apply fill4_trim_qty, Hcm2 | reflexivity | exact Ht1 | exact Ht2].
Qed.

Section Classify.
  Context (NM : Num).

  Lemma classify_blank ln ws inrec :
    all_in fill5 ws = true -> classify NM ln ws inrec = LSkip NM.
  Proof.
    intros H. unfold classify. rewrite trim_all_in by (apply fill5_trim_text, H). reflexivity.
  Qed.

  Lemma classify_comment ln t inrec : classify NM ln (c_hash :: t) inrec = LSkip NM.
  Proof. unfold classify. destruct (trim trim_text (c_hash :: t)); reflexivity. Qed.

  Lemma classify_heading ln n s inrec :
    wf_name n = true -> wf_post s = true -> classify NM ln (n ++ s) inrec = LHeading NM n.
  Proof.
    intros Hn Hs. apply wf_name_ends in Hn as [Hn0 [Hn1 Hn2]].
    unfold classify.
    replace (trim trim_text (n ++ s)) with n
      by (symmetry; apply (trim_core trim_text [] n s); [reflexivity | apply fill5_trim_text, Hs | exact Hn1 | exact Hn2]).
    apply opt_notin_first in Hn0 as [c [r [-> Hc]]]. cbn [app].
    assert (E1 : (c =? comment_char) = false) by memb_tac.
    assert (E2 : negb ((c =? c_space) || (c =? c_tab) || (c =? c_dash)) = true) by memb_tac.
    rewrite E1, E2. reflexivity.
  Qed.

  (** an indented line: filler, a core with non-filler ends, filler *)
  Lemma classify_indented ln pre core post inrec :
    wf_pre pre = true -> all_in fill5 post = true ->
    opt_notin (first_byte core) trim_text = true -> opt_notin (last_byte core) trim_text = true ->
    classify NM ln (pre ++ core ++ post) inrec =
      if negb inrec then LSkip NM
      else if head_byte core =? comment_char then LMeta NM (metadata_pair core)
      else match last_index_any blanks core with
           | None => LBad NM (BadSyntax ln (pre ++ core ++ post))
           | Some sep =>
               let title := trim trim_text (firstn sep core) in
               let sqty := trim trim_qty (skipn sep core) in
               match of_lexeme NM sqty with
               | None => LBad NM (Conversion sqty ln (pre ++ core ++ post))
               | Some v => LEntry NM title v
               end
           end.
  Proof.
    intros Hpre Hpost Hf Hl. unfold classify.
    rewrite trim_core by (try assumption; apply fill5_trim_text; try assumption; apply wf_pre_fill, Hpre).
    destruct core as [|t0 core]; [discriminate|].
    destruct pre as [|p0 pre]; [discriminate|].
    unfold wf_pre in Hpre. apply andb_true_iff in Hpre as [Hp0 _].
    cbn [app head_byte].
    assert (E1 : (p0 =? comment_char) = false) by memb_tac.
    assert (E2 : negb ((p0 =? c_space) || (p0 =? c_tab) || (p0 =? c_dash)) = false) by memb_tac.
    rewrite E1, E2. reflexivity.
  Qed.

  Lemma first_byte_core n mid t : n <> [] -> first_byte (n ++ mid ++ t) = first_byte n.
  Proof. apply first_byte_app. Qed.

  Lemma last_byte_core n mid t : t <> [] -> last_byte (n ++ mid ++ t) = last_byte t.
  Proof. intros H. rewrite app_assoc. apply last_byte_app, H. Qed.

  Lemma head_byte_not_hash n r :
    opt_notin (first_byte n) (c_hash :: trim_text) = true -> (head_byte (n ++ r) =? comment_char) = false.
  Proof.
    intros H. apply opt_notin_first in H as [c [n' [-> Hc]]]. cbn [app head_byte]. memb_tac.
  Qed.

  (** an entry-shaped line: name, separator, value text *)
  Lemma classify_entry_shaped ln pre n mid t post :
    wf_pre pre = true -> wf_name n = true -> wf_mid mid = true -> wf_value_text t = true ->
    wf_post post = true ->
    classify NM ln (pre ++ n ++ mid ++ t ++ post) true =
      match of_lexeme NM t with
      | None => LBad NM (Conversion t ln (pre ++ n ++ mid ++ t ++ post))
      | Some v => LEntry NM n v
      end.
  Proof.
    intros Hpre Hn Hmid Ht Hpost.
    destruct (entry_core_split n mid t Hn Hmid Ht) as [sep [Hsep [Htitle Hqty]]].
    pose proof (wf_name_ends n Hn) as [Hn0 [Hn1 Hn2]].
    pose proof (wf_value_text_ends t Ht) as [Ht1 [Ht2 [Ht3 Ht4]]].
    assert (Hnne : n <> []) by (intros ->; discriminate).
    assert (Htne : t <> []) by (intros ->; discriminate).
    replace (pre ++ n ++ mid ++ t ++ post) with (pre ++ (n ++ mid ++ t) ++ post)
      by (rewrite <- !app_assoc; reflexivity).
    rewrite classify_indented; try assumption.
    - cbn [negb]. rewrite head_byte_not_hash by exact Hn0.
      rewrite Hsep. cbv zeta. rewrite Htitle, Hqty. reflexivity.
    - rewrite first_byte_core by exact Hnne. exact Hn1.
    - rewrite last_byte_core by exact Htne. exact Ht3.
  Qed.

  (** what a line is, for every well-formed item *)
  Theorem classify_item ln it inrec :
    wf_item NM it = true ->
    classify NM ln (render_line it) inrec =
      match it with
      | IBlank _ | IComment _ => LSkip NM
      | IHeading n _ => LHeading NM n
      | IEntry _ n _ lx _ => if inrec then LEntry NM n (value_of NM lx) else LSkip NM
      | INote _ raw => if inrec then LMeta NM (metadata_pair raw) else LSkip NM
      | IBadNoSep _ _ => if inrec then LBad NM (BadSyntax ln (render_line it)) else LSkip NM
      | IBadNum _ _ _ t _ => if inrec then LBad NM (Conversion t ln (render_line it)) else LSkip NM
      end.
  Proof.
    intros H. destruct it as [ws|t|n s|pre n mid lx post|pre raw|pre t|pre n mid t post];
      cbn [wf_item render_line] in *.
    - apply classify_blank, H.
    - apply classify_comment.
    - apply andb_true_iff in H as [Hn Hs]. apply classify_heading; assumption.
    - repeat (apply andb_true_iff in H as [H ?Hx]).
      unfold wf_lexeme in Hx0. apply andb_true_iff in Hx0 as [Hlx Hv].
      destruct inrec.
      + rewrite classify_entry_shaped by assumption.
        unfold value_of. destruct (of_lexeme NM lx); [reflexivity|discriminate].
      + pose proof (wf_name_ends n Hx2) as [Hn0 [Hn1 Hn2]].
        pose proof (wf_value_text_ends lx Hlx) as [Ht1 [Ht2 [Ht3 Ht4]]].
        replace (pre ++ n ++ mid ++ lx ++ post) with (pre ++ (n ++ mid ++ lx) ++ post)
          by (rewrite <- !app_assoc; reflexivity).
        rewrite classify_indented; try assumption; [reflexivity | |].
        * rewrite first_byte_core by (intros ->; discriminate). exact Hn1.
        * rewrite last_byte_core by (intros ->; discriminate). exact Ht3.
    - repeat (apply andb_true_iff in H as [H ?Hx]).
      assert (Hl : opt_notin (last_byte raw) trim_text = true).
      { revert Hx0. apply opt_notin_sub. intros c Hc. memb_tac. }
      destruct raw as [|r0 raw]; [discriminate|]. apply N.eqb_eq in Hx1. subst r0.
      rewrite <- (app_nil_r (c_hash :: raw)) at 1.
      rewrite classify_indented; try assumption; [|reflexivity|reflexivity].
      destruct inrec; reflexivity.
    - repeat (apply andb_true_iff in H as [H ?Hx]).
      pose proof (wf_value_text_ends t Hx0) as [Ht1 [Ht2 [Ht3 Ht4]]].
      assert (Hf : opt_notin (first_byte t) trim_text = true).
      { revert Hx. apply opt_notin_sub. intros c Hc. memb_tac. }
      rewrite <- (app_nil_r t) at 1.
      rewrite classify_indented; try assumption; [|reflexivity].
      destruct inrec; [|reflexivity]. cbn [negb].
      rewrite <- (app_nil_r t) at 1. rewrite head_byte_not_hash by exact Hx.
      rewrite last_index_any_none by exact Ht4. rewrite app_nil_r. reflexivity.
    - repeat (apply andb_true_iff in H as [H ?Hx]).
      destruct inrec.
      + rewrite classify_entry_shaped by assumption.
        destruct (of_lexeme NM t); [discriminate|reflexivity].
      + pose proof (wf_name_ends n Hx3) as [Hn0 [Hn1 Hn2]].
        pose proof (wf_value_text_ends t Hx1) as [Ht1 [Ht2 [Ht3 Ht4]]].
        replace (pre ++ n ++ mid ++ t ++ post) with (pre ++ (n ++ mid ++ t) ++ post)
          by (rewrite <- !app_assoc; reflexivity).
        rewrite classify_indented; try assumption; [reflexivity | |].
        * rewrite first_byte_core by (intros ->; discriminate). exact Hn1.
        * rewrite last_byte_core by (intros ->; discriminate). exact Ht3.
  Qed.
End Classify.
