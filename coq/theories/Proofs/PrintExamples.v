(** Non-vacuity examples for property C14 and the witnesses of the clauses
    that are false without the hypotheses of the theorems. *)
From Coq Require Import Lia ZifyBool ZifyNat ZifyN.
From HP Require Import Base.Bytes Base.Utf8 Base.Num Base.GoFloat Model.Scanner Model.Parser Model.Elements
     Model.Dates Model.Writer Model.Reporters Spec.PrintSpec
     Proofs.PrintBytes Proofs.PrintDates Proofs.PrintParse Proofs.PrintMain Proofs.PrintZNum.
Open Scope N_scope.

Definition cfg (toks : list ltoken) : rconfig :=
  {| rc_color := false; rc_totals_only := false; rc_totals := false; rc_date := toks;
     rc_single_element := []; rc_single_food := []; rc_collapse_last := false; rc_collapse := false;
     rc_group_food := false; rc_shorten := false; rc_old := false; rc_template := []; rc_csv := false |}.

Definition layout_of (s : string) : list ltoken := match tokenize (b s) with Some t => t | None => [] end.

(** the default layout *)
Definition toks0 : list ltoken := layout_of "2006/01/02".

Example toks0_tokenized : tokenize (b "2006/01/02") = Some toks0.
Proof. reflexivity. Qed.
Example toks0_heading : heading_layout toks0 = true.
Proof. reflexivity. Qed.
Example toks0_full : full_layout toks0.
Proof. unfold full_layout, toks0. cbn. tauto. Qed.

(** *** a two-day log: a name with a colon and spaces, a negative quantity, one
    note of each documented form *)
Definition day1 : lognode ZNum :=
  {| ln_time := time_of_civil (2020, 2, 29)%Z;
     ln_elems := ([(b "soup: with bread", (-3)%Z); (b "tea", 250%Z)] : elements ZNum);
     ln_meta := Some [(b "mood", b "good: really"); ([], b "a plain remark")] |}.
Definition day2 : lognode ZNum :=
  {| ln_time := time_of_civil (2020, 3, 1)%Z;
     ln_elems := ([(b "apple", 2%Z)] : elements ZNum);
     ln_meta := None |}.
Definition log12 : list (lognode ZNum) := [day1; day2].

Example day1_ok : day_ok ZNum (cfg toks0) day1.
Proof.
  unfold day_ok. split; [reflexivity|]. split.
  { unfold civil_fits, valid_civil. cbn. repeat split; try lia; intros HX; exfalso; apply HX; tauto. }
  split; [repeat constructor|]. split.
  { cbn. repeat constructor; cbn; intuition discriminate. }
  split; [repeat constructor|]. repeat constructor.
Qed.

Example day2_ok : day_ok ZNum (cfg toks0) day2.
Proof.
  unfold day_ok. split; [reflexivity|]. split.
  { unfold civil_fits, valid_civil. cbn. repeat split; try lia; intros HX; exfalso; apply HX; tauto. }
  split; [repeat constructor|]. split.
  { cbn. repeat constructor; cbn; intuition discriminate. }
  split; [repeat constructor|]. repeat constructor.
Qed.

Example log12_ok : Forall (day_ok ZNum (cfg toks0)) log12.
Proof. constructor; [apply day1_ok|constructor; [apply day2_ok|constructor]]. Qed.

(** what print writes for it *)
Example log12_printed :
  print_output ZNum (cfg toks0) log12 =
  b "2020/02/29:" ++ [c_lf] ++
  b "  # mood: good: really" ++ [c_lf] ++
  b "  # a plain remark" ++ [c_lf] ++
  b "  - soup: with bread: -3" ++ [c_lf] ++
  b "  - tea: 250" ++ [c_lf] ++ [c_lf] ++
  b "2020/03/01:" ++ [c_lf] ++
  b "  - apple: 2" ++ [c_lf] ++ [c_lf].
Proof. vm_compute. reflexivity. Qed.

(** through the theorems: it reads back to the same days, and printing those gives the same bytes *)
Example log12_reads_back :
  read_log ZNum toks0 (print_output ZNum (cfg toks0) log12) = Some log12.
Proof.
  destruct (print_reads_back ZNum FmtStable_ZNum (cfg toks0) log12 toks0_heading log12_ok) as [_ [H _]].
  exact H.
Qed.

Example log12_idempotent L' :
  read_log ZNum toks0 (print_output ZNum (cfg toks0) log12) = Some L' ->
  print_output ZNum (cfg toks0) L' = print_output ZNum (cfg toks0) log12.
Proof. apply (print_idempotent ZNum FmtStable_ZNum (cfg toks0) log12 L' toks0_heading log12_ok). Qed.

(** the same by computation alone *)
Example log12_computed :
  option_map (print_output ZNum (cfg toks0)) (read_log ZNum toks0 (print_output ZNum (cfg toks0) log12))
  = Some (print_output ZNum (cfg toks0) log12).
Proof. vm_compute. reflexivity. Qed.

(** binary64: a hand-written log with duplicates, exponents and more than two
    decimals; the second print equals the first *)
Definition nl : string := String (ascii_of_N 10) EmptyString.
Definition messy : bytes :=
  b ("2020/02/29:" ++ nl ++ "  #mood : good: really" ++ nl ++ "  # a plain remark" ++ nl ++
     "  - soup: with bread:   -3.14159" ++ nl ++ " - tea 2.5e2" ++ nl ++ "  soup: with bread 1.005" ++ nl ++
     "2020/03/01:" ++ nl ++ "  - apple: 2" ++ nl)%string.

Definition print_of (NM : Num) (toks : list ltoken) (data : bytes) : option bytes :=
  option_map (print_output NM (cfg toks)) (read_log NM toks data).

Example messy_printed_b64 :
  print_of B64 toks0 messy =
  Some (b "2020/02/29:" ++ [c_lf] ++
        b "  # mood: good: really" ++ [c_lf] ++
        b "  # a plain remark" ++ [c_lf] ++
        b "  - soup: with bread: -2.14" ++ [c_lf] ++
        b "  - tea: 250.00" ++ [c_lf] ++ [c_lf] ++
        b "2020/03/01:" ++ [c_lf] ++
        b "  - apple: 2.00" ++ [c_lf] ++ [c_lf]).
Proof. vm_compute. reflexivity. Qed.

Example messy_idempotent_b64 :
  match print_of B64 toks0 messy with
  | Some out => print_of B64 toks0 out = Some out
  | None => False
  end.
Proof. vm_compute. reflexivity. Qed.

(** a layout without the year: the round trip still holds (Go's default year 0) *)
Definition toks_md : list ltoken := layout_of "01.02".
Definition day_md : lognode ZNum :=
  {| ln_time := time_of_civil (0, 12, 24)%Z; ln_elems := ([(b "fish", 1%Z)] : elements ZNum);
     ln_meta := None |}.
Example day_md_roundtrip :
  parse_date toks_md (format_date toks_md (0, 12, 24)%Z) = Some (0, 12, 24)%Z
  /\ read_log ZNum toks_md (print_output ZNum (cfg toks_md) [day_md]) = Some [day_md].
Proof. vm_compute. split; reflexivity. Qed.

(** *** FALSE without the note hypothesis: notes outside the documented forms *)

(** a readable log whose note value contains a colon after an empty key: the
    printed log reads back with a DIFFERENT note, and the second print differs
    from the first *)
Definition colon_note : bytes := b ("2020/01/02:" ++ nl ++ "  # : a:b" ++ nl ++ "  - x 1" ++ nl)%string.

Theorem print_idempotent_refuted_note :
  exists data out1 out2,
    print_of ZNum toks0 data = Some out1 /\ print_of ZNum toks0 out1 = Some out2 /\ out2 <> out1.
Proof.
  exists colon_note. eexists. eexists. split; [vm_compute; reflexivity|]. split; [vm_compute; reflexivity|].
  vm_compute. discriminate.
Qed.

Example colon_note_prints :
  print_of ZNum toks0 colon_note
  = Some (b "2020/01/02:" ++ [c_lf] ++ b "  # a:b" ++ [c_lf] ++ b "  - x: 1" ++ [c_lf] ++ [c_lf])
  /\ option_map (map (ln_meta ZNum)) (read_log ZNum toks0 colon_note) = Some [Some [([], b "a:b")]]
  /\ match print_of ZNum toks0 colon_note with
     | Some out => option_map (map (ln_meta ZNum)) (read_log ZNum toks0 out) = Some [Some [(b "a", b "b")]]
     | None => False
     end.
Proof. vm_compute. repeat split; reflexivity. Qed.

(** a key with an empty value: printed as [# k: ], read back as the text note [k] *)
Definition empty_value_note : bytes := b ("2020/01/02:" ++ nl ++ "  # k: #" ++ nl ++ "  - x 1" ++ nl)%string.

Theorem print_reads_back_refuted_note :
  exists data L out L',
    read_log ZNum toks0 data = Some L /\ print_output ZNum (cfg toks0) L = out
    /\ read_log ZNum toks0 out = Some L' /\ map (ln_meta ZNum) L' <> map (ln_meta ZNum) L
    /\ print_output ZNum (cfg toks0) L' <> out.
Proof.
  exists empty_value_note. eexists. eexists. eexists.
  split; [vm_compute; reflexivity|]. split; [reflexivity|]. split; [vm_compute; reflexivity|].
  split; vm_compute; discriminate.
Qed.

(** a value ending in a byte of the trim set (here a dash) cannot come from the
    parser, but a day carrying it is printed and read back without the dash *)
Definition day_dash : lognode ZNum :=
  {| ln_time := time_of_civil (2020, 1, 2)%Z; ln_elems := ([(b "x", 1%Z)] : elements ZNum);
     ln_meta := Some [(b "k", b "v-")] |}.
Example dash_note_changes :
  option_map (map (ln_meta ZNum)) (read_log ZNum toks0 (print_output ZNum (cfg toks0) [day_dash]))
  = Some [Some [(b "k", b "v")]].
Proof. vm_compute. reflexivity. Qed.

(** *** FALSE without the layout hypothesis: a layout that starts or ends with a
    literal the parser trims *)
Definition toks_dash : list ltoken := layout_of "-2006-01-02".
Definition toks_trail : list ltoken := layout_of "2006-01-02-".
Definition day_plain : lognode ZNum :=
  {| ln_time := time_of_civil (2020, 1, 2)%Z; ln_elems := ([(b "x", 1%Z)] : elements ZNum);
     ln_meta := None |}.

Example toks_dash_tokenized : tokenize (b "-2006-01-02") = Some toks_dash /\ heading_layout toks_dash = false.
Proof. split; reflexivity. Qed.

Example day_plain_ok_dash : day_ok ZNum (cfg toks_dash) day_plain.
Proof.
  unfold day_ok. split; [reflexivity|]. split.
  { unfold civil_fits, valid_civil. cbn. repeat split; try lia; intros HX; exfalso; apply HX; tauto. }
  split; [repeat constructor|]. split.
  { cbn. repeat constructor; cbn; intuition discriminate. }
  split; [repeat constructor|]. repeat constructor.
Qed.

(** the heading [-2020-01-02:] starts with a dash: the whole printed day is skipped *)
Theorem print_reads_back_refuted_layout :
  exists toks L, tokenize (b "-2006-01-02") = Some toks /\ Forall (day_ok ZNum (cfg toks)) L /\ L <> []
                 /\ events ZNum (print_output ZNum (cfg toks) L) = []
                 /\ read_log ZNum toks (print_output ZNum (cfg toks) L) = Some [].
Proof.
  exists toks_dash, [day_plain]. split; [reflexivity|]. split; [constructor; [apply day_plain_ok_dash|constructor]|].
  split; [discriminate|]. split; vm_compute; reflexivity.
Qed.

(** the heading [2020-01-02-:] is trimmed to [2020-01-02], which is not a date under the layout *)
Example trailing_literal_unreadable :
  tokenize (b "2006-01-02-") = Some toks_trail
  /\ read_log ZNum toks_trail (print_output ZNum (cfg toks_trail) [day_plain]) = None.
Proof. split; vm_compute; reflexivity. Qed.

(** *** the documented note forms are exact on a finite domain: for every key
    of at most 2 and value of at most 2 bytes over the alphabet
    a, space, colon, #, dash, tab, CR, 0xC2, 0xA0 (the bytes of U+00A0), LF, quote,
    the note survives the print / read round trip if and only if it is
    [documented_note] (17 689 pairs; the same check with lengths 3 / 3 —
    2.1 million pairs — also finds no disagreement, 6 minutes, not kept here) *)
Definition alphabet : bytes := [97; 32; 58; 35; 45; 9; 13; 194; 160; 10; 34].
Fixpoint strings_upto (n : nat) : list bytes :=
  match n with
  | O => [[]]
  | S k => [] :: flat_map (fun s => map (fun c => c :: s) alphabet) (strings_upto k)
  end.
Fixpoint notes_eqb (l1 l2 : list (bytes * bytes)) : bool :=
  match l1, l2 with
  | [], [] => true
  | x :: a, y :: c => beq (fst x) (fst y) && beq (snd x) (snd y) && notes_eqb a c
  | _, _ => false
  end.
Definition day_with (mp : bytes * bytes) : lognode ZNum :=
  {| ln_time := time_of_civil (2020, 1, 2)%Z; ln_elems := ([(b "x", 1%Z)] : elements ZNum);
     ln_meta := Some [mp] |}.
(** the printed day reads back as one record with exactly this note and its one entry *)
Definition note_survives (mp : bytes * bytes) : bool :=
  match events ZNum (print_output ZNum (cfg toks0) [day_with mp]) with
  | [ENode n] =>
      match meta n with Some l => notes_eqb l [mp] | None => false end
      && match elems n with [_] => true | _ => false end
  | _ => false
  end.
Definition note_disagreements (nk nv : nat) : list (bytes * bytes) :=
  filter (fun mp => negb (Bool.eqb (note_survives mp) (documented_note mp)))
         (flat_map (fun k => map (fun v => (k, v)) (strings_upto nv)) (strings_upto nk)).

Example documented_note_exact_small : note_disagreements 2 2 = [].
Proof. vm_compute. reflexivity. Qed.

(** *** the number law at binary64, on samples only (zeros of both signs, ties,
    huge and tiny values, NaN, both infinities, the largest finite value); in
    general it rests on the correspondence check of the model's [parse_float]
    / [format_fixed] against Go *)
From Coq Require Import Floats.SpecFloat.
Definition stable_at (v : T B64) : bool :=
  qty_clean (fmt_fixed B64 2 v)
  && match of_lexeme B64 (fmt_fixed B64 2 v) with
     | Some v' => beq (fmt_fixed B64 2 v') (fmt_fixed B64 2 v)
     | None => false
     end.
Definition lex64 (s : string) : T B64 := match of_lexeme B64 (b s) with Some v => v | None => S754_nan end.
Example fmt_stable_b64_samples :
  forallb stable_at
    [lex64 "0"; lex64 "-0"; lex64 "1.005"; lex64 "-1.005"; lex64 "2.675"; lex64 "1e21"; lex64 "-1e300";
     lex64 "1e-320"; lex64 "-1e-5"; lex64 "0.005"; lex64 "0.015"; lex64 "123456789.125";
     S754_nan; S754_infinity false; S754_infinity true; lex64 "1.7976931348623157e308"] = true.
Proof. vm_compute. reflexivity. Qed.
