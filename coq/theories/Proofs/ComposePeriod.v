(** WP12: period reporters.  [Process] is silent; the state is a fold over the
    selected days; the report is what [Flush] writes for the final state. *)
From Coq Require Import Lia.
From HP Require Import Base.Bytes Base.Utf8 Base.Num Model.Scanner Model.Parser Model.Elements Model.Dates
  Model.Tree Model.Writer Model.Reporters Model.Cli Spec.ComposeSpec
  Proofs.ComposeWriter Proofs.ComposeWalk.

Section Period.
  Context (NM : Num).
  Notation T := (T NM).

  Theorem period_reporter_period : forall R, period_reporter NM R -> period NM R.
  Proof.
    intros R HR. destruct HR as [c|c d|d|desc|c d|d]; intros pi st ln; reflexivity.
  Qed.

  (** the selected days of a concatenation *)
  Lemma walked_nodes_app : forall toks bt et evs1 evs2,
    walked_nodes NM toks bt et (evs1 ++ evs2) =
    (let '(l1, e1) := walked_nodes NM toks bt et evs1 in
     match e1 with
     | Some _ => (l1, e1)
     | None => let '(l2, e2) := walked_nodes NM toks bt et evs2 in (l1 ++ l2, e2)
     end).
  Proof.
    intros toks bt et. induction evs1 as [|ev r IH]; intros evs2.
    - cbn. destruct (walked_nodes NM toks bt et evs2) as [l2 e2]. reflexivity.
    - cbn [app walked_nodes].
      destruct (classify_event NM toks bt et ev) as [e| |ln].
      + reflexivity.
      + apply IH.
      + rewrite IH. destruct (walked_nodes NM toks bt et r) as [l1 e1].
        destruct e1 as [e1|]; [reflexivity|].
        destruct (walked_nodes NM toks bt et evs2) as [l2 e2]. reflexivity.
  Qed.

  Section Generic.
    Context (R : reporter NM) (HP : period NM R).
    Context (toks : list ltoken) (bt et : option time).

    (** nothing is written before [r_flush]: whatever the writer (and its sink), the walk leaves it alone *)
    Theorem period_walk_silent_gen : forall pd evs st,
      snd (fst (walk_events NM R pd toks bt et evs st)) = snd st.
    Proof.
      intros pd. induction evs as [|ev r IH]; intros [[rs i] wr].
      - reflexivity.
      - cbn [walk_events]. unfold walk_cb.
        destruct ev as [n|e]; [|reflexivity].
        destruct (parse_date toks (header n)) as [c|]; [|reflexivity].
        destruct (in_interval bt et (time_of_civil c)); [|apply IH].
        rewrite HP. cbn [bw_chunks]. rewrite IH. reflexivity.
    Qed.

    Lemma pwalk_period : forall pd evs rs i,
      pwalk NM R toks bt et pd evs rs i =
      (fold_left (pstep NM R) (fst (walked_nodes NM toks bt et evs)) rs,
       i + length (fst (walked_nodes NM toks bt et evs)), [], snd (walked_nodes NM toks bt et evs)).
    Proof.
      intros pd. induction evs as [|ev r IH]; intros rs i.
      - cbn. rewrite Nat.add_0_r. reflexivity.
      - cbn [pwalk walked_nodes]. unfold pstep_ev.
        destruct (classify_event NM toks bt et ev) as [e| |ln].
        + cbn. rewrite Nat.add_0_r. reflexivity.
        + rewrite IH. reflexivity.
        + rewrite HP. rewrite IH.
          destruct (walked_nodes NM toks bt et r) as [l e]. cbn [fst snd fold_left length chunk_bytes map concat app].
          rewrite <- plus_n_Sm. reflexivity.
    Qed.

    (** state, output and error of a period report *)
    Theorem period_report_gen : forall pd pf evs,
      report_state NM R pd pf toks bt et evs
        = fold_left (pstep NM R) (fst (walked_nodes NM toks bt et evs)) (r_init NM R)
      /\ fst (report NM R pd pf toks bt et evs)
        = concat (map fst (r_flush NM R pf (report_state NM R pd pf toks bt et evs)))
      /\ snd (report NM R pd pf toks bt et evs) = snd (walked_nodes NM toks bt et evs).
    Proof.
      intros pd pf evs. rewrite report_state_pwalk, report_pwalk, pwalk_period. cbn [fst snd app].
      repeat split; reflexivity.
    Qed.

    (** period_state_fold *)
    Theorem period_state_fold_gen : forall pd pf pd' pf' evs1 evs2,
      snd (report NM R pd pf toks bt et evs1) = None ->
      report_state NM R pd pf toks bt et (evs1 ++ evs2)
        = fold_left (pstep NM R) (fst (walked_nodes NM toks bt et evs2)) (report_state NM R pd' pf' toks bt et evs1)
      /\ snd (report NM R pd pf toks bt et (evs1 ++ evs2)) = snd (walked_nodes NM toks bt et evs2).
    Proof.
      intros pd pf pd' pf' evs1 evs2 Hok.
      destruct (period_report_gen pd pf evs1) as (_ & _ & He1). rewrite He1 in Hok.
      destruct (period_report_gen pd pf (evs1 ++ evs2)) as (Hs & _ & He). rewrite Hs, He.
      destruct (period_report_gen pd' pf' evs1) as (Hs1 & _ & _). rewrite Hs1.
      rewrite walked_nodes_app.
      destruct (walked_nodes NM toks bt et evs1) as [l1 e1]. cbn [snd] in Hok. subst e1.
      destruct (walked_nodes NM toks bt et evs2) as [l2 e2]. cbn [fst snd].
      rewrite fold_left_app. split; reflexivity.
    Qed.
  End Generic.

  (** *** the statements for the named reporters *)
  Theorem period_walk_silent : forall R, period_reporter NM R ->
    forall pd toks bt et evs st,
      snd (fst (walk_events NM R pd toks bt et evs st)) = snd st.
  Proof. intros R HR pd toks bt et. apply period_walk_silent_gen. apply period_reporter_period. exact HR. Qed.

  Theorem period_report : forall R, period_reporter NM R ->
    forall pd pf toks bt et evs,
      report_state NM R pd pf toks bt et evs
        = fold_left (pstep NM R) (fst (walked_nodes NM toks bt et evs)) (r_init NM R)
      /\ fst (report NM R pd pf toks bt et evs)
        = concat (map fst (r_flush NM R pf (report_state NM R pd pf toks bt et evs)))
      /\ snd (report NM R pd pf toks bt et evs) = snd (walked_nodes NM toks bt et evs).
  Proof. intros R HR pd pf toks bt et. apply period_report_gen. apply period_reporter_period. exact HR. Qed.

  Theorem period_state_fold : forall R, period_reporter NM R ->
    forall pd pf pd' pf' toks bt et evs1 evs2,
      snd (report NM R pd pf toks bt et evs1) = None ->
      report_state NM R pd pf toks bt et (evs1 ++ evs2)
        = fold_left (pstep NM R) (fst (walked_nodes NM toks bt et evs2)) (report_state NM R pd' pf' toks bt et evs1)
      /\ snd (report NM R pd pf toks bt et (evs1 ++ evs2)) = snd (walked_nodes NM toks bt et evs2).
  Proof. intros R HR pd pf pd' pf' toks bt et. apply period_state_fold_gen. apply period_reporter_period. exact HR. Qed.

  (** the state does not depend on the oracles *)
  Lemma period_state_oracle_free : forall R, period_reporter NM R ->
    forall pd pf pd' pf' toks bt et evs,
      report_state NM R pd pf toks bt et evs = report_state NM R pd' pf' toks bt et evs.
  Proof.
    intros R HR pd pf pd' pf' toks bt et evs.
    destruct (period_report R HR pd pf toks bt et evs) as (-> & _).
    destruct (period_report R HR pd' pf' toks bt et evs) as (-> & _). reflexivity.
  Qed.

  (** a fold of folds is a fold over the flattened list *)
  Lemma fold_left_flat_map : forall {S A C : Type} (f : S -> C -> S) (g : A -> list C) (l : list A) (s : S),
    fold_left (fun a x => fold_left f (g x) a) l s = fold_left f (flat_map g l) s.
  Proof.
    intros S A C f g. induction l as [|x r IH]; intros s; cbn [fold_left flat_map].
    - reflexivity.
    - rewrite fold_left_app. apply IH.
  Qed.
End Period.
