(** WP11: the summary template vs the register; the unresolved report (law-free). *)
From HP Require Import Base.Bytes Base.Utf8 Base.Num Model.Elements Model.Dates Model.Tree Model.Writer Model.Reporters
  Spec.Agree2Spec Proofs.AgreeMiscBase.
From Coq Require Import Lia Permutation Sorted.

Section Sum.
  Context (NM : Num).
  Notation T := (T NM).
  Notation elements := (elements NM).
  Notation db := (list (bytes * elements)).
  Notation lognode := (lognode NM).

  (** *** summary *)
  Lemma render_summary_spec : forall (c : rconfig) (it : report_item NM),
    render_summary NM c it
    = fdate c (ri_time NM it) ++ b " :"
      ++ flat_map (fun t => summary_line NM c (tot_pos NM t) (tot_name NM t))
                  (match ri_totals NM it with Some ts => ts | None => [] end)
      ++ [c_lf] ++ b "------------"
      ++ flat_map (fun e => summary_line NM c (re_qty NM e) (re_food NM e)) (ri_elements NM it)
      ++ [c_lf].
  Proof.
    intros c it. unfold render_summary. f_equal. f_equal. f_equal.
    - destruct (ri_totals NM it) as [ts|]; [|reflexivity].
      apply flat_map_ext. intros [[[name p] n] s]. reflexivity.
    - f_equal. f_equal. f_equal. apply flat_map_ext. intros [[name v] ings]. reflexivity.
  Qed.

  Lemma report_elements_foods : forall (d : db) (ln : lognode),
    map (fun e => (re_food NM e, re_qty NM e)) (report_elements NM d ln) = ln_elems NM ln.
  Proof.
    intros d ln. unfold report_elements. rewrite map_map. unfold re_food, re_qty. cbn [fst snd].
    rewrite <- (map_id (ln_elems NM ln)) at 2. apply map_ext. intros [k v]. reflexivity.
  Qed.

  (** summary_eq_register_day: the summary reporter and the register (template) reporter render the SAME
      report item of the day; the summary prints, per total row, the positive column and the name, then
      the separator, then the foods with their quantities *)
  Theorem summary_eq_register_day : forall (c : rconfig) π (d : db) (ln : lognode),
    let it := get_report_item NM c π d ln in
    r_process NM (rep_summary NM c d) π tt ln = (tt, [checked (render_summary NM c it)], None)
    /\ r_process NM (rep_template NM c d) π tt ln
       = (tt, [checked (if beq (rc_template c) (b "left-aligned") then render_left NM c it else render_default NM c it)], None)
    /\ render_summary NM c it
       = fdate c (ri_time NM it) ++ b " :"
         ++ flat_map (fun t => [c_lf] ++ format_value NM (rc_color c) (tot_pos NM t) ++ b " : " ++ tot_name NM t)
                     (match ri_totals NM it with Some ts => ts | None => [] end)
         ++ [c_lf] ++ b "------------"
         ++ flat_map (fun e => [c_lf] ++ format_value NM (rc_color c) (re_qty NM e) ++ b " : " ++ re_food NM e)
                     (ri_elements NM it)
         ++ [c_lf]
    /\ ri_time NM it = ln_time NM ln
    /\ (rc_totals_only c = false -> map (fun e => (re_food NM e, re_qty NM e)) (ri_elements NM it) = ln_elems NM ln)
    /\ (rc_totals c = true -> ri_totals NM it = Some (totals_of_acc NM π (accumulate NM (contributions NM d ln)))).
  Proof.
    intros c π d ln it. split; [reflexivity|]. split; [reflexivity|].
    split; [apply render_summary_spec|]. split; [reflexivity|]. split.
    - intro H. unfold it, get_report_item. cbn [ri_elements]. rewrite H. apply report_elements_foods.
    - intro H. unfold it, get_report_item. cbn [ri_totals]. rewrite H. reflexivity.
  Qed.

  (** *** unresolved *)
  Definition unres_step (d : db) (a : list bytes) (nv : bytes * T) : list bytes :=
    match lookup (fst nv) d with
    | Some _ => a
    | None => if existsb (beq (fst nv)) a then a else a ++ [fst nv]
    end.

  Lemma walk_unresolved_from : forall (d : db) π (L : list lognode) i st,
    walk_from NM (rep_unresolved NM d) π i L st = fold_left (unres_step d) (entries NM L) st.
  Proof.
    intros d π L. induction L as [|ln r IH]; intros i st; cbn [walk_from entries flat_map]; [reflexivity|].
    rewrite IH. unfold entries. rewrite fold_left_app. reflexivity.
  Qed.

  Lemma unres_fold_spec : forall (d : db) (es : elements),
    fold_left (unres_step d) es [] = first_occ (filter (undefined_in NM d) (map fst es)).
  Proof.
    intros d es. induction es as [|[k v] r IH] using rev_ind; [reflexivity|].
    rewrite fold_left_app. cbn [fold_left]. rewrite IH. rewrite map_app, filter_app. cbn [map fst filter].
    unfold unres_step. cbn [fst].
    assert (Hu : undefined_in NM d k = match lookup k d with Some _ => false | None => true end) by reflexivity.
    rewrite Hu. destruct (lookup k d) as [els|].
    - rewrite app_nil_r. reflexivity.
    - rewrite first_occ_snoc. reflexivity.
  Qed.

  Theorem unresolved_spec : forall (d : db) π (L : list lognode),
    let st := walk_state NM (rep_unresolved NM d) π L in
    st = first_occ (filter (undefined_in NM d) (map fst (entries NM L)))
    /\ NoDup st
    /\ (forall f, In f st <-> In f (map fst (entries NM L)) /\ lookup f d = None)
    /\ (forall πf, (forall l, Permutation (πf l) l) ->
          r_flush NM (rep_unresolved NM d) πf st = map (fun n => unchecked (n ++ [c_lf])) (sort_bytes st))
    /\ StronglySorted (fun a c => bleb a c = true) (sort_bytes st)
    /\ Permutation (sort_bytes st) st.
  Proof.
    intros d π L st.
    assert (Hst : st = first_occ (filter (undefined_in NM d) (map fst (entries NM L)))).
    { unfold st, walk_state. rewrite walk_unresolved_from. apply unres_fold_spec. }
    split; [exact Hst|]. split; [rewrite Hst; apply first_occ_NoDup|]. split.
    - intro f. rewrite Hst, first_occ_In, filter_In. unfold undefined_in.
      destruct (lookup f d); split; intros [H1 H2]; split; try assumption; try reflexivity; discriminate.
    - split.
      + intros πf Hπ. cbn [rep_unresolved r_flush]. rewrite (sort_bytes_perm_eq _ _ (Hπ st)). reflexivity.
      + split; [apply sort_bytes_sorted | apply sort_bytes_perm].
  Qed.
End Sum.

(** *** non-vacuity *)
Definition ex_c : rconfig :=
  {| rc_color := false; rc_totals_only := false; rc_totals := true; rc_date := [Y4; Lit 47%N; M2; Lit 47%N; D2];
     rc_single_element := []; rc_single_food := []; rc_collapse_last := false; rc_collapse := false;
     rc_group_food := false; rc_shorten := false; rc_old := false; rc_template := b "default"; rc_csv := false |}.

Definition ex_d : list (bytes * elements ZNum) := [(b "bread", [(b "kcal", 250%Z); (b "fat", 3%Z)])].

Definition ex_ln : lognode ZNum :=
  {| ln_time := time_of_civil (2021, 3, 4)%Z; ln_elems := ([(b "bread", 2%Z); (b "tea", 1%Z)] : elements ZNum); ln_meta := None |}.

Example ex_summary :
  render_summary ZNum ex_c (get_report_item ZNum ex_c (fun l => l) ex_d ex_ln)
  = b "2021/03/04 :" ++ [c_lf]
    ++ b "         6 : fat" ++ [c_lf]
    ++ b "       500 : kcal" ++ [c_lf]
    ++ b "         1 : tea" ++ [c_lf]
    ++ b "------------" ++ [c_lf]
    ++ b "         2 : bread" ++ [c_lf]
    ++ b "         1 : tea" ++ [c_lf].
Proof. vm_compute. reflexivity. Qed.

Example ex_unresolved :
  walk_state ZNum (rep_unresolved ZNum ex_d) (fun _ l => l)
    [ex_ln; {| ln_time := time_of_civil (2021, 3, 5)%Z; ln_elems := ([(b "tea", 1%Z); (b "bread", 1%Z); (b "apple", 1%Z)] : elements ZNum); ln_meta := None |}]
  = [b "tea"; b "apple"]
  /\ r_flush ZNum (rep_unresolved ZNum ex_d) (fun l => rev l) [b "tea"; b "apple"]
     = [unchecked (b "apple" ++ [c_lf]); unchecked (b "tea" ++ [c_lf])].
Proof. vm_compute. split; reflexivity. Qed.
