(** The elements [2], [_2], [1], [Jan], [January] of Go's date layouts in the model
    ([Model/Dates.v]): what is written is read back (when the elements of variable
    width are separated), reading is stable under the canonical spelling, the ASCII case
    of the text does not matter to [parse_date], and the two things that do NOT hold:
    a layout that begins with [_2] writes headings that begin with a blank (finding KF4),
    and an element of variable width directly before a digit is not read back. *)
From Coq Require Import Lia ZifyBool ZifyNat ZifyN.
From HP Require Import Base.Bytes Base.Utf8 Base.Num Model.Scanner Model.Parser Model.Elements
     Model.Dates Model.Writer Model.Reporters Spec.PrintSpec
     Proofs.PrintBytes Proofs.PrintDates Proofs.PrintParse Proofs.PrintMain Proofs.PrintZNum Proofs.PrintExamples.
Open Scope Z_scope.

(** *** what is written is read back *)

(** every heading layout that sets year, month and day, in any of the spellings: every valid date of the
    years 0..9999 is written as a text that makes a heading line and that the layout reads back *)
Theorem format_parse_roundtrip_ext toks y m d :
  heading_layout toks = true -> full_layout toks -> valid_civil (y, m, d) ->
  parse_date toks (format_date toks (y, m, d)) = Some (y, m, d)
  /\ heading_bytes_ok (format_date toks (y, m, d)).
Proof.
  intros HL HF Hv. split.
  - apply format_parse_date; [apply heading_layout_sep, HL|exact HF|exact Hv].
  - apply format_date_heading; [exact HL|]. split; [exact Hv|]. destruct HF as [Hy [Hm Hd]].
    repeat split; intros H; congruence.
Qed.

(** the same without the conditions on the two ends of the layout (they matter to the log parser, not
    to [time.Parse]): the variable-width elements separated is all that is needed *)
Theorem format_parse_roundtrip_sep toks y m d :
  sep_ok toks = true -> full_layout toks -> valid_civil (y, m, d) ->
  parse_date toks (format_date toks (y, m, d)) = Some (y, m, d).
Proof. apply format_parse_date. Qed.

(** reading is stable under the normal form: the text [Format] writes for a date that was read
    (canonical month name, canonical padding, single blanks) is read as the same date *)
Theorem parse_format_canonical toks s cv :
  sep_ok toks = true -> parse_date toks s = Some cv -> parse_date toks (format_date toks cv) = Some cv.
Proof. intros Hsep H. apply format_parse_date_fits; [exact Hsep|]. apply (parse_date_fits _ _ _ H). Qed.

(** and writing is stable too: formatting what the formatted text reads back to gives the same text *)
Corollary format_parse_format toks s cv :
  sep_ok toks = true -> parse_date toks s = Some cv ->
  option_map (format_date toks) (parse_date toks (format_date toks cv)) = Some (format_date toks cv).
Proof. intros Hsep H. rewrite (parse_format_canonical toks s cv Hsep H). reflexivity. Qed.

(** layouts made of the elements of fixed width and the month names ([2006], [01], [02], [Jan], [January])
    and literals - among them every layout the model knew before - need no side condition *)
Definition fixed_layout (toks : list ltoken) : bool := forallb (fun t => negb (var_width t)) toks.

Lemma fixed_layout_stable toks : fixed_layout toks = true -> sep_ok toks = true /\ stable_layout toks = true.
Proof.
  unfold fixed_layout, stable_layout. intros H.
  assert (Hs : sep_ok toks = true).
  { induction toks as [|t toks IH]; [reflexivity|]. cbn [forallb] in H. apply andb_true_iff in H.
    destruct H as [Ht H]. cbn [sep_ok]. rewrite Ht, (IH H). reflexivity. }
  split; [exact Hs|]. rewrite Hs. destruct toks as [|t toks]; [reflexivity|]. destruct t; try reflexivity.
  cbn in H. discriminate.
Qed.

(** *** the ASCII case of the text does not matter *)

(** the same text up to the case of its ASCII letters *)
Definition fold_eq (s1 s2 : bytes) : Prop := Forall2 (fun a c => lower a = lower c) s1 s2.

Lemma fold_eq_refl s : fold_eq s s.
Proof. induction s; constructor; auto. Qed.

Lemma fold_eq_app s1 s2 t1 t2 : fold_eq s1 s2 -> fold_eq t1 t2 -> fold_eq (s1 ++ t1) (s2 ++ t2).
Proof. apply Forall2_app. Qed.

Lemma lower_eq_cases a c : lower a = lower c -> a = c \/ (is_letter a = true /\ is_letter c = true).
Proof.
  unfold lower, is_letter.
  destruct ((65 <=? a) && (a <=? 90))%N eqn:E1; destruct ((65 <=? c) && (c <=? 90))%N eqn:E2; lia.
Qed.

Lemma match_byte_fold a c x : lower a = lower c -> match_byte a x = match_byte c x.
Proof.
  unfold match_byte, lower.
  destruct ((65 <=? a) && (a <=? 90))%N eqn:E1; destruct ((65 <=? c) && (c <=? 90))%N eqn:E2;
    destruct ((65 <=? x) && (x <=? 90))%N eqn:E3; lia.
Qed.

Lemma digit_val_fold a c : lower a = lower c -> digit_val a = digit_val c.
Proof.
  intros H. destruct (lower_eq_cases a c H) as [->|[Ha Hc]]; [reflexivity|].
  unfold digit_val. replace (is_digit a) with false by (unfold is_letter, is_digit in *; lia).
  replace (is_digit c) with false by (unfold is_letter, is_digit in *; lia). reflexivity.
Qed.

Lemma eqb_fold x a c : is_letter x = false -> lower a = lower c -> (x =? a)%N = (x =? c)%N.
Proof.
  intros Hx H. destruct (lower_eq_cases a c H) as [->|[Ha Hc]]; [reflexivity|].
  unfold is_letter in *. lia.
Qed.

(** two results that agree up to the case of the text that is left *)
Definition res_eq (r1 r2 : option (Z * bytes)) : Prop :=
  match r1, r2 with
  | Some (v1, s1), Some (v2, s2) => v1 = v2 /\ fold_eq s1 s2
  | None, None => True
  | _, _ => False
  end.

Lemma take_digits_fold n : forall s1 s2 acc, fold_eq s1 s2 -> res_eq (take_digits n s1 acc) (take_digits n s2 acc).
Proof.
  induction n as [|n IH]; intros s1 s2 acc H; cbn [take_digits].
  - split; [reflexivity|exact H].
  - destruct H as [|a c s1 s2 Hac H]; [exact I|]. rewrite (digit_val_fold a c Hac).
    destruct (digit_val c); [apply IH, H|exact I].
Qed.

Lemma get_num_fold s1 s2 : fold_eq s1 s2 -> res_eq (get_num s1) (get_num s2).
Proof.
  intros H. unfold get_num. destruct H as [|a c s1 s2 Hac H]; [exact I|]. rewrite (digit_val_fold a c Hac).
  destruct (digit_val c) as [d1|]; [|exact I]. destruct H as [|a2 c2 s1 s2 Hac2 H].
  - split; [reflexivity|constructor].
  - rewrite (digit_val_fold a2 c2 Hac2). destruct (digit_val c2); (split; [reflexivity|]); [exact H|].
    constructor; assumption.
Qed.

Lemma match_prefix_fold name : forall s1 s2, fold_eq s1 s2 ->
  match match_prefix name s1, match_prefix name s2 with
  | Some r1, Some r2 => fold_eq r1 r2
  | None, None => True
  | _, _ => False
  end.
Proof.
  induction name as [|x name IH]; intros s1 s2 H; cbn [match_prefix]; [exact H|].
  destruct H as [|a c s1 s2 Hac H]; [exact I|]. rewrite (match_byte_fold a c x Hac).
  destruct (match_byte c x); [apply IH, H|exact I].
Qed.

Lemma lookup_name_fold tab : forall i s1 s2, fold_eq s1 s2 -> res_eq (lookup_name tab i s1) (lookup_name tab i s2).
Proof.
  induction tab as [|name tab IH]; intros i s1 s2 H; cbn [lookup_name]; [exact I|].
  pose proof (match_prefix_fold name s1 s2 H) as Hm.
  destruct (match_prefix name s1) as [r1|], (match_prefix name s2) as [r2|]; try contradiction.
  - split; [reflexivity|exact Hm].
  - apply IH, H.
Qed.

Lemma space_fold a c : lower a = lower c -> (a =? 32)%N = (c =? 32)%N.
Proof. intros H. rewrite !(N.eqb_sym _ 32). apply eqb_fold; [reflexivity|exact H]. Qed.

Lemma drop_spaces_fold s1 s2 : fold_eq s1 s2 -> fold_eq (drop_spaces s1) (drop_spaces s2).
Proof.
  induction 1 as [|a c s1 s2 Hac H IH]; [constructor|]. rewrite !drop_spaces_cons, (space_fold a c Hac).
  destruct (c =? 32)%N; [exact IH|constructor; assumption].
Qed.

Lemma drop_one_space_fold s1 s2 : fold_eq s1 s2 -> fold_eq (drop_one_space s1) (drop_one_space s2).
Proof.
  intros H. destruct H as [|a c s1 s2 Hac H]; [constructor|]. rewrite !drop_one_space_cons, (space_fold a c Hac).
  destruct (c =? 32)%N; [exact H|constructor; assumption].
Qed.

Lemma safe_literal_not_letter c : safe_literal c = true -> is_letter c = false.
Proof. unfold safe_literal, is_letter. lia. Qed.

Lemma safe_drop_space_lits l : forallb safe_tok l = true -> forallb safe_tok (drop_space_lits l) = true.
Proof.
  intros H. destruct (drop_space_lits_split l) as [sp [E _]]. rewrite E in H. rewrite forallb_app in H.
  apply andb_true_iff in H. apply H.
Qed.

Lemma parse_tokens_fold : forall n toks, (length toks <= n)%nat -> forallb safe_tok toks = true ->
  forall s1 s2 y m d, fold_eq s1 s2 -> parse_tokens toks s1 y m d = parse_tokens toks s2 y m d.
Proof.
  induction n as [|n IH]; intros toks Hn Hsafe s1 s2 y m d H.
  - destruct toks; [|cbn in Hn; lia]. cbn. destruct H; reflexivity.
  - destruct toks as [|t toks]; [cbn; destruct H; reflexivity|]. cbn [length] in Hn.
    assert (Hl : (length toks <= n)%nat) by lia. cbn [forallb] in Hsafe. apply andb_true_iff in Hsafe.
    destruct Hsafe as [Ht Hsafe].
    assert (Hnum : forall (f : bytes -> option (Z * bytes)) (k : Z -> bytes -> option (Z * Z * Z)),
               res_eq (f s1) (f s2) -> (forall v r1 r2, fold_eq r1 r2 -> k v r1 = k v r2) ->
               match f s1 with Some (v, s') => k v s' | None => None end
               = match f s2 with Some (v, s') => k v s' | None => None end).
    { intros f k Hr Hk. unfold res_eq in Hr. destruct (f s1) as [[v1 r1]|], (f s2) as [[v2 r2]|]; try contradiction.
      - destruct Hr as [-> Hr]. apply Hk, Hr.
      - reflexivity. }
    destruct t as [| | | | | | | |c]; cbn [parse_tokens].
    + apply (Hnum (fun s => take_digits 4 s 0) (fun v s' => parse_tokens toks s' v m d)); [apply take_digits_fold, H|].
      intros v r1 r2 Hr. apply IH; assumption.
    + apply (Hnum (fun s => take_digits 2 s 0)
                  (fun v s' => if (1 <=? v) && (v <=? 12) then parse_tokens toks s' y v d else None));
        [apply take_digits_fold, H|].
      intros v r1 r2 Hr. destruct (_ && _)%bool; [apply IH; assumption|reflexivity].
    + apply (Hnum (fun s => take_digits 2 s 0) (fun v s' => parse_tokens toks s' y m v)); [apply take_digits_fold, H|].
      intros v r1 r2 Hr. apply IH; assumption.
    + apply (Hnum get_num (fun v s' => parse_tokens toks s' y m v)); [apply get_num_fold, H|].
      intros v r1 r2 Hr. apply IH; assumption.
    + apply (Hnum (fun s => get_num (drop_one_space s)) (fun v s' => parse_tokens toks s' y m v));
        [apply get_num_fold, drop_one_space_fold, H|].
      intros v r1 r2 Hr. apply IH; assumption.
    + apply (Hnum get_num (fun v s' => if (1 <=? v) && (v <=? 12) then parse_tokens toks s' y v d else None));
        [apply get_num_fold, H|].
      intros v r1 r2 Hr. destruct (_ && _)%bool; [apply IH; assumption|reflexivity].
    + apply (Hnum (lookup_name short_months 1) (fun v s' => parse_tokens toks s' y v d)); [apply lookup_name_fold, H|].
      intros v r1 r2 Hr. apply IH; assumption.
    + apply (Hnum (lookup_name long_months 1) (fun v s' => parse_tokens toks s' y v d)); [apply lookup_name_fold, H|].
      intros v r1 r2 Hr. apply IH; assumption.
    + cbn [safe_tok] in Ht. destruct (N.eqb_spec c 32) as [->|Hc].
      * pose proof (drop_space_lits_length toks) as Hlen. pose proof (safe_drop_space_lits toks Hsafe) as Hs'.
        destruct H as [|a c' s1 s2 Hac H]; [reflexivity|]. rewrite (space_fold a c' Hac).
        destruct (c' =? 32)%N; [|reflexivity]. apply IH; [lia|exact Hs'|].
        apply drop_spaces_fold. constructor; assumption.
      * destruct H as [|a c' s1 s2 Hac H]; [reflexivity|].
        rewrite (eqb_fold c a c' (safe_literal_not_letter c Ht) Hac).
        destruct (c =? c')%N; [apply IH; assumption|reflexivity].
Qed.

(** under a layout of elements and safe literals, two texts that differ only in the case of their
    ASCII letters are read alike: the same date, or both rejected *)
Theorem parse_date_case_insensitive toks s1 s2 :
  forallb safe_tok toks = true -> fold_eq s1 s2 -> parse_date toks s1 = parse_date toks s2.
Proof.
  intros Hsafe H. unfold parse_date. rewrite (parse_tokens_fold (length toks) toks (le_n _) Hsafe s1 s2 0 1 1 H).
  reflexivity.
Qed.

(** the form of the brief: another ASCII-case spelling of the month name inside a heading *)
Corollary month_name_case_insensitive toks pre name1 name2 post :
  forallb safe_tok toks = true -> fold_eq name1 name2 ->
  parse_date toks (pre ++ name1 ++ post) = parse_date toks (pre ++ name2 ++ post).
Proof.
  intros Hsafe H. apply parse_date_case_insensitive; [exact Hsafe|].
  apply fold_eq_app; [apply fold_eq_refl|]. apply fold_eq_app; [exact H|apply fold_eq_refl].
Qed.

(** every layout [tokenize] accepts is such a layout *)
Corollary tokenized_case_insensitive layout toks s1 s2 :
  tokenize layout = Some toks -> fold_eq s1 s2 -> parse_date toks s1 = parse_date toks s2.
Proof. intros Ht. apply parse_date_case_insensitive, (tokenize_safe _ _ Ht). Qed.

(** reading folds the case, writing is canonical: [JAN], [jan] and [Jan] are the same date, written [Jan] *)
Example month_case_ex :
  let toks := layout_of "2 Jan 2006" in
  parse_date toks (b "5 JAN 2021") = Some (2021, 1, 5) /\ parse_date toks (b "5 jan 2021") = Some (2021, 1, 5)
  /\ parse_date toks (b "5 jAn 2021") = Some (2021, 1, 5) /\ format_date toks (2021, 1, 5) = b "5 Jan 2021"
  /\ parse_date (layout_of "January 2, 2006") (b "march 7, 1999") = Some (1999, 3, 7)
  /\ format_date (layout_of "January 2, 2006") (1999, 3, 7) = b "March 7, 1999".
Proof. vm_compute. repeat split. Qed.

(** [match_byte] is the byte test of Go's [match] ([c1 |= 'a'-'A'; c2 |= 'a'-'A'; c1 == c2 && 'a' <= c1 <= 'z']
    when the bytes differ), for all pairs of bytes *)
Definition go_match_byte (c1 c2 : N) : bool :=
  ((c1 =? c2) || ((N.lor c1 32 =? N.lor c2 32) && (97 <=? N.lor c1 32) && (N.lor c1 32 <=? 122)))%N.

Example match_byte_is_go :
  forallb (fun i => forallb (fun j => Bool.eqb (match_byte (N.of_nat i) (N.of_nat j))
                                               (go_match_byte (N.of_nat i) (N.of_nat j))) (seq 0 256)) (seq 0 256) = true.
Proof. vm_compute. reflexivity. Qed.

(** *** FALSE: a layout that begins with [_2] (finding KF4) *)

(** under the layout [_2 Jan 2006] the heading [5 Jan 2021] is a date, and that date is written with a
    blank in front.  [time.Parse] reads the written text back, but the log parser takes a line that begins
    with a blank for an entry: a log the tool reads is printed as a log the tool reads as EMPTY *)
Definition toks_under : list ltoken := layout_of "_2 Jan 2006".
Definition log_under : bytes := b "5 Jan 2021:" ++ [c_lf] ++ b "  - x: 1" ++ [c_lf].

Theorem underday_leading_blank_refuted :
  tokenize (b "_2 Jan 2006") = Some toks_under
  /\ parse_date toks_under (b "5 Jan 2021") = Some (2021, 1, 5)
  /\ format_date toks_under (2021, 1, 5) = b " 5 Jan 2021"
  /\ hd 0%N (format_date toks_under (2021, 1, 5)) = c_space
  /\ parse_date toks_under (format_date toks_under (2021, 1, 5)) = Some (2021, 1, 5)
  /\ forallb safe_tok toks_under = true /\ sep_ok toks_under = true
  /\ stable_layout toks_under = false /\ heading_layout toks_under = false
  /\ exists L, read_log ZNum toks_under log_under = Some L /\ L <> []
               /\ Forall (fun d => Forall (fun mp => documented_note mp = true) (notes_of ZNum d)) L
               /\ Forall (fun d => Forall (fun l => (lengthN l < max_token)%N) (day_lines ZNum (cfg toks_under) d)) L
               /\ read_log ZNum toks_under (print_output ZNum (cfg toks_under) L) = Some [].
Proof.
  repeat (split; [vm_compute; reflexivity|]).
  exists [{| ln_time := time_of_civil (2021, 1, 5); ln_elems := ([(b "x", 1)] : elements ZNum); ln_meta := None |}].
  split; [vm_compute; reflexivity|]. split; [discriminate|]. split; [repeat constructor|].
  split; [repeat constructor|]. vm_compute. reflexivity.
Qed.

(** in general: whatever follows it, [_2] at the front writes a blank in front of the days 1..9 *)
Lemma underday_front_blank toks y m d : under_front toks = true -> d < 10 ->
  hd 0%N (format_date toks (y, m, d)) = c_space.
Proof.
  intros H Hd. destruct toks as [|t toks]; [discriminate|]. destruct t; try discriminate.
  rewrite format_date_cons. cbn [format_tok]. replace (d <? 10) with true by lia. reflexivity.
Qed.

(** at the end of a layout [_2] is harmless: the same day round-trips through the log *)
Example underday_at_end_ex :
  let toks := layout_of "2006 Jan _2" in
  heading_layout toks = true /\ format_date toks (2021, 1, 5) = b "2021 Jan  5"
  /\ parse_date toks (b "2021 Jan  5") = Some (2021, 1, 5) /\ parse_date toks (b "2021 Jan 5") = Some (2021, 1, 5)
  /\ parse_date toks (b "2021 Jan 15") = Some (2021, 1, 15) /\ parse_date toks (b "2021 Jan   5") = Some (2021, 1, 5)
  /\ parse_date toks (b "2021 Jan5") = None.
Proof. vm_compute. repeat split. Qed.

(** *** FALSE: an element of variable width directly before a digit *)

(** [getnum] takes two digits when it can.  Under [1/22006] (month, [/], day, year) the text Format
    writes for 5 March 2021 is rejected; under [12 2006] (month, day, blank, year) the text written for
    15 January is read as 5 November.  Both layouts are accepted by [tokenize] (and by Go); [sep_ok] is
    what excludes them from the round-trip theorems, and [parse_format_canonical] fails for them *)
Theorem variable_width_needs_separator_refuted :
  (exists toks, tokenize (b "1/22006") = Some toks /\ forallb safe_tok toks = true /\ full_layout toks
                /\ sep_ok toks = false /\ valid_civil (2021, 3, 5)
                /\ parse_date toks (b "3/052021") = Some (2021, 3, 5)
                /\ format_date toks (2021, 3, 5) = b "3/52021"
                /\ parse_date toks (format_date toks (2021, 3, 5)) = None)
  /\ (exists toks, tokenize (b "12 2006") = Some toks /\ forallb safe_tok toks = true /\ full_layout toks
                   /\ sep_ok toks = false /\ valid_civil (2021, 1, 15)
                   /\ format_date toks (2021, 1, 15) = b "115 2021"
                   /\ parse_date toks (format_date toks (2021, 1, 15)) = Some (2021, 11, 5)).
Proof.
  assert (V1 : valid_civil (2021, 3, 5)) by (unfold valid_civil; change (days_in 2021 3) with 31; lia).
  assert (V2 : valid_civil (2021, 1, 15)) by (unfold valid_civil; change (days_in 2021 1) with 31; lia).
  split.
  - exists (layout_of "1/22006"). split; [reflexivity|]. split; [reflexivity|].
    split; [repeat split|]. split; [reflexivity|]. split; [exact V1|]. repeat split; vm_compute; reflexivity.
  - exists (layout_of "12 2006"). split; [reflexivity|]. split; [reflexivity|].
    split; [repeat split|]. split; [reflexivity|]. split; [exact V2|]. repeat split; vm_compute; reflexivity.
Qed.

(** a literal digit after the element does the same, which is why [sep_ok] asks for a literal that is
    not a digit (no layout [tokenize] accepts has a literal digit) *)
Example variable_width_literal_digit_ex :
  sep_ok [D1; Lit 53; Y4] = false /\ format_date [D1; Lit 53; Y4] (2021, 1, 1) = b "152021"
  /\ parse_date [D1; Lit 53; Y4] (b "152021") = None.
Proof. vm_compute. repeat split. Qed.

(** *** the layouts people write *)

(** tokenized, a heading layout with all three fields, and one date through it *)
Definition layout_check (layout text : string) (cv : Z * Z * Z) : bool :=
  match tokenize (b layout) with
  | Some toks =>
      heading_layout toks && has_year toks && has_month toks && has_day toks
      && beq (format_date toks cv) (b text)
      && match parse_date toks (b text) with
         | Some (y, m, d) => let '(y0, m0, d0) := cv in (y =? y0) && (m =? m0) && (d =? d0)
         | None => false
         end
  | None => false
  end.

Example layout_2_Jan_2006 : layout_check "2 Jan 2006" "7 Mar 1999" (1999, 3, 7) = true.
Proof. vm_compute. reflexivity. Qed.
Example layout_January_2_2006 : layout_check "January 2, 2006" "September 30, 2024" (2024, 9, 30) = true.
Proof. vm_compute. reflexivity. Qed.
Example layout_2_1_2006 : layout_check "2.1.2006" "29.2.2024" (2024, 2, 29) = true.
Proof. vm_compute. reflexivity. Qed.
Example layout_02_Jan_2006 : layout_check "02/Jan/2006" "05/May/0007" (7, 5, 5) = true.
Proof. vm_compute. reflexivity. Qed.
(** [_2/01/2006] is tokenized and round-trips as a date, but it is not a heading layout (KF4) *)
Example layout_under_01_2006 :
  let toks := layout_of "_2/01/2006" in
  tokenize (b "_2/01/2006") = Some toks /\ heading_layout toks = false /\ sep_ok toks = true /\ full_layout toks
  /\ format_date toks (2021, 10, 6) = b " 6/10/2021" /\ parse_date toks (b " 6/10/2021") = Some (2021, 10, 6)
  /\ parse_date toks (b "6/10/2021") = Some (2021, 10, 6) /\ parse_date toks (b "16/10/2021") = Some (2021, 10, 16)
  /\ parse_date toks (b "  6/10/2021") = None.
Proof. vm_compute. repeat split. Qed.
Example layout_01_under_2006 : layout_check "01/_2/2006" "10/ 6/2021" (2021, 10, 6) = true.
Proof. vm_compute. reflexivity. Qed.

(** what [tokenize] declines: every text with an element outside the model, [_2006], [Janu...] *)
Example tokenize_declines :
  map (fun l => match tokenize (b l) with Some _ => true | None => false end)
      ["_2006"; "15"; "Janu"; "Mon Jan 2"; "Monday"; "2006-01-02T15:04"; "06/01/02"; "002"; "__2"; "3"; "4"; "5"; "2006 MST";
       "2006 PM"; "2006Z07"; "2006-07"; "2006.000"; "2006,000"; "2006.999"; "Jan 2006 Jan"; "2 02"; "1 Jan"; "2006 x"]%string
  = repeat false 23.
Proof. vm_compute. reflexivity. Qed.

(** what it accepts: the elements in Go's order of recognition *)
Example tokenize_accepts :
  tokenize (b "January Jan 2006 01 02 1 2 _2,") = None   (* fields repeated: declined by the guard only *)
  /\ tokenize_fuel 40 (b "January Jan 2006 01 02 1 2 _2,")
     = Some [MonL; Lit 32; MonS; Lit 32; Y4; Lit 32; M2; Lit 32; D2; Lit 32; M1; Lit 32; D1; Lit 32; DU; Lit 44]
  /\ tokenize (b "Jan2006") = Some [MonS; Y4] /\ tokenize (b "2January2006") = Some [D1; MonL; Y4]
  /\ tokenize (b "22006") = Some [D1; Y4] /\ tokenize (b "12006") = Some [M1; Y4] /\ tokenize (b "_22006") = Some [DU; Y4].
Proof. vm_compute. repeat split. Qed.
