(** C06, part 1: the period filter is the closed interval of instants. *)
From Coq Require Import Lia ZifyBool.
From HP Require Import Base.Bytes Base.Num Model.Dates Model.Reporters Model.Cli Spec.PeriodSpec.
Open Scope Z_scope.

Lemma is_good_date_begin : forall t x, is_good_date t x true = true <-> inst x <= inst t.
Proof.
  intros t x. unfold is_good_date.
  destruct (Z.eqb_spec (inst t) (inst x)) as [E|E].
  - split; intros; [lia|reflexivity].
  - rewrite Z.ltb_lt. lia.
Qed.

Lemma is_good_date_end : forall t x, is_good_date t x false = true <-> inst t <= inst x.
Proof.
  intros t x. unfold is_good_date.
  destruct (Z.eqb_spec (inst t) (inst x)) as [E|E].
  - split; intros; [lia|reflexivity].
  - rewrite Z.ltb_lt. lia.
Qed.

(** [is_good_date] looks at the instants only *)
Lemma is_good_date_inst : forall t t' x x' k,
  inst t = inst t' -> inst x = inst x' -> is_good_date t x k = is_good_date t' x' k.
Proof. intros t t' x x' k Ht Hx. unfold is_good_date. rewrite Ht, Hx. reflexivity. Qed.

Theorem bounds_inclusive : forall bt et t,
  in_interval bt et t = true <->
  (forall x, bt = Some x -> inst x <= inst t) /\ (forall x, et = Some x -> inst t <= inst x).
Proof.
  intros bt et t. unfold in_interval. rewrite andb_true_iff.
  destruct bt as [x|], et as [y|]; try rewrite is_good_date_begin; try rewrite is_good_date_end.
  - split.
    + intros [H1 H2]. split; intros z Hz; inversion Hz; subst; assumption.
    + intros [H1 H2]. split; [apply H1|apply H2]; reflexivity.
  - split.
    + intros [H1 _]. split; intros z Hz; inversion Hz; subst; assumption.
    + intros [H1 _]. split; [apply H1|]; reflexivity.
  - split.
    + intros [_ H2]. split; intros z Hz; inversion Hz; subst; assumption.
    + intros [_ H2]. split; [|apply H2]; reflexivity.
  - split.
    + intros _. split; intros z Hz; inversion Hz.
    + intros _. split; reflexivity.
Qed.

Corollary bounds_inclusive_within : forall bt et t, in_interval bt et t = true <-> within bt et t.
Proof. exact bounds_inclusive. Qed.

Corollary in_interval_both : forall x y t,
  in_interval (Some x) (Some y) t = true <-> inst x <= inst t <= inst y.
Proof.
  intros x y t. rewrite bounds_inclusive. split.
  - intros [H1 H2]. split; [apply H1|apply H2]; reflexivity.
  - intros [H1 H2]. split; intros z Hz; inversion Hz; subst; assumption.
Qed.

Lemma in_interval_none : forall t, in_interval None None t = true.
Proof. reflexivity. Qed.

(** the filter depends on the bounds and on the heading through their instants only *)
Lemma in_interval_inst : forall bt et bt' et' t t',
  same_inst bt bt' -> same_inst et et' -> inst t = inst t' ->
  in_interval bt et t = in_interval bt' et' t'.
Proof.
  intros bt et bt' et' t t' Hb He Ht. unfold in_interval.
  destruct bt as [x|], bt' as [x'|]; simpl in Hb; try contradiction;
  destruct et as [y|], et' as [y'|]; simpl in He; try contradiction;
  repeat match goal with
         | |- context [is_good_date t ?a ?k] =>
             match goal with
             | H : inst a = inst ?a' |- _ => rewrite (is_good_date_inst t t' a a' k Ht H)
             end
         end; reflexivity.
Qed.

(** non-vacuity: both bounds are included, the neighbours are not *)
Example in_interval_at_begin :
  in_interval (Some (time_of_civil (2021, 3, 1))) (Some (time_of_civil (2021, 3, 5))) (time_of_civil (2021, 3, 1)) = true.
Proof. vm_compute. reflexivity. Qed.
Example in_interval_at_end :
  in_interval (Some (time_of_civil (2021, 3, 1))) (Some (time_of_civil (2021, 3, 5))) (time_of_civil (2021, 3, 5)) = true.
Proof. vm_compute. reflexivity. Qed.
Example in_interval_before :
  in_interval (Some (time_of_civil (2021, 3, 1))) (Some (time_of_civil (2021, 3, 5))) (time_of_civil (2021, 2, 28)) = false.
Proof. vm_compute. reflexivity. Qed.
Example in_interval_after :
  in_interval (Some (time_of_civil (2021, 3, 1))) (Some (time_of_civil (2021, 3, 5))) (time_of_civil (2021, 3, 6)) = false.
Proof. vm_compute. reflexivity. Qed.
Example in_interval_open_end :
  in_interval (Some (time_of_civil (2021, 3, 1))) None (time_of_civil (2999, 1, 1)) = true.
Proof. vm_compute. reflexivity. Qed.
