(** WP04 / C09 -- non-vacuity: concrete files meet the hypotheses of the
    theorems and exercise the mechanism (exact integers [ZNum], by computation). *)
From HP Require Import Base.Bytes Base.Utf8 Base.Num Model.Scanner Model.Parser Model.Elements Model.Resolver
  Model.Dates Model.Tree Model.Writer Model.Reporters Model.Cli.
From HP Require Import Proofs.MalformedBase Proofs.MalformedLint Proofs.MalformedBook Proofs.MalformedLog
  Proofs.MalformedRun Proofs.MalformedLines.
Open Scope N_scope.

Definition lines (l : list bytes) : bytes := concat (map (fun x => x ++ [c_lf]) l).

(** six lines: a comment, a blank, a heading, and two malformed entries (lines 4 and 6), one of each kind *)
Definition log6 : bytes :=
  lines [b "# diary"; []; b "2024/01/01"; b "  apple"; b "  bread 2"; b "  milk x2"].

(** a good day, then a day with the two malformed entries (lines 6 and 8) *)
Definition log8 : bytes :=
  lines [b "# diary"; []; b "2024/01/01"; b "  soup 2"; b "2024/01/02"; b "  apple"; b "  bread 2"; b "  milk x2"].

(** a heading that is not a date before the malformed line *)
Definition log_baddate : bytes :=
  lines [b "2024/01/01"; b "  soup 2"; b "monday"; b "  soup 1"; b "2024/01/03"; b "  apple"].

Definition book_good : bytes := lines [b "soup"; b "  water 3"; b "  salt 2"].

(** a good record, then a record with two malformed lines (5 and 7) *)
Definition book_bad : bytes :=
  lines [b "# book"; b "broth"; b "  water 1"; b "soup"; b "  water"; b "  salt 2"; b "  leek x2"].

Definition ident : oracles := {| o_resolve := fun l => l; o_day := fun _ l => l; o_flush := fun l => l |}.

Definition mkw (book log : bytes) : world :=
  {| w_fs := [(b "food.yaml", FFile book); (b "log.yaml", FFile log)];
     w_default_config := b "/home/u/.hranoprovod/config"; w_tz := 0%Z;
     w_clock := time_of_civil (2000, 1, 1)%Z; w_or := ident; w_sink := None; w_read_fault := [] |}.

Definition inv (c : command) : invocation := {|
  i_f_db := None; i_e_db := None; i_f_log := None; i_e_log := None; i_f_fmt := None; i_e_fmt := None;
  i_f_depth := None; i_e_depth := None; i_f_today := None; i_f_config := None; i_e_config := None;
  i_no_database := false; i_g_begin := None; i_g_end := None; i_l_begin := None; i_l_end := None;
  i_g_no_color := true; i_l_no_color := false; i_single_food := []; i_single_element := [];
  i_group_food := false; i_csv := false; i_no_totals := false; i_totals_only := false;
  i_shorten := false; i_old := false; i_template := None; i_collapse := false; i_collapse_last := false;
  i_desc := false; i_silent := false; i_cmd := c |}.

Definition e4 : perr := BadSyntax 4 (b "  apple").
Definition e6 : perr := Conversion (b "x2") 6 (b "  milk x2").

(** * lint *)
Example ex_log6_errors : errors_of ZNum (events ZNum log6) = [e4; e6].
Proof. vm_compute. reflexivity. Qed.

Example ex_log6_readable : readable log6.
Proof. unfold readable. vm_compute. reflexivity. Qed.

Example ex_lint_reports_all :
  run_lint ZNum (mkw book_good log6) (b "log.yaml") false
  = {| out_stdout := b "bad syntax on line 4, ""  apple""." ++ [c_lf]
                     ++ b "error converting ""x2"" to float on line 6 ""  milk x2""." ++ [c_lf];
       out_status := Ok |}.
Proof.
  rewrite (lint_reports_all ZNum (mkw book_good log6) (b "log.yaml") log6 false).
  - rewrite ex_log6_errors. vm_compute. reflexivity.
  - discriminate.
  - intro HH; vm_compute in HH; discriminate HH.
  - vm_compute. reflexivity.
  - vm_compute. reflexivity.
  - reflexivity.
  - exact ex_log6_readable.
Qed.

Example ex_lint_output_lines :
  split_on c_lf (out_stdout (run_lint ZNum (mkw book_good log6) (b "log.yaml") false))
  = [b "bad syntax on line 4, ""  apple"".";
     b "error converting ""x2"" to float on line 6 ""  milk x2"".";
     []].
Proof.
  rewrite (lint_output_lines ZNum (mkw book_good log6) (b "log.yaml") log6 false).
  - rewrite ex_log6_errors. vm_compute. reflexivity.
  - discriminate.
  - intro HH; vm_compute in HH; discriminate HH.
  - vm_compute. reflexivity.
  - vm_compute. reflexivity.
  - reflexivity.
  - exact ex_log6_readable.
Qed.

Example ex_lint_clean :
  run_lint ZNum (mkw book_good log6) (b "food.yaml") false
  = {| out_stdout := b "No errors found" ++ [c_lf]; out_status := Ok |}.
Proof.
  rewrite (lint_reports_all ZNum (mkw book_good log6) (b "food.yaml") book_good false).
  - vm_compute. reflexivity.
  - discriminate.
  - intro HH; vm_compute in HH; discriminate HH.
  - vm_compute. reflexivity.
  - vm_compute. reflexivity.
  - reflexivity.
  - unfold readable. vm_compute. reflexivity.
Qed.

Example ex_lint_clean_silent :
  run_lint ZNum (mkw book_good log6) (b "food.yaml") true = {| out_stdout := []; out_status := Ok |}.
Proof.
  rewrite (lint_reports_all ZNum (mkw book_good log6) (b "food.yaml") book_good true).
  - vm_compute. reflexivity.
  - discriminate.
  - intro HH; vm_compute in HH; discriminate HH.
  - vm_compute. reflexivity.
  - vm_compute. reflexivity.
  - reflexivity.
  - unfold readable. vm_compute. reflexivity.
Qed.

(** * malformed book: every book-reading command fails with the first message (line 5) *)
Definition eb5 : perr := BadSyntax 5 (b "  water").
Definition eb7 : perr := Conversion (b "x2") 7 (b "  leek x2").
Definition broth : pnode ZNum := {| header := b "broth"; elems := [(b "water", 1%Z : T ZNum)]; meta := None |}.

Example ex_book_errors : errors_of ZNum (events ZNum book_bad) = [eb5; eb7].
Proof. vm_compute. reflexivity. Qed.

Example ex_book_split :
  exists post, events ZNum book_bad = [ENode broth] ++ EErr eb5 :: post.
Proof. eexists. vm_compute. reflexivity. Qed.

Definition wb : world := mkw book_bad log8.

Example ex_load : forall c, exists op, load wb (inv c) = inr op /\ op_db op = b "food.yaml" /\ op_log op = b "log.yaml".
Proof. intros c. eexists. split; [vm_compute; reflexivity|]. split; reflexivity. Qed.

Example ex_reg_book :
  forall c, In c [CReg; CBal; CTotals; CUnresolved] ->
  run ZNum wb (inv c)
  = {| out_stdout := []; out_status := Failed (EParse (b "bad syntax on line 5, ""  water"".")) |}.
Proof.
  intros c Hc. destruct (ex_load c) as (op & Hl & Hdb & Hlog).
  rewrite (run_book_error_db_log ZNum wb (inv c) op book_bad eb5 [eb7] Hl Hc).
  - reflexivity.
  - rewrite Hdb. discriminate.
  - rewrite Hdb. intro HH; vm_compute in HH; discriminate HH.
  - rewrite Hdb. vm_compute. reflexivity.
  - rewrite Hdb. vm_compute. reflexivity.
  - rewrite Hlog. vm_compute. discriminate.
  - exact ex_book_errors.
Qed.

Example ex_element_total_book :
  run ZNum wb (inv (CElementTotal (b "water")))
  = {| out_stdout := []; out_status := Failed (EParse (b "bad syntax on line 5, ""  water"".")) |}.
Proof.
  destruct (ex_load (CElementTotal (b "water"))) as (op & Hl & Hdb & Hlog).
  rewrite (run_book_error_element_total ZNum wb _ op (b "water") book_bad eb5 [eb7] Hl eq_refl).
  - reflexivity.
  - discriminate.
  - rewrite Hdb. discriminate.
  - rewrite Hdb. intro HH; vm_compute in HH; discriminate HH.
  - rewrite Hdb. vm_compute. reflexivity.
  - rewrite Hdb. vm_compute. reflexivity.
  - exact ex_book_errors.
Qed.

(** csv database: the row of the good record is printed before the failure *)
Example ex_csv_db_book :
  run ZNum wb (inv CCsvDb)
  = {| out_stdout := b "broth,water,1" ++ [c_lf];
       out_status := Failed (EParse (b "bad syntax on line 5, ""  water"".")) |}.
Proof.
  destruct (ex_load CCsvDb) as (op & Hl & Hdb & Hlog).
  destruct ex_book_split as (post & Hs).
  rewrite (run_book_error_csv_db ZNum wb _ op book_bad [ENode broth] eb5 post Hl eq_refl).
  - vm_compute. reflexivity.
  - rewrite Hdb. discriminate.
  - rewrite Hdb. intro HH; vm_compute in HH; discriminate HH.
  - rewrite Hdb. vm_compute. reflexivity.
  - rewrite Hdb. vm_compute. reflexivity.
  - reflexivity.
  - exact Hs.
  - reflexivity.
Qed.

(** stats with a clean log (its headings are dates: fix F27) and the malformed book *)
Definition log_clean : bytes := lines [b "2024/01/01"; b "  soup 2"; b "2024/01/02"; b "  soup 1"].

Example ex_stats_book :
  run ZNum (mkw book_bad log_clean) (inv CStats)
  = {| out_stdout := []; out_status := Failed (EParse (b "bad syntax on line 5, ""  water"".")) |}.
Proof.
  assert (Hl : exists op, load (mkw book_bad log_clean) (inv CStats) = inr op
                          /\ op_db op = b "food.yaml" /\ op_log op = b "log.yaml"
                          /\ tokenize default_fmt = Some (rc_date (op_rc op)))
    by (eexists; split; [vm_compute; reflexivity|split; [|split]; reflexivity]).
  destruct Hl as (op & Hl & Hdb & Hlog & Htk).
  rewrite (run_book_error_stats ZNum _ _ op log_clean book_bad eb5 [eb7] Hl eq_refl).
  - reflexivity.
  - rewrite Hlog. discriminate.
  - rewrite Hlog. intro HH; vm_compute in HH; discriminate HH.
  - rewrite Hlog. vm_compute. reflexivity.
  - rewrite Hlog. vm_compute. reflexivity.
  - vm_compute. reflexivity.
  - unfold readable. vm_compute. reflexivity.
  - remember (rc_date (op_rc op)) as tk eqn:Etk in *. vm_compute in Htk. injection Htk as Htk. rewrite <- Htk. vm_compute. repeat constructor; discriminate.
  - rewrite Hdb. discriminate.
  - rewrite Hdb. intro HH; vm_compute in HH; discriminate HH.
  - rewrite Hdb. vm_compute. reflexivity.
  - rewrite Hdb. vm_compute. reflexivity.
  - exact ex_book_errors.
Qed.

(** * malformed log: a good day is processed, then the command fails with the first message (line 6) *)
Definition el6 : perr := BadSyntax 6 (b "  apple").
Definition day1 : pnode ZNum := {| header := b "2024/01/01"; elems := [(b "soup", 2%Z : T ZNum)]; meta := None |}.
Definition wl : world := mkw book_good log8.

Example ex_log8_split : exists post, events ZNum log8 = [ENode day1] ++ EErr el6 :: post.
Proof. eexists. vm_compute. reflexivity. Qed.

Example ex_load_l : forall c, exists op,
  load wl (inv c) = inr op /\ op_db op = b "food.yaml" /\ op_log op = b "log.yaml"
  /\ rc_date (op_rc op) = [Y4; Lit 47; M2; Lit 47; D2]
  /\ rc_single_food (op_rc op) = [] /\ rc_single_element (op_rc op) = [] /\ op_depth op = 10%Z.
Proof. intros c. eexists. split; [vm_compute; reflexivity|]. repeat split; reflexivity. Qed.

Example ex_reg_log :
  forall c, In c [CReg; CBal; CTotals; CUnresolved] ->
  out_status (run ZNum wl (inv c)) = Failed (EParse (b "bad syntax on line 6, ""  apple"".")).
Proof.
  intros c Hc. destruct (ex_load_l c) as (op & Hl & Hdb & Hlog & Hdate & Hsf & Hse & Hdep).
  destruct ex_log8_split as (post & Hs).
  assert (Hres : exists d, resolved_db ZNum wl op (OData book_good NoFault) = inr d).
  { unfold resolved_db. rewrite Hdep. eexists. vm_compute. reflexivity. }
  destruct Hres as (d & Hres).
  rewrite (run_log_error_db_log ZNum wl (inv c) op (OData book_good NoFault) d log8 [ENode day1] el6 post Hl Hc).
  - reflexivity.
  - intros _. rewrite Hsf, Hse. split; [reflexivity|left; reflexivity].
  - rewrite Hdb. vm_compute. reflexivity.
  - exact Hres.
  - rewrite Hlog. discriminate.
  - rewrite Hlog. intro HH; vm_compute in HH; discriminate HH.
  - rewrite Hlog. vm_compute. reflexivity.
  - rewrite Hlog. vm_compute. reflexivity.
  - reflexivity.
  - exact Hs.
  - reflexivity.
  - rewrite Hdate. repeat constructor. vm_compute. discriminate.
Qed.

Example ex_print_log :
  forall c, In c [CQuantity; CCsvLog; CPrint] ->
  out_status (run ZNum wl (inv c)) = Failed (EParse (b "bad syntax on line 6, ""  apple"".")).
Proof.
  intros c Hc. destruct (ex_load_l c) as (op & Hl & Hdb & Hlog & Hdate & _).
  destruct ex_log8_split as (post & Hs).
  rewrite (run_log_error_log_only ZNum wl (inv c) op log8 [ENode day1] el6 post Hl Hc).
  - reflexivity.
  - rewrite Hlog. discriminate.
  - rewrite Hlog. intro HH; vm_compute in HH; discriminate HH.
  - rewrite Hlog. vm_compute. reflexivity.
  - rewrite Hlog. vm_compute. reflexivity.
  - reflexivity.
  - exact Hs.
  - reflexivity.
  - rewrite Hdate. repeat constructor. vm_compute. discriminate.
Qed.

(** what the model prints in the concrete case: the good day's report precedes the failure *)
Example ex_print_log_output :
  run ZNum wl (inv CPrint)
  = {| out_stdout := b "2024/01/01:" ++ [c_lf] ++ b "  - soup: 2" ++ [c_lf] ++ [c_lf];
       out_status := Failed (EParse (b "bad syntax on line 6, ""  apple"".")) |}.
Proof. vm_compute. reflexivity. Qed.

(** the complement: the heading "monday" (not a date) comes before the malformed line: EBadDate *)
Example ex_bad_date_first :
  errors_of ZNum (events ZNum log_baddate) = [BadSyntax 6 (b "  apple")]
  /\ out_status (run ZNum (mkw book_good log_baddate) (inv CPrint)) = Failed EBadDate.
Proof. split; vm_compute; reflexivity. Qed.
