(** WP20 (assembly) - C05 without the resolver premise.
    [Proofs/OrderRun.v] (the order work package) proves the whole-program order
    independence with the resolver's order independence as an explicit premise;
    [Proofs/ResolverRefine.v] (WP01) proves exactly that premise for every
    [Num].  Here the two are joined. *)
From Coq Require Import Permutation.
From HP Require Import Base.Bytes Base.Num Model.Elements Model.Resolver Model.Cli.
From HP Require Import Proofs.ResolverRefine Proofs.OrderSites Proofs.OrderRun.

(** the premise of the order package is a theorem *)
Lemma resolver_order_independent_holds : forall NM : Num, resolver_order_independent NM.
Proof.
  intros NM N B p1 p2 Hnd H1 H2. apply resolve_order_indep_cli; assumption.
Qed.

Theorem run_order_independent_closed : forall NM : Num,
  forall w i o1 o2, oracles_ok o1 -> oracles_ok o2 ->
    run NM (with_or w o1) i = run NM (with_or w o2) i.
Proof.
  intros NM. apply run_order_independent. exact (resolver_order_independent_holds NM).
Qed.

Theorem run_order_independent_worlds_closed : forall NM : Num,
  forall w1 w2 i, same_but_oracles w1 w2 -> oracles_ok (w_or w1) -> oracles_ok (w_or w2) ->
    run NM w1 i = run NM w2 i.
Proof.
  intros NM. apply run_order_independent_worlds. exact (resolver_order_independent_holds NM).
Qed.

Theorem run_is_a_function_of_its_inputs_closed : forall NM : Num,
  forall w i, oracles_ok (w_or w) -> run NM w i = run NM (with_or w id_oracles) i.
Proof.
  intros NM. apply run_is_a_function_of_its_inputs. exact (resolver_order_independent_holds NM).
Qed.

Theorem run_deterministic_closed : forall NM : Num,
  forall w1 w2 i s,
    w_fs w1 = w_fs w2 -> w_default_config w1 = w_default_config w2 -> w_tz w1 = w_tz w2 ->
    w_sink w1 = w_sink w2 -> w_read_fault w1 = w_read_fault w2 ->
    i_f_today i = Some s ->
    oracles_ok (w_or w1) -> oracles_ok (w_or w2) ->
    run NM w1 i = run NM w2 i.
Proof.
  intros NM. apply run_deterministic. exact (resolver_order_independent_holds NM).
Qed.

(** non-vacuity: the closed theorem applied to the concrete world of
    [Proofs/OrderExamples.v] (a recipe book with two recipes, so the resolver
    really is run and really is given two different visiting orders) *)
From HP Require Import Proofs.OrderExamples.
Example ex_closed_applies : forall s c,
  run ZNum (ex_world rev_oracles s) (ex_inv c false) = run ZNum (ex_world id_oracles s) (ex_inv c false).
Proof.
  intros s c. rewrite (ex_world_with_or rev_oracles s), (ex_world_with_or id_oracles s).
  apply run_order_independent_closed; apply ex_oracles_ok.
Qed.
