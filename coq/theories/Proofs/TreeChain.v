(** WP08: the built tree has slash-free names, and when no logged path is a
    prefix of another a node with a single child has that child's total. *)
From HP Require Import Base.Bytes Base.Num Model.Elements Model.Tree Model.Reporters.
From HP Require Import Spec.TreeShared Spec.TreeSpec Proofs.TreeBytes Proofs.TreeBuild.
From Coq Require Import Lia Sorted Permutation.

Section TreeChain.
  Context (NM : Num).
  Notation T := (T NM).
  Notation tree := (tree NM).
  Notation t_name := (t_name NM).
  Notation t_total := (t_total NM).
  Notation t_children := (t_children NM).
  Notation add_deep := (add_deep NM).
  Notation find_child := (find_child NM).
  Notation node_at := (node_at NM).
  Notation forest_add := (forest_add NM).
  Notation wf_forest := (wf_forest NM).
  Notation entries := (list (bytes * T)).

  (** * no separator inside a node name *)
  Lemma slash_free_add_deep : forall names v ch,
    Forall (fun s => ~ In c_slash s) names ->
    Forall (slash_free NM) ch -> Forall (slash_free NM) (add_deep names v ch).
  Proof.
    induction names as [|n rest IH]; intros v ch Hn Hch; [exact Hch|].
    inversion Hn as [|k l Hn1 Hn2]; subst.
    rewrite add_deep_cons. induction ch as [|[n' t c] r IHr]; cbn [upd_child].
    - constructor; [|constructor]. apply slash_free_unfold. split; [exact Hn1|]. apply IH; [exact Hn2|constructor].
    - inversion Hch as [|k l Hc Hr]; subst. destruct (beq n n').
      + constructor; [|exact Hr]. apply slash_free_unfold in Hc. destruct Hc as [Hc1 Hc2].
        apply slash_free_unfold. split; [exact Hc1|]. apply IH; assumption.
      + constructor; [exact Hc|]. apply IHr. exact Hr.
  Qed.

  Lemma slash_free_forest_add : forall (es : entries) ch,
    Forall (slash_free NM) ch -> Forall (slash_free NM) (forest_add ch es).
  Proof.
    induction es as [|[f q] es IH]; intros ch Hch; [exact Hch|].
    cbn [TreeBuild.forest_add fold_left fst snd]. apply IH. apply slash_free_add_deep; [|exact Hch].
    apply Forall_forall. intros s Hs. eapply segs_slash_free. exact Hs.
  Qed.

  Theorem built_slash_free : forall es, slash_free_below NM (tree_add_all NM (empty_root NM) es).
  Proof.
    intro es. rewrite empty_root_built. unfold slash_free_below. cbn [Tree.t_children].
    apply slash_free_forest_add. constructor.
  Qed.

  (** * single-child chains *)
  Definition chain_here (t : tree) : Prop :=
    match t_children t with [only] => t_total t = t_total only | _ => True end.

  Lemma chain_const_node : forall t, chain_const NM t <-> chain_here t /\ Forall (chain_const NM) (t_children t).
  Proof. intros [n x ch]. apply chain_const_unfold. Qed.

  Lemma chain_by_paths : forall t,
    wf_tree NM t ->
    (forall p t', node_at p (t_children t) = Some t' -> chain_here t') ->
    Forall (chain_const NM) (t_children t).
  Proof.
    induction t as [n x ch IH] using (tree_ind' NM). intros Hwf HQ. cbn [Tree.t_children] in *.
    apply wf_tree_unfold in Hwf. destruct Hwf as [Hnd Hall].
    rewrite Forall_forall in *. intros c Hc. apply chain_const_node. split.
    - apply (HQ [t_name c]). rewrite node_at_single. apply find_child_nodup; assumption.
    - apply IH; [exact Hc|apply Hall; exact Hc|]. intros p t' Hp. apply (HQ (t_name c :: p)).
      rewrite node_at_cons, (find_child_nodup NM _ _ Hnd Hc).
      destruct p as [|a p]; [discriminate|]. exact Hp.
  Qed.

  Lemma app_cons_not_self : forall {A} (p r : list A) c, p <> p ++ c :: r.
  Proof.
    intros A p r c E. apply (f_equal (@Datatypes.length A)) in E. rewrite app_length in E. cbn in E. lia.
  Qed.

  Lemma built_chain_here : forall es p t',
    prefix_free NM es -> node_at p (forest_add [] es) = Some t' -> chain_here t'.
  Proof.
    intros es p t' Hpf Ht'. unfold chain_here. destruct (t_children t') as [|only [|c2 r]] eqn:Ech; try exact I.
    assert (Hne : p <> []) by (intro E; subst; discriminate).
    set (c := t_name only).
    assert (Honly : node_at (p ++ [c]) (forest_add [] es) = Some only).
    { rewrite node_at_snoc by exact Hne. rewrite Ht', Ech. cbn [Tree.find_child]. subst c. rewrite beq_refl. reflexivity. }
    rewrite (node_at_forest_total NM _ _ _ Ht'), (node_at_forest_total NM _ _ _ Honly).
    unfold total_at, matching. f_equal. f_equal. apply filter_ext_in. intros [f q] Hin. cbn [fst].
    destruct (is_prefix_path (p ++ [c]) (segs f)) eqn:E1.
    - eapply is_prefix_path_trans; [apply is_prefix_path_app|exact E1].
    - destruct (is_prefix_path p (segs f)) eqn:E2; [|reflexivity]. exfalso.
      apply is_prefix_path_iff in E2. destruct E2 as [r Er]. destruct r as [|c' r].
      + (* logged exactly at the node: excluded by prefix-freeness *)
        rewrite app_nil_r in Er.
        assert (Hs : exists t, node_at (p ++ [c]) (forest_add [] es) = Some t) by (exists only; exact Honly).
        apply node_at_forest_some in Hs. destruct Hs as [_ [g [q' [Hg Hpg]]]].
        apply is_prefix_path_snoc in Hpg. destruct Hpg as [r' Er'].
        assert (Hp : is_prefix_path (segs f) (segs g) = true) by (rewrite Er, Er'; apply is_prefix_path_app).
        pose proof (Hpf f q g q' Hin Hg Hp) as Heq. rewrite Er, Er' in Heq.
        exact (app_cons_not_self _ _ _ Heq).
      + (* continues below the node: through the only child *)
        assert (Hs : exists t, node_at (p ++ [c']) (forest_add [] es) = Some t).
        { apply node_at_forest_some. split; [destruct p; discriminate|]. exists f, q. split; [exact Hin|].
          apply is_prefix_path_snoc. exists r. exact Er. }
        destruct Hs as [t Ht]. rewrite node_at_snoc in Ht by exact Hne. rewrite Ht', Ech in Ht.
        cbn [Tree.find_child] in Ht. destruct (beq_spec c' (t_name only)) as [E|E]; [|discriminate].
        subst c'. assert (Hp : is_prefix_path (p ++ [c]) (segs f) = true) by (apply is_prefix_path_snoc; exists r; exact Er).
        congruence.
  Qed.

  (** the tree as built (before ordering) *)
  Theorem built_chain_const : forall es,
    prefix_free NM es -> chain_const_below NM (tree_add_all NM (empty_root NM) es).
  Proof.
    intros es Hpf. unfold chain_const_below. apply chain_by_paths.
    - apply tree_wf.
    - intros p t' Hp. rewrite empty_root_built in Hp. cbn [Tree.t_children] in Hp.
      eapply built_chain_here; eassumption.
  Qed.

  (** * the boolean prefix-freeness test *)
  Lemma prefix_freeb_iff : forall es : entries, prefix_freeb NM es = true <-> prefix_free NM es.
  Proof.
    intro es. unfold prefix_freeb, prefix_free. rewrite forallb_forall. split.
    - intros H f1 q1 f2 q2 H1 H2 Hp. specialize (H _ H1). rewrite forallb_forall in H. specialize (H _ H2).
      cbn [fst] in H. rewrite Hp in H. cbn [implb] in H. apply path_eqb_true_iff. exact H.
    - intros H [f1 q1] H1. apply forallb_forall. intros [f2 q2] H2. cbn [fst].
      destruct (is_prefix_path (segs f1) (segs f2)) eqn:Hp; [|reflexivity]. cbn [implb].
      apply path_eqb_true_iff. eapply H; eassumption.
  Qed.

  (** on names instead of paths ([split_on] is injective) *)
  Lemma prefix_free_names : forall es : entries,
    prefix_free NM es <->
    (forall f1 q1 f2 q2, In (f1, q1) es -> In (f2, q2) es -> is_prefix_path (segs f1) (segs f2) = true -> f1 = f2).
  Proof.
    intro es. unfold prefix_free. split; intros H f1 q1 f2 q2 H1 H2 Hp.
    - apply segs_inj. eapply H; eassumption.
    - f_equal. eapply H; eassumption.
  Qed.
End TreeChain.
