(** From the argument vector to the loaded options: what an [ArgvOk] result is made of, the environment
    values are kept next to the flags' values, a flag beats the environment, the command's own period
    beats the global one, and the theorems of Props/C16.v on rendered vectors. *)
From Coq Require Import Lia ZifyBool ZifyNat ZifyN.
From HP Require Import Base.Bytes Base.Num Model.Elements Model.Dates Model.Config Model.Reporters Model.Cli Model.Argv.
From HP Require Import Proofs.SettingsPickString Proofs.Settings Proofs.ArgvBase Proofs.ArgvFlags Proofs.ArgvRender Proofs.ArgvTheorems.

(** * what an [ArgvOk] is made of *)
Lemma help_action_not_ok : forall ch args i, help_action ch args <> ArgvOk i.
Proof. intros ch [|[|c x] r] i; cbn [help_action]; try discriminate. destruct (mem (c :: x) ch); discriminate. Qed.

Lemma help_level_not_ok : forall fuel pc args i, help_level fuel pc args <> ArgvOk i.
Proof.
  induction fuel as [|f IH]; intros pc args i; cbn [help_level];
    destruct (parse_flags tbl_help args) as [a rest| |]; try discriminate;
    destruct (conflict tbl_help a); try discriminate;
    destruct (get_bool n_help a); try apply help_action_not_ok;
    destruct rest as [|x r]; try apply help_action_not_ok;
    destruct (is_help_word x); try apply help_action_not_ok; try discriminate. apply IH.
Qed.

Lemma guard_ok_inv : forall tbl a ch rest k i, guard tbl a ch rest k = ArgvOk i ->
  conflict tbl a = false /\ get_bool n_help a = false /\ k = ArgvOk i.
Proof.
  intros tbl a ch rest k i H. unfold guard in H. destruct (conflict tbl a); [discriminate|].
  destruct (get_bool n_help a); [exfalso; exact (help_action_not_ok _ _ _ H)|]. auto.
Qed.

Lemma leaf_level_ok_inv : forall ga e d c args i, leaf_level ga e d c args = ArgvOk i ->
  exists la rest arg, parse_flags (tbl_leaf c) args = FOk la rest /\ i = build ga e d c la arg.
Proof.
  intros ga e d c args i H. unfold leaf_level in H.
  destruct (parse_flags (tbl_leaf c) args) as [la rest| |]; try discriminate.
  apply guard_ok_inv in H as (_ & _ & H). unfold leaf_args in H. destruct rest as [|x r].
  - inversion H. eauto.
  - destruct (is_help_word x); [exfalso; exact (help_level_not_ok _ _ _ _ H)|]. inversion H. eauto.
Qed.

Lemma group_level_ok_inv : forall ga e d ch sub args i, group_level ga e d ch sub args = ArgvOk i ->
  exists c args', leaf_level ga e d c args' = ArgvOk i.
Proof.
  intros ga e d ch sub args i H. unfold group_level in H.
  destruct (parse_flags tbl_help args) as [a rest| |]; try discriminate.
  apply guard_ok_inv in H as (_ & _ & H). unfold group_args in H. destruct rest as [|x r]; [discriminate|].
  destruct (sub x) as [c|]; [eauto|].
  destruct (is_help_word x); [exfalso; exact (help_level_not_ok _ _ _ _ H)|exfalso; exact (help_action_not_ok _ _ _ H)].
Qed.

Lemma root_args_ok_inv : forall ga e d rest i, root_args ga e d rest = ArgvOk i ->
  exists c args', leaf_level ga e d c args' = ArgvOk i.
Proof.
  intros ga e d rest i H. unfold root_args in H. destruct rest as [|x r]; [discriminate|].
  destruct (leaf_of_root x) as [c|]; [eauto|].
  destruct (beq x (b "report")); [exact (group_level_ok_inv _ _ _ _ _ _ _ H)|].
  destruct (beq x (b "csv")); [exact (group_level_ok_inv _ _ _ _ _ _ _ H)|].
  destruct (beq x (b "gen")); [discriminate|].
  destruct (is_help_word x); [exfalso; exact (help_level_not_ok _ _ _ _ H)|exfalso; exact (help_action_not_ok _ _ _ H)].
Qed.

Theorem parse_argv_ok_inv : forall argv e i, parse_argv argv e = ArgvOk i ->
  exists ga rest d c la lrest arg args',
    env_int e (b "HR_MAXDEPTH") = Val d /\ parse_flags tbl_root argv = FOk ga rest /\
    conflict tbl_root ga = false /\ parse_flags (tbl_leaf c) args' = FOk la lrest /\ i = build ga e d c la arg.
Proof.
  intros argv e i H. unfold parse_argv in H. destruct (env_int e (b "HR_MAXDEPTH")) as [d| |]; try discriminate.
  unfold root_level in H. destruct (parse_flags tbl_root argv) as [ga rest| |]; try discriminate.
  apply guard_ok_inv in H as (C & _ & H). destruct (get_bool n_version ga); [discriminate|].
  apply root_args_ok_inv in H as (c & args' & H). apply leaf_level_ok_inv in H as (la & lrest & arg & P & ->).
  exists ga, rest, d, c, la, lrest, arg, args'. auto.
Qed.

(** * the environment values are kept, whatever the flags say *)
Theorem environment_recorded : forall argv e i, parse_argv argv e = ArgvOk i ->
  i_e_db i = lookup (b "HR_DATABASE") e /\ i_e_log i = lookup (b "HR_LOGFILE") e /\ i_e_fmt i = lookup (b "HR_DATE_FORMAT") e /\
  i_e_config i = lookup (b "HR_CONFIG") e /\ env_int e (b "HR_MAXDEPTH") = Val (i_e_depth i).
Proof.
  intros argv e i H. destruct (parse_argv_ok_inv argv e i H) as (ga & rest & d & c & la & lrest & arg & args' & E & _ & _ & _ & ->).
  cbn [build i_e_db i_e_log i_e_fmt i_e_config i_e_depth]. auto.
Qed.

(** * the values have the kind the table says *)
Definition typed (tbl : list fspec) (a : asg) : Prop :=
  forall n v, In (n, v) a ->
    match find_flag tbl n with
    | Some KBool => exists x, v = VB x | Some KStr => exists x, v = VS x | Some KInt => exists x, v = VI x | None => False
    end.

Lemma typed_cons : forall tbl n v a,
  match find_flag tbl n with
  | Some KBool => exists x, v = VB x | Some KStr => exists x, v = VS x | Some KInt => exists x, v = VI x | None => False
  end -> typed tbl a -> typed tbl ((n, v) :: a).
Proof. intros tbl n v a H T n' v' [E|Hin]; [inversion E; subst; exact H|apply T; exact Hin]. Qed.

Lemma parse_flags_typed : forall tbl l a rest, parse_flags tbl l = FOk a rest -> typed tbl a.
Proof.
  intros tbl l.
  pose (P := fun (l : list bytes) (res : fres) => forall a rest, res = FOk a rest -> typed tbl a).
  change (P l (parse_flags tbl l)). apply (pf_ind tbl P); unfold P; clear P l; try discriminate.
  - intros a rest E. inversion E. intros n v [].
  - intros s r C a rest E. inversion E. intros n v [].
  - intros s r C a rest E. inversion E. intros n v [].
  - intros s r n v bv C F B IH a rest E. apply cons_asg_ok_inv in E as (a' & E & ->).
    apply typed_cons; [rewrite F; eauto|exact (IH a' rest E)].
  - intros s r n x k C F K IH a rest E. destruct k; [congruence| |]; cbn [set_value] in E.
    + apply cons_asg_ok_inv in E as (a' & E & ->). apply typed_cons; [rewrite F; eauto|exact (IH a' rest E)].
    + destruct (go_parse_int x) as [z| |]; try discriminate. apply cons_asg_ok_inv in E as (a' & E & ->).
      apply typed_cons; [rewrite F; eauto|exact (IH a' rest E)].
  - intros s r n x k C F K IH a rest E. destruct k; [congruence| |]; cbn [set_value] in E.
    + apply cons_asg_ok_inv in E as (a' & E & ->). apply typed_cons; [rewrite F; eauto|exact (IH a' rest E)].
    + destruct (go_parse_int x) as [z| |]; try discriminate. apply cons_asg_ok_inv in E as (a' & E & ->).
      apply typed_cons; [rewrite F; eauto|exact (IH a' rest E)].
Qed.

Lemma get_some_in : forall names a v, get names a = Some v -> exists n, mem n names = true /\ In (n, v) a.
Proof.
  intros names a v. induction a as [|[n0 v0] a IH]; intros H; [discriminate|].
  rewrite get_cons in H. cbn [fst snd] in H. destruct (get names a) as [w|] eqn:E.
  - inversion H; subst. destruct (IH eq_refl) as (n & M & Hin). exists n. split; [exact M|right; exact Hin].
  - destruct (mem n0 names) eqn:M; [|discriminate]. inversion H; subst. exists n0. split; [exact M|left; reflexivity].
Qed.

(** a string flag that occurs ends up with a string *)
Lemma get_str_used : forall tbl names a n, typed tbl a -> used a n = true -> mem n names = true ->
  (forall m, mem m names = true -> find_flag tbl m = Some KStr) -> exists s, get_str names a = Some s.
Proof.
  intros tbl names a n T U M K. unfold get_str. destruct (get names a) as [v|] eqn:E.
  - destruct (get_some_in names a v E) as (m & Mm & Hin). specialize (T m v Hin). rewrite (K m Mm) in T.
    destruct T as (x & ->). eauto.
  - rewrite (get_none_unused names a n E M) in U. discriminate.
Qed.

Lemma get_int_used : forall tbl names a n, typed tbl a -> used a n = true -> mem n names = true ->
  (forall m, mem m names = true -> find_flag tbl m = Some KInt) -> exists z, get_int names a = Some z.
Proof.
  intros tbl names a n T U M K. unfold get_int. destruct (get names a) as [v|] eqn:E.
  - destruct (get_some_in names a v E) as (m & Mm & Hin). specialize (T m v Hin). rewrite (K m Mm) in T.
    destruct T as (x & ->). eauto.
  - rewrite (get_none_unused names a n E M) in U. discriminate.
Qed.

Lemma names_kind : forall tbl names k, forallb (fun m => match find_flag tbl m with Some k' => match k, k' with KBool, KBool | KStr, KStr | KInt, KInt => true | _, _ => false end | None => false end) names = true ->
  forall m, mem m names = true -> find_flag tbl m = Some k.
Proof.
  intros tbl names k H m M. rewrite forallb_forall in H. apply mem_true_iff in M. specialize (H m M).
  destruct (find_flag tbl m) as [k'|]; [|discriminate]. destruct k, k'; try discriminate; reflexivity.
Qed.

(** * a flag given before the command is recorded *)
Lemma root_flag_used : forall two n k v argv ga rest, good_name n = true -> find_flag tbl_root n = Some k -> k <> KBool ->
  parse_flags tbl_root (flag_tok two n None :: v :: argv) = FOk ga rest -> used ga n = true /\ typed tbl_root ga.
Proof.
  intros two n k v argv ga rest G F K P. split; [|exact (parse_flags_typed _ _ _ _ P)].
  rewrite (pf_value_takes_next tbl_root two n k) in P by assumption.
  apply set_value_ok_inv in P as (v' & a' & _ & -> & _). rewrite used_cons. cbn [fst]. rewrite beq_refl. reflexivity.
Qed.

Ltac kinds := apply names_kind; vm_compute; reflexivity.

Lemma pick_string_flag : forall v e c d, pick_string (Some v) e c d = v.
Proof. intros v e c d. unfold pick_string. destruct c as [[|c0 r]|]; reflexivity. Qed.

Lemma pick_depth_flag : forall z e c, pick_depth (Some z) e c = z.
Proof. intros z e c. unfold pick_depth. destruct c as [v|]; reflexivity. Qed.

(** [-l FILE] / [--logfile FILE] before the command: the loaded log file is a value given by the flag (its last
    occurrence), never the environment's - and the invocation still holds the value of HR_LOGFILE *)
Theorem flag_beats_environment_log : forall two n v argv e i w op,
  In n [b "logfile"; b "l"] -> parse_argv (flag_tok two n None :: v :: argv) e = ArgvOk i -> load w i = inr op ->
  exists v', i_f_log i = Some v' /\ op_log op = v' /\ i_e_log i = lookup (b "HR_LOGFILE") e.
Proof.
  intros two n v argv e i w op Hn H L.
  destruct (parse_argv_ok_inv _ e i H) as (ga & rest & d & c & la & lrest & arg & args' & E & P & _ & _ & ->).
  assert (Q : used ga n = true /\ typed tbl_root ga).
  { cbn [In] in Hn. destruct Hn as [<-|[<-|[]]]; apply (root_flag_used two _ KStr v argv ga rest); first [exact P | discriminate | vm_compute; reflexivity]. }
  destruct Q as [U T].
  destruct (get_str_used tbl_root [b "logfile"; b "l"] ga n T U) as (v' & Hv); [apply mem_true_iff; exact Hn|kinds|].
  exists v'. destruct (load_inr_inv _ _ _ L) as (cfg & toks & _ & _ & Hlog & _).
  cbn [build i_f_log i_e_log] in *. rewrite Hv in Hlog. rewrite pick_string_flag in Hlog. auto.
Qed.

Theorem flag_beats_environment_db : forall two n v argv e i w op,
  In n [b "database"; b "d"] -> parse_argv (flag_tok two n None :: v :: argv) e = ArgvOk i -> load w i = inr op ->
  exists v', i_f_db i = Some v' /\ (i_no_database i = false -> op_db op = v') /\ i_e_db i = lookup (b "HR_DATABASE") e.
Proof.
  intros two n v argv e i w op Hn H L.
  destruct (parse_argv_ok_inv _ e i H) as (ga & rest & d & c & la & lrest & arg & args' & E & P & _ & _ & ->).
  assert (Q : used ga n = true /\ typed tbl_root ga).
  { cbn [In] in Hn. destruct Hn as [<-|[<-|[]]]; apply (root_flag_used two _ KStr v argv ga rest); first [exact P | discriminate | vm_compute; reflexivity]. }
  destruct Q as [U T].
  destruct (get_str_used tbl_root [b "database"; b "d"] ga n T U) as (v' & Hv); [apply mem_true_iff; exact Hn|kinds|].
  exists v'. destruct (load_inr_inv _ _ _ L) as (cfg & toks & _ & Hdb & _).
  cbn [build i_f_db i_e_db i_no_database] in *. rewrite Hv in Hdb. rewrite pick_string_flag in Hdb.
  split; [exact Hv|split; [|reflexivity]]. intros ND. rewrite ND in Hdb. exact Hdb.
Qed.

Theorem flag_beats_environment_fmt : forall two v argv e i w op,
  parse_argv (flag_tok two (b "date-format") None :: v :: argv) e = ArgvOk i -> load w i = inr op ->
  exists v', i_f_fmt i = Some v' /\ op_fmt op = v' /\ i_e_fmt i = lookup (b "HR_DATE_FORMAT") e.
Proof.
  intros two v argv e i w op H L.
  destruct (parse_argv_ok_inv _ e i H) as (ga & rest & d & c & la & lrest & arg & args' & E & P & _ & _ & ->).
  assert (Q : used ga (b "date-format") = true /\ typed tbl_root ga)
    by (apply (root_flag_used two _ KStr v argv ga rest); first [exact P | discriminate | vm_compute; reflexivity]).
  destruct Q as [U T].
  destruct (get_str_used tbl_root [b "date-format"] ga _ T U) as (v' & Hv); [vm_compute; reflexivity|kinds|].
  exists v'. destruct (load_inr_inv _ _ _ L) as (cfg & toks & _ & _ & _ & Hfmt & _).
  cbn [build i_f_fmt i_e_fmt] in *. rewrite Hv in Hfmt. rewrite pick_string_flag in Hfmt. auto.
Qed.

Theorem flag_beats_environment_depth : forall two v argv e i w op,
  parse_argv (flag_tok two (b "maxdepth") None :: v :: argv) e = ArgvOk i -> load w i = inr op ->
  exists z, i_f_depth i = Some z /\ op_depth op = z /\ env_int e (b "HR_MAXDEPTH") = Val (i_e_depth i).
Proof.
  intros two v argv e i w op H L.
  destruct (parse_argv_ok_inv _ e i H) as (ga & rest & d & c & la & lrest & arg & args' & E & P & _ & _ & ->).
  assert (Q : used ga (b "maxdepth") = true /\ typed tbl_root ga)
    by (apply (root_flag_used two _ KInt v argv ga rest); first [exact P | discriminate | vm_compute; reflexivity]).
  destruct Q as [U T].
  destruct (get_int_used tbl_root [b "maxdepth"] ga _ T U) as (z & Hz); [vm_compute; reflexivity|kinds|].
  exists z. destruct (load_inr_inv _ _ _ L) as (cfg & toks & _ & _ & _ & _ & _ & _ & Hd & _).
  cbn [build i_f_depth i_e_depth] in *. rewrite Hz in Hd. rewrite pick_depth_flag in Hd. auto.
Qed.

(** the same through the rendering: flag and variable both given, the flag's value is loaded *)
Example flag_beats_environment_example :
  exists i, parse_argv [b "-l"; b "flag.yaml"; b "reg"] [(b "HR_LOGFILE", b "env.yaml")] = ArgvOk i
            /\ i_f_log i = Some (b "flag.yaml") /\ i_e_log i = Some (b "env.yaml").
Proof. eexists. vm_compute. repeat split; reflexivity. Qed.

(** * the period given to the command beats the global one *)
Lemma root_frame_ok_inv : forall ga ws e k i, root_frame ga ws e k = ArgvOk i -> exists d, env_int e (b "HR_MAXDEPTH") = Val d /\ k d = ArgvOk i.
Proof.
  intros ga ws e k i H. unfold root_frame in H. destruct (env_int e (b "HR_MAXDEPTH")) as [d| |]; try discriminate.
  apply guard_ok_inv in H as (_ & _ & H). destruct (get_bool n_version ga); [discriminate|]. eauto.
Qed.

Lemma pick_period_local : forall w now toks g y r, pick_period w now toks g (Some y) = inr r ->
  exists t, time_from_string w now toks y = inr t /\ r = Some t.
Proof.
  intros w now toks g y r H. unfold pick_period in H. destruct g as [gs|].
  - destruct (time_from_string w now toks gs); [discriminate|]. destruct (time_from_string w now toks y); [discriminate|].
    inversion H. eauto.
  - destruct (time_from_string w now toks y); [discriminate|]. inversion H. eauto.
Qed.

Lemma leaf_flag_used : forall c two n v l la rest, good_name n = true -> find_flag (tbl_leaf c) n = Some KStr ->
  parse_flags (tbl_leaf c) (flag_tok two n None :: v :: l) = FOk la rest -> used la n = true /\ typed (tbl_leaf c) la.
Proof.
  intros c two n v l la rest G F P. split; [|exact (parse_flags_typed _ _ _ _ P)].
  rewrite (pf_value_takes_next (tbl_leaf c) two n KStr) in P by (try assumption; discriminate).
  apply set_value_ok_inv in P as (v' & a' & _ & -> & _). rewrite used_cons. cbn [fst]. rewrite beq_refl. reflexivity.
Qed.

Theorem innermost_period_wins : forall g ga c ws two n y l e i w op,
  In ws (paths c) -> framed g ws ga ->
  In n n_begin -> find_flag (tbl_leaf c) n = Some KStr ->
  parse_argv (g ++ ws ++ flag_tok two n None :: y :: l) e = ArgvOk i -> load w i = inr op ->
  exists y' toks t, i_l_begin i = Some y' /\ i_g_begin i = get_str n_begin ga /\
                    tokenize (op_fmt op) = Some toks /\ time_from_string w (op_now op) toks y' = inr t /\ op_begin op = Some t.
Proof.
  intros g ga c ws two n y l e i w op Hin Hf Hn F H L.
  rewrite (parse_argv_frame g ga c ws) in H by assumption.
  apply root_frame_ok_inv in H as (d & E & H). apply leaf_level_ok_inv in H as (la & lrest & arg & P & ->).
  assert (G : good_name n = true) by (cbn [n_begin In] in Hn; destruct Hn as [<-|[<-|[]]]; vm_compute; reflexivity).
  destruct (leaf_flag_used c two n y l la lrest G F P) as [U T].
  assert (K : forall m, mem m n_begin = true -> find_flag (tbl_leaf c) m = Some KStr).
  { cbn [n_begin In] in Hn. destruct c; destruct Hn as [<-|[<-|[]]]; vm_compute in F; try discriminate; kinds. }
  destruct (get_str_used (tbl_leaf c) n_begin la n T U) as (y' & Hy); [apply mem_true_iff; exact Hn|exact K|].
  destruct (load_inr_inv _ _ _ L) as (cfg & toks & _ & _ & _ & _ & Ht & _ & _ & _ & Hb & _).
  cbn [build i_l_begin i_g_begin] in *. rewrite Hy in Hb.
  destruct (pick_period_local _ _ _ _ _ _ Hb) as (t & Ht' & ->). exists y', toks, t. auto.
Qed.

Example innermost_period_example :
  exists i, parse_argv [b "-b"; b "2021/01/01"; b "reg"; b "-b"; b "2021/02/01"] [] = ArgvOk i
            /\ i_g_begin i = Some (b "2021/01/01") /\ i_l_begin i = Some (b "2021/02/01").
Proof. eexists. vm_compute. repeat split; reflexivity. Qed.

(** * the program on a rendered vector: the theorems about invocations carry over *)
Theorem run_argv_render : forall NM w i, renderable i = true ->
  run_argv NM w (fst (render_argv i)) (snd (render_argv i)) = Some (run NM w i).
Proof. intros NM w i R. unfold run_argv. rewrite parse_render_argv by exact R. reflexivity. Qed.

Theorem settings_precedence_argv : forall w i j op cfg, renderable i = true ->
  parse_argv (fst (render_argv i)) (snd (render_argv i)) = ArgvOk j ->
  load w j = inr op -> load_config w j = inr cfg ->
  op_db op = (if i_no_database i then dev_null
              else or_default (first_some [i_f_db i; i_e_db i; file_string (ce_db cfg)]) default_db) /\
  op_log op = or_default (first_some [i_f_log i; i_e_log i; file_string (ce_log cfg)]) default_log /\
  op_fmt op = or_default (first_some [i_f_fmt i; i_e_fmt i; file_string (ce_fmt cfg)]) default_fmt /\
  op_depth op = or_default (first_some [i_f_depth i; i_e_depth i; nonzero (ce_depth cfg)]) default_depth /\
  exists toks, tokenize (op_fmt op) = Some toks /\
    match i_f_today i with
    | Some s => exists c, parse_date toks s = Some c /\ op_now op = time_of_civil c
    | None => op_now op = time_of_civil (civ (or_default (first_some [ce_now cfg]) (w_clock w)))
    end.
Proof.
  intros w i j op cfg R P L C. rewrite parse_render_argv in P by exact R. inversion P; subst j.
  exact (Settings.settings_precedence w i op cfg L C).
Qed.

(** * a difference between [Cli.run] and the program that the argument vector brings to light
    [lint] and [report element-total] check their argument in urfave's [Before] hook, i.e. BEFORE options.Load looks for
    the configuration file; [Cli.run] loads the settings first.  On [-c nonexist lint] the program says "no file provided",
    the model's [run] says the configuration file is missing (both fail with status 1). *)
Example before_check_order :
  let w := {| w_fs := []; w_default_config := b "/root/.hranoprovod/config"; w_tz := 0%Z; w_clock := zero_time;
              w_or := {| o_resolve := fun l => l; o_day := fun _ l => l; o_flush := fun l => l |};
              w_sink := None; w_read_fault := [] |} in
  match parse_argv [b "-c"; b "nonexist"; b "lint"] [] with
  | ArgvOk i => i_cmd i = CLint [] /\ out_status (run ZNum w i) = Failed EConfigMissing /\
                out_status (run_lint ZNum w [] false) = Failed (EUsage (b "no file provided"))
  | _ => False
  end.
Proof. vm_compute. repeat split; reflexivity. Qed.
