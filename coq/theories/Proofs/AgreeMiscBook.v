(** WP11: the resolved book handed to the reporters has pairwise distinct recipe names
    (discharges the hypothesis [NoDup (keys d)] of [element_total_eq_resolved_csv]). *)
From HP Require Import Base.Bytes Base.Utf8 Base.Num Model.Scanner Model.Parser Model.Elements Model.Resolver
  Model.Dates Model.Tree Model.Writer Model.Reporters Model.Cli
  Spec.Agree2Spec Proofs.AgreeMiscBase.
From Coq Require Import Lia.

Section Book.
  Context (NM : Num).
  Notation elements := (elements NM).
  Notation db := (list (bytes * elements)).

  Lemma NoDup_snoc' : forall {A} (l : list A) x, NoDup l -> ~ In x l -> NoDup (l ++ [x]).
  Proof.
    intros A l x H Hx. induction H as [|y r Hy Hr IH]; cbn [app].
    - constructor; [intros [] | constructor].
    - constructor.
      + rewrite in_app_iff. intros [K|[K|[]]]; [contradiction|]. subst. apply Hx. left. reflexivity.
      + apply IH. intro K. apply Hx. right. exact K.
  Qed.

  Lemma set_NoDup : forall {V} k (v : V) l, NoDup (keys l) -> NoDup (keys (set k v l)).
  Proof.
    intros V k v l H. rewrite keys_set. destruct (lookup k l) eqn:E; [exact H|].
    apply NoDup_snoc'; [exact H|]. apply lookup_None_iff. exact E.
  Qed.

  (** invariants of the callback protocol *)
  Lemma drive_loop_inv : forall {S E} (cb : S -> event NM -> S * bool * option E) (P : S -> Prop),
    (forall s ev, P s -> P (fst (fst (cb s ev)))) ->
    forall evs s, P s -> P (fst (drive_loop NM cb evs s)).
  Proof.
    intros S E cb P Hcb evs. induction evs as [|ev r IH]; intros s Hs; cbn [drive_loop]; [exact Hs|].
    pose proof (Hcb s ev Hs) as H1. destruct (cb s ev) as [[s' stop] e]. cbn [fst] in H1.
    destruct stop; [exact H1 | apply IH; exact H1].
  Qed.

  Lemma parse_stream_inv : forall {S E} (cb : S -> event NM -> S * bool * option E) (P : S -> Prop),
    (forall s ev, P s -> P (fst (fst (cb s ev)))) ->
    forall data f s, P s -> P (fst (parse_stream NM cb data f s)).
  Proof.
    intros S E cb P Hcb data f s Hs. unfold parse_stream.
    destruct (scan data f) as [lines fin]. destruct (parse_lines NM lines) as [evs last]. unfold drive.
    pose proof (drive_loop_inv cb P Hcb evs s Hs) as H1.
    destruct (drive_loop NM cb evs s) as [s' [e|]]; cbn [fst] in *; [exact H1|].
    destruct fin; try exact H1. destruct last as [n|]; [|exact H1].
    pose proof (Hcb s' (ENode n) H1) as H2. destruct (cb s' (ENode n)) as [[s'' stop] e]. exact H2.
  Qed.

  Lemma parse_opened_inv : forall {S} (cb : S -> event NM -> S * bool * option cerr) (P : S -> Prop),
    (forall s ev, P s -> P (fst (fst (cb s ev)))) ->
    forall o s, P s -> P (fst (parse_opened NM cb o s)).
  Proof.
    intros S cb P Hcb o s Hs. unfold parse_opened.
    destruct o as [data f|].
    - pose proof (parse_stream_inv cb P Hcb data f s Hs) as H. destruct (parse_stream NM cb data f s). exact H.
    - pose proof (parse_stream_inv cb P Hcb [] (FailAt 0) s Hs) as H. destruct (parse_stream NM cb [] (FailAt 0) s). exact H.
  Qed.

  Lemma load_db_NoDup : forall o, NoDup (keys (fst (load_db NM o))).
  Proof.
    intro o. unfold load_db. apply (parse_opened_inv _ (fun d : db => NoDup (keys d))).
    - intros d [n|e] Hd; cbn [fst]; [|exact Hd]. unfold db_push. apply set_NoDup. exact Hd.
    - constructor.
  Qed.

  (** the resolver only ever updates the book with [set] *)
  Lemma ingredients_loop_NoDup : forall (rec : db * memo -> bytes -> option (nat * (db * memo))),
    (forall st e h st', NoDup (keys (fst st)) -> rec st e = Some (h, st') -> NoDup (keys (fst st'))) ->
    forall els st nel height h st' nel',
      NoDup (keys (fst st)) ->
      ingredients_loop NM rec els st nel height = Some (h, st', nel') -> NoDup (keys (fst st')).
  Proof.
    intros rec Hrec els. induction els as [|[e v] rest IH]; intros st nel height h st' nel' Hst H; cbn [ingredients_loop] in H.
    - injection H as H1 H2 H3. subst. exact Hst.
    - destruct (rec st e) as [[h1 st1]|] eqn:Er; [|discriminate].
      apply (IH _ _ _ _ _ _ (Hrec _ _ _ _ Hst Er) H).
  Qed.

  Lemma resolve_node_NoDup : forall fuel st name h st',
    NoDup (keys (fst st)) -> resolve_node NM fuel st name = Some (h, st') -> NoDup (keys (fst st')).
  Proof.
    induction fuel as [|f IH]; intros st name h st' Hst H; cbn [resolve_node] in H; [discriminate|].
    match type of H with (match ?t with Some _ => _ | None => _ end = _) =>
      destruct t as [els|] end; [|injection H as H1 H2; subst; exact Hst].
    match type of H with context [@lookup ?V name ?y] =>
      destruct (@lookup V name y) as [[|h0]|] end.
    - discriminate.
    - destruct (Nat.leb (S f) h0); [discriminate|]. injection H as H1 H2. subst. exact Hst.
    - match type of H with (match ?t with Some _ => _ | None => _ end = _) =>
        destruct t as [[[height [d m]] nel]|] eqn:Ei end; [|discriminate].
      injection H as H1 H2. subst. cbn [fst].
      apply set_NoDup.
      apply (ingredients_loop_NoDup (resolve_node NM f) IH _ (fst st, set name InProgress (snd st)) _ _ _ _ _ Hst Ei).
  Qed.

  Lemma resolve_all_NoDup : forall maxdepth order st st',
    NoDup (keys (fst st)) -> resolve_all NM maxdepth order st = Some st' -> NoDup (keys (fst st')).
  Proof.
    intros maxdepth order. induction order as [|name rest IH]; intros st st' Hst H; cbn [resolve_all] in H.
    - injection H as H. subst. exact Hst.
    - destruct (resolve_node NM maxdepth st name) as [[h st1]|] eqn:Er; [|discriminate].
      apply (IH _ _ (resolve_node_NoDup _ _ _ _ _ Hst Er) H).
  Qed.

  Theorem resolved_db_NoDup : forall (w : world) (op : options) o d,
    resolved_db NM w op o = inr d -> NoDup (keys d).
  Proof.
    intros w op o d H. unfold resolved_db in H. pose proof (load_db_NoDup o) as Hl.
    destruct (load_db NM o) as [d0 [e|]]; [discriminate|]. cbn [fst] in Hl.
    unfold resolve in H.
    match type of H with context [option_map fst ?t] => destruct t as [[d1 m1]|] eqn:Er end;
      [|discriminate].
    cbn [option_map fst] in H. injection H as H. subst d1.
    apply (resolve_all_NoDup _ _ (d0, []) (d, m1) Hl Er).
  Qed.
End Book.
