(** WP02 (C01) – structure of the reference value [ref_node]: no [Num] law is used.
    - the loop over the ingredients is one merge of the concatenated contributions
    - sortedness / uniqueness of names, leaves are undefined names,
      names = ends of ingredient paths, undefined names stand for themselves
    - [ref_node f r = None <-> reach f r], fuel independence. *)
From Coq Require Import Lia ZifyBool ZifyNat ZifyN Permutation Sorted.
From HP Require Import Base.Bytes Base.Num Model.Elements Model.Resolver Spec.ResolverSpec.
From HP Require Import Proofs.ResolverValueBytes.

Section Struct.
  Context (NM : Num).
  Notation T := (T NM).
  Notation elements := (elements NM).
  Notation db := (db NM).

  (** ** merging a list of (name, amount) pairs into an accumulator *)
  Definition scale (m : T) (nv : bytes * T) : bytes * T := (fst nv, mul NM (snd nv) m).

  Definition merge_into (acc l : elements) : elements :=
    fold_left (fun acc nv => add_to NM (fst nv) (snd nv) acc) l acc.

  Lemma merge_into_nil : forall acc, merge_into acc [] = acc.
  Proof. reflexivity. Qed.

  Lemma merge_into_cons : forall acc p l, merge_into acc (p :: l) = merge_into (add_to NM (fst p) (snd p) acc) l.
  Proof. reflexivity. Qed.

  Lemma merge_into_app : forall l1 l2 acc, merge_into acc (l1 ++ l2) = merge_into (merge_into acc l1) l2.
  Proof. intros l1 l2 acc. unfold merge_into. apply fold_left_app. Qed.

  Lemma sum_merge_merge_into : forall left el m, sum_merge NM el left m = merge_into el (map (scale m) left).
  Proof.
    induction left as [|[n v] left IH]; intros el m; [reflexivity|].
    rewrite sum_merge_cons. cbn [map]. rewrite merge_into_cons. unfold scale at 1 2. cbn [fst snd].
    apply IH.
  Qed.

  Lemma merge_into_names_iff : forall l acc x,
    In x (map fst (merge_into acc l)) <-> In x (map fst acc) \/ In x (map fst l).
  Proof.
    induction l as [|[n v] l IH]; intros acc x.
    - rewrite merge_into_nil. cbn [map In]. tauto.
    - rewrite merge_into_cons, IH, add_to_names_iff. cbn [map fst snd In].
      split; intros H; intuition (subst; auto).
  Qed.

  Lemma merge_into_NoDup : forall l acc, NoDup (map fst acc) -> NoDup (map fst (merge_into acc l)).
  Proof.
    induction l as [|[n v] l IH]; intros acc H; [exact H|].
    rewrite merge_into_cons. apply IH. apply add_to_NoDup. exact H.
  Qed.

  Lemma scale_names : forall m l, map fst (map (scale m) l) = map fst l.
  Proof. intros m l. rewrite map_map. apply map_ext. intros [n v]. reflexivity. Qed.

  (** when the incoming names are new and pairwise distinct, merging is appending *)
  Lemma merge_into_fresh : forall l acc,
    NoDup (map fst l) -> (forall x, In x (map fst l) -> ~ In x (map fst acc)) ->
    merge_into acc l = acc ++ l.
  Proof.
    induction l as [|[n v] l IH]; intros acc Hnd Hdisj.
    - rewrite merge_into_nil, app_nil_r. reflexivity.
    - rewrite merge_into_cons. cbn [fst snd]. cbn [map fst] in Hnd, Hdisj.
      inversion Hnd as [|k ks Hout Hnd']; subst.
      rewrite add_to_fresh by (apply Hdisj; left; reflexivity).
      rewrite IH.
      + rewrite <- app_assoc. reflexivity.
      + exact Hnd'.
      + intros x Hx. rewrite map_app, in_app_iff. cbn [map fst In].
        intros [H|[H|[]]].
        * apply (Hdisj x); [right; exact Hx|exact H].
        * subst. contradiction.
  Qed.

  (** ** what one ingredient contributes to the list being built *)
  Definition contrib (e : bytes) (v : T) (res : option elements) : elements :=
    match res with
    | Some found => map (scale v) found
    | None => [(e, mul NM v (one NM))]
    end.

  Lemma step_contrib : forall nel e v res,
    match res with
    | Some found => sum_merge NM nel found v
    | None => sum_merge NM nel [(e, v)] (one NM)
    end = merge_into nel (contrib e v res).
  Proof.
    intros nel e v [found|]; cbn [contrib].
    - apply sum_merge_merge_into.
    - reflexivity.
  Qed.

  (** ** the ingredient loop, characterised *)
  Section LoopFacts.
    Context (rec : bytes -> option (nat * option elements)).

    (** [loop_rel h ev c]: the recursive call on ingredient [ev] succeeded with a
        height below [h] and [c] is what it contributes *)
    Definition loop_rel (h : nat) (ev : bytes * T) (c : elements) : Prop :=
      exists he res, rec (fst ev) = Some (he, res) /\ (S he <= h)%nat /\ c = contrib (fst ev) (snd ev) res.

    Lemma loop_rel_mono : forall h h' ev c, (h <= h')%nat -> loop_rel h ev c -> loop_rel h' ev c.
    Proof.
      intros h h' ev c Hle [he [res [H1 [H2 H3]]]]. exists he, res. repeat split; try assumption. lia.
    Qed.

    Lemma ref_loop_char : forall els nel ht h out,
      ref_loop NM rec els nel ht = Some (h, out) ->
      (ht <= h)%nat /\
      exists cs, Forall2 (loop_rel h) els cs /\ out = merge_into nel (concat cs).
    Proof.
      induction els as [|[e v] els IH]; intros nel ht h out H; cbn [ref_loop] in H.
      - injection H as H1 H2. subst. split; [lia|]. exists []. split; [constructor|reflexivity].
      - destruct (rec e) as [[he res]|] eqn:Erec; [|discriminate].
        rewrite step_contrib in H. apply IH in H. destruct H as [Hle [cs [HF Hout]]].
        split; [lia|]. exists (contrib e v res :: cs). split.
        + constructor; [|exact HF]. exists he, res. cbn [fst snd]. repeat split; [exact Erec|lia].
        + cbn [concat]. rewrite merge_into_app. exact Hout.
    Qed.

    Lemma ref_loop_None : forall els nel ht,
      ref_loop NM rec els nel ht = None -> exists e v, In (e, v) els /\ rec e = None.
    Proof.
      induction els as [|[e v] els IH]; intros nel ht H; cbn [ref_loop] in H; [discriminate|].
      destruct (rec e) as [[he res]|] eqn:Erec.
      - apply IH in H. destruct H as [e' [v' [Hin Hn]]]. exists e', v'. split; [right; exact Hin|exact Hn].
      - exists e, v. split; [left; reflexivity|exact Erec].
    Qed.

    Lemma ref_loop_None_intro : forall els nel ht e v,
      In (e, v) els -> rec e = None -> ref_loop NM rec els nel ht = None.
    Proof.
      induction els as [|[e0 v0] els IH]; intros nel ht e v Hin Hn; [destruct Hin|].
      cbn [ref_loop]. destruct (rec e0) as [[he res]|] eqn:Erec.
      - destruct Hin as [Hin|Hin].
        + injection Hin as H1 H2. subst. congruence.
        + eapply IH; eassumption.
      - reflexivity.
    Qed.
  End LoopFacts.

  (** the loop only looks at [rec] on the ingredients, and only needs agreement
      on results whose height is below the final one *)
  Lemma ref_loop_ext_bound : forall rec1 rec2 els nel ht h out,
    ref_loop NM rec1 els nel ht = Some (h, out) ->
    (forall e v he res, In (e, v) els -> rec1 e = Some (he, res) -> (S he <= h)%nat -> rec2 e = Some (he, res)) ->
    ref_loop NM rec2 els nel ht = Some (h, out).
  Proof.
    intros rec1 rec2. induction els as [|[e v] els IH]; intros nel ht h out H Hag; cbn [ref_loop] in *.
    - exact H.
    - destruct (rec1 e) as [[he res]|] eqn:Erec; [|discriminate].
      pose proof (ref_loop_char _ _ _ _ _ _ H) as [Hle _].
      rewrite (Hag e v he res (or_introl eq_refl) Erec) by lia.
      apply IH; [exact H|]. intros e' v' he' res' Hin. apply (Hag e' v'). right. exact Hin.
  Qed.

  Lemma ref_loop_ext : forall rec1 rec2 els nel ht,
    (forall e v, In (e, v) els -> rec1 e = rec2 e) ->
    ref_loop NM rec1 els nel ht = ref_loop NM rec2 els nel ht.
  Proof.
    intros rec1 rec2. induction els as [|[e v] els IH]; intros nel ht Hag; cbn [ref_loop]; [reflexivity|].
    rewrite <- (Hag e v (or_introl eq_refl)). destruct (rec1 e) as [[he res]|]; [|reflexivity].
    apply IH. intros e' v' Hin. apply (Hag e' v'). right. exact Hin.
  Qed.

  (** ** [ref_node] *)
  Variable B : db.

  Lemma ref_node_S : forall f name,
    ref_node NM B (S f) name =
    match lookup name B with
    | None => Some (O, None)
    | Some els =>
        match ref_loop NM (ref_node NM B f) els [] O with
        | None => None
        | Some (h, nel) => Some (h, Some (sort_elements NM nel))
        end
    end.
  Proof. reflexivity. Qed.

  (** inversion of a successful resolution of a recipe *)
  Lemma ref_node_Some_inv : forall f r h v,
    ref_node NM B f r = Some (h, Some v) ->
    exists f' els nel, f = S f' /\ lookup r B = Some els /\
      ref_loop NM (ref_node NM B f') els [] O = Some (h, nel) /\ v = sort_elements NM nel.
  Proof.
    intros [|f'] r h v H; [discriminate|]. rewrite ref_node_S in H.
    destruct (lookup r B) as [els|] eqn:El; [|discriminate].
    destruct (ref_loop NM (ref_node NM B f') els [] O) as [[h' nel]|] eqn:Eloop; [|discriminate].
    injection H as H1 H2. subst. exists f', els, nel. repeat split; assumption.
  Qed.

  (** inversion of "not a recipe" *)
  Lemma ref_node_None_res_inv : forall f r h, ref_node NM B f r = Some (h, None) -> lookup r B = None /\ h = O.
  Proof.
    intros [|f'] r h H; [discriminate|]. rewrite ref_node_S in H.
    destruct (lookup r B) as [els|] eqn:El.
    - destruct (ref_loop NM (ref_node NM B f') els [] O) as [[h' nel]|]; discriminate.
    - injection H as H. split; [reflexivity|congruence].
  Qed.

  Lemma ref_node_defined_is_recipe : forall f r h v, ref_node NM B f r = Some (h, Some v) -> exists els, lookup r B = Some els.
  Proof.
    intros f r h v H. apply ref_node_Some_inv in H. destruct H as [f' [els [nel [_ [H _]]]]]. eauto.
  Qed.

  (** the unsorted list, as one merge *)
  Lemma ref_node_value_char : forall f r h v,
    ref_node NM B f r = Some (h, Some v) ->
    exists f' els cs, f = S f' /\ lookup r B = Some els /\
      Forall2 (loop_rel (ref_node NM B f') h) els cs /\
      v = sort_elements NM (merge_into [] (concat cs)).
  Proof.
    intros f r h v H. apply ref_node_Some_inv in H. destruct H as [f' [els [nel [Hf [Hl [Hloop Hv]]]]]].
    apply ref_loop_char in Hloop. destruct Hloop as [_ [cs [HF Hout]]].
    exists f', els, cs. subst. repeat split; assumption.
  Qed.

  (** *** 1a. the value is strictly sorted by name, so names are unique *)
  Lemma ref_value_sorted_lemma : forall f r h v,
    ref_node NM B f r = Some (h, Some v) ->
    StronglySorted (fun x y => bltb (fst x) (fst y) = true) v /\ NoDup (map fst v).
  Proof.
    intros f r h v H. apply ref_node_value_char in H.
    destruct H as [f' [els [cs [_ [_ [_ Hv]]]]]].
    assert (Hs : StronglySorted (lt_name NM) v).
    { subst v. apply sort_elements_sorted. apply merge_into_NoDup. constructor. }
    split; [exact Hs|]. apply sorted_names_NoDup. exact Hs.
  Qed.

  (** names of the value = names contributed by some ingredient *)
  Lemma ref_value_names_contrib : forall f r h v x,
    ref_node NM B f r = Some (h, Some v) ->
    exists f' els cs, f = S f' /\ lookup r B = Some els /\
      Forall2 (loop_rel (ref_node NM B f') h) els cs /\
      (In x (map fst v) <-> exists c, In c cs /\ In x (map fst c)).
  Proof.
    intros f r h v x H. apply ref_node_value_char in H.
    destruct H as [f' [els [cs [Hf [Hl [HF Hv]]]]]]. exists f', els, cs. repeat split; try assumption.
    - intro Hin. subst v. rewrite sort_elements_names_iff, merge_into_names_iff in Hin.
      destruct Hin as [[]|Hin]. apply in_map_iff in Hin. destruct Hin as [[x' a] [Hx Hin]].
      cbn [fst] in Hx. subst x'. apply in_concat in Hin. destruct Hin as [c [Hc Hin]].
      exists c. split; [exact Hc|]. apply (in_map fst) in Hin. exact Hin.
    - intros [c [Hc Hin]]. subst v. rewrite sort_elements_names_iff, merge_into_names_iff. right.
      apply in_map_iff in Hin. destruct Hin as [[x' a] [Hx Hin]]. cbn [fst] in Hx. subst x'.
      apply in_map_iff. exists (x, a). split; [reflexivity|]. apply in_concat. exists c. split; assumption.
  Qed.

  Lemma Forall2_In_r : forall {X Y} (R : X -> Y -> Prop) xs ys y,
    Forall2 R xs ys -> In y ys -> exists x, In x xs /\ R x y.
  Proof.
    intros X Y R xs ys y HF. induction HF as [|x0 y0 xs ys HR HF IH]; intro Hin; [destruct Hin|].
    destruct Hin as [Hin|Hin].
    - subst. exists x0. split; [left; reflexivity|exact HR].
    - destruct (IH Hin) as [x [Hx HRx]]. exists x. split; [right; exact Hx|exact HRx].
  Qed.

  Lemma Forall2_In_l : forall {X Y} (R : X -> Y -> Prop) xs ys x,
    Forall2 R xs ys -> In x xs -> exists y, In y ys /\ R x y.
  Proof.
    intros X Y R xs ys x HF. induction HF as [|x0 y0 xs ys HR HF IH]; intro Hin; [destruct Hin|].
    destruct Hin as [Hin|Hin].
    - subst. exists y0. split; [left; reflexivity|exact HR].
    - destruct (IH Hin) as [y [Hy HRy]]. exists y. split; [right; exact Hy|exact HRy].
  Qed.

  (** *** 1b. no recipe name is left in a value *)
  Lemma ref_value_leaves_undefined_names : forall f r h v x,
    ref_node NM B f r = Some (h, Some v) -> In x (map fst v) -> lookup x B = None.
  Proof.
    induction f as [|f IH]; intros r h v x H Hin; [discriminate|].
    destruct (ref_value_names_contrib _ _ _ _ x H) as [f' [els [cs [Hf [Hl [HF Hiff]]]]]].
    injection Hf as Hf. subst f'. apply Hiff in Hin. destruct Hin as [c [Hc Hin]].
    destruct (Forall2_In_r _ _ _ _ HF Hc) as [[e a] [He [he [res [Hrec [_ Hcon]]]]]].
    cbn [fst snd] in *. subst c. destruct res as [found|]; cbn [contrib] in Hin.
    - rewrite scale_names in Hin. eapply IH; eassumption.
    - cbn [map fst In] in Hin. destruct Hin as [Hin|[]]. subst x.
      apply ref_node_None_res_inv in Hrec. apply Hrec.
  Qed.

  Lemma ref_value_leaves_undefined_lemma : forall f r h v x a,
    ref_node NM B f r = Some (h, Some v) -> In (x, a) v -> lookup x B = None.
  Proof.
    intros f r h v x a H Hin. eapply ref_value_leaves_undefined_names; [exact H|].
    apply (in_map fst) in Hin. exact Hin.
  Qed.

  (** *** 1c. the names of the value are exactly the ends of the ingredient paths *)
  Lemma occurs_iff : forall x (l : list (bytes * T)), occurs NM x l = true <-> In x (map fst l).
  Proof.
    intros x l. unfold occurs. rewrite existsb_exists. split.
    - intros [p [Hp He]]. apply beq_true_iff in He. subst. apply in_map. exact Hp.
    - intro H. apply in_map_iff in H. destruct H as [p [Hp Hin]]. exists p. split; [exact Hin|].
      apply beq_true_iff. exact Hp.
  Qed.

  Lemma paths_S : forall f r,
    paths NM B (S f) r =
    match lookup r B with
    | None => [(r, one NM)]
    | Some els => flat_map (fun ev => map (scale (snd ev)) (paths NM B f (fst ev))) els
    end.
  Proof. reflexivity. Qed.

  Lemma paths_names_recipe : forall f r els x,
    lookup r B = Some els ->
    (In x (map fst (paths NM B (S f) r)) <-> exists e v, In (e, v) els /\ In x (map fst (paths NM B f e))).
  Proof.
    intros f r els x Hl. rewrite paths_S, Hl. split.
    - intro H. apply in_map_iff in H. destruct H as [[x' a] [Hx Hin]]. cbn [fst] in Hx. subst x'.
      apply in_flat_map in Hin. destruct Hin as [[e v] [He Hin]]. cbn [fst snd] in Hin.
      exists e, v. split; [exact He|]. apply (in_map fst) in Hin. rewrite scale_names in Hin. exact Hin.
    - intros [e [v [He Hin]]]. rewrite <- (scale_names v) in Hin.
      apply in_map_iff in Hin. destruct Hin as [[x' a] [Hx Hin]]. cbn [fst] in Hx. subst x'.
      apply in_map_iff. exists (x, a). split; [reflexivity|]. apply in_flat_map.
      exists (e, v). split; [exact He|exact Hin].
  Qed.

  Lemma ref_value_names_paths : forall f r h v x,
    ref_node NM B f r = Some (h, Some v) -> (In x (map fst v) <-> In x (map fst (paths NM B f r))).
  Proof.
    induction f as [|f IH]; intros r h v x H; [discriminate|].
    destruct (ref_value_names_contrib _ _ _ _ x H) as [f' [els [cs [Hf [Hl [HF Hiff]]]]]].
    injection Hf as Hf. subst f'. rewrite Hiff, (paths_names_recipe _ _ _ _ Hl).
    (* per ingredient: names contributed = names of its paths *)
    assert (Hper : forall e a c, loop_rel (ref_node NM B f) h (e, a) c ->
                   (In x (map fst c) <-> In x (map fst (paths NM B f e)))).
    { intros e a c [he [res [Hrec [_ Hcon]]]]. cbn [fst snd] in *. subst c.
      destruct res as [found|]; cbn [contrib].
      - rewrite scale_names. eapply IH. exact Hrec.
      - destruct f as [|f0]; [discriminate|].
        apply ref_node_None_res_inv in Hrec. destruct Hrec as [Hrec _].
        rewrite paths_S, Hrec. reflexivity. }
    split.
    - intros [c [Hc Hin]]. destruct (Forall2_In_r _ _ _ _ HF Hc) as [[e a] [He Hrel]].
      exists e, a. split; [exact He|]. apply (Hper e a c Hrel). exact Hin.
    - intros [e [a [He Hin]]]. destruct (Forall2_In_l _ _ _ _ HF He) as [c [Hc Hrel]].
      exists c. split; [exact Hc|]. apply (Hper e a c Hrel). exact Hin.
  Qed.

  Lemma ref_value_names_are_path_ends_lemma : forall f r h v x,
    ref_node NM B f r = Some (h, Some v) ->
    (In x (map fst v) <-> occurs NM x (paths NM B f r) = true).
  Proof.
    intros f r h v x H. rewrite occurs_iff. eapply ref_value_names_paths. exact H.
  Qed.

  (** *** 1d. a name the book does not define stands for itself *)
  Lemma undefined_is_itself_lemma : forall f x,
    lookup x B = None ->
    paths NM B (S f) x = [(x, one NM)] /\ ref_node NM B (S f) x = Some (O, None).
  Proof.
    intros f x H. rewrite paths_S, ref_node_S, H. split; reflexivity.
  Qed.

  (** ends of paths are undefined names (needs no success of [ref_node]) *)
  Lemma paths_ends_undefined : forall f r x, In x (map fst (paths NM B f r)) -> lookup x B = None.
  Proof.
    induction f as [|f IH]; intros r x H; [destruct H|].
    destruct (lookup r B) as [els|] eqn:El.
    - apply (paths_names_recipe _ _ _ _ El) in H. destruct H as [e [v [_ Hin]]]. eapply IH. exact Hin.
    - rewrite paths_S, El in H. cbn [map fst In] in H. destruct H as [H|[]]. congruence.
  Qed.

  (** ** failure = a chain of [fuel] references *)
  Lemma reach_S : forall n r,
    reach NM B (S n) r <-> exists els, lookup r B = Some els /\ exists e v, In (e, v) els /\ reach NM B n e.
  Proof. reflexivity. Qed.

  Lemma ref_node_None_reach : forall f r, ref_node NM B f r = None -> reach NM B f r.
  Proof.
    induction f as [|f IH]; intros r H; [exact I|].
    rewrite ref_node_S in H. destruct (lookup r B) as [els|] eqn:El; [|discriminate].
    destruct (ref_loop NM (ref_node NM B f) els [] O) as [[h nel]|] eqn:Eloop; [discriminate|].
    apply ref_loop_None in Eloop. destruct Eloop as [e [v [Hin Hn]]].
    apply reach_S. exists els. split; [exact El|]. exists e, v. split; [exact Hin|]. apply IH. exact Hn.
  Qed.

  Lemma reach_ref_node_None : forall f r, reach NM B f r -> ref_node NM B f r = None.
  Proof.
    induction f as [|f IH]; intros r H; [reflexivity|].
    apply reach_S in H. destruct H as [els [El [e [v [Hin Hr]]]]].
    rewrite ref_node_S, El. erewrite ref_loop_None_intro; [reflexivity|exact Hin|]. apply IH. exact Hr.
  Qed.

  Lemma ref_node_None_iff_reach : forall f r, ref_node NM B f r = None <-> reach NM B f r.
  Proof. intros f r. split; [apply ref_node_None_reach|apply reach_ref_node_None]. Qed.

  Lemma ref_node_defined : forall f r, ~ reach NM B f r -> exists h res, ref_node NM B f r = Some (h, res).
  Proof.
    intros f r H. destruct (ref_node NM B f r) as [[h res]|] eqn:E; [eauto|].
    exfalso. apply H. apply ref_node_None_reach. exact E.
  Qed.

  (** every recipe of a book nested less deeply than the limit resolves *)
  Lemma ref_node_recipe_defined : forall N r,
    depth_lt NM B N -> In r (keys B) -> exists h v, ref_node NM B N r = Some (h, Some v).
  Proof.
    intros N r Hd Hin. destruct (ref_node_defined N r (Hd r Hin)) as [h [[v|] H]]; [eauto|].
    exfalso. apply ref_node_None_res_inv in H. destruct H as [H _].
    apply lookup_None_iff in H. contradiction.
  Qed.

  Lemma reach_antitone : forall n r, reach NM B (S n) r -> reach NM B n r.
  Proof.
    induction n as [|n IH]; intros r H; [exact I|].
    apply reach_S in H. destruct H as [els [El [e [v [Hin Hr]]]]].
    apply reach_S. exists els. split; [exact El|]. exists e, v. split; [exact Hin|]. apply IH. exact Hr.
  Qed.

  Lemma reach_le : forall n m r, (n <= m)%nat -> reach NM B m r -> reach NM B n r.
  Proof.
    intros n m r Hle. induction Hle as [|m Hle IH]; intro H; [exact H|].
    apply IH. apply reach_antitone. exact H.
  Qed.

  (** ** fuel independence *)
  Lemma ref_node_height_lt : forall f r h res, ref_node NM B f r = Some (h, res) -> (h < f)%nat.
  Proof.
    induction f as [|f IH]; intros r h res H; [discriminate|].
    rewrite ref_node_S in H. destruct (lookup r B) as [els|] eqn:El.
    - destruct (ref_loop NM (ref_node NM B f) els [] O) as [[h' nel]|] eqn:Eloop; [|discriminate].
      injection H as H1 H2. subst h'.
      (* the height of a loop is 0 or S of a sub-height *)
      assert (Hgen : forall els nel ht h out,
                 ref_loop NM (ref_node NM B f) els nel ht = Some (h, out) -> (ht <= f)%nat -> (h <= f)%nat).
      { clear - IH. induction els as [|[e v] els IHe]; intros nel ht h out H Hle; cbn [ref_loop] in H.
        - injection H as H1 H2. lia.
        - destruct (ref_node NM B f e) as [[he res]|] eqn:Erec; [|discriminate].
          apply IH in Erec. eapply IHe; [exact H|]. lia. }
      specialize (Hgen _ _ _ _ _ Eloop). lia.
    - injection H as H1 H2. lia.
  Qed.

  Lemma ref_node_fuel_indep : forall f r h res,
    ref_node NM B f r = Some (h, res) -> forall g, (h < g)%nat -> ref_node NM B g r = Some (h, res).
  Proof.
    induction f as [|f IH]; intros r h res H g Hg; [discriminate|].
    destruct g as [|g]; [lia|]. rewrite ref_node_S in H |- *.
    destruct (lookup r B) as [els|] eqn:El; [|exact H].
    destruct (ref_loop NM (ref_node NM B f) els [] O) as [[h' nel]|] eqn:Eloop; [|discriminate].
    injection H as H1 H2. subst h'.
    erewrite ref_loop_ext_bound; [|exact Eloop|].
    - rewrite H2. reflexivity.
    - intros e v he rese _ Hrec Hle. eapply IH; [exact Hrec|]. lia.
  Qed.

  Lemma ref_node_fuel_mono : forall f g r h res,
    ref_node NM B f r = Some (h, res) -> (f <= g)%nat -> ref_node NM B g r = Some (h, res).
  Proof.
    intros f g r h res H Hle. eapply ref_node_fuel_indep; [exact H|].
    apply ref_node_height_lt in H. lia.
  Qed.

  Lemma paths_fuel_indep_S : forall f r, ~ reach NM B f r -> paths NM B (S f) r = paths NM B f r.
  Proof.
    induction f as [|f IH]; intros r H; [exfalso; apply H; exact I|].
    rewrite (paths_S (S f)), (paths_S f). destruct (lookup r B) as [els|] eqn:El; [|reflexivity].
    assert (Hsub : forall e v, In (e, v) els -> ~ reach NM B f e).
    { intros e v Hin Hr. apply H. apply reach_S. exists els. split; [exact El|]. exists e, v. split; assumption. }
    clear El H. induction els as [|[e v] els IHe]; [reflexivity|].
    cbn [flat_map fst snd]. rewrite (IH e) by (eapply Hsub; left; reflexivity).
    f_equal. apply IHe. intros e' v' Hin. apply (Hsub e' v'). right. exact Hin.
  Qed.

  Lemma paths_fuel_indep : forall f r, ~ reach NM B f r -> forall g, (f <= g)%nat -> paths NM B g r = paths NM B f r.
  Proof.
    intros f r H g Hle. induction Hle as [|g Hle IH]; [reflexivity|].
    rewrite paths_fuel_indep_S; [exact IH|]. intro Hr. apply H. eapply reach_le; [|exact Hr]. exact Hle.
  Qed.
End Struct.
