(** WP11: report element-total vs csv database-resolved (law-free). *)
From HP Require Import Base.Bytes Base.Utf8 Base.Num Model.Scanner Model.Parser Model.Elements Model.Resolver
  Model.Dates Model.Tree Model.Writer Model.Reporters Model.Cli
  Spec.Agree2Spec Proofs.AgreeMiscBase.
From Coq Require Import Lia Permutation Sorted.

Section Elem.
  Context (NM : Num).
  Notation T := (T NM).
  Notation elements := (elements NM).
  Notation db := (list (bytes * elements)).

  (** *** the final sort by value is a permutation *)
  Lemma go_insert_perm : forall less x (revl : elements), Permutation (go_insert NM less x revl) (x :: revl).
  Proof.
    intros less x revl. induction revl as [|y r IH]; cbn [go_insert]; [apply Permutation_refl|].
    destruct (less x y); [|apply Permutation_refl].
    eapply perm_trans; [apply perm_skip; exact IH | apply perm_swap].
  Qed.

  Lemma sort_by_value_perm : forall desc (l : elements), Permutation (sort_by_value NM desc l) l.
  Proof.
    intros desc l. unfold sort_by_value.
    assert (G : forall acc, Permutation (fold_left (fun revl x => go_insert NM (value_less NM desc) x revl) l acc) (rev l ++ acc)).
    { induction l as [|x r IH]; intro acc; cbn [fold_left rev]; [apply Permutation_refl|].
      eapply perm_trans; [apply IH|]. rewrite <- app_assoc. apply Permutation_app_head.
      cbn [app]. apply go_insert_perm. }
    eapply perm_trans; [apply Permutation_sym, Permutation_rev|].
    eapply perm_trans; [apply G|]. rewrite app_nil_r. apply Permutation_sym, Permutation_rev.
  Qed.

  (** *** list plumbing *)
  Lemma filter_flat_map : forall {A B} (p : B -> bool) (f : A -> list B) l,
    filter p (flat_map f l) = flat_map (fun x => filter p (f x)) l.
  Proof.
    intros A B p f l. induction l as [|x r IH]; cbn [flat_map]; [reflexivity|]. rewrite filter_app, IH. reflexivity.
  Qed.

  Lemma map_flat_map : forall {A B C} (g : B -> C) (f : A -> list B) l,
    map g (flat_map f l) = flat_map (fun x => map g (f x)) l.
  Proof.
    intros A B C g f l. induction l as [|x r IH]; cbn [flat_map]; [reflexivity|]. rewrite map_app, IH. reflexivity.
  Qed.

  Lemma flat_map_ext' : forall {A B} (f g : A -> list B) l, (forall x, f x = g x) -> flat_map f l = flat_map g l.
  Proof. intros A B f g l H. induction l as [|x r IH]; cbn [flat_map]; [reflexivity|]. rewrite H, IH. reflexivity. Qed.

  Definition triple_row (t : bytes * bytes * T) : list bytes := [tr_recipe NM t; tr_elem NM t; f2 NM (tr_val NM t)].

  (** the rows of [csv database-resolved] are the renderings of the triples *)
  Lemma resolved_csv_rows_triples : forall π (d : db),
    resolved_csv_rows NM π d = map triple_row (resolved_triples NM π d).
  Proof.
    intros π d. unfold resolved_csv_rows, resolved_triples. rewrite map_flat_map. apply flat_map_ext'. intro r.
    unfold get. destruct (lookup r d) as [els|]; [|reflexivity].
    unfold csv_db_rows. rewrite map_map. reflexivity.
  Qed.

  (** element-total selects the triples of element [x] and projects them to (recipe, value) *)
  Lemma element_total_list_triples : forall π (d : db) x,
    element_total_list NM π d x
    = map (fun t => (tr_recipe NM t, tr_val NM t)) (filter (fun t => beq (tr_elem NM t) x) (resolved_triples NM π d)).
  Proof.
    intros π d x. unfold element_total_list, resolved_triples. rewrite filter_flat_map, map_flat_map.
    apply flat_map_ext'. intro r. unfold get. destruct (lookup r d) as [els|]; [|reflexivity].
    induction els as [|[k v] rest IH]; cbn [flat_map map filter]; [reflexivity|].
    unfold tr_elem at 1. cbn [fst snd]. destruct (beq k x); cbn [map app]; rewrite IH; reflexivity.
  Qed.

  Lemma csv_rows_of_element : forall π (d : db) x,
    filter (fun row => beq (field 1 row) x) (resolved_csv_rows NM π d)
    = map (fun nv => [fst nv; x; f2 NM (snd nv)]) (element_total_list NM π d x).
  Proof.
    intros π d x. rewrite resolved_csv_rows_triples, element_total_list_triples, map_map.
    induction (resolved_triples NM π d) as [|t r IH]; cbn [map filter]; [reflexivity|].
    change (field 1 (triple_row t)) with (tr_elem NM t).
    destruct (beq_spec (tr_elem NM t) x) as [E|E]; cbn [map]; rewrite IH; [|reflexivity].
    f_equal. unfold triple_row. rewrite E. reflexivity.
  Qed.

  (** *** with unique recipe names and a permutation oracle, the recipes are those of the book, sorted *)
  Lemma resolved_recipes_spec : forall π (d : db),
    NoDup (keys d) -> (forall l, Permutation (π l) l) ->
    sort_bytes (π (keys d)) = sort_bytes (keys d)
    /\ Permutation (sort_bytes (π (keys d))) (keys d)
    /\ StronglySorted (fun a c => bleb a c = true) (sort_bytes (π (keys d)))
    /\ NoDup (sort_bytes (π (keys d)))
    /\ (forall r, In r (sort_bytes (π (keys d))) -> In (r, get NM r d) d).
  Proof.
    intros π d ND Hπ.
    assert (HP : Permutation (sort_bytes (π (keys d))) (keys d)).
    { eapply perm_trans; [apply sort_bytes_perm | apply Hπ]. }
    split; [apply sort_bytes_perm_eq, Hπ|]. split; [exact HP|]. split; [apply sort_bytes_sorted|].
    split; [eapply Permutation_NoDup; [apply Permutation_sym; exact HP | exact ND]|].
    intros r Hr. apply (Permutation_in _ HP) in Hr. destruct (lookup_In_keys _ _ Hr) as [els Hl].
    unfold get. rewrite Hl. apply lookup_Some_In. exact Hl.
  Qed.

  (** *** element_total_eq_resolved_csv *)
  Theorem element_total_eq_resolved_csv_gen : forall π (d : db) x desc,
    let ts := resolved_triples NM π d in
    resolved_csv_rows NM π d = map (fun t => [tr_recipe NM t; tr_elem NM t; f2 NM (tr_val NM t)]) ts
    /\ element_total_list NM π d x
       = map (fun t => (tr_recipe NM t, tr_val NM t)) (filter (fun t => beq (tr_elem NM t) x) ts)
    /\ filter (fun row => beq (field 1 row) x) (resolved_csv_rows NM π d)
       = map (fun nv => [fst nv; x; f2 NM (snd nv)]) (element_total_list NM π d x)
    /\ Permutation (sort_by_value NM desc (element_total_list NM π d x)) (element_total_list NM π d x).
  Proof.
    intros π d x desc ts. split; [apply resolved_csv_rows_triples|]. split; [apply element_total_list_triples|].
    split; [apply csv_rows_of_element | apply sort_by_value_perm].
  Qed.

  Theorem element_total_eq_resolved_csv : forall π (d : db) x desc,
    NoDup (keys d) -> (forall l, Permutation (π l) l) ->
    let recipes := sort_bytes (π (keys d)) in
    let ts := flat_map (fun r => map (fun e => (r, fst e, snd e)) (get NM r d)) recipes in
    (* the recipes are the names of the book, each once, in sorted order, whatever the oracle *)
    (recipes = sort_bytes (keys d) /\ Permutation recipes (keys d)
     /\ StronglySorted (fun a c => bleb a c = true) recipes
     /\ forall r, In r recipes -> In (r, get NM r d) d)
    (* csv database-resolved: one row per (recipe, element) *)
    /\ resolved_csv_rows NM π d = map (fun t => [tr_recipe NM t; tr_elem NM t; f2 NM (tr_val NM t)]) ts
    (* element-total: the (recipe, value) pairs of element x, same order *)
    /\ element_total_list NM π d x
       = map (fun t => (tr_recipe NM t, tr_val NM t)) (filter (fun t => beq (tr_elem NM t) x) ts)
    (* hence: the CSV rows whose element field is x are exactly the element-total rows *)
    /\ filter (fun row => beq (field 1 row) x) (resolved_csv_rows NM π d)
       = map (fun nv => [fst nv; x; f2 NM (snd nv)]) (element_total_list NM π d x)
    (* and the final sort by value only reorders them *)
    /\ Permutation (sort_by_value NM desc (element_total_list NM π d x)) (element_total_list NM π d x).
  Proof.
    intros π d x desc ND Hπ recipes ts.
    destruct (resolved_recipes_spec π d ND Hπ) as [H1 [H2 [H3 [_ H5]]]].
    split; [repeat split; assumption|].
    apply (element_total_eq_resolved_csv_gen π d x desc).
  Qed.

  (** *** where the two commands use these lists *)
  Lemma run_csv_db_resolved_rows : forall (w : world) (op : options) odb d,
    open_all w [op_db op] = Some [odb] -> resolved_db NM w op odb = inr d ->
    run_csv_db_resolved NM w op
    = let wr := new_writer w in
      let '(wr1, e1) := bw_chunks wr (map (fun r => (csv_record r, true)) (resolved_csv_rows NM (o_flush (w_or w)) d)) in
      if e1 then finish wr1 (Failed EWrite)
      else let '(wr2, e2) := bw_flush wr1 in finish wr2 (if e2 then Failed EWrite else Ok).
  Proof.
    intros w op odb d Ho Hr. unfold run_csv_db_resolved. rewrite Ho, Hr. reflexivity.
  Qed.

  Lemma run_element_total_rows : forall (w : world) (op : options) x desc odb d,
    x <> [] -> open_all w [op_db op] = Some [odb] -> resolved_db NM w op odb = inr d ->
    run_element_total NM w op x desc
    = let wr := new_writer w in
      let l := sort_by_value NM desc (element_total_list NM (o_flush (w_or w)) d x) in
      if (has_nan NM l && Nat.ltb 20 (length l))%bool then finish wr (Failed (EUnmodelled (b "NaN in sort")))
      else
        let '(wr1, e1) := bw_chunks wr (map (element_total_line NM) l) in
        let '(wr2, e2) := if e1 then (wr1, true) else bw_flush wr1 in
        finish wr2 (if e2 then Failed EWrite else Ok).
  Proof.
    intros w op x desc odb d Hx Ho Hr. unfold run_element_total. destruct x as [|c x']; [contradiction|].
    rewrite Ho, Hr. reflexivity.
  Qed.
End Elem.

(** *** non-vacuity: a book with two recipes sharing the element "fat" *)
Definition ex_book : list (bytes * elements ZNum) :=
  [ (b "soup", [(b "fat", 3%Z); (b "salt", 1%Z)]);
    (b "cake", [(b "fat", 20%Z); (b "sugar", 30%Z)]) ].

Example ex_book_nodup : NoDup (keys ex_book).
Proof.
  constructor; [|constructor; [intros []|constructor]].
  intros [H|[]]. vm_compute in H. discriminate.
Qed.

Example ex_element_total :
  element_total_list ZNum (fun l => rev l) ex_book (b "fat") = [(b "cake", 20%Z); (b "soup", 3%Z)]
  /\ filter (fun row => beq (field 1 row) (b "fat")) (resolved_csv_rows ZNum (fun l => rev l) ex_book)
     = [[b "cake"; b "fat"; b "20"]; [b "soup"; b "fat"; b "3"]]
  /\ sort_by_value ZNum false (element_total_list ZNum (fun l => rev l) ex_book (b "fat"))
     = [(b "soup", 3%Z); (b "cake", 20%Z)].
Proof. vm_compute. repeat split; reflexivity. Qed.
