(** WP17 / C17 — the output path: a sink that fails from offset [k] on, and
    [bufio.Writer] in front of it.

    Contents:
    - facts about one [sink_write] ([sink_write_spec], [sink_full_rejects]);
    - the sticky error of [bw] ([bufio_sticky], [flush_reports]);
    - the simulation between a run against [Some k] and the same run against
      [None]: [ssim]/[bsim] (nothing lost so far: same buffer, same accepted
      bytes) and [sbad]/[bbad] (the limited side has failed: it is frozen with
      exactly the first [k] bytes of what the unlimited side has accepted,
      which is more than [k] bytes);
    - [bw_write_sim], [bw_flush_sim], [bw_chunks_sim]. *)
From Coq Require Import Lia Arith List.
From HP Require Import Base.Bytes Model.Writer.
Open Scope nat_scope.

(** * The sink *)

Lemma sink_write_limit : forall s p, s_limit (fst (sink_write s p)) = s_limit s.
Proof.
  intros s p. unfold sink_write. destruct (s_limit s) as [k|] eqn:E; [|reflexivity].
  destruct (Nat.leb (length p) (k - length (s_got s))); reflexivity.
Qed.

(** whatever the sink, a write only appends (a prefix of [p]) to what was accepted *)
Lemma sink_write_ext : forall s p, exists n, s_got (fst (sink_write s p)) = s_got s ++ firstn n p.
Proof.
  intros s p. unfold sink_write. destruct (s_limit s) as [k|].
  - destruct (Nat.leb (length p) (k - length (s_got s))); cbn [fst s_got].
    + exists (length p). now rewrite firstn_all.
    + eexists; reflexivity.
  - cbn [fst s_got]. exists (length p). now rewrite firstn_all.
Qed.

Lemma sink_write_none : forall s p, s_limit s = None ->
  sink_write s p = ({| s_limit := None; s_got := s_got s ++ p |}, false).
Proof. intros s p H. unfold sink_write. now rewrite H. Qed.

Lemma sink_write_fit : forall s p k, s_limit s = Some k -> length (s_got s) + length p <= k ->
  sink_write s p = ({| s_limit := Some k; s_got := s_got s ++ p |}, false).
Proof.
  intros s p k H Hl. unfold sink_write. rewrite H.
  destruct (Nat.leb_spec (length p) (k - length (s_got s))) as [_|Hc]; [reflexivity|lia].
Qed.

Lemma sink_write_nofit : forall s p k, s_limit s = Some k -> k < length (s_got s) + length p ->
  length (s_got s) <= k ->
  sink_write s p = ({| s_limit := Some k; s_got := s_got s ++ firstn (k - length (s_got s)) p |}, true).
Proof.
  intros s p k H Hl Hk. unfold sink_write. rewrite H.
  destruct (Nat.leb_spec (length p) (k - length (s_got s))) as [Hc|_]; [lia|reflexivity].
Qed.

(** [sink_write_spec]: for a sink with limit [k] that has accepted at most [k]
    bytes: the limit stays, at most [k] bytes are ever accepted, the accepted
    bytes grow by a prefix of [p]; no error iff the write fits, and then all of
    [p] is accepted; on error the sink is full. *)
Theorem sink_write_spec : forall s p k, s_limit s = Some k -> length (s_got s) <= k ->
  let s' := fst (sink_write s p) in
  let e := snd (sink_write s p) in
  s_limit s' = Some k /\ length (s_got s') <= k /\
  (exists n, s_got s' = s_got s ++ firstn n p) /\
  (e = false <-> length (s_got s) + length p <= k) /\
  (e = false -> s_got s' = s_got s ++ p) /\
  (e = true -> length (s_got s') = k /\ s_got s' = s_got s ++ firstn (k - length (s_got s)) p).
Proof.
  intros s p k H Hk.
  destruct (le_lt_dec (length (s_got s) + length p) k) as [Hf|Hn].
  - rewrite (sink_write_fit s p k H Hf). cbn [fst snd s_limit s_got].
    rewrite app_length. repeat split; try lia; try congruence; try discriminate.
    exists (length p). now rewrite firstn_all.
  - rewrite (sink_write_nofit s p k H Hn Hk). cbn [fst snd s_limit s_got].
    rewrite app_length, firstn_length.
    repeat split; try lia; try congruence; try discriminate.
    eexists; reflexivity.
Qed.

(** once the sink is full, every non-empty write errors and nothing more is accepted *)
Theorem sink_full_rejects : forall s p k, s_limit s = Some k -> length (s_got s) = k ->
  s_got (fst (sink_write s p)) = s_got s /\ (p <> [] -> snd (sink_write s p) = true).
Proof.
  intros s p k H Hk. destruct p as [|c p].
  - rewrite (sink_write_fit s [] k H) by (cbn; lia). cbn. rewrite app_nil_r. split; congruence.
  - rewrite (sink_write_nofit s (c :: p) k H) by (cbn [length]; lia). cbn [fst snd s_got].
    replace (k - length (s_got s)) with 0 by lia. cbn. rewrite app_nil_r. split; congruence.
Qed.

(** ** Simulation on sinks *)

(** nothing lost so far *)
Definition ssim (k : nat) (sl su : sink) : Prop :=
  s_limit sl = Some k /\ s_limit su = None /\ s_got sl = s_got su /\ length (s_got sl) <= k.

(** the limited sink has refused bytes: it holds exactly the first [k] bytes of
    what the unlimited sink holds, and the latter holds more *)
Definition sbad (k : nat) (sl su : sink) : Prop :=
  s_limit sl = Some k /\ k < length (s_got su) /\ s_got sl = firstn k (s_got su).

Lemma sbad_length : forall k sl su, sbad k sl su -> length (s_got sl) = k.
Proof. intros k sl su (_ & Hlt & Hg). rewrite Hg, firstn_length. lia. Qed.

Lemma sbad_grow : forall k sl su su', sbad k sl su ->
  (exists t, s_got su' = s_got su ++ t) -> sbad k sl su'.
Proof.
  intros k sl su su' (Hl & Hlt & Hg) [t Ht]. unfold sbad. rewrite Ht, app_length.
  repeat split; [assumption|lia|].
  rewrite firstn_app. replace (k - length (s_got su)) with 0 by lia.
  cbn. now rewrite app_nil_r.
Qed.

Lemma sbad_step_u : forall k sl su p, sbad k sl su -> sbad k sl (fst (sink_write su p)).
Proof.
  intros k sl su p H. apply (sbad_grow k sl su); [assumption|].
  destruct (sink_write_ext su p) as [n Hn]. eauto.
Qed.

Lemma sbad_step_l : forall k sl su p, sbad k sl su -> sbad k (fst (sink_write sl p)) su.
Proof.
  intros k sl su p H. pose proof (sbad_length _ _ _ H) as Hlen.
  destruct H as (Hl & Hlt & Hg).
  destruct (sink_full_rejects sl p k Hl Hlen) as [Hsame _].
  unfold sbad. rewrite sink_write_limit, Hsame. auto.
Qed.

Lemma sink_write_sim : forall k sl su p, ssim k sl su ->
  (ssim k (fst (sink_write sl p)) (fst (sink_write su p))
   /\ snd (sink_write sl p) = false /\ snd (sink_write su p) = false)
  \/ (sbad k (fst (sink_write sl p)) (fst (sink_write su p)) /\ snd (sink_write sl p) = true).
Proof.
  intros k sl su p (Hl & Hu & Hg & Hk).
  rewrite (sink_write_none su p Hu).
  destruct (le_lt_dec (length (s_got sl) + length p) k) as [Hf|Hn].
  - left. rewrite (sink_write_fit sl p k Hl Hf). cbn [fst snd]. unfold ssim. cbn [s_limit s_got].
    rewrite app_length, Hg. repeat split; try reflexivity. rewrite <- Hg. lia.
  - right. rewrite (sink_write_nofit sl p k Hl Hn Hk). cbn [fst snd]. unfold sbad. cbn [s_limit s_got].
    rewrite app_length, <- Hg. repeat split; try reflexivity; try lia.
    rewrite firstn_app. f_equal. symmetry. apply firstn_all2. lia.
Qed.

(** * The buffered writer *)

(** ** The sticky error *)

Lemma bw_write_err : forall w p, bw_err w = true -> bw_write w p = (w, true).
Proof. intros w p H. unfold bw_write. now rewrite H. Qed.

Lemma bw_flush_err : forall w, bw_err w = true -> bw_flush w = (w, true).
Proof. intros w H. unfold bw_flush. now rewrite H. Qed.

Lemma bw_chunks_err : forall cs w, bw_err w = true -> fst (bw_chunks w cs) = w.
Proof.
  induction cs as [|[p c] r IH]; intros w H; cbn [bw_chunks]; [reflexivity|].
  rewrite (bw_write_err w p H). destruct c; cbn [andb]; [reflexivity|]. now apply IH.
Qed.

(** the value returned by [Flush] is the sticky flag afterwards *)
Lemma bw_flush_reports_flag : forall w, snd (bw_flush w) = bw_err (fst (bw_flush w)).
Proof.
  intros w. unfold bw_flush. destruct (bw_err w) eqn:E; [now cbn|].
  destruct (bw_buf w) as [|c r]; [now cbn|].
  destruct (sink_write (bw_sink w) (c :: r)) as [s' e]. destruct e; reflexivity.
Qed.

(** the value returned by [Write] is the sticky flag afterwards *)
Lemma bw_write_reports_flag : forall w p, snd (bw_write w p) = bw_err (fst (bw_write w p)).
Proof.
  intros w p. unfold bw_write. destruct (bw_err w) eqn:E; [now cbn|].
  destruct (Nat.leb (length p) (buf_size - length (bw_buf w))); [reflexivity|].
  destruct (bw_buf w) as [|c r] eqn:Eb.
  - unfold bw_direct. destruct (sink_write (bw_sink w) p) as [s' e]. reflexivity.
  - set (w0 := {| bw_buf := _; bw_err := false; bw_sink := bw_sink w |}).
    pose proof (bw_flush_reports_flag w0) as Hf.
    destruct (bw_flush w0) as [w1 e1]. cbn [fst snd] in Hf. destruct e1; [now cbn|].
    destruct (Nat.leb _ buf_size); [reflexivity|].
    unfold bw_direct. destruct (sink_write (bw_sink w1) _) as [s' e]. reflexivity.
Qed.

(** an error reported by [Write] or [Flush] sets the flag *)
Lemma bw_write_error_sets : forall w p, snd (bw_write w p) = true -> bw_err (fst (bw_write w p)) = true.
Proof. intros w p H. now rewrite <- bw_write_reports_flag. Qed.

Lemma bw_flush_error_sets : forall w, snd (bw_flush w) = true -> bw_err (fst (bw_flush w)) = true.
Proof. intros w H. now rewrite <- bw_flush_reports_flag. Qed.

Lemma bw_chunks_abort_sets : forall cs w, snd (bw_chunks w cs) = true -> bw_err (fst (bw_chunks w cs)) = true.
Proof.
  induction cs as [|[p c] r IH]; intros w H; cbn [bw_chunks] in *; [discriminate|].
  pose proof (bw_write_reports_flag w p) as Hf.
  destruct (bw_write w p) as [w' e]. cbn [fst snd] in Hf.
  destruct (e && c)%bool eqn:Ec.
  - cbn [fst]. apply andb_prop in Ec. destruct Ec as [-> _]. now rewrite <- Hf.
  - now apply IH.
Qed.

(** [bufio_sticky]: once [bw_err] is set it stays set; every later
    [bw_write] / [bw_flush] / [bw_chunks] reports the error (a checked chunk
    aborts) and changes nothing: in particular nothing more reaches the sink;
    and an error returned by [bw_write]/[bw_flush] always sets the flag. *)
Theorem bufio_sticky :
  (forall w p, bw_err w = true -> bw_write w p = (w, true)) /\
  (forall w, bw_err w = true -> bw_flush w = (w, true)) /\
  (forall w cs, bw_err w = true ->
     fst (bw_chunks w cs) = w /\ snd (bw_chunks w cs) = existsb snd cs) /\
  (forall w p, snd (bw_write w p) = true -> bw_err (fst (bw_write w p)) = true) /\
  (forall w, snd (bw_flush w) = true -> bw_err (fst (bw_flush w)) = true) /\
  (forall w cs, snd (bw_chunks w cs) = true -> bw_err (fst (bw_chunks w cs)) = true).
Proof.
  split; [exact bw_write_err|]. split; [exact bw_flush_err|].
  split; [|split; [exact bw_write_error_sets|split; [exact bw_flush_error_sets|
    intros w cs; exact (bw_chunks_abort_sets cs w)]]].
  intros w cs H. split; [now apply bw_chunks_err|].
  revert w H. induction cs as [|[p c] r IH]; intros w H; cbn [bw_chunks existsb]; [reflexivity|].
  rewrite (bw_write_err w p H). cbn [snd andb]. destruct c; cbn [orb]; [reflexivity|]. now apply IH.
Qed.

(** [flush_reports]: a final flush on a writer whose flag is set returns an error *)
Theorem flush_reports : forall w, bw_err w = true -> snd (bw_flush w) = true.
Proof. intros w H. now rewrite bw_flush_err. Qed.

(** ** Whatever the writer, the sink only grows *)

Lemma bw_flush_ext : forall w, exists t, s_got (bw_sink (fst (bw_flush w))) = s_got (bw_sink w) ++ t.
Proof.
  intros w. unfold bw_flush. destruct (bw_err w); [exists []; cbn; now rewrite app_nil_r|].
  destruct (bw_buf w) as [|c r]; [exists []; cbn; now rewrite app_nil_r|].
  destruct (sink_write_ext (bw_sink w) (c :: r)) as [n Hn].
  destruct (sink_write (bw_sink w) (c :: r)) as [s' e]. cbn [fst] in Hn.
  destruct e; cbn [fst bw_sink]; eauto.
Qed.

Lemma bw_direct_ext : forall w p, exists t, s_got (bw_sink (fst (bw_direct w p))) = s_got (bw_sink w) ++ t.
Proof.
  intros w p. unfold bw_direct. destruct (sink_write_ext (bw_sink w) p) as [n Hn].
  destruct (sink_write (bw_sink w) p) as [s' e]. cbn [fst bw_sink] in *. eauto.
Qed.

Lemma bw_write_ext : forall w p, exists t, s_got (bw_sink (fst (bw_write w p))) = s_got (bw_sink w) ++ t.
Proof.
  intros w p. unfold bw_write. destruct (bw_err w); [exists []; cbn; now rewrite app_nil_r|].
  destruct (Nat.leb (length p) (buf_size - length (bw_buf w))); [exists []; cbn; now rewrite app_nil_r|].
  destruct (bw_buf w) as [|c r] eqn:Eb; [apply bw_direct_ext|].
  set (w0 := {| bw_buf := _; bw_err := false; bw_sink := bw_sink w |}).
  destruct (bw_flush_ext w0) as [t Ht]. change (bw_sink w0) with (bw_sink w) in Ht.
  destruct (bw_flush w0) as [w1 e1]. cbn [fst] in Ht. destruct e1; [cbn [fst]; eauto|].
  destruct (Nat.leb _ buf_size); [cbn [fst bw_sink]; eauto|].
  destruct (bw_direct_ext w1 (skipn (buf_size - length (c :: r)) p)) as [t' Ht'].
  rewrite Ht'. rewrite Ht, <- app_assoc. eauto.
Qed.

Lemma bw_chunks_ext : forall cs w, exists t, s_got (bw_sink (fst (bw_chunks w cs))) = s_got (bw_sink w) ++ t.
Proof.
  induction cs as [|[p c] r IH]; intros w; cbn [bw_chunks]; [exists []; cbn; now rewrite app_nil_r|].
  destruct (bw_write_ext w p) as [t Ht]. destruct (bw_write w p) as [w' e]. cbn [fst] in Ht.
  destruct (e && c)%bool; [cbn [fst]; eauto|].
  destruct (IH w') as [t' Ht']. rewrite Ht', Ht, <- app_assoc. eauto.
Qed.

(** ** Simulation on writers *)

Definition bsim (k : nat) (wl wu : bw) : Prop :=
  bw_err wl = false /\ bw_err wu = false /\ bw_buf wl = bw_buf wu /\ ssim k (bw_sink wl) (bw_sink wu).

Definition bbad (k : nat) (wl wu : bw) : Prop :=
  bw_err wl = true /\ sbad k (bw_sink wl) (bw_sink wu).

Lemma bsim_new : forall k, bsim k (bw_new {| s_limit := Some k; s_got := [] |}) (bw_new {| s_limit := None; s_got := [] |}).
Proof. intros k. unfold bsim, ssim. cbn. repeat split; lia. Qed.

Lemma bbad_grow : forall k wl wu wu', bbad k wl wu ->
  (exists t, s_got (bw_sink wu') = s_got (bw_sink wu) ++ t) -> bbad k wl wu'.
Proof. intros k wl wu wu' [He Hs] Ht. split; [assumption|]. eapply sbad_grow; eauto. Qed.

Lemma bbad_write_u : forall k wl wu p, bbad k wl wu -> bbad k wl (fst (bw_write wu p)).
Proof. intros k wl wu p H. eapply bbad_grow; [eassumption|apply bw_write_ext]. Qed.

Lemma bbad_flush_u : forall k wl wu, bbad k wl wu -> bbad k wl (fst (bw_flush wu)).
Proof. intros k wl wu H. eapply bbad_grow; [eassumption|apply bw_flush_ext]. Qed.

Lemma bbad_chunks_u : forall k wl wu cs, bbad k wl wu -> bbad k wl (fst (bw_chunks wu cs)).
Proof. intros k wl wu cs H. eapply bbad_grow; [eassumption|apply bw_chunks_ext]. Qed.

Lemma bbad_write_l : forall k wl wu p, bbad k wl wu -> bbad k (fst (bw_write wl p)) wu.
Proof. intros k wl wu p H. rewrite bw_write_err by apply H. exact H. Qed.

Lemma bbad_flush_l : forall k wl wu, bbad k wl wu -> bbad k (fst (bw_flush wl)) wu.
Proof. intros k wl wu H. rewrite bw_flush_err by apply H. exact H. Qed.

Lemma bbad_chunks_l : forall k wl wu cs, bbad k wl wu -> bbad k (fst (bw_chunks wl cs)) wu.
Proof. intros k wl wu cs H. rewrite bw_chunks_err by apply H. exact H. Qed.

(** the shape of every step lemma: either both sides are still in step and
    neither reported an error, or the limited side has failed *)
Definition step_ok (k : nat) (rl ru : bw * bool) : Prop :=
  (bsim k (fst rl) (fst ru) /\ snd rl = false /\ snd ru = false)
  \/ (bbad k (fst rl) (fst ru) /\ snd rl = true).

Lemma bw_flush_sim : forall k wl wu, bsim k wl wu -> step_ok k (bw_flush wl) (bw_flush wu).
Proof.
  intros k wl wu (El & Eu & Eb & Hs). unfold bw_flush. rewrite El, Eu, <- Eb.
  destruct (bw_buf wl) as [|c r] eqn:Ebuf.
  - left. cbn [fst snd]. unfold bsim. rewrite El, Eu, <- Eb, Ebuf. auto.
  - destruct (sink_write_sim k _ _ (c :: r) Hs) as [(Hs' & E1 & E2)|(Hb & E1)].
    + destruct (sink_write (bw_sink wl) (c :: r)) as [sl' el].
      destruct (sink_write (bw_sink wu) (c :: r)) as [su' eu]. cbn [fst snd] in *. subst el eu.
      left. cbn [fst snd]. unfold bsim. cbn [bw_err bw_buf bw_sink]. auto.
    + destruct (sink_write (bw_sink wl) (c :: r)) as [sl' el].
      destruct (sink_write (bw_sink wu) (c :: r)) as [su' eu]. cbn [fst snd] in *. subst el.
      right. split; [|reflexivity]. destruct eu; cbn [fst]; split; auto.
Qed.

Lemma bw_direct_sim : forall k wl wu p, bw_buf wl = bw_buf wu -> ssim k (bw_sink wl) (bw_sink wu) ->
  step_ok k (bw_direct wl p) (bw_direct wu p).
Proof.
  intros k wl wu p Eb Hs. unfold bw_direct.
  destruct (sink_write_sim k _ _ p Hs) as [(Hs' & E1 & E2)|(Hb & E1)];
    destruct (sink_write (bw_sink wl) p) as [sl' el];
    destruct (sink_write (bw_sink wu) p) as [su' eu]; cbn [fst snd] in *.
  - subst el eu. left. cbn [fst snd]. unfold bsim. cbn [bw_err bw_buf bw_sink]. auto.
  - subst el. right. cbn [fst snd]. split; [|reflexivity]. split; auto.
Qed.

Lemma bw_write_sim : forall k wl wu p, bsim k wl wu -> step_ok k (bw_write wl p) (bw_write wu p).
Proof.
  intros k wl wu p (El & Eu & Eb & Hs). unfold bw_write. rewrite El, Eu, <- Eb.
  destruct (Nat.leb (length p) (buf_size - length (bw_buf wl))).
  - left. cbn [fst snd]. unfold bsim. cbn [bw_err bw_buf bw_sink]. auto.
  - destruct (bw_buf wl) as [|c r] eqn:Ebuf.
    + apply bw_direct_sim; [congruence|assumption].
    + set (p1 := firstn _ p). set (p2 := skipn _ p).
      set (wl0 := {| bw_buf := (c :: r) ++ p1; bw_err := false; bw_sink := bw_sink wl |}).
      set (wu0 := {| bw_buf := (c :: r) ++ p1; bw_err := false; bw_sink := bw_sink wu |}).
      assert (H0 : bsim k wl0 wu0) by (unfold bsim; cbn [bw_err bw_buf bw_sink]; auto).
      destruct (bw_flush_sim k wl0 wu0 H0) as [(Hs1 & E1 & E2)|(Hb & E1)];
        destruct (bw_flush wl0) as [wl1 el1]; destruct (bw_flush wu0) as [wu1 eu1]; cbn [fst snd] in *.
      * subst el1 eu1. destruct Hs1 as (El1 & Eu1 & Eb1 & Hs1).
        destruct (Nat.leb (length p2) buf_size).
        -- left. cbn [fst snd]. unfold bsim. cbn [bw_err bw_buf bw_sink]. auto.
        -- apply bw_direct_sim; assumption.
      * subst el1. right. cbn [fst snd]. split; [|reflexivity].
        destruct eu1; [exact Hb|].
        destruct (Nat.leb (length p2) buf_size).
        -- cbn [fst]. eapply bbad_grow; [exact Hb|]. exists []. cbn. now rewrite app_nil_r.
        -- eapply bbad_grow; [exact Hb|]. apply bw_direct_ext.
Qed.

(** [bw_chunks_sim]: for any chunk list, either both runs end in step (equal
    buffers, equal accepted bytes) without any error, or the limited run has
    its sticky flag set (whether or not it aborted on a checked chunk), holds
    exactly the first [k] accepted bytes of the unlimited run, and the
    unlimited run has accepted more than [k]. *)
Theorem bw_chunks_sim : forall k cs wl wu, bsim k wl wu ->
  (bsim k (fst (bw_chunks wl cs)) (fst (bw_chunks wu cs))
   /\ snd (bw_chunks wl cs) = false /\ snd (bw_chunks wu cs) = false)
  \/ bbad k (fst (bw_chunks wl cs)) (fst (bw_chunks wu cs)).
Proof.
  intros k cs. induction cs as [|[p c] r IH]; intros wl wu H; cbn [bw_chunks].
  - left. cbn. auto.
  - destruct (bw_write_sim k wl wu p H) as [(Hs & E1 & E2)|(Hb & E1)];
      pose proof (bw_write_ext wu p) as Hext;
      destruct (bw_write wl p) as [wl' el]; destruct (bw_write wu p) as [wu' eu]; cbn [fst snd] in *.
    + subst el eu. cbn [andb]. now apply IH.
    + subst el. right. cbn [andb].
      assert (Hu : bbad k wl' (fst (if (eu && c)%bool then (wu', true) else bw_chunks wu' r))).
      { destruct (eu && c)%bool; [exact Hb|]. now apply bbad_chunks_u. }
      destruct c; [exact Hu|]. rewrite bw_chunks_err by apply Hb. exact Hu.
Qed.

(** in step at the end means: same bytes out, and they fit *)
Lemma bsim_got : forall k wl wu, bsim k wl wu ->
  s_got (bw_sink wl) = s_got (bw_sink wu) /\ length (s_got (bw_sink wu)) <= k.
Proof. intros k wl wu (_ & _ & _ & (_ & _ & Hg & Hk)). rewrite <- Hg. auto. Qed.

Lemma bbad_got : forall k wl wu, bbad k wl wu ->
  k < length (s_got (bw_sink wu)) /\ s_got (bw_sink wl) = firstn k (s_got (bw_sink wu)).
Proof. intros k wl wu (_ & (_ & Hlt & Hg)). auto. Qed.
