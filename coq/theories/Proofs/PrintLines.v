(** How the parser classifies each kind of line that print writes: the heading
    [date:], a note line, an entry line, the empty line. *)
From Coq Require Import Lia ZifyBool ZifyNat ZifyN.
From HP Require Import Base.Bytes Base.Utf8 Base.Num Model.Scanner Model.Parser Model.Dates
     Spec.PrintSpec Proofs.PrintBytes Proofs.PrintUtf8 Proofs.PrintDates.
Open Scope N_scope.

Lemma outside_neq set c x : memb c set = false -> In x set -> (c =? x) = false.
Proof.
  intros H HI. apply N.eqb_neq. intros ->. apply memb_false_In in H. contradiction.
Qed.

Lemma memb_sub_false c set1 set2 :
  (forall x, In x set2 -> In x set1) -> memb c set1 = false -> memb c set2 = false.
Proof.
  intros Hsub H. apply memb_false_In. apply memb_false_In in H. intros HI. apply H, Hsub, HI.
Qed.

Lemma index_byte_first c k r : memb c k = false -> index_byte c (k ++ c :: r) = Some (length k).
Proof.
  induction k as [|x k IH]; intros H.
  - cbn. rewrite N.eqb_refl. reflexivity.
  - rewrite memb_cons in H. apply orb_false_iff in H. destruct H as [H1 H2].
    cbn [app index_byte]. rewrite N.eqb_sym in H1. rewrite H1. rewrite IH by exact H2. reflexivity.
Qed.

Lemma index_byte_none c v : memb c v = false -> index_byte c v = None.
Proof.
  induction v as [|x v IH]; intros H; [reflexivity|].
  rewrite memb_cons in H. apply orb_false_iff in H. destruct H as [H1 H2].
  cbn [index_byte]. rewrite N.eqb_sym in H1. rewrite H1. rewrite IH by exact H2. reflexivity.
Qed.

(** sub-set facts between the trim sets *)
Lemma sub_text_hash c : memb c trim_text = true -> memb c (c_hash :: trim_text) = true.
Proof. intros H. rewrite memb_cons. rewrite H. apply orb_true_r. Qed.
Lemma sub_qty_text c : memb c trim_qty = true -> memb c trim_text = true.
Proof.
  unfold trim_qty, trim_text. rewrite !memb_cons. cbn [memb existsb]. intros H.
  repeat (apply orb_true_iff in H; destruct H as [H|H]; [rewrite H; rewrite ?orb_true_r; reflexivity|]).
  discriminate.
Qed.

Section Lines.
  Context (NM : Num).
  Notation T := (T NM).

  (** *** the empty line *)
  Lemma classify_empty ln r : classify NM ln [] r = LSkip NM.
  Proof. reflexivity. Qed.

  (** *** the heading line *)
  Lemma classify_heading ln fd r :
    heading_bytes_ok fd -> classify NM ln (fd ++ [c_colon]) r = LHeading NM fd.
  Proof.
    intros [_ [Hf Hl]].
    assert (Hf' : first_outside trim_text fd = true).
    { eapply first_outside_sub; [|exact Hf]. intros c Hc. rewrite !memb_cons. rewrite Hc. rewrite !orb_true_r. reflexivity. }
    assert (Hl' : last_outside trim_text fd = true).
    { eapply last_outside_sub; [|exact Hl]. intros c Hc. rewrite memb_cons. rewrite Hc. apply orb_true_r. }
    assert (Ht : trim trim_text (fd ++ [c_colon]) = fd).
    { apply (trim_core trim_text [] fd [c_colon]); [reflexivity|reflexivity|exact Hf'|exact Hl']. }
    unfold classify. rewrite Ht. destruct fd as [|c0 rest]; [discriminate|]. cbn [app].
    cbn [first_outside] in Hf. apply negb_true_iff in Hf.
    unfold comment_char.
    rewrite (outside_neq _ _ c_hash Hf) by (cbn; tauto).
    rewrite (outside_neq _ _ c_space Hf) by (cbn; tauto).
    rewrite (outside_neq _ _ c_tab Hf) by (cbn; tauto).
    rewrite (outside_neq _ _ c_dash Hf) by (cbn; tauto).
    reflexivity.
  Qed.

  (** *** lines that start with a space, inside a record *)
  Lemma classify_space ln rest t0 t :
    trim trim_text (c_space :: rest) = t0 :: t ->
    classify NM ln (c_space :: rest) true =
    if t0 =? comment_char then LMeta NM (metadata_pair (t0 :: t))
    else match last_index_any blanks (t0 :: t) with
         | None => LBad NM (BadSyntax ln (c_space :: rest))
         | Some sep =>
             let title := trim trim_text (firstn sep (t0 :: t)) in
             let sqty := trim trim_qty (skipn sep (t0 :: t)) in
             match of_lexeme NM sqty with
             | None => LBad NM (Conversion sqty ln (c_space :: rest))
             | Some v => LEntry NM title v
             end
         end.
  Proof. intros H. unfold classify. rewrite H. reflexivity. Qed.

  (** *** the entry line *)
  Lemma normal_name_inv n : normal_name n = true ->
    memb c_lf n = false /\ first_outside (c_hash :: trim_text) n = true /\ last_outside trim_text n = true.
  Proof.
    unfold normal_name. intros H. apply andb_true_iff in H. destruct H as [H H3].
    apply andb_true_iff in H. destruct H as [H1 H2]. apply negb_true_iff in H1. auto.
  Qed.

  Lemma qty_clean_inv q : qty_clean q = true ->
    none_in [c_tab; c_space; c_lf] q = true /\ first_outside trim_qty q = true
    /\ last_outside (c_cr :: trim_text) q = true.
  Proof.
    unfold qty_clean. intros H. apply andb_true_iff in H. destruct H as [H H3].
    apply andb_true_iff in H. destruct H as [H1 H2]. auto.
  Qed.

  Lemma none_in_sub set1 set2 s :
    (forall x, In x set2 -> In x set1) -> none_in set1 s = true -> none_in set2 s = true.
  Proof.
    intros Hsub H. unfold none_in in *. rewrite forallb_forall in *. intros x Hx. specialize (H x Hx).
    apply negb_true_iff in H. apply negb_true_iff. eapply memb_sub_false; [exact Hsub|exact H].
  Qed.

  Lemma none_in_memb_false set s c : none_in set s = true -> In c set -> memb c s = false.
  Proof.
    intros H HI. apply memb_false_In. intros Hs. pose proof (none_in_memb _ _ _ H Hs) as Hm.
    apply memb_false_In in Hm. contradiction.
  Qed.

  Lemma classify_entry ln n q v :
    normal_name n = true -> qty_clean q = true -> of_lexeme NM q = Some v ->
    classify NM ln (b "  - " ++ n ++ b ": " ++ q) true = LEntry NM n v.
  Proof.
    intros Hn Hq Hv. destruct (normal_name_inv n Hn) as [_ [Hnf Hnl]].
    destruct (qty_clean_inv q Hq) as [Hq1 [Hq2 Hq3]].
    assert (Hnf' : first_outside trim_text n = true).
    { eapply first_outside_sub; [|exact Hnf]. exact sub_text_hash. }
    assert (Hql : last_outside trim_text q = true).
    { eapply last_outside_sub; [|exact Hq3]. intros c Hc. rewrite memb_cons. rewrite Hc. apply orb_true_r. }
    set (core := n ++ b ": " ++ q).
    assert (Ht : trim trim_text (b "  - " ++ core) = core).
    { pose proof (trim_core trim_text (b "  - ") core [] eq_refl eq_refl) as X.
      rewrite app_nil_r in X. apply X.
      - apply first_outside_app. exact Hnf'.
      - unfold core. apply last_outside_app. apply last_outside_app. exact Hql. }
    destruct (first_outside_inv _ _ Hnf) as [n0 [n' [En Hn0]]].
    assert (Ecore : core = n0 :: (n' ++ b ": " ++ q)) by (unfold core; rewrite En; reflexivity).
    change (b "  - " ++ core) with (c_space :: (b " - " ++ core)) in *.
    rewrite (classify_space ln _ n0 (n' ++ b ": " ++ q)) by (rewrite Ht; exact Ecore).
    unfold comment_char. rewrite (outside_neq _ _ c_hash Hn0) by (cbn; tauto).
    rewrite <- Ecore.
    assert (Esplit : core = (n ++ [c_colon]) ++ c_space :: q).
    { unfold core. rewrite <- app_assoc. reflexivity. }
    rewrite Esplit. rewrite last_index_any_last.
    2: reflexivity.
    2: { eapply none_in_sub; [|exact Hq1]. cbn. tauto. }
    cbv zeta. rewrite firstn_app_exact, skipn_app_exact.
    assert (Et : trim trim_text (n ++ [c_colon]) = n).
    { apply (trim_core trim_text [] n [c_colon]); [reflexivity|reflexivity|exact Hnf'|exact Hnl]. }
    assert (Eq : trim trim_qty (c_space :: q) = q).
    { pose proof (trim_core trim_qty [c_space] q [] eq_refl eq_refl Hq2) as X. rewrite app_nil_r in X.
      apply X. eapply last_outside_sub; [|exact Hql]. exact sub_qty_text. }
    rewrite Et, Eq, Hv. reflexivity.
  Qed.

  (** *** the note line *)
  Lemma note_value_ok_inv v : note_value_ok v = true ->
    memb c_lf v = false /\ trim_space v = v /\ (v = [] \/ last_outside (c_hash :: trim_text) v = true).
  Proof.
    unfold note_value_ok. intros H. apply andb_true_iff in H. destruct H as [H H3].
    apply andb_true_iff in H. destruct H as [H1 H2]. apply negb_true_iff in H1. apply beq_true_iff in H2.
    split; [exact H1|]. split; [exact H2|]. destruct v; [left; reflexivity|right; exact H3].
  Qed.

  Lemma note_key_ok_inv k : note_key_ok k = true ->
    memb c_colon k = false /\ memb c_lf k = false
    /\ first_outside [c_hash; c_space; c_tab] k = true /\ last_outside [c_hash; c_space; c_tab] k = true
    /\ lead_space k = false.
  Proof.
    unfold note_key_ok. intros H. apply andb_true_iff in H. destruct H as [H H5].
    apply andb_true_iff in H. destruct H as [H H4]. apply andb_true_iff in H. destruct H as [H H3].
    apply andb_true_iff in H. destruct H as [H1 H2].
    apply negb_true_iff in H1, H2, H5. auto.
  Qed.

  Lemma last_outside_split a c s :
    last_outside (a :: c) s = true -> last_outside [a] s = true /\ last_outside c s = true.
  Proof.
    intros H. split; (eapply last_outside_sub; [|exact H]); intros x Hx; rewrite memb_cons.
    - cbn in Hx. rewrite orb_false_r in Hx. rewrite Hx. reflexivity.
    - rewrite Hx. apply orb_true_r.
  Qed.

  Lemma trim_space_sp v : trim_space v = v -> trim_space (c_space :: v) = v.
  Proof. intros H. rewrite trim_space_lead_space; [exact H|reflexivity|reflexivity]. Qed.

  Lemma metadata_text v :
    v <> [] -> memb c_colon v = false -> trim_space v = v -> last_outside [c_hash] v = true ->
    metadata_pair (c_hash :: c_space :: v) = ([], v).
  Proof.
    intros Hne Hc Hts Hl. unfold metadata_pair.
    assert (E1 : trim [c_hash] (c_hash :: c_space :: v) = c_space :: v).
    { pose proof (trim_core [c_hash] [c_hash] (c_space :: v) [] eq_refl eq_refl eq_refl) as X.
      rewrite app_nil_r in X. apply X. apply (last_outside_app _ [c_space]). exact Hl. }
    rewrite E1. rewrite (trim_space_sp v Hts). rewrite (index_byte_none _ _ Hc). reflexivity.
  Qed.

  Lemma metadata_keyed k v :
    note_key_ok k = true -> v <> [] -> trim_space v = v -> last_outside [c_hash] v = true ->
    metadata_pair (c_hash :: c_space :: k ++ b ": " ++ v) = (k, v).
  Proof.
    intros Hk Hne Hts Hl. destruct (note_key_ok_inv k Hk) as [Hk1 [Hk2 [Hk3 [Hk4 Hk5]]]].
    unfold metadata_pair.
    assert (E1 : trim [c_hash] (c_hash :: c_space :: k ++ b ": " ++ v) = c_space :: k ++ b ": " ++ v).
    { pose proof (trim_core [c_hash] [c_hash] (c_space :: k ++ b ": " ++ v) [] eq_refl eq_refl eq_refl) as X.
      rewrite app_nil_r in X. apply X. apply (last_outside_app _ (c_space :: k ++ [c_colon; c_space])) in Hl.
      cbn [app] in Hl. rewrite <- app_assoc in Hl. exact Hl. }
    rewrite E1.
    assert (Hkne : k <> []) by (apply (first_outside_nonempty _ _ Hk3)).
    destruct (trim_space_fix_inv v Hne Hts) as [_ Hvl].
    assert (E2 : trim_space (c_space :: k ++ b ": " ++ v) = k ++ b ": " ++ v).
    { rewrite trim_space_lead_space; [|reflexivity|reflexivity]. apply trim_space_fix.
      - change (k ++ b ": " ++ v) with (k ++ c_colon :: (c_space :: v)).
        apply first_rune_ok_app_ascii; [reflexivity|]. apply first_rune_ok_lead; assumption.
      - change (k ++ b ": " ++ v) with (k ++ c_colon :: ([] ++ c_space :: v)).
        apply last_rune_ok_app_ascii; [reflexivity|destruct v; discriminate|].
        apply last_rune_ok_app_ascii; [reflexivity|exact Hne|exact Hvl]. }
    rewrite E2. change (k ++ b ": " ++ v) with (k ++ c_colon :: (c_space :: v)).
    rewrite (index_byte_first _ _ _ Hk1). rewrite firstn_app_exact.
    assert (E3 : skipn (S (length k)) (k ++ c_colon :: c_space :: v) = c_space :: v).
    { replace (S (length k)) with (length (k ++ [c_colon])) by (rewrite app_length; cbn; lia).
      change (k ++ c_colon :: c_space :: v) with (k ++ [c_colon] ++ c_space :: v).
      rewrite app_assoc. apply skipn_app_exact. }
    rewrite E3. rewrite (trim_space_sp v Hts).
    rewrite (trim_clean _ _ Hk3 Hk4). reflexivity.
  Qed.

  Lemma classify_note ln mp :
    documented_note mp = true -> classify NM ln (note_line mp) true = LMeta NM mp.
  Proof.
    destruct mp as [k v]. unfold documented_note, note_line. cbn [fst snd].
    destruct k as [|k0 k'].
    - (* [# text] *)
      intros H. apply andb_true_iff in H. destruct H as [Hc Hv]. apply negb_true_iff in Hc.
      destruct (note_value_ok_inv v Hv) as [_ [Hts [->|Hl]]]; [reflexivity|].
      destruct (last_outside_split _ _ _ Hl) as [Hl1 Hl2].
      assert (Hne : v <> []) by (apply (last_outside_nonempty _ _ Hl)).
      set (core := c_hash :: c_space :: v).
      assert (Ht : trim trim_text (b "  " ++ core) = core).
      { pose proof (trim_core trim_text (b "  ") core [] eq_refl eq_refl eq_refl) as X.
        rewrite app_nil_r in X. apply X. unfold core. apply (last_outside_app _ [c_hash; c_space]). exact Hl2. }
      change (b "  # " ++ v) with (c_space :: (c_space :: core)).
      rewrite (classify_space ln _ c_hash (c_space :: v)) by exact Ht.
      change (c_hash =? comment_char) with true. cbv iota.
      rewrite (metadata_text v Hne Hc Hts Hl1). reflexivity.
    - (* [# key: value] *)
      set (k := k0 :: k'). intros H. apply andb_true_iff in H. destruct H as [H Hne'].
      apply andb_true_iff in H. destruct H as [Hk Hv].
      assert (Hne : v <> []) by (destruct v; [discriminate|discriminate]).
      destruct (note_value_ok_inv v Hv) as [_ [Hts [->|Hl]]]; [congruence|].
      destruct (last_outside_split _ _ _ Hl) as [Hl1 Hl2].
      set (core := c_hash :: c_space :: k ++ b ": " ++ v).
      assert (Ht : trim trim_text (b "  " ++ core) = core).
      { pose proof (trim_core trim_text (b "  ") core [] eq_refl eq_refl eq_refl) as X.
        rewrite app_nil_r in X. apply X. unfold core.
        apply (last_outside_app _ (c_hash :: c_space :: k ++ [c_colon; c_space])) in Hl2.
        cbn [app] in Hl2. rewrite <- app_assoc in Hl2. exact Hl2. }
      change (b "  # " ++ k ++ b ": " ++ v) with (c_space :: (c_space :: core)).
      rewrite (classify_space ln _ c_hash (c_space :: k ++ b ": " ++ v)) by exact Ht.
      change (c_hash =? comment_char) with true. cbv iota.
      rewrite (metadata_keyed k v Hk Hne Hts Hl1). reflexivity.
  Qed.
End Lines.
