(** Basic facts about Model/Argv.v: one step of [parse_flags] for each shape of argument,
    the value a flag ends up with ([get]) over appended occurrences, [conflict]. *)
From Coq Require Import Lia ZifyBool ZifyNat ZifyN.
From HP Require Import Base.Bytes Model.Elements Model.Config Model.Cli Model.Argv.

(** * byte strings *)
Lemma beq_true_iff : forall x y, beq x y = true <-> x = y.
Proof.
  induction x as [|a x IH]; intros [|c y]; cbn [beq]; split; intro H; try reflexivity; try discriminate.
  - apply andb_true_iff in H as [H1 H2]. apply N.eqb_eq in H1. apply IH in H2. congruence.
  - injection H as -> ->. rewrite N.eqb_refl. cbn [andb]. apply IH. reflexivity.
Qed.

Lemma beq_refl : forall x, beq x x = true.
Proof. intros x. apply beq_true_iff. reflexivity. Qed.

Lemma beq_sym : forall x y, beq x y = beq y x.
Proof.
  intros x y. destruct (beq x y) eqn:E.
  - apply beq_true_iff in E. subst. symmetry. apply beq_refl.
  - destruct (beq y x) eqn:E'; [|reflexivity]. apply beq_true_iff in E'. subst. rewrite beq_refl in E. discriminate.
Qed.

Lemma mem_true_iff : forall n names, mem n names = true <-> In n names.
Proof.
  intros n names. unfold mem. rewrite existsb_exists. split.
  - intros (x & Hx & E). apply beq_true_iff in E. subst. exact Hx.
  - intros H. exists n. split; [exact H|apply beq_refl].
Qed.

(** * one step of [parse_flags] *)
Lemma pf_nonflag : forall tbl s r, classify s = TNonFlag -> parse_flags tbl (s :: r) = FOk [] (s :: r).
Proof. intros tbl s r H. cbn [parse_flags]. rewrite H. reflexivity. Qed.

Lemma pf_term : forall tbl s r, classify s = TTerm -> parse_flags tbl (s :: r) = FOk [] r.
Proof. intros tbl s r H. cbn [parse_flags]. rewrite H. reflexivity. Qed.

Lemma pf_bad : forall tbl s r, classify s = TBad -> parse_flags tbl (s :: r) = FUsage.
Proof. intros tbl s r H. cbn [parse_flags]. rewrite H. reflexivity. Qed.

Lemma pf_unknown : forall tbl s n v r, classify s = TFlag n v -> find_flag tbl n = None -> parse_flags tbl (s :: r) = FUsage.
Proof. intros tbl s n v r H F. cbn [parse_flags]. rewrite H, F. reflexivity. Qed.

Lemma pf_bool : forall tbl s n r, classify s = TFlag n None -> find_flag tbl n = Some KBool ->
  parse_flags tbl (s :: r) = cons_asg (n, VB true) (parse_flags tbl r).
Proof. intros tbl s n r H F. cbn [parse_flags]. rewrite H, F. reflexivity. Qed.

Lemma pf_bool_val : forall tbl s n x v r, classify s = TFlag n (Some x) -> find_flag tbl n = Some KBool -> parse_bool x = Some v ->
  parse_flags tbl (s :: r) = cons_asg (n, VB v) (parse_flags tbl r).
Proof. intros tbl s n x v r H F P. cbn [parse_flags]. rewrite H, F, P. reflexivity. Qed.

Lemma pf_bool_bad : forall tbl s n x r, classify s = TFlag n (Some x) -> find_flag tbl n = Some KBool -> parse_bool x = None ->
  parse_flags tbl (s :: r) = FUsage.
Proof. intros tbl s n x r H F P. cbn [parse_flags]. rewrite H, F, P. reflexivity. Qed.

Lemma pf_str : forall tbl s n v r, classify s = TFlag n None -> find_flag tbl n = Some KStr ->
  parse_flags tbl (s :: v :: r) = cons_asg (n, VS v) (parse_flags tbl r).
Proof. intros tbl s n v r H F. cbn [parse_flags]. rewrite H, F. reflexivity. Qed.

Lemma pf_str_eq : forall tbl s n v r, classify s = TFlag n (Some v) -> find_flag tbl n = Some KStr ->
  parse_flags tbl (s :: r) = cons_asg (n, VS v) (parse_flags tbl r).
Proof. intros tbl s n v r H F. cbn [parse_flags]. rewrite H, F. reflexivity. Qed.

Lemma pf_int : forall tbl s n v z r, classify s = TFlag n None -> find_flag tbl n = Some KInt -> go_parse_int v = Val z ->
  parse_flags tbl (s :: v :: r) = cons_asg (n, VI z) (parse_flags tbl r).
Proof. intros tbl s n v z r H F P. cbn [parse_flags]. rewrite H, F. cbn [set_value]. rewrite P. reflexivity. Qed.

Lemma pf_missing : forall tbl s n k, classify s = TFlag n None -> find_flag tbl n = Some k -> k <> KBool ->
  parse_flags tbl [s] = FUsage.
Proof. intros tbl s n k H F K. cbn [parse_flags]. rewrite H, F. destruct k; [congruence|reflexivity|reflexivity]. Qed.

(** * optional occurrences *)
Definition oseg (n : bytes) (o : option fval) : asg := match o with Some v => [(n, v)] | None => [] end.
Definition seg (n : bytes) (o : option fval) (r : fres) : fres := match o with Some v => cons_asg (n, v) r | None => r end.
Definition obool (v : bool) : option fval := if v then Some (VB true) else None.
Definition onon (s : bytes) : option fval := match s with [] => None | _ :: _ => Some (VS s) end.

Lemma seg_ok : forall n o a r, seg n o (FOk a r) = FOk (oseg n o ++ a) r.
Proof. intros n [v|] a r; reflexivity. Qed.

Lemma pf_opt_str : forall tbl flag n o r, classify (b flag) = TFlag n None -> find_flag tbl n = Some KStr ->
  parse_flags tbl (opt_str flag o ++ r) = seg n (option_map VS o) (parse_flags tbl r).
Proof. intros tbl flag n [v|] r H F; [|reflexivity]. cbn [opt_str app option_map seg]. apply pf_str; assumption. Qed.

Lemma pf_opt_nonempty : forall tbl flag n s r, classify (b flag) = TFlag n None -> find_flag tbl n = Some KStr ->
  parse_flags tbl (opt_nonempty flag s ++ r) = seg n (onon s) (parse_flags tbl r).
Proof. intros tbl flag n [|c s] r H F; [reflexivity|]. cbn [opt_nonempty app onon seg]. apply pf_str; assumption. Qed.

Lemma pf_opt_bool : forall tbl flag n v r, classify (b flag) = TFlag n None -> find_flag tbl n = Some KBool ->
  parse_flags tbl (opt_bool flag v ++ r) = seg n (obool v) (parse_flags tbl r).
Proof. intros tbl flag n [|] r H F; [|reflexivity]. cbn [opt_bool app obool seg]. apply pf_bool; assumption. Qed.

(** * [get] over appended occurrences *)
Lemma get_app : forall names a a', get names (a ++ a') = match get names a' with Some v => Some v | None => get names a end.
Proof.
  intros names a a'. induction a as [|e a IH]; cbn [app get].
  - destruct (get names a'); reflexivity.
  - rewrite IH. destruct (get names a'); reflexivity.
Qed.

Lemma get_oseg : forall names n o a,
  get names (oseg n o ++ a) = match get names a with Some v => Some v | None => if mem n names then o else None end.
Proof.
  intros names n [v|] a; cbn [oseg app get fst snd].
  - reflexivity.
  - destruct (get names a); [reflexivity|]. destruct (mem n names); reflexivity.
Qed.

Lemma get_cons : forall names e a,
  get names (e :: a) = match get names a with Some v => Some v | None => if mem (fst e) names then Some (snd e) else None end.
Proof. reflexivity. Qed.

(** * [conflict] *)
Lemma used_cons : forall e a m, used (e :: a) m = beq (fst e) m || used a m.
Proof. reflexivity. Qed.

Lemma used_app : forall a a' m, used (a ++ a') m = used a m || used a' m.
Proof. intros a a' m. unfold used. apply existsb_app. Qed.

(** every name an assignment uses is in [N] *)
Definition within (N : list bytes) (a : asg) : Prop := forall e, In e a -> mem (fst e) N = true.

Lemma within_nil : forall N, within N [].
Proof. intros N e []. Qed.

Lemma within_oseg : forall N n o a, mem n N = true -> within N a -> within N (oseg n o ++ a).
Proof.
  intros N n [v|] a H W; cbn [oseg app]; [|exact W].
  intros e [<-|He]; [exact H|apply W; exact He].
Qed.

Lemma used_within : forall N a m, within N a -> used a m = true -> mem m N = true.
Proof.
  intros N a m W U. unfold used in U. apply existsb_exists in U as (e & He & E).
  apply beq_true_iff in E. subst m. apply W. exact He.
Qed.

Lemma filter_length_le : forall (A : Type) (f g : A -> bool) l, (forall x, f x = true -> g x = true) ->
  (length (filter f l) <= length (filter g l))%nat.
Proof.
  intros A f g l H. induction l as [|x l IH]; cbn [filter]; [lia|].
  destruct (f x) eqn:Ef.
  - rewrite (H x Ef). cbn [length]. lia.
  - destruct (g x); cbn [length]; lia.
Qed.

(** no two names of one flag among the names [N] that can occur: no conflict (a closed check on the table) *)
Definition table_ok (tbl : list fspec) (N : list bytes) : bool :=
  forallb (fun f => Nat.leb (length (filter (fun n => mem n N) (f_names f))) 1) tbl.

Lemma conflict_within : forall tbl N a, within N a -> table_ok tbl N = true -> conflict tbl a = false.
Proof.
  intros tbl N a W T. unfold conflict. apply not_true_is_false. intros C.
  apply existsb_exists in C as (f & Hf & L).
  unfold table_ok in T. rewrite forallb_forall in T. specialize (T f Hf).
  pose proof (filter_length_le _ (used a) (fun n => mem n N) (f_names f) (fun m => used_within N a m W)) as Q.
  apply Nat.leb_le in T. apply Nat.ltb_lt in L. lia.
Qed.

(** adding an occurrence of a flag that has a single name changes no conflict *)
Lemma conflict_cons_single : forall tbl n v a,
  (forall f, In f tbl -> mem n (f_names f) = true -> f_names f = [n]) ->
  conflict tbl ((n, v) :: a) = conflict tbl a.
Proof.
  intros tbl n v a H. unfold conflict. induction tbl as [|f tbl IH]; [reflexivity|].
  cbn [existsb]. rewrite IH by (intros g Hg; apply H; right; exact Hg). f_equal.
  destruct (mem n (f_names f)) eqn:M.
  - rewrite (H f (or_introl eq_refl) M). cbn [filter].
    destruct (used ((n, v) :: a) n), (used a n); reflexivity.
  - f_equal. f_equal. apply filter_ext_in. intros m Hm. rewrite used_cons. cbn [fst].
    destruct (beq n m) eqn:E; [|reflexivity]. apply beq_true_iff in E. subst m.
    apply mem_true_iff in Hm. congruence.
Qed.

(** * the values [build] reads do not see an explicit [false] put in front *)
Lemma get_bool_cons_false : forall names n a, get_bool names ((n, VB false) :: a) = get_bool names a.
Proof.
  intros names n a. unfold get_bool. rewrite get_cons. cbn [fst snd].
  destruct (get names a) as [v|]; [reflexivity|]. destruct (mem n names); reflexivity.
Qed.

Lemma get_str_cons_bool : forall names n v a, get_str names ((n, VB v) :: a) = get_str names a.
Proof.
  intros names n v a. unfold get_str. rewrite get_cons. cbn [fst snd].
  destruct (get names a) as [w|]; [reflexivity|]. destruct (mem n names); reflexivity.
Qed.

Lemma get_int_cons_bool : forall names n v a, get_int names ((n, VB v) :: a) = get_int names a.
Proof.
  intros names n v a. unfold get_int. rewrite get_cons. cbn [fst snd].
  destruct (get names a) as [w|]; [reflexivity|]. destruct (mem n names); reflexivity.
Qed.

Lemma get_cons_other : forall names n v a, mem n names = false -> get names ((n, v) :: a) = get names a.
Proof. intros names n v a H. rewrite get_cons. cbn [fst]. rewrite H. destruct (get names a); reflexivity. Qed.
