(** WP21, part B (axiom-free) – what [parse_float] hands to the rounding function
    is an exact description of the decimal lexeme.

    Everything here is integer arithmetic: no reals, no Flocq, no axioms.

    - [mantissa_value_lemma]: the integer and the counters returned by the
      mantissa loop [read_mant] describe the digit string exactly:
      value of the text = [ms_mant] * 10^(dp - nd), where the value of a mantissa
      text [p] is defined independently as (its digits read as one integer) /
      10^(number of digits after the point).
    - [round_scaled_exact_*]: the triple [(q, e, loc)] that [round_scaled] gives
      to the standard library's [binary_round_aux] satisfies
      m * 10^e10 = (q + r/den) * 2^e with [0 <= r < den] and [loc] the position
      of [r/den] relative to 0 and 1/2 ([exact_triple]); moreover [2^69 <= q], so
      a single rounding step is enough.
    - [parse_float_exact_description_lemma]: for every plain decimal lexeme
      [sign] digits [. digits] [e|E [sign] digits] the result of [parse_float]
      is [binary_round_aux 53 1024 neg q e loc] on such a triple for the
      lexeme's rational value (or the zero / range-error shortcuts, whose
      justification is stated). *)
From Coq Require Import ZArith Lia ZifyBool ZifyNat ZifyN List Floats.SpecFloat.
From HP Require Import Base.Bytes Base.Num Base.GoFloat.
Import ListNotations.
Open Scope Z_scope.

(** * 1. The value of a mantissa text, defined independently of the parser *)

(** the digit characters of [p] read as one decimal integer, other characters
    skipped ([acc] = the digits read so far) *)
Fixpoint digits_int (p : bytes) (acc : N) : N :=
  match p with
  | [] => acc
  | c :: r => if is_digit c then digits_int r (acc * 10 + (c - 48))%N else digits_int r acc
  end.

(** number of digit characters *)
Fixpoint count_digits (p : bytes) : Z :=
  match p with
  | [] => 0
  | c :: r => (if is_digit c then 1 else 0) + count_digits r
  end.

(** number of digit characters after the first point *)
Fixpoint frac_count (p : bytes) : Z :=
  match p with
  | [] => 0
  | c :: r => if (c =? 46)%N then count_digits r else frac_count r
  end.

(** The text [p] (digits, at most one point, possibly underscores) denotes the
    rational number   digits_int p 0 / 10 ^ frac_count p.   *)

(** [p] consists of digits, underscores and – unless a point was seen before
    ([sd]) – at most one point *)
Fixpoint mant_chars (sd : bool) (p : bytes) : bool :=
  match p with
  | [] => true
  | c :: r =>
      if (c =? 95)%N then mant_chars sd r
      else if (c =? 46)%N then negb sd && mant_chars true r
      else is_digit c && mant_chars sd r
  end.

Definition has_digit (p : bytes) : bool := existsb is_digit p.
Definition has_point (p : bytes) : bool := existsb (N.eqb 46) p.
Definition has_underscore (p : bytes) : bool := existsb (N.eqb 95) p.

Lemma count_digits_nonneg : forall p, 0 <= count_digits p.
Proof. induction p as [|c r IH]; cbn [count_digits]; [lia|]. destruct (is_digit c); lia. Qed.

Lemma frac_count_nonneg : forall p, 0 <= frac_count p.
Proof.
  induction p as [|c r IH]; cbn [frac_count]; [lia|].
  destruct (c =? 46)%N; [apply count_digits_nonneg|exact IH].
Qed.

Lemma digits_int_ge : forall p acc, (acc <= digits_int p acc)%N.
Proof.
  induction p as [|c r IH]; intro acc; cbn [digits_int]; [lia|].
  destruct (is_digit c); [|apply IH]. specialize (IH (acc * 10 + (c - 48))%N). lia.
Qed.

Lemma is_digit_range : forall c, is_digit c = true -> (48 <= c <= 57)%N.
Proof. intros c H. unfold is_digit in H. lia. Qed.

Lemma is_digit_not_point : forall c, is_digit c = true -> (c =? 46)%N = false.
Proof. intros c H. apply is_digit_range in H. lia. Qed.

Lemma is_digit_not_underscore : forall c, is_digit c = true -> (c =? 95)%N = false.
Proof. intros c H. apply is_digit_range in H. lia. Qed.

(** * 2. The mantissa loop *)

Definition init_st : mant_state :=
  {| ms_mant := 0; ms_nd := 0; ms_dp := 0; ms_sawdot := false; ms_sawdigits := false; ms_under := false |}.

(** the position of the point the way [parse_float] reads it off the state *)
Definition dp_eff (st : mant_state) : Z := if ms_sawdot st then ms_dp st else ms_nd st.

(** digits of [p] that count as fractional, given whether the point was seen before [p] *)
Definition fcount (sd : bool) (p : bytes) : Z := if sd then count_digits p else frac_count p.

(** invariant: [nd] is the number of decimal digits of [mant] (0 for 0) *)
Definition st_ok (st : mant_state) : Prop :=
  0 <= ms_nd st /\ Z.of_N (ms_mant st) < 10 ^ ms_nd st /\
  (0 < ms_nd st -> 10 ^ (ms_nd st - 1) <= Z.of_N (ms_mant st)).

Lemma init_st_ok : st_ok init_st.
Proof. unfold st_ok, init_st; cbn. lia. Qed.

Lemma st_ok_nd0 : forall st, st_ok st -> ms_nd st = 0 -> ms_mant st = 0%N.
Proof. intros st (H0 & H1 & _) E. rewrite E in H1. change (10 ^ 0) with 1 in H1. lia. Qed.

Lemma pow10_succ : forall n, 0 <= n -> 10 ^ (n + 1) = 10 * 10 ^ n.
Proof. intros n Hn. rewrite Z.pow_add_r by lia. lia. Qed.

Lemma pow10_pos : forall n, 0 <= n -> 0 < 10 ^ n.
Proof. intros n Hn. apply Z.pow_pos_nonneg; lia. Qed.

(** where the loop stops: at the end, or at a byte that is no digit, no
    underscore and no first point *)
Definition stops_at (sd : bool) (rest : bytes) : Prop :=
  match rest with
  | [] => True
  | c :: _ => (c =? 95)%N = false /\ is_digit c = false /\ ((c =? 46)%N = true -> sd = true)
  end.

(** The general statement, from any state satisfying the invariant. *)
Lemma read_mant_value : forall (s : bytes) (st st' : mant_state) (rest : bytes),
  st_ok st -> read_mant false s st = (st', rest) ->
  exists p, s = p ++ rest /\
    mant_chars (ms_sawdot st) p = true /\
    ms_mant st' = digits_int p (ms_mant st) /\
    dp_eff st' - ms_nd st' = dp_eff st - ms_nd st - fcount (ms_sawdot st) p /\
    st_ok st' /\
    ms_sawdot st' = (ms_sawdot st || has_point p)%bool /\
    ms_sawdigits st' = (ms_sawdigits st || has_digit p)%bool /\
    ms_under st' = (ms_under st || has_underscore p)%bool /\
    stops_at (ms_sawdot st') rest.
Proof.
  induction s as [|c r IH]; intros st st' rest Hok H; cbn [read_mant] in H.
  - injection H as <- <-. exists []. cbn [app mant_chars digits_int has_point has_digit has_underscore existsb stops_at].
    unfold fcount. rewrite ?Bool.orb_false_r.
    destruct (ms_sawdot st); cbn [count_digits frac_count];
      (split; [reflexivity|]); (split; [reflexivity|]); (split; [reflexivity|]); (split; [lia|]);
      (split; [exact Hok|]); repeat split; reflexivity.
  - destruct (c =? 95)%N eqn:E95.
    { (* underscore *)
      apply IH in H; [|exact Hok]. cbn [ms_sawdot ms_mant ms_nd ms_dp ms_sawdigits ms_under] in H.
      destruct H as (p & Hs & Hc & Hm & Hd & Hok' & Hdot & Hdig & Hu & Hstop).
      exists (c :: p). assert (Hnd : is_digit c = false) by (unfold is_digit; lia).
      assert (Hnp : (c =? 46)%N = false) by lia.
      cbn [app mant_chars digits_int has_point has_digit has_underscore existsb].
      rewrite E95, Hnd. replace (46 =? c)%N with false by lia. replace (95 =? c)%N with true by lia.
      cbn [orb].
      split; [rewrite Hs; reflexivity|]. split; [exact Hc|]. split; [exact Hm|].
      split.
      { rewrite Hd. unfold dp_eff, fcount. cbn [ms_sawdot ms_nd ms_dp].
        destruct (ms_sawdot st); cbn [count_digits frac_count]; rewrite ?Hnd, ?Hnp; lia. }
      split; [exact Hok'|]. split; [exact Hdot|]. split; [exact Hdig|].
      split; [|exact Hstop]. rewrite Hu. rewrite Bool.orb_true_r. reflexivity. }
    destruct (c =? 46)%N eqn:E46.
    { (* point *)
      destruct (ms_sawdot st) eqn:Esd.
      - injection H as <- <-. exists []. cbn [app mant_chars digits_int has_point has_digit has_underscore existsb stops_at].
        rewrite Esd. unfold fcount. cbn [count_digits]. rewrite ?Bool.orb_false_r.
        split; [reflexivity|]. split; [reflexivity|]. split; [reflexivity|]. split; [lia|].
        split; [exact Hok|]. split; [reflexivity|]. split; [reflexivity|]. split; [reflexivity|].
        split; [exact E95|]. split; [unfold is_digit; lia|]. intros _. reflexivity.
      - apply IH in H.
        2:{ unfold st_ok in *. cbn [ms_nd ms_mant]. exact Hok. }
        cbn [ms_sawdot ms_mant ms_nd ms_dp ms_sawdigits ms_under] in H.
        destruct H as (p & Hs & Hc & Hm & Hd & Hok' & Hdot & Hdig & Hu & Hstop).
        exists (c :: p). assert (Hnd : is_digit c = false) by (unfold is_digit; lia).
        cbn [app mant_chars digits_int has_point has_digit has_underscore existsb].
        rewrite E95, E46, Hnd. replace (46 =? c)%N with true by lia. replace (95 =? c)%N with false by lia.
        cbn [orb negb andb].
        split; [rewrite Hs; reflexivity|]. split; [exact Hc|]. split; [exact Hm|].
        split.
        { rewrite Hd. unfold dp_eff, fcount. cbn [ms_sawdot ms_nd ms_dp]. rewrite Esd.
          cbn [frac_count]. rewrite E46. lia. }
        split; [exact Hok'|]. split; [exact Hdot|]. split; [exact Hdig|]. split; [exact Hu|exact Hstop]. }
    destruct (is_digit c) eqn:Edig.
    { destruct ((c =? 48)%N && (ms_nd st =? 0))%bool eqn:Ez.
      - (* leading zero *)
        assert (Hc48 : c = 48%N) by lia. assert (Hnd0 : ms_nd st = 0) by lia.
        pose proof (st_ok_nd0 st Hok Hnd0) as Hm0.
        apply IH in H.
        2:{ unfold st_ok. cbn [ms_nd ms_mant]. rewrite Hm0. cbn. lia. }
        cbn [ms_sawdot ms_mant ms_nd ms_dp ms_sawdigits ms_under] in H.
        destruct H as (p & Hs & Hc & Hm & Hd & Hok' & Hdot & Hdig & Hu & Hstop).
        exists (c :: p).
        cbn [app mant_chars digits_int has_point has_digit has_underscore existsb].
        rewrite E95, E46, Edig. replace (46 =? c)%N with false by lia. replace (95 =? c)%N with false by lia.
        cbn [orb andb].
        split; [rewrite Hs; reflexivity|]. split; [exact Hc|].
        split; [rewrite Hm, Hm0, Hc48; reflexivity|].
        split.
        { rewrite Hd. unfold dp_eff, fcount. cbn [ms_sawdot ms_nd ms_dp].
          destruct (ms_sawdot st); cbn [count_digits frac_count]; rewrite ?Edig, ?E46; lia. }
        split; [exact Hok'|]. split; [exact Hdot|].
        split; [rewrite Hdig, Bool.orb_true_r; reflexivity|]. split; [exact Hu|exact Hstop].
      - (* a counted digit *)
        pose proof (is_digit_range c Edig) as Hr.
        apply IH in H.
        2:{ destruct Hok as (H0 & H1 & H2). unfold st_ok. cbn [ms_nd ms_mant].
            split; [lia|]. rewrite pow10_succ by lia. split; [lia|]. intros _.
            replace (ms_nd st + 1 - 1) with (ms_nd st) by lia.
            destruct (Z.eq_dec (ms_nd st) 0) as [E0|E0].
            - rewrite E0. change (10 ^ 0) with 1. lia.
            - assert (Hpos : 0 < ms_nd st) by lia. specialize (H2 Hpos).
              replace (ms_nd st) with (ms_nd st - 1 + 1) at 1 by lia.
              rewrite pow10_succ by lia. lia. }
        cbn [ms_sawdot ms_mant ms_nd ms_dp ms_sawdigits ms_under] in H.
        destruct H as (p & Hs & Hc & Hm & Hd & Hok' & Hdot & Hdig & Hu & Hstop).
        exists (c :: p).
        cbn [app mant_chars digits_int has_point has_digit has_underscore existsb].
        rewrite E95, E46, Edig. replace (46 =? c)%N with false by lia. replace (95 =? c)%N with false by lia.
        cbn [orb andb].
        split; [rewrite Hs; reflexivity|]. split; [exact Hc|]. split; [exact Hm|].
        split.
        { rewrite Hd. unfold dp_eff, fcount. cbn [ms_sawdot ms_nd ms_dp].
          destruct (ms_sawdot st); cbn [count_digits frac_count]; rewrite ?Edig, ?E46; lia. }
        split; [exact Hok'|]. split; [exact Hdot|].
        split; [rewrite Hdig, Bool.orb_true_r; reflexivity|]. split; [exact Hu|exact Hstop]. }
    (* any other byte: stop *)
    injection H as <- <-. exists [].
    cbn [app mant_chars digits_int has_point has_digit has_underscore existsb stops_at].
    unfold fcount. rewrite ?Bool.orb_false_r.
    destruct (ms_sawdot st); cbn [count_digits frac_count];
      (split; [reflexivity|]); (split; [reflexivity|]); (split; [reflexivity|]); (split; [lia|]);
      (split; [exact Hok|]); (split; [reflexivity|]); (split; [reflexivity|]); (split; [reflexivity|]);
      (split; [exact E95|]); (split; [exact Edig|]); intro Hx; rewrite E46 in Hx; discriminate Hx.
Qed.

(** ** [mantissa_value]: from the initial state.
    [read_mant false s init_st = (st, rest)]: the loop consumed the prefix [p];
    [ms_mant st] are the digits of [p] as one integer and the decimal exponent
    [dp - nd] that [parse_float] attaches to it is minus the number of digits
    after the point, i.e.   value(p) = ms_mant * 10^(dp - nd)   with
    value(p) = digits_int p 0 / 10^(frac_count p).  Underscores included
    (they are skipped by both sides). *)
Theorem mantissa_value_lemma : forall (s : bytes) (st : mant_state) (rest : bytes),
  read_mant false s init_st = (st, rest) ->
  exists p, s = p ++ rest /\ mant_chars false p = true /\
    ms_mant st = digits_int p 0 /\
    (if ms_sawdot st then ms_dp st else ms_nd st) - ms_nd st = - frac_count p /\
    (* [ms_nd st] = number of decimal digits of the integer *)
    0 <= ms_nd st /\ Z.of_N (ms_mant st) < 10 ^ ms_nd st /\
    (0 < ms_nd st -> 10 ^ (ms_nd st - 1) <= Z.of_N (ms_mant st)) /\
    ms_sawdot st = has_point p /\ ms_sawdigits st = has_digit p /\ ms_under st = has_underscore p /\
    stops_at (ms_sawdot st) rest.
Proof.
  intros s st rest H. destruct (read_mant_value s init_st st rest init_st_ok H)
    as (p & Hs & Hc & Hm & Hd & (H0 & H1 & H2) & Hdot & Hdig & Hu & Hstop).
  exists p. cbn [init_st ms_sawdot ms_mant ms_nd ms_dp ms_sawdigits ms_under orb] in *.
  unfold dp_eff, fcount in Hd. cbn [ms_sawdot ms_nd ms_dp] in Hd.
  repeat split; try assumption; try lia.
Qed.

(** * 3. What [round_scaled] gives to [binary_round_aux] *)

(** [(q, e, loc)] is an exact description of the positive rational
    [M * 10^e10] in the sense [binary_round_aux] expects:
        M * 10^e10 = (q + r/D) * 2^e,   0 <= r/D < 1,
    [loc] = where [r/D] lies relative to 0 and 1/2.  Written with integers only
    ([D = 10^(-e10)] when [e10 < 0], else [D = 1] and the power of ten moves to
    the left-hand side; [e <= 0] so that [2^(-e)] is an integer). *)
Definition exact_triple (M e10 q e : Z) (loc : location) : Prop :=
  e <= 0 /\
  exists r : Z,
    M * 10 ^ (Z.max 0 e10) * 2 ^ (- e) = q * 10 ^ (Z.max 0 (- e10)) + r /\
    0 <= r < 10 ^ (Z.max 0 (- e10)) /\
    loc = (if r =? 0 then loc_Exact else loc_Inexact (2 * r ?= 10 ^ (Z.max 0 (- e10)))).

(** the same location clause without [r]: compare the value with the midpoint
    of [q*2^e, (q+1)*2^e] after cross-multiplication *)
Lemma exact_triple_midpoint : forall M e10 q e loc,
  exact_triple M e10 q e loc ->
  let N := M * 10 ^ (Z.max 0 e10) * 2 ^ (- e) in
  let D := 10 ^ (Z.max 0 (- e10)) in
  q * D <= N < (q + 1) * D /\
  loc = (if N =? q * D then loc_Exact else loc_Inexact (2 * N ?= (2 * q + 1) * D)).
Proof.
  intros M e10 q e loc (He & r & Heq & Hr & Hloc) N D. fold N D in Heq, Hr, Hloc.
  split; [lia|]. rewrite Hloc.
  replace (N =? q * D) with (r =? 0) by lia.
  destruct (r =? 0); [reflexivity|]. f_equal.
  rewrite Heq. replace (2 * (q * D + r)) with (2 * q * D + 2 * r) by lia.
  replace ((2 * q + 1) * D) with (2 * q * D + D) by lia.
  symmetry. apply Z.add_compare_mono_l.
Qed.

(** [q] has enough bits for [binary_round_aux] to round once, correctly: the
    first shift of [binary_round_aux] is by a non-negative amount (this is the
    hypothesis of Flocq's [binary_round_aux_correct]) *)
Definition enough_bits (q e : Z) : Prop := e <= SpecFloat.fexp prec emax (Zdigits2 q + e).

Lemma digits2_pos_bounds : forall p : positive,
  2 ^ (Zpos (digits2_pos p) - 1) <= Zpos p < 2 ^ Zpos (digits2_pos p).
Proof.
  induction p as [p IH|p IH|]; cbn [digits2_pos].
  - rewrite Pos2Z.inj_succ. replace (Z.succ (Zpos (digits2_pos p)) - 1) with (Z.succ (Zpos (digits2_pos p) - 1)) by lia.
    rewrite !Z.pow_succ_r by lia. lia.
  - rewrite Pos2Z.inj_succ. replace (Z.succ (Zpos (digits2_pos p)) - 1) with (Z.succ (Zpos (digits2_pos p) - 1)) by lia.
    rewrite !Z.pow_succ_r by lia. lia.
  - cbn. lia.
Qed.

Lemma digits2_pos_ge : forall (p : positive) k, 0 <= k -> 2 ^ k <= Zpos p -> k + 1 <= Zpos (digits2_pos p).
Proof.
  intros p k Hk H. destruct (digits2_pos_bounds p) as [_ Hu].
  assert (Hlt : 2 ^ k < 2 ^ Zpos (digits2_pos p)) by lia.
  apply Z.pow_lt_mono_r_iff in Hlt; lia.
Qed.

Lemma digits2_pos_shift : forall d m, digits2_pos (shift_pos d m) = (digits2_pos m + d)%positive.
Proof.
  intros d m. unfold shift_pos. revert m. induction d as [|d IH] using Pos.peano_ind; intro m.
  - cbn [Pos.iter digits2_pos]. lia.
  - rewrite Pos.iter_succ. cbn [digits2_pos]. rewrite IH. lia.
Qed.

Lemma shift_pos_Z : forall d m, Zpos (shift_pos d m) = Zpos m * 2 ^ Zpos d.
Proof. intros d m. rewrite shift_pos_correct. rewrite Zpower_pos_nat, Zpower_nat_Z, positive_nat_Z. lia. Qed.

(** [shl_align]: the mantissa is shifted left exactly as much as the exponent is lowered *)
Lemma shl_align_spec : forall mx ex ex' mz ez,
  shl_align mx ex ex' = (mz, ez) ->
  ez = Z.min ex ex' /\ Zpos mz = Zpos mx * 2 ^ (ex - ez) /\
  Zpos (digits2_pos mz) = Zpos (digits2_pos mx) + (ex - ez).
Proof.
  intros mx ex ex' mz ez H. unfold shl_align in H. destruct (ex' - ex) as [|d|d] eqn:E; injection H as <- <-.
  - replace (ex - ex) with 0 by lia. rewrite Z.pow_0_r. lia.
  - replace (ex - ex) with 0 by lia. rewrite Z.pow_0_r. lia.
  - replace (ex - ex') with (Zpos d) by lia. rewrite shift_pos_Z, digits2_pos_shift. lia.
Qed.

(** [binary_round] is [binary_round_aux] on an exactly equal, left-aligned mantissa *)
Lemma binary_round_as_aux : forall s mx ex,
  exists mz ez,
    binary_round prec emax s mx ex = binary_round_aux prec emax s (Zpos mz) ez loc_Exact /\
    ez <= ex /\ Zpos mz = Zpos mx * 2 ^ (ex - ez) /\ enough_bits (Zpos mz) ez.
Proof.
  intros s mx ex. unfold binary_round.
  destruct (shl_align mx ex (SpecFloat.fexp prec emax (Zpos (digits2_pos mx) + ex))) as [mz ez] eqn:E.
  exists mz, ez. split; [reflexivity|]. apply shl_align_spec in E. destruct E as (E1 & E2 & E3).
  split; [lia|]. split; [exact E2|]. unfold enough_bits. cbn [Zdigits2]. rewrite E3.
  replace (Zpos (digits2_pos mx) + (ex - ez) + ez) with (Zpos (digits2_pos mx) + ex) by lia. lia.
Qed.

(** ** [e10 >= 0]: the integer [m * 10^e10], exactly *)
Theorem round_scaled_exact_nonneg : forall neg m e10 e2,
  0 <= e10 ->
  round_scaled neg m e10 e2 = binary_round prec emax neg (Z.to_pos (Zpos m * 10 ^ e10)) e2 /\
  Zpos (Z.to_pos (Zpos m * 10 ^ e10)) = Zpos m * 10 ^ e10.
Proof.
  intros neg m e10 e2 He. pose proof (pow10_pos e10 He) as Hp.
  unfold round_scaled. replace (0 <=? e10) with true by lia. split.
  - rewrite Z2Pos.inj_mul by lia. reflexivity.
  - rewrite Z2Pos.id by lia. reflexivity.
Qed.

(** ** [e10 < 0]: quotient, remainder, location *)
Theorem round_scaled_exact_neg : forall neg m e10 e2,
  e10 < 0 ->
  let den := 10 ^ (- e10) in
  let s := Z.max 0 (70 + Z.log2 den - Z.log2 (Zpos m)) in
  let num := Zpos m * 2 ^ s in
  let q := num / den in
  let r := num mod den in
  let loc := if r =? 0 then loc_Exact else loc_Inexact (2 * r ?= den) in
  round_scaled neg m e10 e2 = binary_round_aux prec emax neg q (e2 - s) loc /\
  0 <= s /\ 0 < den /\
  Zpos m * 2 ^ s = q * den + r /\ 0 <= r < den /\
  2 ^ 69 <= q.
Proof.
  intros neg m e10 e2 He den s num q r loc.
  assert (Hden : 0 < den) by (apply pow10_pos; lia).
  split. { unfold round_scaled. replace (0 <=? e10) with false by lia. reflexivity. }
  split; [lia|]. split; [exact Hden|].
  split. { unfold q, r. fold num. rewrite (Z.div_mod num den) at 1 by lia. lia. }
  split. { apply Z.mod_pos_bound. exact Hden. }
  (* 2^69 <= q *)
  set (L := Z.log2 den). set (lm := Z.log2 (Zpos m)).
  assert (HL0 : 0 <= L) by apply Z.log2_nonneg.
  assert (Hlm0 : 0 <= lm) by apply Z.log2_nonneg.
  assert (HL : den < 2 ^ (L + 1)) by (apply (Z.log2_spec den Hden)).
  assert (Hlm : 2 ^ lm <= Zpos m) by (apply (Z.log2_spec (Zpos m)); lia).
  assert (Hs : 70 + L <= lm + s) by (unfold s; fold L lm; lia).
  assert (Hs0 : 0 <= s) by lia.
  apply Z.div_le_lower_bound; [exact Hden|].
  assert (H1 : den * 2 ^ 69 <= 2 ^ (L + 1) * 2 ^ 69) by (apply Z.mul_le_mono_nonneg_r; lia).
  assert (H2 : 2 ^ (L + 1) * 2 ^ 69 = 2 ^ (70 + L)).
  { rewrite <- Z.pow_add_r by lia. f_equal. lia. }
  assert (H3 : 2 ^ (70 + L) <= 2 ^ (lm + s)) by (apply Z.pow_le_mono_r; lia).
  assert (H4 : 2 ^ (lm + s) = 2 ^ lm * 2 ^ s) by (apply Z.pow_add_r; lia).
  assert (H5 : 2 ^ lm * 2 ^ s <= Zpos m * 2 ^ s).
  { apply Z.mul_le_mono_nonneg_r; [|exact Hlm]. apply Z.pow_nonneg. lia. }
  unfold num. lia.
Qed.

(** ** both cases as one statement (with [e2 = 0], the way [parse_float] calls it):
    the result is [binary_round_aux] on an exact triple with enough bits *)
Theorem round_scaled_exact_lemma : forall neg m e10,
  exists q e loc,
    round_scaled neg m e10 0 = binary_round_aux prec emax neg q e loc /\
    0 < q /\ exact_triple (Zpos m) e10 q e loc /\ enough_bits q e /\
    (e10 < 0 -> 2 ^ 69 <= q).
Proof.
  intros neg m e10. destruct (Z_lt_le_dec e10 0) as [Hneg|Hpos].
  - pose proof (round_scaled_exact_neg neg m e10 0 Hneg) as H. cbv zeta in H.
    destruct H as (H1 & H2 & H3 & H4 & H5 & H6).
    set (den := 10 ^ (- e10)) in *.
    set (s := Z.max 0 (70 + Z.log2 den - Z.log2 (Zpos m))) in *.
    set (q := Zpos m * 2 ^ s / den) in *. set (r := (Zpos m * 2 ^ s) mod den) in *.
    exists q, (- s), (if r =? 0 then loc_Exact else loc_Inexact (2 * r ?= den)).
    split; [exact H1|]. split; [lia|]. split.
    + split; [lia|]. exists r.
      replace (Z.max 0 e10) with 0 by lia. replace (Z.max 0 (- e10)) with (- e10) by lia.
      fold den. rewrite Z.pow_0_r, Z.opp_involutive. repeat split; try lia.
    + split; [|intros _; exact H6].
      unfold enough_bits. destruct q as [|qp|qp] eqn:Eq; try lia. cbn [Zdigits2].
      pose proof (digits2_pos_ge qp 69 ltac:(lia) H6) as Hd.
      unfold SpecFloat.fexp, prec, emax. lia.
  - destruct (round_scaled_exact_nonneg neg m e10 0 Hpos) as [H1 H2].
    destruct (binary_round_as_aux neg (Z.to_pos (Zpos m * 10 ^ e10)) 0) as (mz & ez & E1 & E2 & E3 & E4).
    exists (Zpos mz), ez, loc_Exact. rewrite H1. split; [exact E1|]. split; [lia|]. split.
    + split; [exact E2|]. exists 0.
      replace (Z.max 0 e10) with e10 by lia. replace (Z.max 0 (- e10)) with 0 by lia.
      rewrite Z.pow_0_r. rewrite E3, H2. replace (0 - ez) with (- ez) by lia. repeat split; try lia.
    + split; [exact E4|]. lia.
Qed.

(** * 4. [parse_float] on plain decimal lexemes *)

(** ** the decimal branch of [parse_float], named *)

(** the optional exponent part (decimal case of the local [after_exp]) *)
Definition after_exp_dec (rest : bytes) : option (Z * bool * bytes) :=
  match rest with
  | ce :: r1 =>
      if (lower ce =? 101)%N then
        match r1 with
        | [] => None
        | cs :: r2 =>
            let '(esign, r3) := if (cs =? 43)%N then (1, r2) else if (cs =? 45)%N then (-1, r2) else (1, r1) in
            match r3 with
            | d :: _ => if is_digit d then
                          let '(e, u, r4) := read_exp_digits r3 0 false in Some (e * esign, u, r4)
                        else None
            | [] => None
            end
        end
      else Some (0, false, rest)
  | [] => Some (0, false, rest)
  end.

(** [ParseFloat] reports an infinite result as a range error *)
Definition keep_finite (v : f64) : option f64 :=
  match v with S754_infinity _ => None | _ => Some v end.

(** the last step: integer [mant] with [nd] digits, decimal exponent [e10] *)
Definition dec_outcome (neg : bool) (mant : N) (e10 nd : Z) : option f64 :=
  match mant with
  | N0 => Some (S754_zero neg)
  | Npos m =>
      keep_finite (if 400 <? e10 then S754_infinity neg
                   else if e10 + nd <? -400 then S754_zero neg
                   else round_scaled neg m e10 0)
  end.

Definition parse_dec_tail (neg : bool) (s1 s : bytes) : option f64 :=
  let '(st, rest) := read_mant false s1 init_st in
  if negb (ms_sawdigits st) then None else
  match after_exp_dec rest with
  | None => None
  | Some (e, under2, rest2) =>
      match rest2 with
      | _ :: _ => None
      | [] =>
          if ((ms_under st || under2) && negb (underscore_ok s))%bool then None else
          dec_outcome neg (ms_mant st) (dp_eff st - ms_nd st + e) (ms_nd st)
      end
  end.

(** [parse_float] IS [parse_dec_tail] when the text is not special and not hexadecimal *)
Lemma parse_float_nonhex : forall (s : bytes) (c : N) (r0 : bytes) (neg : bool) (s1 : bytes),
  special s = None -> s = c :: r0 ->
  (if (c =? 43)%N then (false, r0) else if (c =? 45)%N then (true, r0) else (false, s)) = (neg, s1) ->
  lower (nth 1 s1 0%N) <> 120%N ->
  parse_float s = parse_dec_tail neg s1 s.
Proof.
  intros s c r0 neg s1 Hsp Hs Hsign Hhex. subst s. unfold parse_float. rewrite Hsp. cbv iota beta.
  destruct (c =? 43)%N; [|destruct (c =? 45)%N]; injection Hsign as <- <-; cbv iota beta.
  - destruct r0 as [|c0 [|c1 [|c2 t]]]; try reflexivity. cbn [nth] in Hhex.
    replace (lower c1 =? 120)%N with false by lia. rewrite Bool.andb_false_r. reflexivity.
  - destruct r0 as [|c0 [|c1 [|c2 t]]]; try reflexivity. cbn [nth] in Hhex.
    replace (lower c1 =? 120)%N with false by lia. rewrite Bool.andb_false_r. reflexivity.
  - destruct r0 as [|c1 [|c2 t]]; try reflexivity. cbn [nth] in Hhex.
    replace (lower c1 =? 120)%N with false by lia. rewrite Bool.andb_false_r. reflexivity.
Qed.

(** ** the grammar *)

Definition sign_bytes (o : option bool) : bytes :=
  match o with None => [] | Some false => [43%N] | Some true => [45%N] end.
Definition sign_neg (o : option bool) : bool := match o with Some true => true | _ => false end.

(** [sign] mantissa-text [ (e|E) [sign] digits ] *)
Record dec_lexeme := {
  dl_sign : option bool;                           (* none, [+] (false), [-] (true) *)
  dl_mant : bytes;                                 (* digits with at most one point *)
  dl_exp : option (bool * option bool * bytes)     (* upper-case [E]?, sign, digits *)
}.

Definition exp_bytes (x : option (bool * option bool * bytes)) : bytes :=
  match x with
  | None => []
  | Some (up, sg, ds) => (if up : bool then 69%N else 101%N) :: sign_bytes sg ++ ds
  end.

Definition dl_bytes (d : dec_lexeme) : bytes := sign_bytes (dl_sign d) ++ dl_mant d ++ exp_bytes (dl_exp d).

Definition exp_value (x : option (bool * option bool * bytes)) : Z :=
  match x with
  | None => 0
  | Some (_, sg, ds) => Z.of_N (digits_int ds 0) * (if sign_neg sg then -1 else 1)
  end.

(** well-formed: the mantissa text has only digits and at most one point, at
    least one digit; the exponent has at least one digit, only digits, and is
    below 10000 in absolute value (beyond that [strconv] stops accumulating
    the exponent – the result is then decided by the clamps anyway unless the
    mantissa has thousands of digits) *)
Definition dl_wf (d : dec_lexeme) : Prop :=
  mant_chars false (dl_mant d) = true /\ has_underscore (dl_mant d) = false /\ has_digit (dl_mant d) = true /\
  match dl_exp d with
  | None => True
  | Some (_, _, ds) => ds <> [] /\ forallb is_digit ds = true /\ Z.of_N (digits_int ds 0) < 10000
  end.

(** The rational value of the lexeme [d] is
        (-1)^(sign_neg (dl_sign d)) * dl_int d * 10 ^ dl_exp10 d. *)
Definition dl_int (d : dec_lexeme) : N := digits_int (dl_mant d) 0.
Definition dl_exp10 (d : dec_lexeme) : Z := exp_value (dl_exp d) - frac_count (dl_mant d).

(** ** pieces *)

Lemma lower_small : forall c, (c < 65)%N -> lower c = c.
Proof. intros c H. unfold lower. replace ((65 <=? c)%N && (c <=? 90)%N)%bool with false by lia. reflexivity. Qed.

Lemma mant_first : forall p, mant_chars false p = true -> has_underscore p = false -> has_digit p = true ->
  exists c t, p = c :: t /\ (is_digit c = true \/ c = 46%N).
Proof.
  intros [|c t] Hc Hu Hd; [discriminate Hd|]. exists c, t. split; [reflexivity|].
  cbn [mant_chars has_underscore existsb] in Hc, Hu.
  destruct (c =? 95)%N eqn:E95; [exfalso; lia|].
  destruct (c =? 46)%N eqn:E46; [right; lia|]. left. lia.
Qed.

Lemma mant_char_small : forall c, is_digit c = true \/ c = 46%N -> (c < 65)%N /\ (c =? 43)%N = false /\ (c =? 45)%N = false.
Proof. intros c [H|H]; [apply is_digit_range in H|]; lia. Qed.

Lemma special_none : forall sg c t, (is_digit c = true \/ c = 46%N) -> special (sign_bytes sg ++ c :: t) = None.
Proof.
  intros sg c t Hc. destruct (mant_char_small c Hc) as (Hs & H43 & H45).
  assert (Hi : ieq (c :: t) (b "inf") = false).
  { unfold ieq. cbn [map]. rewrite (lower_small c Hs). change (b "inf") with [105; 110; 102]%N. cbn [beq].
    replace (c =? 105)%N with false by lia. reflexivity. }
  assert (Hy : ieq (c :: t) (b "infinity") = false).
  { unfold ieq. cbn [map]. rewrite (lower_small c Hs). change (b "infinity") with [105; 110; 102; 105; 110; 105; 116; 121]%N.
    cbn [beq]. replace (c =? 105)%N with false by lia. reflexivity. }
  assert (Hn : ieq (c :: t) (b "nan") = false).
  { unfold ieq. cbn [map]. rewrite (lower_small c Hs). change (b "nan") with [110; 97; 110]%N. cbn [beq].
    replace (c =? 110)%N with false by lia. reflexivity. }
  destruct sg as [[|]|]; cbn [sign_bytes app]; unfold special.
  - change (45 =? 43)%N with false. change (45 =? 45)%N with true. cbv iota beta. rewrite Hi, Hy. reflexivity.
  - change (43 =? 43)%N with true. cbv iota beta. rewrite Hi, Hy. reflexivity.
  - rewrite H43, H45. cbv iota beta. rewrite Hi, Hy, Hn. reflexivity.
Qed.

(** a byte on which the mantissa loop certainly stops *)
Definition hard_stop (ex : bytes) : Prop :=
  match ex with [] => True | c :: _ => (c =? 95)%N = false /\ is_digit c = false /\ (c =? 46)%N = false end.

Lemma read_mant_stops : forall p ex st,
  mant_chars (ms_sawdot st) p = true -> hard_stop ex -> snd (read_mant false (p ++ ex) st) = ex.
Proof.
  induction p as [|c r IH]; intros ex st Hc Hex.
  - cbn [app]. destruct ex as [|c r]; [reflexivity|]. destruct Hex as (H1 & H2 & H3).
    cbn [read_mant]. rewrite H1, H3, H2. reflexivity.
  - cbn [app read_mant]. cbn [mant_chars] in Hc. destruct (c =? 95)%N.
    { apply IH; assumption. }
    destruct (c =? 46)%N.
    { apply andb_prop in Hc. destruct Hc as [Hsd Hc]. destruct (ms_sawdot st); [discriminate Hsd|].
      apply IH; assumption. }
    apply andb_prop in Hc. destruct Hc as [Hd Hc]. rewrite Hd.
    destruct ((c =? 48)%N && (ms_nd st =? 0))%bool; apply IH; assumption.
Qed.

Lemma read_exp_digits_value : forall ds (a : N) (u : bool),
  forallb is_digit ds = true -> Z.of_N (digits_int ds a) < 10000 ->
  read_exp_digits ds (Z.of_N a) u = (Z.of_N (digits_int ds a), u, []).
Proof.
  induction ds as [|c r IH]; intros a u Hd Hv; [reflexivity|].
  cbn [forallb] in Hd. apply andb_prop in Hd. destruct Hd as [Hc Hd].
  cbn [read_exp_digits digits_int] in *. rewrite Hc in *. rewrite (is_digit_not_underscore c Hc).
  pose proof (digits_int_ge r (a * 10 + (c - 48))%N) as Hge.
  replace (Z.of_N a <? 10000) with true by lia.
  replace (Z.of_N a * 10 + Z.of_N (c - 48)) with (Z.of_N (a * 10 + (c - 48))) by lia.
  apply IH; assumption.
Qed.

Lemma after_exp_dec_value : forall x,
  match x with
  | None => True
  | Some (_, _, ds) => ds <> [] /\ forallb is_digit ds = true /\ Z.of_N (digits_int ds 0) < 10000
  end ->
  after_exp_dec (exp_bytes x) = Some (exp_value x, false, []).
Proof.
  intros [[[up sg] ds]|] H; [|reflexivity]. destruct H as (Hne & Hd & Hv).
  destruct ds as [|d0 ds']; [contradiction|]. clear Hne.
  pose proof Hd as Hd0. cbn [forallb] in Hd0. apply andb_prop in Hd0. destruct Hd0 as [Hd0 _].
  pose proof (is_digit_range d0 Hd0) as Hr.
  pose proof (read_exp_digits_value (d0 :: ds') 0%N false Hd Hv) as Hread. change (Z.of_N 0) with 0 in Hread.
  unfold exp_bytes, after_exp_dec, exp_value.
  assert (Hl : (lower (if up then 69 else 101) =? 101)%N = true) by (destruct up; reflexivity).
  rewrite Hl. destruct sg as [[|]|]; cbn [sign_bytes app sign_neg].
  - change (45 =? 43)%N with false. change (45 =? 45)%N with true. cbv iota beta.
    rewrite Hd0, Hread. reflexivity.
  - change (43 =? 43)%N with true. cbv iota beta. rewrite Hd0, Hread. reflexivity.
  - replace (d0 =? 43)%N with false by lia. replace (d0 =? 45)%N with false by lia. cbv iota beta.
    rewrite Hd0, Hread. reflexivity.
Qed.

Lemma exp_bytes_hard_stop : forall x, hard_stop (exp_bytes x).
Proof. intros [[[[|] sg] ds]|]; cbn [exp_bytes hard_stop]; repeat split; reflexivity. Qed.

(** ** the result of [parse_float] on a plain decimal lexeme *)
Lemma parse_float_dec : forall d : dec_lexeme,
  dl_wf d ->
  exists nd : Z,
    0 <= nd /\ Z.of_N (dl_int d) < 10 ^ nd /\ (0 < nd -> 10 ^ (nd - 1) <= Z.of_N (dl_int d)) /\
    parse_float (dl_bytes d) = dec_outcome (sign_neg (dl_sign d)) (dl_int d) (dl_exp10 d) nd.
Proof.
  intros [sg p x] (Hc & Hu & Hd & Hx). cbn [dl_sign dl_mant dl_exp] in *.
  unfold dl_bytes, dl_int, dl_exp10. cbn [dl_sign dl_mant dl_exp].
  destruct (mant_first p Hc Hu Hd) as (c & t & Hp & Hcc).
  destruct (mant_char_small c Hcc) as (Hsmall & H43 & H45).
  set (s1 := p ++ exp_bytes x). set (s := sign_bytes sg ++ s1).
  (* the sign and hex tests *)
  assert (Hs1 : s1 = c :: (t ++ exp_bytes x)) by (unfold s1; rewrite Hp; reflexivity).
  assert (Hsp : special s = None) by (unfold s; rewrite Hs1; apply special_none; exact Hcc).
  assert (Hhex : lower (nth 1 s1 0%N) <> 120%N).
  { rewrite Hs1. cbn [nth]. destruct t as [|c1 t'].
    - cbn [app]. destruct x as [[[[|] sg'] ds]|]; cbn [exp_bytes nth]; try discriminate.
    - cbn [app nth]. rewrite Hp in Hc. cbn [mant_chars] in Hc.
      assert (Hc1 : is_digit c1 = true \/ c1 = 46%N).
      { rewrite Hp in Hu. cbn [has_underscore existsb] in Hu.
        destruct (c =? 95)%N eqn:E95; [exfalso; lia|].
        assert (Hc' : exists sd, mant_chars sd (c1 :: t') = true).
        { destruct (c =? 46)%N; [exists true|exists false]; apply andb_prop in Hc; apply Hc. }
        destruct Hc' as [sd Hc']. cbn [mant_chars] in Hc'.
        destruct (c1 =? 95)%N eqn:E95'; [exfalso; lia|].
        destruct (c1 =? 46)%N eqn:E46'; [right; lia|]. left. lia. }
      destruct (mant_char_small c1 Hc1) as (Hsm1 & _ & _). rewrite (lower_small c1 Hsm1). lia. }
  assert (Hpf : parse_float s = parse_dec_tail (sign_neg sg) s1 s).
  { destruct sg as [[|]|]; cbn [sign_neg].
    - apply (parse_float_nonhex s 45%N s1 true s1 Hsp); [reflexivity|reflexivity|exact Hhex].
    - apply (parse_float_nonhex s 43%N s1 false s1 Hsp); [reflexivity|reflexivity|exact Hhex].
    - apply (parse_float_nonhex s c (t ++ exp_bytes x) false s1 Hsp); [exact Hs1| |exact Hhex].
      rewrite H43, H45. reflexivity. }
  rewrite Hpf. unfold parse_dec_tail.
  (* the mantissa loop *)
  destruct (read_mant false s1 init_st) as [st rest] eqn:Erm.
  assert (Hrest : rest = exp_bytes x).
  { pose proof (read_mant_stops p (exp_bytes x) init_st Hc (exp_bytes_hard_stop x)) as H.
    fold s1 in H. rewrite Erm in H. exact H. }
  destruct (mantissa_value_lemma s1 st rest Erm)
    as (p' & Hsplit & _ & Hm & Hdp & Hnd0 & Hnd1 & Hnd2 & _ & Hdig & Hund & _).
  assert (Hp' : p' = p).
  { unfold s1 in Hsplit. rewrite Hrest in Hsplit. apply app_inv_tail in Hsplit. symmetry. exact Hsplit. }
  subst p'. rewrite Hdig, Hd. cbn [negb]. rewrite Hrest, (after_exp_dec_value x Hx).
  rewrite Hund, Hu. cbn [orb andb].
  exists (ms_nd st). rewrite <- Hm. split; [exact Hnd0|]. split; [exact Hnd1|]. split; [exact Hnd2|].
  f_equal. unfold dp_eff. lia.
Qed.

(** * 5. The exact description of a decimal lexeme *)

Theorem parse_float_zero_mantissa : forall d : dec_lexeme,
  dl_wf d -> dl_int d = 0%N -> parse_float (dl_bytes d) = Some (S754_zero (sign_neg (dl_sign d))).
Proof.
  intros d Hwf H0. destruct (parse_float_dec d Hwf) as (nd & _ & _ & _ & H). rewrite H, H0. reflexivity.
Qed.

(** For a plain decimal lexeme [d] with non-zero digits [m], sign [neg] and
    decimal exponent [e10] (so its rational value is (-1)^neg * m * 10^e10):
    [nd] is the number of decimal digits of [m], hence
    10^(e10+nd-1) <= m * 10^e10 < 10^(e10+nd), and
    - if [400 < e10] the value is above 10^400 > 2^1024: range error;
    - if [e10 + nd < -400] the value is below 10^(-400) < 2^(-1075): zero with the sign;
    - otherwise the result is [binary_round_aux 53 1024 neg q e loc] (an infinite
      result reported as range error) where [(q, e, loc)] describes m * 10^e10
      exactly and [q] has enough bits for one rounding. *)
Theorem parse_float_exact_description_lemma : forall (d : dec_lexeme) (m : positive),
  dl_wf d -> dl_int d = Npos m ->
  let neg := sign_neg (dl_sign d) in
  let e10 := dl_exp10 d in
  exists nd : Z,
    10 ^ (nd - 1) <= Zpos m < 10 ^ nd /\
    (400 < e10 -> parse_float (dl_bytes d) = None) /\
    (e10 <= 400 -> e10 + nd < -400 -> parse_float (dl_bytes d) = Some (S754_zero neg)) /\
    (e10 <= 400 -> -400 <= e10 + nd ->
       exists q e loc,
         0 < q /\ exact_triple (Zpos m) e10 q e loc /\ enough_bits q e /\
         parse_float (dl_bytes d) = keep_finite (binary_round_aux prec emax neg q e loc)).
Proof.
  intros d m Hwf Hm neg e10. destruct (parse_float_dec d Hwf) as (nd & Hnd0 & Hnd1 & Hnd2 & H).
  rewrite Hm in Hnd1, Hnd2, H. change (Z.of_N (Npos m)) with (Zpos m) in Hnd1, Hnd2.
  fold neg e10 in H. exists nd.
  assert (Hpos : 0 < nd).
  { destruct (Z.eq_dec nd 0) as [E|E]; [|lia]. rewrite E in Hnd1. change (10 ^ 0) with 1 in Hnd1. lia. }
  split; [split; [apply Hnd2; exact Hpos|exact Hnd1]|].
  unfold dec_outcome in H. split; [|split].
  - intro Hbig. rewrite H. replace (400 <? e10) with true by lia. reflexivity.
  - intros Hle Hsmall. rewrite H. replace (400 <? e10) with false by lia.
    replace (e10 + nd <? -400) with true by lia. reflexivity.
  - intros Hle Hge. rewrite H. replace (400 <? e10) with false by lia.
    replace (e10 + nd <? -400) with false by lia.
    destruct (round_scaled_exact_lemma neg m e10) as (q & e & loc & E1 & E2 & E3 & E4 & _).
    exists q, e, loc. rewrite E1. split; [exact E2|]. split; [exact E3|]. split; [exact E4|reflexivity].
Qed.

(** * 6. Non-vacuity *)

Example mantissa_value_example :
  exists st, read_mant false (b "012.50e3") init_st = (st, b "e3") /\
    ms_mant st = 1250%N /\ (if ms_sawdot st then ms_dp st else ms_nd st) - ms_nd st = -2 /\ ms_nd st = 4 /\
    digits_int (b "012.50") 0 = 1250%N /\ frac_count (b "012.50") = 2.
Proof. eexists. vm_compute. repeat split; reflexivity. Qed.

Example mantissa_value_leading_zeros :   (* 0.00125 = 125 * 10^-5 *)
  exists st, read_mant false (b "0.00125") init_st = (st, []) /\
    ms_mant st = 125%N /\ (if ms_sawdot st then ms_dp st else ms_nd st) - ms_nd st = -5 /\ ms_nd st = 3.
Proof. eexists. vm_compute. repeat split; reflexivity. Qed.

Definition lex_0_1 : dec_lexeme := {| dl_sign := None; dl_mant := b "0.1"; dl_exp := None |}.
Definition lex_m2_5E3 : dec_lexeme :=
  {| dl_sign := Some true; dl_mant := b "2.5"; dl_exp := Some (true, Some false, b "3") |}.
Definition lex_4_9em324 : dec_lexeme :=
  {| dl_sign := None; dl_mant := b "4.9"; dl_exp := Some (false, Some true, b "324") |}.

Example lex_0_1_bytes : dl_bytes lex_0_1 = b "0.1" /\ dl_wf lex_0_1 /\ dl_int lex_0_1 = 1%N /\ dl_exp10 lex_0_1 = -1.
Proof. vm_compute. repeat split; reflexivity. Qed.

Example lex_m2_5E3_bytes :
  dl_bytes lex_m2_5E3 = b "-2.5E+3" /\ dl_wf lex_m2_5E3 /\ dl_int lex_m2_5E3 = 25%N /\ dl_exp10 lex_m2_5E3 = 2.
Proof. vm_compute. repeat split; try reflexivity; discriminate. Qed.

Example lex_4_9em324_bytes :
  dl_bytes lex_4_9em324 = b "4.9e-324" /\ dl_wf lex_4_9em324 /\ dl_int lex_4_9em324 = 49%N /\ dl_exp10 lex_4_9em324 = -325.
Proof. vm_compute. repeat split; try reflexivity; discriminate. Qed.

(** the triple for "0.1": q = floor(2^70 / 10) * ..., inexact, below the midpoint or above *)
Example round_scaled_0_1 :
  round_scaled false 1 (-1) 0 = binary_round_aux prec emax false 236118324143482260684 (-71) (loc_Inexact Gt)
  /\ 1 * 2 ^ 71 = 236118324143482260684 * 10 + 8.
Proof. vm_compute. split; reflexivity. Qed.

(** the known bit patterns *)
Example parse_0_1_bits : option_map bits_of (parse_float (b "0.1")) = Some 4591870180066957722.   (* 0x3FB999999999999A *)
Proof. vm_compute. reflexivity. Qed.
Example parse_2_675_bits : option_map bits_of (parse_float (b "2.675")) = Some 4613205983301625446. (* 0x4005666666666666 *)
Proof. vm_compute. reflexivity. Qed.
Example parse_1e23_bits : option_map bits_of (parse_float (b "1e23")) = Some 4950912855330343670.   (* 0x44B52D02C7E14AF6 *)
Proof. vm_compute. reflexivity. Qed.
Example parse_4_9em324_bits : option_map bits_of (parse_float (b "4.9e-324")) = Some 1.             (* smallest subnormal *)
Proof. vm_compute. reflexivity. Qed.
Example parse_1e400_range : parse_float (b "1e400") = None /\ parse_float (b "1e-400") = Some (S754_zero false).
Proof. vm_compute. split; reflexivity. Qed.
