(** WP11 helper facts: byte-string equality and order, insertion sort, association lists,
    first-occurrence lists, split/join. *)
From HP Require Import Base.Bytes Base.Num Model.Elements Spec.Agree2Spec.
From Coq Require Import Lia Permutation Sorted.

(** *** beq *)
Lemma beq_true_iff : forall x y, beq x y = true <-> x = y.
Proof.
  induction x as [|a x IH]; intros [|c y]; cbn [beq]; split; intro H; try reflexivity; try discriminate.
  - apply andb_true_iff in H. destruct H as [H1 H2]. apply N.eqb_eq in H1. apply IH in H2. subst. reflexivity.
  - injection H as H1 H2. subst. rewrite N.eqb_refl. cbn. apply IH. reflexivity.
Qed.

Lemma beq_refl : forall x, beq x x = true.
Proof. intro x. apply beq_true_iff. reflexivity. Qed.

Lemma beq_false_iff : forall x y, beq x y = false <-> x <> y.
Proof.
  intros x y. split.
  - intros H E. apply beq_true_iff in E. congruence.
  - intro H. destruct (beq x y) eqn:E; [apply beq_true_iff in E; contradiction | reflexivity].
Qed.

Lemma beq_sym : forall x y, beq x y = beq y x.
Proof.
  intros x y. destruct (beq x y) eqn:E.
  - apply beq_true_iff in E. subst. symmetry. apply beq_refl.
  - apply beq_false_iff in E. symmetry. apply beq_false_iff. congruence.
Qed.

Lemma beq_spec : forall x y, reflect (x = y) (beq x y).
Proof.
  intros x y. destruct (beq x y) eqn:E; constructor.
  - apply beq_true_iff. exact E.
  - apply beq_false_iff. exact E.
Qed.

Lemma bytes_eq_dec : forall x y : bytes, {x = y} + {x <> y}.
Proof. intros x y. destruct (beq_spec x y); [left | right]; assumption. Qed.

(** *** the lexicographic order *)
Lemma bltb_irrefl : forall x, bltb x x = false.
Proof.
  induction x as [|a x IH]; cbn [bltb]; [reflexivity|].
  rewrite N.ltb_irrefl. exact IH.
Qed.

Lemma bltb_trans : forall x y z, bltb x y = true -> bltb y z = true -> bltb x z = true.
Proof.
  induction x as [|a x IH]; intros [|c y] [|e z]; cbn [bltb]; intros H1 H2; try discriminate; try reflexivity.
  destruct (N.ltb_spec a c) as [Hac|Hac]; destruct (N.ltb_spec c e) as [Hce|Hce].
  - destruct (N.ltb_spec a e); [reflexivity | lia].
  - destruct (N.ltb_spec e c) as [Hec|Hec]; [discriminate|].
    assert (c = e) by lia. subst. destruct (N.ltb_spec a e); [reflexivity | lia].
  - destruct (N.ltb_spec c a) as [Hca|Hca]; [discriminate|].
    assert (a = c) by lia. subst. destruct (N.ltb_spec c e); [reflexivity | lia].
  - destruct (N.ltb_spec c a) as [Hca|Hca]; [discriminate|].
    destruct (N.ltb_spec e c) as [Hec|Hec]; [discriminate|].
    assert (a = c) by lia. assert (c = e) by lia. subst.
    rewrite N.ltb_irrefl. apply (IH y z); assumption.
Qed.

Lemma bltb_asym : forall x y, bltb x y = true -> bltb y x = false.
Proof.
  intros x y H. destruct (bltb y x) eqn:E; [|reflexivity].
  pose proof (bltb_trans _ _ _ H E) as K. rewrite bltb_irrefl in K. discriminate.
Qed.

Lemma bltb_trichotomy : forall x y, bltb x y = false -> bltb y x = false -> x = y.
Proof.
  induction x as [|a x IH]; intros [|c y]; cbn [bltb]; intros H1 H2; try discriminate; try reflexivity.
  destruct (N.ltb_spec a c) as [Hac|Hac]; [discriminate|].
  destruct (N.ltb_spec c a) as [Hca|Hca]; [discriminate|].
  assert (a = c) by lia. subst. f_equal. apply IH; assumption.
Qed.

Lemma bleb_total : forall x y, bleb x y = true \/ bleb y x = true.
Proof.
  intros x y. unfold bleb. destruct (bltb y x) eqn:E.
  - right. rewrite (bltb_asym _ _ E). reflexivity.
  - left. reflexivity.
Qed.

Lemma bleb_refl : forall x, bleb x x = true.
Proof. intro x. unfold bleb. rewrite bltb_irrefl. reflexivity. Qed.

Lemma bleb_antisym : forall x y, bleb x y = true -> bleb y x = true -> x = y.
Proof.
  intros x y H1 H2. unfold bleb in *. apply negb_true_iff in H1, H2.
  apply bltb_trichotomy; assumption.
Qed.

Lemma bleb_trans : forall x y z, bleb x y = true -> bleb y z = true -> bleb x z = true.
Proof.
  intros x y z H1 H2. unfold bleb in *. apply negb_true_iff in H1, H2. apply negb_true_iff.
  destruct (bltb z x) eqn:E; [|reflexivity].
  (* z < x, not y < x, not z < y *)
  destruct (bltb x y) eqn:Exy.
  - pose proof (bltb_trans _ _ _ E Exy). congruence.
  - assert (x = y) by (apply bltb_trichotomy; assumption). subst. congruence.
Qed.

(** *** insertion sort *)
Section SortFacts.
  Context {A : Type} (leb : A -> A -> bool).

  Lemma insert_sorted_perm : forall x l, Permutation (insert_sorted leb x l) (x :: l).
  Proof.
    intros x l. induction l as [|y r IH]; cbn [insert_sorted]; [apply Permutation_refl|].
    destruct (leb x y); [apply Permutation_refl|].
    eapply perm_trans; [apply perm_skip; exact IH | apply perm_swap].
  Qed.

  Lemma isort_perm : forall l, Permutation (isort leb l) l.
  Proof.
    induction l as [|x r IH]; cbn [isort]; [apply perm_nil|].
    eapply perm_trans; [apply insert_sorted_perm | apply perm_skip; exact IH].
  Qed.

  Hypothesis leb_total : forall x y, leb x y = true \/ leb y x = true.
  Hypothesis leb_trans : forall x y z, leb x y = true -> leb y z = true -> leb x z = true.

  Lemma insert_sorted_sorted : forall x l,
    StronglySorted (fun a c => leb a c = true) l ->
    StronglySorted (fun a c => leb a c = true) (insert_sorted leb x l).
  Proof.
    intros x l H. induction H as [|y r Hr IH Hy]; cbn [insert_sorted].
    - constructor; constructor.
    - destruct (leb x y) eqn:E.
      + constructor; [constructor; assumption|].
        constructor; [exact E|].
        rewrite Forall_forall in *. intros z Hz. eapply leb_trans; [exact E | apply Hy; exact Hz].
      + constructor; [exact IH|].
        assert (Hyx : leb y x = true) by (destruct (leb_total x y); congruence).
        rewrite Forall_forall in *. intros z Hz.
        apply (Permutation_in _ (insert_sorted_perm x r)) in Hz. destruct Hz as [Hz|Hz].
        * subst. exact Hyx.
        * apply Hy. exact Hz.
  Qed.

  Lemma isort_sorted : forall l, StronglySorted (fun a c => leb a c = true) (isort leb l).
  Proof.
    induction l as [|x r IH]; cbn [isort]; [constructor|].
    apply insert_sorted_sorted. exact IH.
  Qed.

  Hypothesis leb_antisym : forall x y, leb x y = true -> leb y x = true -> x = y.

  Lemma sorted_perm_unique : forall l1 l2,
    StronglySorted (fun a c => leb a c = true) l1 ->
    StronglySorted (fun a c => leb a c = true) l2 ->
    Permutation l1 l2 -> l1 = l2.
  Proof.
    induction l1 as [|x r1 IH]; intros l2 H1 H2 HP.
    - apply Permutation_nil in HP. subst. reflexivity.
    - destruct l2 as [|y r2]; [apply Permutation_sym, Permutation_nil in HP; discriminate|].
      inversion H1 as [|? ? Hs1 Hf1]; subst. inversion H2 as [|? ? Hs2 Hf2]; subst.
      rewrite Forall_forall in Hf1, Hf2.
      assert (Hxy : x = y).
      { assert (Hx : In x (y :: r2)) by (eapply Permutation_in; [exact HP | left; reflexivity]).
        assert (Hy : In y (x :: r1)) by (eapply Permutation_in; [apply Permutation_sym; exact HP | left; reflexivity]).
        destruct Hx as [Hx|Hx]; [congruence|]. destruct Hy as [Hy|Hy]; [congruence|].
        apply leb_antisym; [apply Hf1; exact Hy | apply Hf2; exact Hx]. }
      subst y. f_equal. apply IH; try assumption.
      eapply Permutation_cons_inv. exact HP.
  Qed.

  Lemma isort_perm_eq : forall l1 l2, Permutation l1 l2 -> isort leb l1 = isort leb l2.
  Proof.
    intros l1 l2 HP. apply sorted_perm_unique; try apply isort_sorted.
    eapply perm_trans; [apply isort_perm|]. eapply perm_trans; [exact HP|]. apply Permutation_sym, isort_perm.
  Qed.
End SortFacts.

Lemma sort_bytes_perm : forall l, Permutation (sort_bytes l) l.
Proof. intro l. apply isort_perm. Qed.

Lemma sort_bytes_sorted : forall l, StronglySorted (fun a c => bleb a c = true) (sort_bytes l).
Proof. intro l. apply isort_sorted; [apply bleb_total | apply bleb_trans]. Qed.

Lemma sort_bytes_perm_eq : forall l1 l2, Permutation l1 l2 -> sort_bytes l1 = sort_bytes l2.
Proof.
  intros l1 l2 H. apply isort_perm_eq; try assumption.
  - apply bleb_total. - apply bleb_trans. - apply bleb_antisym.
Qed.

Lemma sort_bytes_In : forall l x, In x (sort_bytes l) <-> In x l.
Proof.
  intros l x. split; intro H.
  - eapply Permutation_in; [apply sort_bytes_perm | exact H].
  - eapply Permutation_in; [apply Permutation_sym, sort_bytes_perm | exact H].
Qed.

(** *** association lists *)
Section AssocFacts.
  Context {V : Type}.

  Lemma lookup_app : forall k (l1 l2 : list (bytes * V)),
    lookup k (l1 ++ l2) = match lookup k l1 with Some v => Some v | None => lookup k l2 end.
  Proof.
    intros k l1 l2. induction l1 as [|[k' v'] r IH]; cbn [lookup app]; [reflexivity|].
    destruct (beq k k'); [reflexivity | exact IH].
  Qed.

  Lemma lookup_None_iff : forall k (l : list (bytes * V)), lookup k l = None <-> ~ In k (keys l).
  Proof.
    intros k l. induction l as [|[k' v'] r IH]; cbn [lookup keys map fst In].
    - split; [intros _ [] | reflexivity].
    - destruct (beq_spec k k') as [E|E].
      + split; [discriminate | intro H; exfalso; apply H; left; congruence].
      + rewrite IH. unfold keys. split; [intros H [H'|H']; [congruence | contradiction] | intros H H'; apply H; right; exact H'].
  Qed.

  Lemma lookup_Some_In : forall k v (l : list (bytes * V)), lookup k l = Some v -> In (k, v) l.
  Proof.
    intros k v l. induction l as [|[k' v'] r IH]; cbn [lookup]; [discriminate|].
    destruct (beq_spec k k') as [E|E]; intro H.
    - injection H as H. subst. left. reflexivity.
    - right. apply IH. exact H.
  Qed.

  Lemma lookup_In_keys : forall k (l : list (bytes * V)), In k (keys l) -> exists v, lookup k l = Some v.
  Proof.
    intros k l H. destruct (lookup k l) as [v|] eqn:E; [exists v; reflexivity|].
    apply lookup_None_iff in E. contradiction.
  Qed.

  Lemma In_lookup_NoDup : forall k v (l : list (bytes * V)),
    NoDup (keys l) -> In (k, v) l -> lookup k l = Some v.
  Proof.
    intros k v l. induction l as [|[k' v'] r IH]; cbn [keys map fst lookup In]; intros ND H; [contradiction|].
    inversion ND as [|? ? Hn ND']; subst.
    destruct H as [H|H].
    - injection H as H1 H2. subst. rewrite beq_refl. reflexivity.
    - destruct (beq_spec k k') as [E|E].
      + subst. exfalso. apply Hn. change (In (fst (k', v)) (map fst r)). apply in_map. exact H.
      + apply IH; assumption.
  Qed.

  Lemma keys_set : forall k v (l : list (bytes * V)),
    keys (set k v l) = match lookup k l with Some _ => keys l | None => keys l ++ [k] end.
  Proof.
    intros k v l. induction l as [|[k' v'] r IH]; cbn [set lookup keys map fst app]; [reflexivity|].
    destruct (beq_spec k k') as [E|E]; cbn [map fst].
    - subst. reflexivity.
    - unfold keys in IH. rewrite IH. destruct (lookup k r); reflexivity.
  Qed.

  Lemma lookup_set : forall k k' v (l : list (bytes * V)),
    lookup k' (set k v l) = if beq k' k then Some v else lookup k' l.
  Proof.
    intros k k' v l. induction l as [|[k0 v0] r IH]; cbn [set lookup].
    - reflexivity.
    - destruct (beq_spec k k0) as [E|E]; cbn [lookup].
      + subst. destruct (beq k' k0); reflexivity.
      + rewrite IH. destruct (beq_spec k' k0) as [E'|E']; [|reflexivity].
        subst. destruct (beq_spec k0 k); [congruence | reflexivity].
  Qed.
End AssocFacts.

(** *** first occurrences *)
Lemma first_occ_In : forall l x, In x (first_occ l) <-> In x l.
Proof.
  induction l as [|y r IH]; intro x; cbn [first_occ In]; [reflexivity|].
  rewrite filter_In, IH. split.
  - intros [H|[H _]]; [left | right]; assumption.
  - intros [H|H]; [left; exact H|]. destruct (beq_spec x y) as [E|E]; [left; congruence|].
    right. split; [exact H | reflexivity].
Qed.

Lemma NoDup_filter : forall {A} (p : A -> bool) l, NoDup l -> NoDup (filter p l).
Proof.
  intros A p l H. induction H as [|x r Hx Hr IH]; cbn [filter]; [constructor|].
  destruct (p x); [|exact IH]. constructor; [|exact IH].
  rewrite filter_In. intros [H _]. contradiction.
Qed.

Lemma first_occ_NoDup : forall l, NoDup (first_occ l).
Proof.
  induction l as [|y r IH]; cbn [first_occ]; constructor.
  - rewrite filter_In. intros [_ H]. rewrite beq_refl in H. discriminate.
  - apply NoDup_filter. exact IH.
Qed.

Lemma filter_filter_comm : forall {A} (p q : A -> bool) l, filter p (filter q l) = filter q (filter p l).
Proof.
  intros A p q l. induction l as [|x r IH]; cbn [filter]; [reflexivity|].
  destruct (p x) eqn:Ep; destruct (q x) eqn:Eq; cbn [filter]; rewrite ?Ep, ?Eq, IH; reflexivity.
Qed.

Lemma filter_idem_ext : forall {A} (p : A -> bool) l, (forall x, In x l -> p x = true) -> filter p l = l.
Proof.
  intros A p l H. induction l as [|x r IH]; cbn [filter]; [reflexivity|].
  rewrite (H x (or_introl eq_refl)). f_equal. apply IH. intros y Hy. apply H. right. exact Hy.
Qed.

Lemma first_occ_filter : forall (p : bytes -> bool) l, first_occ (filter p l) = filter p (first_occ l).
Proof.
  intros p l. induction l as [|y r IH]; cbn [first_occ filter]; [reflexivity|].
  destruct (p y) eqn:E; cbn [first_occ].
  - rewrite IH. f_equal. apply filter_filter_comm.
  - rewrite IH. rewrite filter_filter_comm.
    symmetry. apply filter_idem_ext. intros x Hx. apply filter_In in Hx. destruct Hx as [_ Hx].
    destruct (beq_spec x y) as [Exy|Exy]; [subst; congruence | reflexivity].
Qed.

Lemma first_occ_NoDup_id : forall l, NoDup l -> first_occ l = l.
Proof.
  intros l H. induction H as [|x r Hx Hr IH]; cbn [first_occ]; [reflexivity|].
  rewrite IH. f_equal. apply filter_idem_ext. intros y Hy.
  destruct (beq_spec y x) as [E|E]; [subst; contradiction | reflexivity].
Qed.

(** [first_occ] as the "append if absent" fold the reporters run *)
Lemma first_occ_snoc : forall l x,
  first_occ (l ++ [x]) = if existsb (beq x) (first_occ l) then first_occ l else first_occ l ++ [x].
Proof.
  induction l as [|y r IH]; intro x; cbn [app first_occ existsb filter].
  - reflexivity.
  - rewrite IH. destruct (beq_spec x y) as [E|E]; cbn [orb].
    + subst y.
      assert (Hf : forall l', filter (fun z => negb (beq z x)) (l' ++ [x]) = filter (fun z => negb (beq z x)) l').
      { intro l'. rewrite filter_app. cbn [filter]. rewrite beq_refl. cbn [negb]. apply app_nil_r. }
      destruct (existsb (beq x) (first_occ r)); [reflexivity|]. rewrite Hf. reflexivity.
    + assert (Hex : existsb (beq x) (filter (fun z => negb (beq z y)) (first_occ r)) = existsb (beq x) (first_occ r)).
      { generalize (first_occ r). intro l'. induction l' as [|z l' IHl]; cbn [filter existsb]; [reflexivity|].
        destruct (beq_spec z y) as [Ezy|Ezy]; cbn [negb existsb].
        - subst z. destruct (beq_spec x y); [contradiction|]. cbn [orb]. exact IHl.
        - rewrite IHl. reflexivity. }
      rewrite Hex. destruct (existsb (beq x) (first_occ r)); [reflexivity|].
      rewrite filter_app. cbn [filter]. destruct (beq_spec x y); [contradiction|]. cbn [negb].
      reflexivity.
Qed.

Lemma existsb_beq_In : forall x l, existsb (beq x) l = true <-> In x l.
Proof.
  intros x l. rewrite existsb_exists. split.
  - intros [y [Hy E]]. apply beq_true_iff in E. subst. exact Hy.
  - intro H. exists x. split; [exact H | apply beq_refl].
Qed.

(** *** split / join *)
Lemma split_on_nonempty : forall c s, split_on c s <> [].
Proof.
  intros c s. destruct s as [|x r]; cbn [split_on]; [discriminate|].
  destruct (N.eqb x c); [discriminate|]. destruct (split_on c r); discriminate.
Qed.

Lemma join_cons : forall sep x y l, join sep (x :: y :: l) = x ++ sep ++ join sep (y :: l).
Proof. reflexivity. Qed.

Lemma join_split_on : forall c s, join [c] (split_on c s) = s.
Proof.
  intros c s. induction s as [|x r IH]; cbn [split_on]; [reflexivity|].
  pose proof (split_on_nonempty c r) as Hne.
  destruct (split_on c r) as [|h t] eqn:Es; [contradiction|].
  destruct (N.eqb_spec x c) as [E|E].
  - subst x. rewrite join_cons, IH. reflexivity.
  - destruct t as [|h' t'].
    + cbn [join] in *. subst h. reflexivity.
    + rewrite join_cons in *. rewrite <- IH. reflexivity.
Qed.

Lemma split_on_inj : forall c s1 s2, split_on c s1 = split_on c s2 -> s1 = s2.
Proof.
  intros c s1 s2 H. rewrite <- (join_split_on c s1), <- (join_split_on c s2), H. reflexivity.
Qed.

Lemma segs_inj : forall f g, segs f = segs g -> f = g.
Proof. intros f g. apply split_on_inj. Qed.

Lemma segs_nonempty : forall f, segs f <> [].
Proof. intro f. apply split_on_nonempty. Qed.

(** *** path prefixes *)
Lemma path_prefix_refl : forall p, path_prefix p p = true.
Proof. induction p as [|a p IH]; cbn [path_prefix]; [reflexivity|]. rewrite beq_refl. exact IH. Qed.

Lemma path_prefix_app : forall p l, path_prefix p l = true <-> exists s, l = p ++ s.
Proof.
  induction p as [|a p IH]; intro l; cbn [path_prefix].
  - split; [intros _; exists l; reflexivity | reflexivity].
  - destruct l as [|c l'].
    + split; [discriminate | intros [s Hs]; discriminate].
    + rewrite andb_true_iff, beq_true_iff, IH. split.
      * intros [E [s Hs]]. subst. exists s. reflexivity.
      * intros [s Hs]. injection Hs as E Hs. split; [symmetry; exact E | exists s; exact Hs].
Qed.

(** *** folds *)
Lemma fold_left_ext_in : forall {A B} (f g : A -> B -> A) l a,
  (forall a x, In x l -> f a x = g a x) -> fold_left f l a = fold_left g l a.
Proof.
  intros A B f g l. induction l as [|x r IH]; intros a H; cbn [fold_left]; [reflexivity|].
  rewrite (H a x (or_introl eq_refl)). apply IH. intros a' y Hy. apply H. right. exact Hy.
Qed.
