(** C15 for the complete output of a run (standard output never failing):
    colour changes the output only by escape sequences; the default output is the
    no-totals and totals-only outputs interleaved day by day; the template
    reporter and the old reporter print layouts of the same per-day items. *)
From Coq Require Import Lia.
From HP Require Import Base.Bytes Base.Utf8 Base.Num Model.Scanner Model.Parser Model.Elements Model.Resolver
  Model.Dates Model.Tree Model.Writer Model.Reporters Model.Cli Spec.PresentationSpec.
From HP Require Import Proofs.PresentationStrip Proofs.PresentationColour Proofs.PresentationLayout
  Proofs.PresentationRun.
Local Open Scope N_scope.

(** *** strings after which the escape scanner is in its ground state *)
Definition ends_ok (a : bytes) : Prop := forall r, strip_sgr (a ++ r) = strip_sgr a ++ strip_sgr r.

Lemma ends_ok_nil : ends_ok [].
Proof. intros r. reflexivity. Qed.

Lemma ends_ok_app : forall a c, ends_ok a -> ends_ok c -> ends_ok (a ++ c).
Proof.
  intros a c Ha Hc r. rewrite <- app_assoc, Ha, Hc, Ha, app_assoc. reflexivity.
Qed.

Lemma ends_ok_lf : forall x, ends_ok (x ++ [c_lf]).
Proof.
  intros x r. rewrite <- app_assoc. cbn [app].
  rewrite (strip_app_good x (c_lf :: r)) by reflexivity.
  rewrite (strip_app_good x [c_lf]) by reflexivity.
  rewrite !strip_cons_other by discriminate. rewrite strip_nil, <- app_assoc. reflexivity.
Qed.

Lemma ends_ok_flat_map : forall {A} (f : A -> bytes) l, (forall x, In x l -> ends_ok (f x)) -> ends_ok (flat_map f l).
Proof.
  intros A f l H. induction l as [|x l IH]; [exact ends_ok_nil|].
  cbn [flat_map]. apply ends_ok_app; [apply H; left; reflexivity|].
  apply IH. intros y Hy. apply H. right. exact Hy.
Qed.

Lemma strip_flat_map_eq : forall {A} (f g : A -> bytes) l,
  (forall x, In x l -> ends_ok (f x) /\ ends_ok (g x) /\ strip_sgr (f x) = strip_sgr (g x)) ->
  strip_sgr (flat_map f l) = strip_sgr (flat_map g l).
Proof.
  intros A f g l H. induction l as [|x l IH]; [reflexivity|].
  cbn [flat_map]. destruct (H x (or_introl eq_refl)) as (Hf & Hg & E).
  rewrite Hf, Hg, E, IH; [reflexivity|]. intros y Hy. apply H. right. exact Hy.
Qed.

Lemma ends_ok_chunks : forall cs, (forall ch, In ch cs -> exists x, fst ch = x ++ [c_lf]) -> ends_ok (chunk_bytes cs).
Proof.
  intros cs H. unfold chunk_bytes. induction cs as [|ch cs IH]; [exact ends_ok_nil|].
  cbn [map concat]. apply ends_ok_app.
  - destruct (H ch (or_introl eq_refl)) as [x Hx]. pose proof (ends_ok_lf x) as Hl.
    rewrite <- Hx in Hl. exact Hl.
  - apply IH. intros ch' Hin. apply H. right. exact Hin.
Qed.

Section RunC15.
  Context (NM : Num).
  Notation T := (T NM).
  Notation elements := (elements NM).
  Notation db := (list (bytes * elements)).

  (** *** reporters with a trivial state: the bytes of the days, concatenated *)
  Lemma feed_days_const : forall (R : reporter NM) pd days st,
    (forall perm s ln, fst (fst (r_process NM R perm s ln)) = s) ->
    feed_days NM R pd days st
    = (st, flat_map (fun il => process_bytes NM R (pd (fst il)) st (snd il)) days).
  Proof.
    intros R pd days st H. induction days as [|[i ln] days IH]; [reflexivity|].
    cbn [feed_days flat_map fst snd]. rewrite H, IH. reflexivity.
  Qed.

  Lemma template_const : forall c (d : db) perm s ln, fst (fst (r_process NM (rep_template NM c d) perm s ln)) = s.
  Proof. intros c d perm [] ln. reflexivity. Qed.
  Lemma summary_const : forall c (d : db) perm s ln, fst (fst (r_process NM (rep_summary NM c d) perm s ln)) = s.
  Proof. intros c d perm [] ln. reflexivity. Qed.
  Lemma old_const : forall c (d : db) perm s ln, fst (fst (r_process NM (rep_old NM c d) perm s ln)) = s.
  Proof. intros c d perm [] ln. reflexivity. Qed.

  Lemma template_never_fails : forall c (d : db), process_never_fails NM (rep_template NM c d).
  Proof. intros c d perm st ln. reflexivity. Qed.
  Lemma summary_never_fails : forall c (d : db), process_never_fails NM (rep_summary NM c d).
  Proof. intros c d perm st ln. reflexivity. Qed.
  Lemma old_never_fails : forall c (d : db), process_never_fails NM (rep_old NM c d).
  Proof. intros c d perm st ln. reflexivity. Qed.

  (** the three reporters C15 is about *)
  Inductive reg_kind := KTemplate | KSummary | KOld.
  Definition reg_rep (k : reg_kind) (c : rconfig) (d : db) : reporter NM :=
    match k with KTemplate => rep_template NM c d | KSummary => rep_summary NM c d | KOld => rep_old NM c d end.

  Lemma reg_rep_const : forall k c d perm s ln, fst (fst (r_process NM (reg_rep k c d) perm s ln)) = s.
  Proof. intros [| |] c d; [apply template_const|apply summary_const|apply old_const]. Qed.
  Lemma reg_rep_never_fails : forall k c d, process_never_fails NM (reg_rep k c d).
  Proof. intros [| |] c d; [apply template_never_fails|apply summary_never_fails|apply old_never_fails]. Qed.
  Lemma reg_rep_flush : forall k c d perm s, r_flush NM (reg_rep k c d) perm s = [].
  Proof. intros [| |] c d perm s; reflexivity. Qed.
  Lemma reg_rep_panic : forall k c d s, r_panic NM (reg_rep k c d) s = None.
  Proof. intros [| |] c d s; reflexivity. Qed.

  (** *** the complete output of such a run *)
  Theorem run_output_days : forall k (c : rconfig) (w : world) (op : options) bt et odb olog d toks,
    w_sink w = None ->
    open_all w [op_db op; op_log op] = Some [odb; olog] ->
    resolved_db NM w op odb = inr d ->
    tokenize (op_fmt op) = Some toks ->
    out_stdout (run_db_log NM w op (reg_rep k c) bt et)
      = flat_map (fun il => process_bytes NM (reg_rep k c d) (o_day (w_or w) (fst il)) (r_init NM (reg_rep k c d)) (snd il))
          (fst (opened_days NM toks bt et olog))
    /\ out_status (run_db_log NM w op (reg_rep k c) bt et) = status_of (snd (opened_days NM toks bt et olog)).
  Proof.
    intros k c w op bt et odb olog d toks Hs Ho Hr Ht.
    destruct (run_db_log_nofail NM w op (reg_rep k c) bt et odb olog d toks Hs (reg_rep_never_fails k c) Ho Hr Ht)
      as [E1 E2].
    rewrite E1, E2. rewrite (feed_days_const _ _ _ _ (reg_rep_const k c d)). cbn [fst snd].
    rewrite reg_rep_flush, reg_rep_panic. unfold chunk_bytes. cbn [map concat]. rewrite app_nil_r.
    split; reflexivity.
  Qed.

  (** *** every day's output ends with a newline *)
  Lemma render_default_lf : forall c (it : report_item NM), exists x, render_default NM c it = x ++ [c_lf].
  Proof. intros c it. unfold render_default. rewrite !app_assoc. eexists. reflexivity. Qed.
  Lemma render_left_lf : forall c (it : report_item NM), exists x, render_left NM c it = x ++ [c_lf].
  Proof. intros c it. unfold render_left. rewrite !app_assoc. eexists. reflexivity. Qed.
  Lemma render_summary_lf : forall c (it : report_item NM), exists x, render_summary NM c it = x ++ [c_lf].
  Proof. intros c it. unfold render_summary. rewrite !app_assoc. eexists. reflexivity. Qed.

  Lemma old_rows_lf : forall c (d : db) ln ch, In ch (old_rows NM c d ln) -> exists x, fst ch = x ++ [c_lf].
  Proof.
    intros c d ln ch H. unfold old_rows in H. apply in_flat_map in H. destruct H as ([name v] & _ & H).
    destruct (rc_totals_only c); [destruct H|].
    apply in_app_or in H. destruct H as [[H|[]]|H].
    - subst ch. cbn [fst unchecked]. rewrite !app_assoc. eexists. reflexivity.
    - apply in_map_iff in H. destruct H as (i & <- & _). cbn [fst unchecked]. rewrite !app_assoc. eexists. reflexivity.
  Qed.

  Lemma old_totals_lf : forall c perm (d : db) ln ch, In ch (old_totals NM c perm d ln) -> exists x, fst ch = x ++ [c_lf].
  Proof.
    intros c perm d ln ch H. unfold old_totals in H.
    destruct (rc_totals c); [|destruct H].
    destruct (accumulate NM (contributions NM d ln)) as [|a0 acc]; [destruct H|].
    destruct H as [H|H].
    - subst ch. cbn [fst unchecked]. eexists. reflexivity.
    - apply in_map_iff in H. destruct H as ([[[name p] n] s] & <- & _). cbn [fst unchecked].
      rewrite !app_assoc. eexists. reflexivity.
  Qed.

  Lemma process_bytes_ends_ok : forall k c (d : db) perm st ln, ends_ok (process_bytes NM (reg_rep k c d) perm st ln).
  Proof.
    intros k c d perm st ln. unfold process_bytes. apply ends_ok_chunks. intros ch H.
    destruct k; unfold process_chunks, reg_rep in H; cbn [rep_template rep_summary rep_old r_process fst snd] in H.
    - destruct H as [<-|[]]. cbn [fst checked].
      destruct (beq (rc_template c) (b "left-aligned")); [apply render_left_lf|apply render_default_lf].
    - destruct H as [<-|[]]. cbn [fst checked]. apply render_summary_lf.
    - destruct H as [<-|H]; [cbn [fst unchecked]; eexists; reflexivity|].
      apply in_app_or in H. destruct H as [H|H]; [exact (old_rows_lf _ _ _ _ H)|exact (old_totals_lf _ _ _ _ _ H)].
  Qed.

  Lemma color_strip_process_kind : forall k c (d : db) perm ln,
    strip_sgr (process_bytes NM (reg_rep k (set_color c true) d) perm (r_init NM (reg_rep k (set_color c true) d)) ln)
    = strip_sgr (process_bytes NM (reg_rep k (set_color c false) d) perm (r_init NM (reg_rep k (set_color c false) d)) ln).
  Proof.
    intros [| |] c d perm ln; cbn [reg_rep].
    - apply (color_strip_process_template NM c d perm tt ln).
    - apply (color_strip_process_summary NM c d perm tt ln).
    - apply (color_strip_process_old NM c d perm tt ln).
  Qed.

  (** *** colour, whole run *)
  Theorem color_strip_run_db_log : forall k (c : rconfig) (w : world) (op : options) bt et,
    w_sink w = None ->
    strip_sgr (out_stdout (run_db_log NM w op (reg_rep k (set_color c true)) bt et))
    = strip_sgr (out_stdout (run_db_log NM w op (reg_rep k (set_color c false)) bt et))
    /\ out_status (run_db_log NM w op (reg_rep k (set_color c true)) bt et)
       = out_status (run_db_log NM w op (reg_rep k (set_color c false)) bt et).
  Proof.
    intros k c w op bt et Hs.
    destruct (open_all w [op_db op; op_log op]) as [[|odb [|olog [|x l]]]|] eqn:Ho;
      try (rewrite (run_db_log_early NM w op (reg_rep k (set_color c true)) (reg_rep k (set_color c false)) bt et);
           [split; reflexivity|intros odb' olog' d' toks' Ho'; rewrite Ho in Ho'; discriminate Ho']).
    destruct (resolved_db NM w op odb) as [e|d] eqn:Hr.
    { rewrite (run_db_log_early NM w op (reg_rep k (set_color c true)) (reg_rep k (set_color c false)) bt et);
        [split; reflexivity|].
      intros odb' olog' d' toks' Ho' Hr'. rewrite Ho in Ho'. injection Ho' as <- <-. rewrite Hr in Hr'. discriminate Hr'. }
    destruct (tokenize (op_fmt op)) as [toks|] eqn:Ht.
    2:{ rewrite (run_db_log_early NM w op (reg_rep k (set_color c true)) (reg_rep k (set_color c false)) bt et);
          [split; reflexivity|].
        intros odb' olog' d' toks' _ _ Ht'. rewrite Ht in Ht'. discriminate Ht'. }
    destruct (run_output_days k (set_color c true) w op bt et odb olog d toks Hs Ho Hr Ht) as [A1 A2].
    destruct (run_output_days k (set_color c false) w op bt et odb olog d toks Hs Ho Hr Ht) as [B1 B2].
    rewrite A1, A2, B1, B2. split; [|reflexivity].
    apply strip_flat_map_eq. intros [i ln] _. cbn [fst snd]. repeat split.
    - apply process_bytes_ends_ok.
    - apply process_bytes_ends_ok.
    - apply color_strip_process_kind.
  Qed.

  (** *** totals switches, whole run (template reporter) *)
  Lemma template_day_pieces : forall (c : rconfig) perm (d : db) st (ln : lognode NM),
    let D := fdate c (ln_time NM ln) in
    process_bytes NM (rep_template NM (set_totals c true false) d) perm st ln
      = D ++ day_entries NM c d ln ++ day_totals NM c perm d ln ++ [c_lf]
    /\ process_bytes NM (rep_template NM (set_totals c false false) d) perm st ln
      = D ++ day_entries NM c d ln ++ [c_lf]
    /\ process_bytes NM (rep_template NM (set_totals c true true) d) perm st ln
      = D ++ day_totals NM c perm d ln ++ [c_lf].
  Proof.
    intros c perm d st ln D. unfold process_bytes, process_chunks, rep_template, day_entries, day_totals.
    cbn [r_process fst snd checked chunk_bytes map concat set_totals rc_template]. rewrite !app_nil_r.
    destruct (beq (rc_template c) (b "left-aligned")).
    - destruct (left_is_interleave_explicit NM c perm d ln) as (H1 & H2 & H3 & _). repeat split; assumption.
    - destruct (default_is_interleave_explicit NM c perm d ln) as (H1 & H2 & H3 & _). repeat split; assumption.
  Qed.

  Theorem interleave_run_db_log : forall (c : rconfig) (w : world) (op : options) bt et odb olog d toks,
    w_sink w = None ->
    open_all w [op_db op; op_log op] = Some [odb; olog] ->
    resolved_db NM w op odb = inr d ->
    tokenize (op_fmt op) = Some toks ->
    let days := fst (opened_days NM toks bt et olog) in
    let D := fun il : nat * lognode NM => fdate c (ln_time NM (snd il)) in
    let E := fun il : nat * lognode NM => day_entries NM c d (snd il) in
    let Tt := fun il : nat * lognode NM => day_totals NM c (o_day (w_or w) (fst il)) d (snd il) in
    out_stdout (run_db_log NM w op (rep_template NM (set_totals c true false)) bt et)
      = flat_map (fun il => D il ++ E il ++ Tt il ++ [c_lf]) days
    /\ out_stdout (run_db_log NM w op (rep_template NM (set_totals c false false)) bt et)
      = flat_map (fun il => D il ++ E il ++ [c_lf]) days
    /\ out_stdout (run_db_log NM w op (rep_template NM (set_totals c true true)) bt et)
      = flat_map (fun il => D il ++ Tt il ++ [c_lf]) days.
  Proof.
    intros c w op bt et odb olog d toks Hs Ho Hr Ht days D E Tt.
    destruct (run_output_days KTemplate (set_totals c true false) w op bt et odb olog d toks Hs Ho Hr Ht) as [A _].
    destruct (run_output_days KTemplate (set_totals c false false) w op bt et odb olog d toks Hs Ho Hr Ht) as [B _].
    destruct (run_output_days KTemplate (set_totals c true true) w op bt et odb olog d toks Hs Ho Hr Ht) as [C _].
    change (reg_rep KTemplate (set_totals c true false)) with (rep_template NM (set_totals c true false)) in A.
    change (reg_rep KTemplate (set_totals c false false)) with (rep_template NM (set_totals c false false)) in B.
    change (reg_rep KTemplate (set_totals c true true)) with (rep_template NM (set_totals c true true)) in C.
    rewrite A, B, C. fold days. cbn [reg_rep r_init rep_template].
    repeat split; apply flat_map_ext; intros [i ln]; cbn [fst snd];
      destruct (template_day_pieces c (o_day (w_or w) i) d tt ln) as (H1 & H2 & H3); assumption.
  Qed.

  (** *** template vs old reporter, whole run: layouts of the same items *)
  Theorem templates_same_rows_run : forall (c : rconfig) (w : world) (op : options) bt et odb olog d toks,
    w_sink w = None ->
    open_all w [op_db op; op_log op] = Some [odb; olog] ->
    resolved_db NM w op odb = inr d ->
    tokenize (op_fmt op) = Some toks ->
    let days := fst (opened_days NM toks bt et olog) in
    let item := fun il : nat * lognode NM => get_report_item NM c (o_day (w_or w) (fst il)) d (snd il) in
    out_stdout (run_db_log NM w op (rep_template NM c) bt et)
      = flat_map (fun il => render_with NM (if beq (rc_template c) (b "left-aligned") then layout_left else layout_default)
                              c (item il)) days
    /\ out_stdout (run_db_log NM w op (rep_old NM c) bt et)
      = flat_map (fun il => render_with NM (layout_old (day_has_contributions NM d (snd il))) c (item il)) days.
  Proof.
    intros c w op bt et odb olog d toks Hs Ho Hr Ht days item.
    destruct (run_output_days KTemplate c w op bt et odb olog d toks Hs Ho Hr Ht) as [A _].
    destruct (run_output_days KOld c w op bt et odb olog d toks Hs Ho Hr Ht) as [B _].
    change (reg_rep KTemplate c) with (rep_template NM c) in A.
    change (reg_rep KOld c) with (rep_old NM c) in B.
    rewrite A, B. fold days. cbn [reg_rep]. split; apply flat_map_ext; intros [i ln]; cbn [fst snd].
    - apply templates_same_rows_process.
    - apply templates_same_rows_old.
  Qed.
End RunC15.
