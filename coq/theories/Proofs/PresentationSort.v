(** C15, descending order: [sort_by_value] (either direction) returns a
    permutation of its input -- no law on the arithmetic; when [ltb] is a strict
    weak order on the values present the result is ascending / descending and
    ties keep their input order (stability). *)
From Coq Require Import Lia Permutation Sorted.
From HP Require Import Base.Bytes Base.Utf8 Base.Num Model.Elements Model.Dates Model.Tree Model.Writer
  Model.Reporters Spec.PresentationSpec.

Lemma filter_rev' : forall {A} (f : A -> bool) (l : list A), filter f (rev l) = rev (filter f l).
Proof.
  intros A f l. induction l as [|a l IH]; [reflexivity|].
  cbn [rev filter]. rewrite filter_app, IH. cbn [filter].
  destruct (f a); [reflexivity|]. rewrite app_nil_r. reflexivity.
Qed.

Lemma nth_error_rev' : forall {A} (l : list A) i x,
  nth_error (rev l) i = Some x -> nth_error l (length l - S i) = Some x /\ (i < length l)%nat.
Proof.
  intros A l. induction l as [|a l IH]; intros i x H.
  - destruct i; discriminate H.
  - cbn [rev] in H. destruct (Nat.lt_ge_cases i (length (rev l))) as [Hlt|Hge].
    + rewrite nth_error_app1 in H by exact Hlt. rewrite rev_length in Hlt.
      destruct (IH i x H) as [H1 _]. split; [|cbn [length]; lia].
      cbn [length]. replace (S (length l) - S i)%nat with (S (length l - S i)) by lia. exact H1.
    + rewrite nth_error_app2 in H by exact Hge. rewrite rev_length in *.
      destruct (i - length l)%nat as [|k] eqn:E.
      * cbn in H. injection H as <-. assert (i = length l) by lia. subst i.
        cbn [length]. rewrite Nat.sub_diag. split; [reflexivity|lia].
      * destruct k; discriminate H.
Qed.

Lemma StronglySorted_nth : forall {A} (R : A -> A -> Prop) (l : list A),
  StronglySorted R l ->
  forall i j x y, (i < j)%nat -> nth_error l i = Some x -> nth_error l j = Some y -> R x y.
Proof.
  intros A R l H. induction H as [|a l Hs IH Hall]; intros i j x y Hij Hi Hj.
  - destruct i; discriminate Hi.
  - destruct j as [|j]; [lia|]. cbn [nth_error] in Hj. destruct i as [|i].
    + cbn in Hi. injection Hi as <-. rewrite Forall_forall in Hall. apply Hall.
      apply nth_error_In with (n := j). exact Hj.
    + cbn [nth_error] in Hi. apply (IH i j); [lia|exact Hi|exact Hj].
Qed.

Section Sort.
  Context (NM : Num).
  Notation T := (T NM).
  Notation elements := (elements NM).

  (** *** permutation: no law at all *)
  Lemma go_insert_perm : forall (less : bytes * T -> bytes * T -> bool) x (r : elements),
    Permutation (go_insert NM less x r) (x :: r).
  Proof.
    intros less x r. induction r as [|y r IH]; [apply Permutation_refl|].
    cbn [go_insert]. destruct (less x y).
    - apply perm_trans with (y :: x :: r); [apply perm_skip; exact IH|apply perm_swap].
    - apply Permutation_refl.
  Qed.

  Lemma fold_insert_perm : forall (less : bytes * T -> bytes * T -> bool) (l acc : elements),
    Permutation (fold_left (fun revl x => go_insert NM less x revl) l acc) (l ++ acc).
  Proof.
    intros less l. induction l as [|x l IH]; intros acc; [apply Permutation_refl|].
    cbn [fold_left]. eapply perm_trans; [apply IH|].
    eapply perm_trans; [apply Permutation_app_head; apply go_insert_perm|].
    apply Permutation_sym. apply (Permutation_middle l acc x).
  Qed.

  Theorem sort_by_value_perm : forall (desc : bool) (l : elements),
    Permutation (sort_by_value NM desc l) l.
  Proof.
    intros desc l. unfold sort_by_value. eapply perm_trans; [apply Permutation_sym, Permutation_rev|].
    eapply perm_trans; [apply fold_insert_perm|]. rewrite app_nil_r. apply Permutation_refl.
  Qed.

  (** hence both directions show the same rows with the same numbers *)
  Corollary sort_by_value_desc_perm : forall (l : elements),
    Permutation (sort_by_value NM true l) (sort_by_value NM false l).
  Proof.
    intros l. eapply perm_trans; [apply sort_by_value_perm|apply Permutation_sym, sort_by_value_perm].
  Qed.

  Corollary sort_by_value_length : forall desc (l : elements), length (sort_by_value NM desc l) = length l.
  Proof. intros desc l. apply Permutation_length. apply sort_by_value_perm. Qed.

  (** report quantity: [--desc] prints the same lines in another order *)
  Corollary quantity_desc_same_rows : forall perm (acc : elements),
    Permutation (r_flush NM (rep_quantity NM true) perm acc) (r_flush NM (rep_quantity NM false) perm acc).
  Proof.
    intros perm acc. unfold rep_quantity. cbn [r_flush]. apply Permutation_map. apply sort_by_value_desc_perm.
  Qed.

  Lemma go_insert_in : forall (less : bytes * T -> bytes * T -> bool) x (r : elements) z,
    In z (go_insert NM less x r) -> z = x \/ In z r.
  Proof.
    intros less x r z H. apply (Permutation_in z (go_insert_perm less x r)) in H.
    destruct H as [H|H]; [left; symmetry; exact H|right; exact H].
  Qed.

  (** *** consequences of the order law *)
  Section Law.
    Context (ok : T -> Prop) (LAW : LtWeakOrder NM ok).

    Lemma lt_asym : forall x y, ok x -> ok y -> ltb NM x y = true -> ltb NM y x = false.
    Proof.
      intros x y Hx Hy H. destruct (ltb NM y x) eqn:E; [|reflexivity].
      pose proof (lwo_trans NM ok LAW x y x Hx Hy Hx H E) as H1.
      rewrite (lwo_irrefl NM ok LAW x Hx) in H1. discriminate H1.
    Qed.

    Lemma lt_negtrans : forall x y z, ok x -> ok y -> ok z ->
      ltb NM x y = false -> ltb NM y z = false -> ltb NM x z = false.
    Proof.
      intros x y z Hx Hy Hz Hxy Hyz. destruct (ltb NM x z) eqn:Exz; [|reflexivity].
      destruct (ltb NM y x) eqn:Eyx.
      { rewrite (lwo_trans NM ok LAW y x z Hy Hx Hz Eyx Exz) in Hyz. discriminate Hyz. }
      destruct (ltb NM z y) eqn:Ezy.
      { rewrite (lwo_trans NM ok LAW x z y Hx Hz Hy Exz Ezy) in Hxy. discriminate Hxy. }
      rewrite (lwo_incomp NM ok LAW x y z Hx Hy Hz Hxy Eyx Hyz Ezy) in Exz. discriminate Exz.
    Qed.

    Definition okp (x : bytes * T) : Prop := ok (snd x).

    Lemma less_asym : forall desc x y, okp x -> okp y ->
      value_less NM desc x y = true -> value_less NM desc y x = false.
    Proof.
      intros desc x y Hx Hy. unfold value_less. destruct desc; apply lt_asym; assumption.
    Qed.

    Lemma less_negtrans : forall desc x y z, okp x -> okp y -> okp z ->
      value_less NM desc x y = false -> value_less NM desc y z = false -> value_less NM desc x z = false.
    Proof.
      intros desc x y z Hx Hy Hz. unfold value_less. destruct desc.
      - intros H1 H2. apply (lt_negtrans (snd z) (snd y) (snd x)); assumption.
      - apply lt_negtrans; assumption.
    Qed.

    (** the reversed sorted prefix: an element is never less than one that follows it *)
    Definition rsorted (desc : bool) (revl : elements) : Prop :=
      StronglySorted (fun a c => value_less NM desc a c = false) revl.

    Lemma go_insert_rsorted : forall desc x (r : elements),
      okp x -> Forall okp r -> rsorted desc r -> rsorted desc (go_insert NM (value_less NM desc) x r).
    Proof.
      intros desc x r Hx. induction r as [|y r IH]; intros Hok Hs.
      - cbn [go_insert]. constructor; [constructor|constructor].
      - inversion Hok as [|y' r' Hy Hokr]; subst. inversion Hs as [|y' r' Hsr Hall]; subst.
        cbn [go_insert]. destruct (value_less NM desc x y) eqn:E.
        + constructor; [apply IH; assumption|].
          rewrite Forall_forall. intros z Hz. apply go_insert_in in Hz. destruct Hz as [->|Hz].
          * apply less_asym; assumption.
          * rewrite Forall_forall in Hall. apply Hall. exact Hz.
        + constructor; [exact Hs|]. constructor; [exact E|].
          rewrite Forall_forall. intros z Hz.
          rewrite Forall_forall in Hall, Hokr.
          apply (less_negtrans desc x y z); [exact Hx|exact Hy|apply Hokr; exact Hz|exact E|apply Hall; exact Hz].
    Qed.

    Lemma go_insert_ok : forall less x (r : elements), okp x -> Forall okp r -> Forall okp (go_insert NM less x r).
    Proof.
      intros less x r Hx Hr. rewrite Forall_forall. intros z Hz. apply go_insert_in in Hz.
      destruct Hz as [->|Hz]; [exact Hx|]. rewrite Forall_forall in Hr. apply Hr. exact Hz.
    Qed.

    Lemma fold_insert_rsorted : forall desc (l acc : elements),
      Forall okp l -> Forall okp acc -> rsorted desc acc ->
      rsorted desc (fold_left (fun revl x => go_insert NM (value_less NM desc) x revl) l acc).
    Proof.
      intros desc l. induction l as [|x l IH]; intros acc Hl Hacc Hs; [exact Hs|].
      inversion Hl as [|x' l' Hx Hl']; subst. cbn [fold_left]. apply IH.
      - exact Hl'.
      - apply go_insert_ok; assumption.
      - apply go_insert_rsorted; assumption.
    Qed.

    (** ascending for [desc = false], descending for [desc = true] *)
    Theorem sort_by_value_sorted : forall (desc : bool) (l : elements),
      Forall (fun x => ok (snd x)) l -> sorted_by_value NM desc (sort_by_value NM desc l).
    Proof.
      intros desc l Hl. unfold sorted_by_value, sort_by_value. intros i j x y Hij Hi Hj.
      pose proof (fold_insert_rsorted desc l [] Hl (Forall_nil _) (SSorted_nil _)) as Hs.
      set (revl := fold_left (fun revl x => go_insert NM (value_less NM desc) x revl) l []) in *.
      apply nth_error_rev' in Hi. apply nth_error_rev' in Hj.
      destruct Hi as [Hi Hil]. destruct Hj as [Hj Hjl].
      apply (StronglySorted_nth _ revl Hs (length revl - S j) (length revl - S i) y x); [lia|exact Hj|exact Hi].
    Qed.

    (** spelled out for each direction *)
    Corollary sort_by_value_ascending : forall (l : elements),
      Forall (fun x => ok (snd x)) l ->
      forall i j x y, (i < j)%nat ->
        nth_error (sort_by_value NM false l) i = Some x -> nth_error (sort_by_value NM false l) j = Some y ->
        ltb NM (snd y) (snd x) = false.
    Proof. intros l Hl i j x y Hij Hi Hj. exact (sort_by_value_sorted false l Hl i j x y Hij Hi Hj). Qed.

    Corollary sort_by_value_descending : forall (l : elements),
      Forall (fun x => ok (snd x)) l ->
      forall i j x y, (i < j)%nat ->
        nth_error (sort_by_value NM true l) i = Some x -> nth_error (sort_by_value NM true l) j = Some y ->
        ltb NM (snd x) (snd y) = false.
    Proof. intros l Hl i j x y Hij Hi Hj. exact (sort_by_value_sorted true l Hl i j x y Hij Hi Hj). Qed.

    (** *** stability *)
    Lemma tie_less_excl : forall desc v x y, ok v -> okp x -> okp y ->
      ties_with NM v x = true -> value_less NM desc x y = true -> ties_with NM v y = false.
    Proof.
      intros desc v x y Hv Hx Hy Hvx Hless. destruct (ties_with NM v y) eqn:Hvy; [|reflexivity].
      unfold ties_with in Hvx, Hvy.
      apply andb_true_iff in Hvx. destruct Hvx as [A1 A2]. apply negb_true_iff in A1, A2.
      apply andb_true_iff in Hvy. destruct Hvy as [B1 B2]. apply negb_true_iff in B1, B2.
      unfold value_less in Hless. destruct desc.
      - rewrite (lwo_incomp NM ok LAW (snd y) v (snd x) Hy Hv Hx B2 B1 A1 A2) in Hless. discriminate Hless.
      - rewrite (lwo_incomp NM ok LAW (snd x) v (snd y) Hx Hv Hy A2 A1 B1 B2) in Hless. discriminate Hless.
    Qed.

    Lemma go_insert_ties : forall desc v x (r : elements), ok v -> okp x -> Forall okp r ->
      filter (ties_with NM v) (go_insert NM (value_less NM desc) x r) = filter (ties_with NM v) (x :: r).
    Proof.
      intros desc v x r Hv Hx. induction r as [|y r IH]; intros Hr; [reflexivity|].
      inversion Hr as [|y' r' Hy Hr']; subst.
      cbn [go_insert]. destruct (value_less NM desc x y) eqn:E; [|reflexivity].
      cbn [filter]. rewrite (IH Hr'). cbn [filter].
      destruct (ties_with NM v x) eqn:Ex; [|reflexivity].
      rewrite (tie_less_excl desc v x y Hv Hx Hy Ex E). reflexivity.
    Qed.

    Lemma fold_insert_ties : forall desc v (l acc : elements), ok v -> Forall okp l -> Forall okp acc ->
      filter (ties_with NM v) (fold_left (fun revl x => go_insert NM (value_less NM desc) x revl) l acc)
      = filter (ties_with NM v) (rev l ++ acc).
    Proof.
      intros desc v l. induction l as [|x l IH]; intros acc Hv Hl Hacc; [reflexivity|].
      inversion Hl as [|x' l' Hx Hl']; subst. cbn [fold_left].
      rewrite (IH _ Hv Hl' (go_insert_ok _ x acc Hx Hacc)).
      rewrite filter_app, (go_insert_ties desc v x acc Hv Hx Hacc), <- filter_app.
      cbn [rev]. rewrite <- app_assoc. reflexivity.
    Qed.

    (** rows whose values tie (with any reference value [v]) come out in their input order *)
    Theorem sort_by_value_stable : forall (desc : bool) (l : elements) (v : T),
      ok v -> Forall (fun x => ok (snd x)) l ->
      filter (ties_with NM v) (sort_by_value NM desc l) = filter (ties_with NM v) l.
    Proof.
      intros desc l v Hv Hl. unfold sort_by_value.
      rewrite filter_rev', (fold_insert_ties desc v l [] Hv Hl (Forall_nil _)).
      rewrite app_nil_r, filter_rev', rev_involutive. reflexivity.
    Qed.
  End Law.
End Sort.

(** *** the law holds of exact integers *)
Lemma ZNum_weak_order : LtWeakOrder ZNum (fun _ => True).
Proof.
  constructor; cbn [ltb ZNum T].
  - intros x _. apply Z.ltb_irrefl.
  - intros x y z _ _ _ H1 H2. apply Z.ltb_lt. apply Z.ltb_lt in H1, H2. lia.
  - intros x y z _ _ _ H1 H2 H3 H4. apply Z.ltb_ge. apply Z.ltb_ge in H1, H2, H3, H4. lia.
Qed.

(** *** non-vacuity: ties (3 = 3, names in input order), both directions *)
Definition exs_rows : elements ZNum :=
  [(b "apple", 3%Z); (b "bread", (-1)%Z); (b "cheese", 3%Z); (b "dill", 0%Z); (b "egg", 7%Z)].

Example exs_asc :
  sort_by_value ZNum false exs_rows
  = [(b "bread", (-1)%Z); (b "dill", 0%Z); (b "apple", 3%Z); (b "cheese", 3%Z); (b "egg", 7%Z)].
Proof. vm_compute. reflexivity. Qed.

Example exs_desc :
  sort_by_value ZNum true exs_rows
  = [(b "egg", 7%Z); (b "apple", 3%Z); (b "cheese", 3%Z); (b "dill", 0%Z); (b "bread", (-1)%Z)].
Proof. vm_compute. reflexivity. Qed.

Example exs_hyp : Forall (fun x : bytes * Z => (fun _ : Z => True) (snd x)) exs_rows.
Proof. repeat constructor. Qed.
