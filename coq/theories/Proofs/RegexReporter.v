(** [reg -f PATTERN] with a regular expression: what a day prints, what the
    command prints, composition over the history, and the invalid pattern. *)
From Coq Require Import Lia.
From HP Require Import Base.Bytes Base.Utf8 Base.Num Model.Scanner Model.Parser Model.Elements Model.Dates
  Model.Tree Model.Writer Model.Regex Model.Reporters Model.Cli Spec.ComposeSpec Spec.RegexSpec
  Proofs.ComposeWriter Proofs.ComposeWalk Proofs.ComposePerDay Proofs.RegexSem Proofs.RegexPlain.

(** * the defect of the old fast path (guard [plain_pattern p] alone) *)

(** an invalid UTF-8 byte in the pattern: Go rejects the pattern, the old guard searched the bytes *)
Theorem old_fast_path_refuted_invalid_utf8 :
  exists p name, plain_pattern p = true /\ contains p name = true /\ parse_regex p = ReError.
Proof. exists [255%N], [97%N; 255%N]. vm_compute. repeat split. Qed.

(** a well-formed U+FFFD in the pattern matches an invalid byte of the name, which a search of the bytes misses *)
Theorem old_fast_path_refuted_fffd :
  exists p name r, plain_pattern p = true /\ contains p name = false
                   /\ parse_regex p = ReOk r /\ re_search r name = true.
Proof. exists [97%N; 239%N; 191%N; 189%N], [97%N; 255%N], (RCat (RLit 97%N) (RLit 65533%N)). vm_compute. repeat split. Qed.

Lemma flat_map_filter : forall {A B} (f : A -> bool) (g : A -> B) l,
  flat_map (fun x => if f x then [g x] else []) l = map g (filter f l).
Proof.
  intros A B f g. induction l as [|x l IH]; [reflexivity|]. cbn [flat_map filter].
  destruct (f x); cbn [app map]; rewrite IH; reflexivity.
Qed.

Section SingleFood.
  Context (NM : Num).
  Notation event := (event NM).

  (** * one day *)

  (** the pattern compiles: the rows of a day are the foods the expression finds, in order *)
  Theorem single_food_process_ok : forall c r pi st ln,
    parse_regex (rc_single_food c) = ReOk r ->
    r_process NM (rep_single_food NM c) pi st ln
    = (tt, map (food_row NM c ln) (filter (fun nv => re_search r (fst nv)) (ln_elems NM ln)), None).
  Proof.
    intros c r pi st ln Hp. cbn [r_process rep_single_food].
    destruct (ln_elems NM ln) as [|e es] eqn:El; [reflexivity|].
    destruct (plain_pattern (rc_single_food c) && valid_utf8_no_fffd (rc_single_food c)) eqn:G.
    - apply andb_true_iff in G. destruct G as [G1 G2].
      destruct (plain_is_literal _ G1 G2) as [Hlit Hs]. rewrite Hlit in Hp. injection Hp as <-.
      f_equal. f_equal. rewrite <- (flat_map_filter (fun nv => re_search _ (fst nv)) (food_row NM c ln)).
      apply flat_map_ext. intros nv. rewrite Hs. reflexivity.
    - rewrite Hp. f_equal. f_equal. apply flat_map_filter.
  Qed.

  (** the rows [reg -f P] prints for a day are exactly the foods whose names match, in order *)
  Theorem single_food_rows_spec : forall c r pi st ln,
    parse_regex (rc_single_food c) = ReOk r ->
    snd (fst (r_process NM (rep_single_food NM c) pi st ln))
    = map (food_row NM c ln) (filter (fun nv => re_search r (fst nv)) (ln_elems NM ln))
    /\ snd (r_process NM (rep_single_food NM c) pi st ln) = None
    /\ forall name, re_search r name = true <-> name_matches r name.
  Proof.
    intros c r pi st ln Hp. rewrite (single_food_process_ok c r pi st ln Hp). cbn [fst snd].
    split; [reflexivity|]. split; [reflexivity|]. intros name. apply re_search_spec.
  Qed.

  (** the pattern is invalid: the first day that has a food fails, a day without food prints nothing *)
  Theorem single_food_process_invalid : forall c pi st ln,
    parse_regex (rc_single_food c) = ReError ->
    r_process NM (rep_single_food NM c) pi st ln
    = (tt, [], match ln_elems NM ln with [] => None | _ :: _ => Some ERegexp end).
  Proof.
    intros c pi st ln Hp. cbn [r_process rep_single_food].
    destruct (ln_elems NM ln) as [|e es]; [reflexivity|].
    destruct (plain_pattern (rc_single_food c) && valid_utf8_no_fffd (rc_single_food c)) eqn:G.
    - apply andb_true_iff in G. destruct G as [G1 G2].
      rewrite (plain_parse_literal _ G1 G2) in Hp. discriminate Hp.
    - rewrite Hp. reflexivity.
  Qed.

  Lemma single_food_day_bytes : forall c r pi ln,
    parse_regex (rc_single_food c) = ReOk r ->
    day_bytes NM (rep_single_food NM c) pi ln = single_food_day_text NM c r ln.
  Proof.
    intros c r pi ln Hp. unfold day_bytes. rewrite (single_food_process_ok c r pi _ ln Hp). cbn [fst snd].
    unfold single_food_day_text. rewrite map_map. reflexivity.
  Qed.

  Lemma single_food_days_bytes : forall c r pd lns i,
    parse_regex (rc_single_food c) = ReOk r ->
    days_bytes NM (rep_single_food NM c) pd i lns = concat (map (single_food_day_text NM c r) lns).
  Proof.
    intros c r pd lns. induction lns as [|ln t IH]; intros i Hp; [reflexivity|].
    cbn [days_bytes map concat]. rewrite (single_food_day_bytes c r _ ln Hp), (IH (S i) Hp). reflexivity.
  Qed.

  Lemma ok_modelled : forall p r, parse_regex p = ReOk r -> parse_regex p <> ReUnmodelled.
  Proof. intros p r H. rewrite H. discriminate. Qed.

  Lemma error_modelled : forall p, parse_regex p = ReError -> parse_regex p <> ReUnmodelled.
  Proof. intros p H. rewrite H. discriminate. Qed.

  (** * the command *)

  (** what [reg -f PATTERN] prints on a history, when it succeeds: for each selected
      day, in the order of the file, the rows of the foods whose names match *)
  Theorem single_food_report_text : forall c r pd pf toks bt et (evs : list event),
    parse_regex (rc_single_food c) = ReOk r ->
    snd (report NM (rep_single_food NM c) pd pf toks bt et evs) = None ->
    fst (report NM (rep_single_food NM c) pd pf toks bt et evs)
    = concat (map (single_food_day_text NM c r) (fst (walked_nodes NM toks bt et evs)))
    /\ snd (walked_nodes NM toks bt et evs) = None.
  Proof.
    intros c r pd pf toks bt et evs Hp Hok.
    destruct (perday_report_days NM _ (PD_single_food NM c (ok_modelled _ _ Hp)) pd pf toks bt et evs Hok) as [H1 H2].
    split; [|exact H2]. rewrite H1. apply single_food_days_bytes. exact Hp.
  Qed.

  (** composition over the history, for every pattern the model does not decline *)
  Theorem single_food_reports_concat : forall c,
    parse_regex (rc_single_food c) <> ReUnmodelled ->
    forall pd pf toks bt et (evs1 evs2 : list event),
      snd (report NM (rep_single_food NM c) pd pf toks bt et evs1) = None ->
      let k := selected_days NM toks bt et evs1 in
      fst (report NM (rep_single_food NM c) pd pf toks bt et (evs1 ++ evs2))
        = fst (report NM (rep_single_food NM c) pd pf toks bt et evs1)
          ++ fst (report NM (rep_single_food NM c) (fun i => pd (k + i)) pf toks bt et evs2)
      /\ snd (report NM (rep_single_food NM c) pd pf toks bt et (evs1 ++ evs2))
        = snd (report NM (rep_single_food NM c) (fun i => pd (k + i)) pf toks bt et evs2).
  Proof. intros c Hm. exact (perday_reports_concat NM _ (PD_single_food NM c Hm)). Qed.

  (** the invalid pattern: nothing is printed, and the command ends with the first
      parse / date error or with the regexp error of the first selected day that has a
      food, whichever comes first (a log without food succeeds) *)
  Lemma pwalk_invalid : forall c pd toks bt et (evs : list event) rs i,
    parse_regex (rc_single_food c) = ReError ->
    snd (fst (pwalk NM (rep_single_food NM c) toks bt et pd evs rs i)) = []
    /\ snd (pwalk NM (rep_single_food NM c) toks bt et pd evs rs i) = invalid_pattern_error NM toks bt et evs.
  Proof.
    intros c pd toks bt et evs. induction evs as [|ev t IH]; intros rs i Hp; [split; reflexivity|].
    cbn [pwalk invalid_pattern_error]. unfold pstep_ev.
    destruct (classify_event NM toks bt et ev) as [e| |ln].
    - split; reflexivity.
    - destruct (IH rs i Hp) as [H1 H2].
      destruct (pwalk NM (rep_single_food NM c) toks bt et pd t rs i) as [[[rs2 i2] o2] e2].
      cbn [fst snd] in *. subst. split; reflexivity.
    - rewrite (single_food_process_invalid c (pd i) rs ln Hp).
      destruct (ln_elems NM ln) as [|x xs].
      + destruct (IH tt (S i) Hp) as [H1 H2].
        destruct (pwalk NM (rep_single_food NM c) toks bt et pd t tt (S i)) as [[[rs2 i2] o2] e2].
        cbn [fst snd] in *. subst. split; reflexivity.
      + split; reflexivity.
  Qed.

  Theorem single_food_invalid_pattern_report : forall c pd pf toks bt et (evs : list event),
    parse_regex (rc_single_food c) = ReError ->
    report NM (rep_single_food NM c) pd pf toks bt et evs = ([], invalid_pattern_error NM toks bt et evs).
  Proof.
    intros c pd pf toks bt et evs Hp. rewrite report_pwalk.
    destruct (pwalk_invalid c pd toks bt et evs (r_init NM (rep_single_food NM c)) O Hp) as [H1 H2].
    destruct (pwalk NM (rep_single_food NM c) toks bt et pd evs (r_init NM (rep_single_food NM c)) O) as [[[rs1 i1] o1] e1].
    cbn [fst snd] in *. subst. reflexivity.
  Qed.
End SingleFood.
