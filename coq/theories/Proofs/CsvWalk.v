(** WP14 / C13: infrastructure for the export theorems -- the buffered writer in
    front of a sink that never fails, and the callback protocol of the parser
    seen as a fold over the delivered events. *)
From Coq Require Import Lia ZifyBool ZifyNat ZifyN.
From HP Require Import Base.Bytes Base.Num Model.Scanner Model.Parser Model.Writer Model.Reporters Model.Cli.

(** * the buffered writer over a never-failing sink *)
Definition bw_ok (w : bw) : Prop := bw_err w = false /\ s_limit (bw_sink w) = None.

(** everything written so far: what the sink got, then what is still buffered *)
Definition bw_content (w : bw) : bytes := s_got (bw_sink w) ++ bw_buf w.

Lemma bw_flush_ok : forall w, bw_ok w ->
  exists w', bw_flush w = (w', false) /\ bw_ok w' /\ bw_buf w' = [] /\ s_got (bw_sink w') = bw_content w.
Proof.
  intros [buf err [lim got]] [He Hl]. cbn in He, Hl. subst err lim.
  unfold bw_flush, bw_content. cbn [bw_err bw_buf bw_sink s_got].
  destruct buf as [|c buf].
  - eexists. split; [reflexivity|]. split; [split; reflexivity|]. split; [reflexivity|].
    cbn. rewrite app_nil_r. reflexivity.
  - unfold sink_write. cbn [s_limit s_got].
    eexists. split; [reflexivity|]. split; [split; reflexivity|]. split; reflexivity.
Qed.

Lemma bw_write_ok : forall w p, bw_ok w ->
  exists w', bw_write w p = (w', false) /\ bw_ok w' /\ bw_content w' = bw_content w ++ p.
Proof.
  intros [buf err [lim got]] p [He Hl]. cbn in He, Hl. subst err lim.
  unfold bw_write, bw_content. cbn [bw_err bw_buf bw_sink s_got].
  destruct (Nat.leb (length p) (buf_size - length buf)) eqn:Fit.
  - eexists. split; [reflexivity|]. split; [split; reflexivity|].
    cbn [bw_sink bw_buf s_got]. rewrite app_assoc. reflexivity.
  - destruct buf as [|c buf].
    + unfold bw_direct, sink_write. cbn [bw_sink bw_buf s_limit s_got].
      eexists. split; [reflexivity|]. split; [split; reflexivity|].
      cbn [bw_sink bw_buf s_got]. rewrite !app_nil_r. reflexivity.
    + set (avail := (buf_size - length (c :: buf))%nat). clearbody avail.
      set (w0 := {| bw_buf := (c :: buf) ++ firstn avail p; bw_err := false;
                    bw_sink := {| s_limit := None; s_got := got |} |}).
      assert (K0 : bw_ok w0) by (split; reflexivity).
      destruct (bw_flush_ok w0 K0) as (w1 & F1 & K1 & B1 & G1).
      rewrite F1.
      destruct (Nat.leb (length (skipn avail p)) buf_size) eqn:Fit2.
      * eexists. split; [reflexivity|]. split; [split; [reflexivity|apply K1]|].
        cbn [bw_sink bw_buf]. rewrite G1. unfold bw_content, w0. cbn [bw_sink bw_buf s_got].
        rewrite <- !app_assoc. rewrite firstn_skipn. reflexivity.
      * destruct w1 as [buf1 err1 [lim1 got1]]. destruct K1 as [Ke Kl]. cbn in Ke, Kl, B1, G1. subst err1 lim1 buf1.
        unfold bw_direct, sink_write. cbn [bw_sink bw_buf s_limit s_got].
        eexists. split; [reflexivity|]. split; [split; reflexivity|].
        cbn [bw_sink bw_buf s_got]. rewrite G1. unfold bw_content, w0. cbn [bw_sink bw_buf s_got].
        rewrite ?app_nil_r. rewrite <- ?app_assoc. cbn [app]. rewrite <- ?app_assoc.
        rewrite firstn_skipn. reflexivity.
Qed.

Lemma bw_chunks_ok : forall cs w, bw_ok w ->
  exists w', bw_chunks w cs = (w', false) /\ bw_ok w' /\ bw_content w' = bw_content w ++ concat (map fst cs).
Proof.
  induction cs as [|[p chk] cs IH]; intros w K.
  - exists w. split; [reflexivity|]. split; [exact K|]. cbn. rewrite app_nil_r. reflexivity.
  - destruct (bw_write_ok w p K) as (w1 & W1 & K1 & C1).
    destruct (IH w1 K1) as (w2 & W2 & K2 & C2).
    exists w2. cbn [bw_chunks]. rewrite W1. cbn [andb]. rewrite W2.
    split; [reflexivity|]. split; [exact K2|]. rewrite C2, C1. cbn [map concat fst]. rewrite <- app_assoc. reflexivity.
Qed.

Section WithNum.
  Context (NM : Num).

  Lemma new_writer_ok : forall w : world, w_sink w = None ->
    bw_ok (new_writer w) /\ bw_content (new_writer w) = [].
  Proof. intros w H. unfold new_writer, bw_new, bw_ok, bw_content. cbn. rewrite H. auto. Qed.

  (** * the callback protocol as a fold *)

  (** what reaches the callback when the reader never fails: the events of the
      loop, then the pending last record -- unless the scanner gave up on an
      over-long line, in which case the pending record is dropped *)
  Definition csv_delivered (data : bytes) : list (event NM) :=
    let '(lines, fin) := scan data NoFault in
    let '(evs, last) := parse_lines NM lines in
    evs ++ match fin, last with ScanEOF, Some n => [ENode n] | _, _ => [] end.

  (** the scanner's own error, reported after the delivered events *)
  Definition scan_status (data : bytes) : option (cerr) :=
    match snd (scan data NoFault) with
    | ScanEOF => None
    | ScanTooLong => Some (EScan true)
    | ScanReadErr => Some (EScan false)
    end.

  Lemma csv_delivered_events : forall data, snd (scan data NoFault) = ScanEOF ->
    csv_delivered data = events NM data /\ scan_status data = None.
  Proof.
    intros data H. unfold csv_delivered, events, scan_status. rewrite H.
    destruct (scan data NoFault) as [lines fin]. cbn [snd] in H. subst fin. cbn [fst].
    destruct (parse_lines NM lines) as [evs last]. split; reflexivity.
  Qed.

  Section Fold.
    Context {S : Type} (cb : S -> event NM -> S * bool * option cerr).

    (** a callback that stops exactly when it returns an error *)
    Definition stops_iff_error : Prop :=
      forall s ev, snd (fst (cb s ev)) = match snd (cb s ev) with Some _ => true | None => false end.

    (** fold the callback over the events up to the first error *)
    Fixpoint run_cb (evs : list (event NM)) (s : S) : S * option cerr :=
      match evs with
      | [] => (s, None)
      | ev :: r =>
          let '(s', _, e) := cb s ev in
          match e with Some x => (s', Some x) | None => run_cb r s' end
      end.

    Hypothesis SE : stops_iff_error.

    Lemma drive_loop_run_cb : forall evs s,
      match drive_loop NM cb evs s with
      | (s', Some e) => exists x, e = Some x /\ forall tl, run_cb (evs ++ tl) s = (s', Some x)
      | (s', None) => forall tl, run_cb (evs ++ tl) s = run_cb tl s'
      end.
    Proof.
      induction evs as [|ev evs IH]; intros s; [intros tl; reflexivity|].
      cbn [drive_loop app run_cb]. pose proof (SE s ev) as P.
      destruct (cb s ev) as [[s1 stop] e]. cbn [fst snd] in P.
      destruct e as [x|]; subst stop.
      - exists x. split; [reflexivity|]. intros tl. reflexivity.
      - apply IH.
    Qed.

    Theorem parse_opened_run_cb : forall data s,
      parse_opened NM cb (OData data NoFault) s
      = (fst (run_cb (csv_delivered data) s),
         match snd (run_cb (csv_delivered data) s) with Some x => Some x | None => scan_status data end).
    Proof.
      intros data s. unfold parse_opened, parse_stream, csv_delivered, scan_status.
      destruct (scan data NoFault) as [lines fin]. cbn [snd].
      destruct (parse_lines NM lines) as [evs last]. unfold drive.
      pose proof (drive_loop_run_cb evs s) as D.
      destruct (drive_loop NM cb evs s) as [s1 [e|]].
      - destruct D as (x & -> & D). rewrite D. reflexivity.
      - rewrite D. destruct fin.
        + destruct last as [n|].
          * cbn [run_cb]. pose proof (SE s1 (ENode n)) as P.
            destruct (cb s1 (ENode n)) as [[s2 stop] e]. destruct e as [x|]; reflexivity.
          * reflexivity.
        + reflexivity.
        + reflexivity.
    Qed.
  End Fold.

  (** "the file is there and can be read to the end": a regular file without a
      read fault (or the null device, which opens as the empty file).  Since fix F24 an
      empty file name is a file that cannot be opened: it is no longer "nothing to read". *)
  Definition readable_as (o : opened) (data : bytes) : Prop :=
    o = OData data NoFault.

  Lemma parse_opened_readable : forall {S} (cb : S -> event NM -> S * bool * option cerr) o data s,
    stops_iff_error cb -> readable_as o data ->
    parse_opened NM cb o s
    = (fst (run_cb cb (csv_delivered data) s),
       match snd (run_cb cb (csv_delivered data) s) with Some x => Some x | None => scan_status data end).
  Proof.
    intros S cb o data s SE ->.
    apply parse_opened_run_cb. exact SE.
  Qed.
End WithNum.
